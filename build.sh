#!/bin/sh
# developer shortcut: rebuild the checker
cd /verif/checker && GOFLAGS=-mod=mod GOPROXY=off GOSUMDB=off GOTOOLCHAIN=local GOWORK=off go build -o ../bin/agecheck . 2>&1 | grep -v WARNING | head -${1:-30}
