package main

// E7 — reach: module call graph (static callees, closures, interface invokes
// resolved by class-hierarchy analysis over module-defined types, calls
// through function values resolved to address-taken functions with the same
// signature), plus no-return inference.

import (
	"go/types"
	"sort"
	"strings"

	"golang.org/x/tools/go/ssa"
)

type CallEdge struct {
	Site   ssa.Instruction // call, defer, go or MakeClosure
	Caller *ssa.Function
	Callee *ssa.Function // may be external (no Blocks)
	Kind   string        // static | closure | invoke | funcvalue
}

type CallGraph struct {
	Out map[*ssa.Function][]*CallEdge
	In  map[*ssa.Function][]*CallEdge
	// ExtInvokes: invoke/dynamic call sites with no module target
	AddrTaken map[*ssa.Function]bool
}

func (p *Program) CG() *CallGraph {
	if p.cg != nil {
		return p.cg
	}
	cg := &CallGraph{Out: map[*ssa.Function][]*CallEdge{}, In: map[*ssa.Function][]*CallEdge{}, AddrTaken: map[*ssa.Function]bool{}}
	p.cg = cg

	// all module functions, including method wrappers reachable by invoke
	funcs := append([]*ssa.Function(nil), p.Funcs...)

	// address-taken functions: a *ssa.Function used as an operand other than
	// in call position, or the target of a MakeClosure.
	for _, fn := range funcs {
		for _, b := range fn.Blocks {
			for _, in := range b.Instrs {
				var rands [16]*ssa.Value
				for _, op := range in.Operands(rands[:0]) {
					if op == nil || *op == nil {
						continue
					}
					if f, ok := (*op).(*ssa.Function); ok {
						if c, ok := in.(ssa.CallInstruction); ok && c.Common().Value == f {
							continue
						}
						if _, ok := in.(*ssa.MakeClosure); ok {
							continue
						}
						cg.AddrTaken[f] = true
					}
				}
				if mc, ok := in.(*ssa.MakeClosure); ok {
					cg.AddrTaken[mc.Fn.(*ssa.Function)] = true
				}
			}
		}
	}

	// module concrete types for CHA
	var concrete []types.Type
	for _, pk := range p.Pkgs {
		sc := pk.Types.Scope()
		for _, n := range sc.Names() {
			tn, ok := sc.Lookup(n).(*types.TypeName)
			if !ok || tn.IsAlias() {
				continue
			}
			if _, isIface := tn.Type().Underlying().(*types.Interface); isIface {
				continue
			}
			concrete = append(concrete, tn.Type(), types.NewPointer(tn.Type()))
		}
	}
	// function-local named types are rare here; closures cannot define methods.

	add := func(site ssa.Instruction, caller, callee *ssa.Function, kind string) {
		e := &CallEdge{Site: site, Caller: caller, Callee: callee, Kind: kind}
		cg.Out[caller] = append(cg.Out[caller], e)
		cg.In[callee] = append(cg.In[callee], e)
	}

	for _, fn := range funcs {
		for _, b := range fn.Blocks {
			for _, in := range b.Instrs {
				switch x := in.(type) {
				case *ssa.MakeClosure:
					add(in, fn, x.Fn.(*ssa.Function), "closure")
				case ssa.CallInstruction:
					c := x.Common()
					if c.IsInvoke() {
						for _, t := range concrete {
							ms := p.SSA.MethodSets.MethodSet(t)
							sel := ms.Lookup(c.Method.Pkg(), c.Method.Name())
							if sel == nil {
								continue
							}
							iface, ok := c.Value.Type().Underlying().(*types.Interface)
							if !ok || !types.Implements(t, iface) {
								continue
							}
							if m := p.SSA.MethodValue(sel); m != nil {
								add(in, fn, m, "invoke")
							}
						}
						continue
					}
					if callee := staticCallee(c); callee != nil {
						add(in, fn, callee, "static")
						continue
					}
					if _, ok := c.Value.(*ssa.Builtin); ok {
						continue
					}
					// call through a function value
					sig, ok := c.Value.Type().Underlying().(*types.Signature)
					if !ok {
						continue
					}
					for f := range cg.AddrTaken {
						fs := f.Signature
						if len(f.FreeVars) == 0 && fs.Recv() != nil {
							// method expression value: compare without receiver
							continue
						}
						if types.Identical(types.NewSignatureType(nil, nil, nil, fs.Params(), fs.Results(), fs.Variadic()), sig) {
							add(in, fn, f, "funcvalue")
						}
					}
				}
			}
		}
	}
	return cg
}

// Reachable returns every function reachable from the roots (the roots
// included), following all edge kinds.
func (p *Program) Reachable(roots ...*ssa.Function) map[*ssa.Function]bool {
	cg := p.CG()
	seen := map[*ssa.Function]bool{}
	var work []*ssa.Function
	for _, r := range roots {
		if r != nil && !seen[r] {
			seen[r] = true
			work = append(work, r)
		}
	}
	for len(work) > 0 {
		f := work[len(work)-1]
		work = work[:len(work)-1]
		for _, e := range cg.Out[f] {
			if !seen[e.Callee] {
				seen[e.Callee] = true
				work = append(work, e.Callee)
			}
		}
	}
	return seen
}

// Callers lists the call edges into fn.
func (p *Program) Callers(fn *ssa.Function) []*CallEdge { return p.CG().In[fn] }

func sortedFuncs(m map[*ssa.Function]bool) []*ssa.Function {
	var out []*ssa.Function
	for f := range m {
		out = append(out, f)
	}
	sort.Slice(out, func(i, j int) bool { return out[i].String() < out[j].String() })
	return out
}

// ---------------------------------------------------------------------------
// no-return inference

var extNoReturn = map[string]bool{
	"os.Exit":               true,
	"log.Fatal":             true,
	"log.Fatalf":            true,
	"log.Fatalln":           true,
	"(*log.Logger).Fatal":   true,
	"(*log.Logger).Fatalf":  true,
	"(*log.Logger).Fatalln": true,
	"runtime.Goexit":        true,
	"log.Panic":             true,
	"log.Panicf":            true,
}

// NoReturn reports whether fn never returns normally: every path ends in a
// panic, a call to os.Exit/log.Fatal*, or a call to another no-return function.
func (p *Program) NoReturn(fn *ssa.Function) bool {
	if fn == nil {
		return false
	}
	if p.noret == nil {
		p.computeNoReturn()
	}
	if fn.Blocks == nil {
		return extNoReturn[fn.String()]
	}
	return p.noret[fn]
}

func (p *Program) computeNoReturn() {
	p.noret = map[*ssa.Function]bool{}
	changed := true
	for changed {
		changed = false
		for _, fn := range p.Funcs {
			if p.noret[fn] {
				continue
			}
			if !p.canReturn(fn) {
				p.noret[fn] = true
				changed = true
			}
		}
	}
}

func (p *Program) callNoReturn(in ssa.Instruction) bool {
	c, ok := in.(*ssa.Call)
	if !ok {
		return false
	}
	callee := staticCallee(c.Common())
	if callee == nil {
		return false
	}
	if callee.Blocks == nil {
		return extNoReturn[callee.String()]
	}
	return p.noret[callee]
}

func (p *Program) canReturn(fn *ssa.Function) bool {
	if len(fn.Blocks) == 0 {
		return true
	}
	// functions that recover can return after a panic
	if fn.Recover != nil {
		return true
	}
	seen := map[*ssa.BasicBlock]bool{}
	var rec func(b *ssa.BasicBlock) bool
	rec = func(b *ssa.BasicBlock) bool {
		if seen[b] {
			return false
		}
		seen[b] = true
		for _, in := range b.Instrs {
			if p.callNoReturn(in) {
				return false
			}
			switch in.(type) {
			case *ssa.Return:
				return true
			case *ssa.Panic:
				return false
			}
		}
		for _, s := range b.Succs {
			if rec(s) {
				return true
			}
		}
		return false
	}
	return rec(fn.Blocks[0])
}

func inPkg(fn *ssa.Function, pkgs ...string) bool {
	for fn.Parent() != nil {
		fn = fn.Parent()
	}
	var path string
	if fn.Pkg != nil {
		path = fn.Pkg.Pkg.Path()
	} else if o := fn.Object(); o != nil && o.Pkg() != nil {
		path = o.Pkg().Path()
	} else {
		// bound wrappers: parse from name "(*pkg.T).m$bound"
		s := fn.String()
		s = strings.TrimPrefix(s, "(")
		s = strings.TrimPrefix(s, "*")
		if i := strings.LastIndex(s, ")."); i >= 0 {
			s = s[:i]
		}
		if i := strings.LastIndex(s, "."); i >= 0 {
			path = s[:i]
		}
	}
	for _, w := range pkgs {
		if path == w {
			return true
		}
	}
	return false
}
