package main

// Derived fields: a struct field that the pinned tree does not have (spec/known_shapes.json) and
// that only ever holds a function of other fields of the same value — `fingerprint:
// sshFingerprint(pk)` next to `sshKey: pk` in every constructor, copied along with sshKey where one
// value is made from another — is read as that function of the other fields. A precomputed
// fingerprint, tag or tweak then yields the same recipes and guards as the expression it caches.
//
// The definition is taken from the stores, not from names: every store to the field in the module
// must go into a value allocated in the storing function, and its stored term, with the terms
// stored into the sibling fields of the same allocation replaced by those fields, must mention
// nothing but constants, calls and sibling fields — and must be the same for all stores.

import (
	"fmt"
	"os"
	"strings"
	"sync"

	"golang.org/x/tools/go/ssa"
)

var (
	derivedMu    sync.Mutex
	derivedCache = map[*Program]map[string]*Term{}
	derivedBusy  = map[*Program]map[string]bool{}
)

const derivedBase = "\x00BASE"

// isNewField: the struct is one of the pinned tree and the field is not (nor a renamed one).
func isNewField(typ, field string) bool {
	ks := loadShapes()
	pinnedType := typ
	aliasMu.RLock()
	if t, ok := typeAliasMap[typ]; ok {
		pinnedType = t
	}
	_, renamed := fieldAliasMap[typ][field]
	aliasMu.RUnlock()
	fields, known := ks.Fields[pinnedType]
	if !known || renamed {
		return false
	}
	for _, f := range fields {
		if f[0] == field {
			return false
		}
	}
	return true
}

// derivedField returns the definition of typ.field over the placeholder base, or nil.
func (p *Program) derivedField(typ, field string) *Term {
	if !isNewField(typ, field) {
		return nil
	}
	key := typ + "." + field
	derivedMu.Lock()
	if derivedCache[p] == nil {
		derivedCache[p] = map[string]*Term{}
		derivedBusy[p] = map[string]bool{}
	}
	if d, ok := derivedCache[p][key]; ok {
		derivedMu.Unlock()
		return d
	}
	if derivedBusy[p][key] {
		derivedMu.Unlock()
		return nil
	}
	derivedBusy[p][key] = true
	derivedMu.Unlock()

	d := p.computeDerivedField(typ, field)

	derivedMu.Lock()
	derivedCache[p][key] = d
	delete(derivedBusy[p], key)
	derivedMu.Unlock()
	return d
}

func (p *Program) computeDerivedField(typ, field string) *Term {
	st, ok := p.structType(typ)
	if !ok {
		return nil
	}
	stores := p.fieldStores(typ, field)
	if len(stores) == 0 {
		return nil
	}
	def := ""
	var defTerm *Term
	for _, fs := range stores {
		al, isAl := fs.FA.X.(*ssa.Alloc)
		if !isAl {
			return nil
		}
		tb := p.TB(fs.Fn)
		tv := tb.Term(fs.Store.Val)
		if tv.Op == "Nil" || tv.Op == "Zero" {
			continue // the error exit of a helper spliced in front of the store
		}
		// the siblings stored into the same allocation in the same function
		type sib struct {
			name string
			key  string
		}
		var sibs []sib
		for i := 0; i < st.NumFields(); i++ {
			g := st.Field(i).Name()
			if g == field {
				continue
			}
			n := 0
			var val ssa.Value
			for _, gs := range p.fieldStores(typ, g) {
				if gs.Fn == fs.Fn && gs.FA.X == ssa.Value(al) {
					n++
					val = gs.Store.Val
				}
			}
			if n == 1 {
				sibs = append(sibs, sib{g, tb.Term(val).String()})
			}
		}
		sub := rewriteTerm(tv, func(x *Term) *Term {
			s := x.String()
			for _, sb := range sibs {
				if s == sb.key && x.Op != "Const" && x.Op != "Nil" {
					return mk("Field", sb.name, nil, mk("Param", derivedBase, nil))
				}
			}
			return nil
		})
		// `v.f, err = helper(..)` stores before err is looked at: the merge of the helper's
		// result with the nil of its error exit stands for the result (a constructor that
		// fails does not hand the value out)
		if sub.Op == "Phi" {
			var alt []*Term
			for _, a := range sub.Args {
				if a != nil && a.Op != "Nil" && a.Op != "Zero" {
					alt = append(alt, a)
				}
			}
			if len(alt) == 1 {
				sub = alt[0]
			}
		}
		// closed over constants, calls and sibling fields only
		closed := true
		sub.Walk(func(x *Term) {
			switch x.Op {
			case "Const", "Nil", "Call", "Invoke", "Ext", "Field", "Func", "Type", "Global", "List", "Slice", "ReadN", "Bin", "Un", "Elem", "Concat", "Deref", "Assert", "Fed", "Zero":
				if x.Op == "Field" && len(x.Args) == 1 && !(x.Args[0].Op == "Param" && x.Args[0].S == derivedBase) && x.Args[0].Op != "Field" {
					closed = false
				}
			case "Param":
				if x.S != derivedBase {
					closed = false
				}
			default:
				closed = false
			}
		})
		if os.Getenv("AGECHECK_DEBUG_DERIVED") != "" {
			fmt.Fprintf(os.Stderr, "derived %s.%s in %s: %s closed=%v\n", typ, field, fs.Fn, strings.ReplaceAll(sub.String(), derivedBase, "BASE"), closed)
		}
		if !closed || !strings.Contains(sub.String(), derivedBase) {
			return nil
		}
		if def != "" && def != sub.String() {
			return nil
		}
		def, defTerm = sub.String(), sub
	}
	return defTerm // nil when only nil was ever stored
}

// rewriteTerm rebuilds t with every sub-term for which f returns non-nil replaced (outermost first).
func rewriteTerm(t *Term, f func(*Term) *Term) *Term {
	if t == nil {
		return nil
	}
	if r := f(t); r != nil {
		return r
	}
	n := *t
	n.Args = make([]*Term, len(t.Args))
	for i, a := range t.Args {
		n.Args[i] = rewriteTerm(a, f)
	}
	return &n
}

// instantiateDerived puts the actual base in the place of the placeholder.
func instantiateDerived(def, base *Term) *Term {
	return rewriteTerm(def, func(x *Term) *Term {
		if x.Op == "Param" && x.S == derivedBase {
			return base
		}
		return nil
	})
}
