package main

// E5 — errflow: what happens to every error value produced by a call.

import (
	"encoding/json"
	"go/token"
	"go/types"
	"os"
	"path/filepath"
	"strings"

	"golang.org/x/tools/go/ssa"
)

type ErrSite struct {
	Fn     *ssa.Function
	Call   ssa.CallInstruction
	Callee string
	Class  string // returned | branched | stored | recorded | dropped
	How    string
}

// recorders are functions that take an error (or a value built from it) and
// make the failure observable: they never return normally or they store it.
var errRecorders = map[string]bool{
	"(*" + pkgArmor + ".armoredReader).setErr": true,
	pkgCmdAge + ".errorf":                      true,
	pkgCmdAge + ".errorWithHint":               true,
	pkgKeygen + ".errorf":                      true,
	"log.Fatalf":                               true,
	"log.Fatal":                                true,
}

// errSitesIn classifies every call in fn that yields an error.
func (p *Program) errSitesIn(fn *ssa.Function) []ErrSite {
	var out []ErrSite
	for _, b := range fn.Blocks {
		for _, in := range b.Instrs {
			c, ok := in.(ssa.CallInstruction)
			if !ok {
				continue
			}
			cc := c.Common()
			sig := cc.Signature()
			if sig == nil {
				continue
			}
			ei := errorResultIndex(sig)
			if ei < 0 {
				continue
			}
			name := p.TB(fn).resolvedCalleeName(cc)
			site := ErrSite{Fn: fn, Call: c, Callee: name}
			switch in.(type) {
			case *ssa.Defer:
				site.Class, site.How = "dropped", "deferred call whose error result is discarded"
				out = append(out, site)
				continue
			case *ssa.Go:
				site.Class, site.How = "dropped", "go statement"
				out = append(out, site)
				continue
			}
			v := c.Value()
			var errv ssa.Value
			if sig.Results().Len() == 1 {
				errv = v
			} else if v != nil && v.Referrers() != nil {
				for _, r := range *v.Referrers() {
					if ex, ok := r.(*ssa.Extract); ok && ex.Index == ei {
						errv = ex
					}
				}
			}
			if errv == nil {
				site.Class, site.How = "dropped", "error result never extracted"
				out = append(out, site)
				continue
			}
			site.Class, site.How = p.classifyErrUse(fn, errv)
			out = append(out, site)
		}
	}
	return out
}

// classifyErrUse follows an error value forward.
func (p *Program) classifyErrUse(fn *ssa.Function, errv ssa.Value) (string, string) {
	seen := map[ssa.Value]bool{}
	work := []ssa.Value{errv}
	best := "dropped"
	how := "no use"
	rank := map[string]int{"dropped": 0, "branched": 1, "stored": 2, "recorded": 3, "returned": 4}
	up := func(c, h string) {
		if rank[c] > rank[best] {
			best, how = c, h
		}
	}
	for len(work) > 0 {
		cur := work[len(work)-1]
		work = work[:len(work)-1]
		if seen[cur] {
			continue
		}
		seen[cur] = true
		refs := cur.Referrers()
		if refs == nil {
			continue
		}
		for _, r := range *refs {
			switch x := r.(type) {
			case *ssa.DebugRef:
			case *ssa.Return:
				up("returned", "return operand")
			case *ssa.Phi:
				work = append(work, x)
			case *ssa.MakeInterface:
				work = append(work, x)
			case *ssa.ChangeInterface:
				work = append(work, x)
			case *ssa.ChangeType:
				work = append(work, x)
			case *ssa.TypeAssert:
				up("branched", "type assertion on the error")
				work = append(work, x)
			case *ssa.Extract:
				work = append(work, x)
			case *ssa.BinOp:
				if x.Op == token.EQL || x.Op == token.NEQ {
					if controlsBranch(x) {
						up("branched", "compared, controlling a branch")
					} else {
						work = append(work, x)
					}
				}
			case *ssa.UnOp:
				work = append(work, x)
			case *ssa.If:
				up("branched", "controls a branch")
			case *ssa.Store:
				if x.Val != cur {
					continue
				}
				switch a := x.Addr.(type) {
				case *ssa.FieldAddr:
					up("stored", "stored in field "+fieldName(a.X.Type(), a.Field))
				case *ssa.Alloc:
					// local variable or named result: follow its loads; a
					// named-result cell is returned
					if isResultCell(a) {
						up("returned", "stored to a named result")
					}
					for _, rr := range *a.Referrers() {
						if ld, ok := rr.(*ssa.UnOp); ok && ld.Op == token.MUL {
							work = append(work, ld)
						}
						if mc, ok := rr.(*ssa.MakeClosure); ok {
							// captured by a closure (deferred error wrapper)
							cf := mc.Fn.(*ssa.Function)
							for i, bnd := range mc.Bindings {
								if bnd == ssa.Value(a) {
									fv := cf.FreeVars[i]
									for _, r3 := range *fv.Referrers() {
										if ld, ok := r3.(*ssa.UnOp); ok {
											work = append(work, ld)
										}
									}
								}
							}
						}
					}
				case *ssa.IndexAddr:
					// varargs array for fmt.Errorf / errorf
					if al, ok := a.X.(*ssa.Alloc); ok {
						for _, rr := range *al.Referrers() {
							if sl, ok := rr.(*ssa.Slice); ok {
								work = append(work, sl)
							}
						}
					}
				case *ssa.FreeVar:
					up("stored", "stored to a captured variable")
					// captured named result / variable of the enclosing function
					if par := fn.Parent(); par != nil {
						up("returned", "stored to a captured variable of the enclosing function")
					}
				case *ssa.Global:
					up("stored", "stored to a package variable")
				case *ssa.Parameter:
					// `*err = ...` through an *error parameter: the caller's (named result)
					// variable receives it, as with a captured variable
					up("returned", "stored through the *error parameter "+a.Name())
				}
			case ssa.CallInstruction:
				cc := x.Common()
				name := p.TB(x.Parent()).resolvedCalleeName(cc)
				switch {
				case name == "errors.Is" || name == "errors.As":
					up("branched", "errors.Is/As")
				case name == "fmt.Errorf" || name == "fmt.Sprintf" || name == "fmt.Sprint":
					if v := x.Value(); v != nil {
						work = append(work, v)
					}
				case errRecorders[name]:
					up("recorded", "passed to "+short(name))
				case strings.HasSuffix(name, ".Error") && cc.IsInvoke():
					if v := x.Value(); v != nil {
						work = append(work, v)
					}
				case name == "builtin append" || name == "builtin copy":
					// collected into a slice: follow the slice
					if v := x.Value(); v != nil {
						work = append(work, v)
					}
				case name == "builtin panic":
					up("recorded", "panic")
				default:
					callee := staticCallee(cc)
					if callee != nil && p.NoReturn(callee) {
						up("recorded", "passed to no-return function "+short(name))
					} else if callee != nil && callee.Blocks != nil {
						// passed to an in-module function: conservatively a use
						up("recorded", "passed to "+short(name))
					}
				}
			case *ssa.Panic:
				up("recorded", "panic")
			case *ssa.Slice:
				work = append(work, x)
			}
		}
	}
	return best, how
}

func controlsBranch(b *ssa.BinOp) bool {
	seen := map[ssa.Value]bool{}
	var rec func(v ssa.Value) bool
	rec = func(v ssa.Value) bool {
		if seen[v] {
			return false
		}
		seen[v] = true
		refs := v.Referrers()
		if refs == nil {
			return false
		}
		for _, r := range *refs {
			switch x := r.(type) {
			case *ssa.If:
				return true
			case *ssa.Phi:
				if rec(x) {
					return true
				}
			case *ssa.UnOp:
				if rec(x) {
					return true
				}
			case *ssa.BinOp:
				if rec(x) {
					return true
				}
			}
		}
		return false
	}
	return rec(b)
}

// isResultCell: the alloc is a spilled named result (it is loaded right
// before a Return that returns the load).
func isResultCell(a *ssa.Alloc) bool {
	for _, r := range *a.Referrers() {
		if ld, ok := r.(*ssa.UnOp); ok && ld.Op == token.MUL {
			for _, rr := range *ld.Referrers() {
				if _, ok := rr.(*ssa.Return); ok {
					return true
				}
			}
		}
	}
	return false
}

// ---------------------------------------------------------------------------
// allow-list

type allowEntry struct {
	Caller string `json:"caller"`
	Callee string `json:"callee"`
	Reason string `json:"reason"`
	Count  int    `json:"count,omitempty"` // expected number of sites (default 1)
}

func loadAllowDropped(r *Result) []allowEntry {
	b, err := os.ReadFile(filepath.Join(verifDir, "spec", "allow_dropped.json"))
	if err != nil {
		r.add(Machinery, "spec/allow_dropped.json", "load", "", err.Error())
		return nil
	}
	var out []allowEntry
	if err := json.Unmarshal(b, &out); err != nil {
		r.add(Machinery, "spec/allow_dropped.json", "load", "", err.Error())
		return nil
	}
	return out
}

// neverFails: standard-library writers documented to return a nil error always
// (they panic with ErrTooLarge instead); dropping their error loses nothing.
var neverFails = map[string]string{
	"(*bytes.Buffer).Write":          "bytes.Buffer.Write: err is always nil",
	"(*bytes.Buffer).WriteByte":      "bytes.Buffer.WriteByte: the returned error is always nil",
	"(*bytes.Buffer).WriteRune":      "bytes.Buffer.WriteRune: the returned error is always nil",
	"(*bytes.Buffer).WriteString":    "bytes.Buffer.WriteString: err is always nil",
	"(*strings.Builder).Write":       "strings.Builder.Write always returns a nil error",
	"(*strings.Builder).WriteByte":   "strings.Builder.WriteByte always returns a nil error",
	"(*strings.Builder).WriteRune":   "strings.Builder.WriteRune always returns a nil error",
	"(*strings.Builder).WriteString": "strings.Builder.WriteString always returns a nil error",
	"invoke (hash.Hash).Write":       "hash.Hash.Write never returns an error",
}

func allowedDrop(list []allowEntry, caller, callee string) (*allowEntry, bool) {
	for i := range list {
		if list[i].Caller == caller && list[i].Callee == callee {
			return &list[i], true
		}
	}
	return nil, false
}

// inheritedDrop: fn is not on the list of known functions (a helper extracted
// later) and every one of its callers has an allow-list entry for callee, or
// inherits one in the same way.
func inheritedDrop(p *Program, list []allowEntry, fn *ssa.Function, callee string, depth int) (*allowEntry, bool) {
	if e, ok := allowedDrop(list, fn.String(), callee); ok {
		return e, true
	}
	root := fn
	for root.Parent() != nil {
		root = root.Parent()
	}
	if depth > 3 || isKnownFunc(root.String()) {
		return nil, false
	}
	var found *allowEntry
	callers := p.Callers(root)
	if len(callers) == 0 {
		return nil, false
	}
	for _, e := range callers {
		a, ok := inheritedDrop(p, list, e.Caller, callee, depth+1)
		if !ok {
			return nil, false
		}
		found = a
	}
	return found, found != nil
}

// checkNoDroppedErrors runs E5 over the functions of the given packages.
func checkNoDroppedErrors(p *Program, r *Result, pkgs []string) {
	allow := loadAllowDropped(r)
	checkLatchReturned(p, r, pkgs)
	counts := map[string]int{}
	for _, fn := range p.Funcs {
		if !inPkg(fn, pkgs...) {
			continue
		}
		r.Saw(fn.String())
		for _, s := range p.errSitesIn(fn) {
			r.CallSites++
			key := "errcall:" + short(s.Callee)
			if s.Class != "dropped" {
				r.OK(fn.String(), key, r.pos(s.Call), s.Class+": "+s.How)
				continue
			}
			if why, ok := neverFails[s.Callee]; ok {
				r.OK(fn.String(), key, r.pos(s.Call), "dropped: "+why, Witness{Kind: "table", Text: why})
				continue
			}
			if li := p.writesIntoLatch(s.Call); li != nil {
				r.OK(fn.String(), key, r.pos(s.Call), "dropped: the destination is a latching writer ("+short(li.write.String())+" keeps the first error in "+li.name+" and sends nothing after it); the function that made it returns that error (latch-returned)", Witness{Kind: "table", Text: "latching writer"})
				continue
			}
			if (s.Callee == "(*os.File).Close" || s.Callee == "invoke (io.Closer).Close" || s.Callee == "invoke (io.ReadCloser).Close") && closesReadOnlyFile(s.Call) {
				r.OK(fn.String(), key, r.pos(s.Call), "dropped: Close of a file opened read-only with os.Open (nothing was written that could be lost)", Witness{Kind: "table", Text: "os.Open opens read-only"})
				continue
			}
			if e, ok := inheritedDrop(p, allow, fn, s.Callee, 0); ok && e.Caller != fn.String() && siteAllowed(p, e, s) {
				// a helper the rules do not know, called only from functions in which this drop is accepted
				r.OK(fn.String(), key, r.pos(s.Call), "dropped, allow-listed for every caller of this helper: "+e.Reason, Witness{Kind: "table", Text: e.Reason})
				continue
			}
			if e, ok := allowedDrop(allow, fn.String(), s.Callee); ok && (e.Count == 0 || counts[fn.String()+"|"+s.Callee] < e.Count) && siteAllowed(p, e, s) {
				counts[fn.String()+"|"+s.Callee]++
				r.OK(fn.String(), key, r.pos(s.Call), "dropped, allow-listed: "+e.Reason, Witness{Kind: "table", Text: e.Reason})
				continue
			}
			r.Bad(fn.String(), key, r.pos(s.Call), "the error returned by "+short(s.Callee)+" is dropped ("+s.How+"): a failure here would not surface")
		}
	}
	_ = types.Typ
}

// siteAllowed applies the site restrictions of an allow-list entry: the
// keygen notice entry covers only writes to os.Stderr.
func siteAllowed(p *Program, e *allowEntry, s ErrSite) bool {
	if e.Caller == pkgKeygen+".generate" && e.Callee == "fmt.Fprintf" {
		t := p.TB(s.Fn).Term(s.Call.Common().Args[0])
		return short(t.String()) == "os.Stderr"
	}
	return true
}

// checkDeferredOverwrite: a deferred closure that assigns the function's
// error result must look at the current value first (`if err != nil { err =
// wrap(err) }`, `if cerr := f.Close(); err == nil { err = cerr }`), otherwise
// the error being returned is replaced and lost.
func checkDeferredOverwrite(p *Program, r *Result, pkgs []string) {
	n := 0
	for _, fn := range p.Funcs {
		if !inPkg(fn, pkgs...) || fn.Parent() == nil {
			continue
		}
		par := fn.Parent()
		// is fn deferred in its parent?
		deferred := false
		for _, c := range callsIn(par) {
			if d, ok := c.(*ssa.Defer); ok {
				if mc, ok := d.Call.Value.(*ssa.MakeClosure); ok && mc.Fn == fn {
					deferred = true
				}
			}
		}
		if !deferred {
			continue
		}
		tb := p.TB(fn)
		for _, b := range fn.Blocks {
			for _, in := range b.Instrs {
				st, ok := in.(*ssa.Store)
				if !ok {
					continue
				}
				fv, ok := st.Addr.(*ssa.FreeVar)
				if !ok || !isErrorType(fv.Type().(*types.Pointer).Elem()) {
					continue
				}
				n++
				// guarded by a test of the same cell?
				facts := tb.FactsAt(b)
				_, guarded := findFact(facts, func(a Atom) bool {
					if a.Kind != "cmp" || a.Y.Op != "Nil" {
						return false
					}
					ld, isLd := a.X.V.(*ssa.UnOp)
					return isLd && ld.X == ssa.Value(fv)
				})
				r.Check(guarded, fn.String(), "defer-assigns:"+fv.Name(), r.pos(st), "the deferred assignment to the error result is conditional on its current value", "a deferred closure overwrites the function's error result unconditionally: the error being returned (e.g. a failed flush) is lost")
			}
		}
	}
	_ = n
}

// checkSourceErrorsWrapped: an error obtained from reading the source that is
// put into a new error with fmt.Errorf must be wrapped with %w, so that typed
// errors of lower layers (*armor.Error) stay reachable with errors.As.
func checkSourceErrorsWrapped(p *Program, r *Result, pkgs []string) {
	readers := map[string]bool{}
	for k := range sourceReads {
		readers[k] = true
	}
	readers[pkgFormat+".Parse"] = true
	readers["(*"+pkgFormat+".StanzaReader).ReadStanza"] = true
	for _, fn := range p.Funcs {
		if !inPkg(fn, pkgs...) {
			continue
		}
		tb := p.TB(fn)
		for i, c := range callsIn(fn) {
			name := tb.resolvedCalleeName(c.Common())
			if name != "fmt.Errorf" && name != pkgFormat+".errorf" {
				continue
			}
			k, isK := c.Common().Args[0].(*ssa.Const)
			if !isK {
				continue
			}
			format := k.Value.ExactString()
			t := tb.Term(c.Common().Args[1])
			fromSource := false
			for _, sub := range t.Find("Ext") {
				if call, ok := sub.Args[0].V.(*ssa.Call); ok && readers[tb.resolvedCalleeName(&call.Call)] && isErrorType(sub.V.Type()) {
					// Peek(Buffered()) only looks at bytes already buffered: it reads nothing
					if tb.resolvedCalleeName(&call.Call) == "(*bufio.Reader).Peek" {
						if bc, ok := call.Call.Args[1].(*ssa.Call); ok && calleeName(&bc.Call) == "(*bufio.Reader).Buffered" {
							continue
						}
					}
					// a read from a key-derivation stream (io.ReadFull(hkdf.New(..), key)) is no
					// read of the file
					if len(call.Call.Args) > 0 && strings.HasPrefix(short(tb.Term(call.Call.Args[0]).String()), "hkdf.New(") {
						continue
					}
					fromSource = true
				}
			}
			if !fromSource {
				continue
			}
			_ = i
			r.Check(strings.Contains(format, "%w"), fn.String(), "wrap-source-error:"+strings.Trim(strings.SplitN(format, ":", 2)[0], `"`), r.pos(c), "source error wrapped with %w", "an error from reading the source is formatted with "+format+" without %w: the armor error type (and io.ErrUnexpectedEOF etc.) is no longer reachable through errors.As/Is")
		}
	}
}

// checkErrorsExaminedOnEveryPath (R13.8): an error result that the function looks at is
// looked at on every path. From each call with an (extracted) error result E, every path to
// a return must test E (any branch whose condition mentions E), or return E or an error built
// from it, or store it. A path that reaches a return without any of these decided "success"
// by something else (a byte count, a flag) while E may be non-nil: the failure is masked.
func checkErrorsExaminedOnEveryPath(p *Program, r *Result, pkgs []string) {
	n := 0
	for _, fn := range p.Funcs {
		if !inPkg(fn, pkgs...) || len(fn.Blocks) == 0 {
			continue
		}
		tb := p.TB(fn)
		for _, b := range fn.Blocks {
			for _, in := range b.Instrs {
				c, ok := in.(*ssa.Call)
				if !ok {
					continue
				}
				sig := c.Call.Signature()
				if sig == nil {
					continue
				}
				ei := errorResultIndex(sig)
				if ei < 0 {
					continue
				}
				var errv ssa.Value
				if sig.Results().Len() == 1 {
					errv = c
				} else if c.Referrers() != nil {
					for _, rr := range *c.Referrers() {
						if ex, ok := rr.(*ssa.Extract); ok && ex.Index == ei {
							errv = ex
						}
					}
				}
				if errv == nil || errv.Referrers() == nil {
					continue // never extracted: R13.1's business
				}
				used := false
				for _, rr := range *errv.Referrers() {
					if _, dbg := rr.(*ssa.DebugRef); !dbg {
						used = true
					}
				}
				if !used {
					continue
				}
				name := tb.resolvedCalleeName(&c.Call)
				if _, never := neverFails[name]; never {
					continue
				}
				if advisoryQueries[name] {
					continue
				}
				// values that carry E: E itself, conversions, merges, wrappers
				carries := map[ssa.Value]bool{errv: true}
				for changed := true; changed; {
					changed = false
					for v := range carries {
						if v.Referrers() == nil {
							continue
						}
						for _, rr := range *v.Referrers() {
							switch x := rr.(type) {
							case *ssa.Phi, *ssa.MakeInterface, *ssa.ChangeInterface, *ssa.ChangeType:
								if xv := rr.(ssa.Value); !carries[xv] {
									carries[xv], changed = true, true
								}
							case *ssa.Store:
								// into a varargs array: the call consuming the slice carries it
								if ia, ok := x.Addr.(*ssa.IndexAddr); ok && x.Val == v {
									if al, ok := ia.X.(*ssa.Alloc); ok && al.Referrers() != nil {
										for _, r3 := range *al.Referrers() {
											if sl, ok := r3.(*ssa.Slice); ok && !carries[sl] {
												carries[sl], changed = true, true
											}
										}
									}
								}
							case *ssa.Call:
								cn := calleeName(&x.Call)
								if (cn == "fmt.Errorf" || strings.HasSuffix(cn, ".errorf") || strings.HasSuffix(cn, ".setErr")) && !carries[x] {
									carries[x], changed = true, true
								}
							}
						}
					}
				}
				paths, okp := p.EnumPathsStop(b, nil)
				if !okp {
					continue
				}
				bad := ""
				for _, pa := range paths {
					if pa.End != "return" {
						continue
					}
					// a failure that was found is reported: on a path that took the non-nil side of
					// a nil test of E — and looked at E in no other way — the function does not
					// return an explicit nil error, unless E was stored or handed to a call
					if fei := errorResultIndex(fn.Signature); fei >= 0 || fn.Signature.Results().Len() == 0 {
						// (a function without results — a deferred closure — that finds a failure and
						// does nothing about it has dropped it)
						mayBeNil := true
						if fei >= 0 {
							retErr := stripConv(pa.Resolve(resultsOf(pa.Last.(*ssa.Return))[fei]))
							mayBeNil = isNilConst(retErr) || (!carries[retErr] && !carries[resultsOf(pa.Last.(*ssa.Return))[fei]] && !p.definitelyNonNil(retErr, 0))
						}
						if isNil, known := pa.NilOnPath(errv, len(pa.Blocks)); known && !isNil && mayBeNil {
							onlyNilTests := true
							for i, blk := range pa.Blocks {
								if i >= len(pa.Edge) || pa.Edge[i] < 0 {
									continue
								}
								ifi, ok := blk.Instrs[len(blk.Instrs)-1].(*ssa.If)
								if !ok || !valueMentions(ifi.Cond, carries, 0) {
									continue
								}
								if x, _, isTest := nilTestOf(blk); !isTest || !carries[stripConv(pa.ResolveAt(x, i))] && !carries[x] {
									onlyNilTests = false
								}
							}
							handed := false
							for _, pin := range pa.Instrs() {
								if st, ok := pin.(*ssa.Store); ok && carries[st.Val] {
									handed = true
								}
								// the failure is recorded as a (new) error in sticky state
								if st, ok := pin.(*ssa.Store); ok && isErrorType(st.Val.Type()) && p.definitelyNonNil(stripConv(pa.Resolve(st.Val)), 0) {
									if _, isField := st.Addr.(*ssa.FieldAddr); isField {
										handed = true
									}
								}
								// the operation is tried again (the same callee) and that attempt succeeded
								if c2, ok := pin.(*ssa.Call); ok && c2 != c && tb.resolvedCalleeName(&c2.Call) == name && c2.Referrers() != nil {
									for _, rr := range *c2.Referrers() {
										if ex, ok := rr.(*ssa.Extract); ok && isErrorType(ex.Type()) {
											if isNil, known := pa.NilOnPath(ex, len(pa.Blocks)); known && isNil {
												handed = true
											}
										}
									}
								}
								if pc, ok := pin.(ssa.CallInstruction); ok && pin != ssa.Instruction(c) {
									for _, a := range pc.Common().Args {
										if carries[a] {
											handed = true
										}
									}
								}
							}
							// something is done because of the failure: a call or a store in the part
							// of the path that is only executed on the non-nil side of the test
							if !handed {
								for i, blk := range pa.Blocks {
									if i+1 >= len(pa.Blocks) || i >= len(pa.Edge) || pa.Edge[i] < 0 {
										continue
									}
									x, eq, isTest := nilTestOf(blk)
									if !isTest || !(carries[x] || carries[stripConv(pa.ResolveAt(x, i))]) {
										continue
									}
									if (pa.Edge[i] == 0) == eq {
										continue // the nil side
									}
									region := pa.Blocks[i+1]
									for _, b2 := range pa.Blocks[i+1:] {
										if b2 != region && !region.Dominates(b2) {
											continue
										}
										for _, in := range b2.Instrs {
											switch y := in.(type) {
											case *ssa.Store:
												handed = true
											case ssa.CallInstruction:
												if n := calleeName(y.Common()); !strings.HasPrefix(n, "builtin ") {
													handed = true
												}
											}
										}
									}
								}
							}
							if onlyNilTests && !handed {
								bad = "path " + pa.String() + " found the error of " + short(name) + " to be non-nil, does nothing with it and carries on to the return at " + r.pos(pa.Last) + " (whose error need not be non-nil)"
								break
							}
						}
					}
					// a failure of the source keeps its identity: on a path that found the error of a
					// source read to be non-nil, compared it with nothing, and returns an error, that
					// error is E or wraps E (as resolved along this path: a variable overwritten with
					// another error on the way no longer does). Otherwise typed errors of the layers
					// below (*armor.Error) are lost to errors.As.
					if fei := errorResultIndex(fn.Signature); fei >= 0 && (sourceReads[name] || name == pkgFormat+".Parse" || name == "(*"+pkgFormat+".StanzaReader).ReadStanza") {
						ret := pa.Last.(*ssa.Return)
						if isNil, known := pa.NilOnPath(errv, len(pa.Blocks)); known && !isNil {
							compared := false
							for i, blk := range pa.Blocks {
								if i >= len(pa.Edge) || pa.Edge[i] < 0 {
									continue
								}
								ifi, ok := blk.Instrs[len(blk.Instrs)-1].(*ssa.If)
								if !ok || !valueMentions(ifi.Cond, carries, 0) {
									continue
								}
								if _, _, isTest := nilTestOf(blk); isTest {
									continue
								}
								// found to BE a sentinel (err == io.EOF, taken on its equal side): nothing
								// typed is lost when it is replaced. errors.Is(err, io.EOF) says less — a
								// typed error that wraps the sentinel passes it too — and is no excuse.
								cond := ifi.Cond
								neg := false
								for {
									if u, isNot := cond.(*ssa.UnOp); isNot && u.Op == token.NOT {
										cond, neg = u.X, !neg
										continue
									}
									break
								}
								if bo, isBo := cond.(*ssa.BinOp); isBo && (bo.Op == token.EQL || bo.Op == token.NEQ) {
									equalEdge := 0
									if (bo.Op == token.NEQ) != neg {
										equalEdge = 1
									}
									if pa.Edge[i] == equalEdge {
										compared = true
									}
								}
							}
							var onPath func(v ssa.Value, d int) bool
							onPath = func(v ssa.Value, d int) bool {
								if d > 6 || v == nil {
									return false
								}
								v = pa.Resolve(v)
								if v == errv {
									return true
								}
								switch x := v.(type) {
								case *ssa.MakeInterface:
									return onPath(x.X, d+1)
								case *ssa.ChangeInterface:
									return onPath(x.X, d+1)
								case *ssa.ChangeType:
									return onPath(x.X, d+1)
								case *ssa.Call:
									cn := calleeName(&x.Call)
									// a helper of the module that is given the error and returns an error
									if callee := staticCallee(&x.Call); callee != nil && p.inModule(callee) && isErrorType(x.Type()) {
										for _, a := range x.Call.Args {
											if onPath(a, d+1) {
												return true
											}
										}
									}
									if cn == "fmt.Errorf" || strings.HasSuffix(cn, ".errorf") || strings.HasSuffix(cn, ".setErr") {
										for _, a := range x.Call.Args {
											if onPath(a, d+1) {
												return true
											}
											// the variadic slice: what was stored into its backing array
											if sl, ok := a.(*ssa.Slice); ok {
												if al, ok := sl.X.(*ssa.Alloc); ok && al.Referrers() != nil {
													for _, r3 := range *al.Referrers() {
														if ia, ok := r3.(*ssa.IndexAddr); ok && ia.Referrers() != nil {
															for _, r4 := range *ia.Referrers() {
																if st, ok := r4.(*ssa.Store); ok && st.Addr == ssa.Value(ia) && onPath(st.Val, d+1) {
																	return true
																}
															}
														}
													}
												}
											}
										}
									}
								}
								return false
							}
							rv := resultsOf(ret)[fei]
							if !compared && !isNilConst(stripConv(pa.Resolve(rv))) && !onPath(rv, 0) {
								// stored in sticky state counts as kept
								kept := false
								for _, pin := range pa.Instrs() {
									if st, ok := pin.(*ssa.Store); ok && onPath(st.Val, 0) {
										kept = true
									}
								}
								if !kept {
									bad = "path " + pa.String() + " replaces the error of " + short(name) + " by another error (returned at " + r.pos(ret) + "): a typed error of the layer below is no longer reachable through errors.As"
									break
								}
							}
						}
					}
					// only the part of the path after the call matters; conditions before it in the
					// same block cannot exist (the call is in the first block of the path)
					examined := false
					for i, blk := range pa.Blocks {
						if i >= len(pa.Edge) || pa.Edge[i] < 0 {
							continue
						}
						ifi, ok := blk.Instrs[len(blk.Instrs)-1].(*ssa.If)
						if !ok {
							continue
						}
						if valueMentions(ifi.Cond, carries, 0) {
							examined = true
						}
					}
					if examined {
						continue
					}
					ret := pa.Last.(*ssa.Return)
					for _, rv := range resultsOf(ret) {
						if carries[pa.Resolve(rv)] || carries[rv] {
							examined = true
						}
					}
					// some other error is reported on this path: that is a failure, too
					if fei := errorResultIndex(fn.Signature); fei >= 0 && !examined {
						ev := pa.Resolve(resultsOf(ret)[fei])
						if p.definitelyNonNil(ev, 0) {
							examined = true
						}
						for _, a := range tb.pathAtoms(pa) {
							if a.Kind == "cmp" && a.Op == "!=" && a.Y != nil && a.Y.Op == "Nil" && a.X != nil && a.X.V != nil && (a.X.V == ev || stripConv(a.X.V) == stripConv(ev)) {
								examined = true
							}
						}
					}
					// stored somewhere on the path (sticky error field, captured variable)
					for _, pin := range pa.Instrs() {
						if st, ok := pin.(*ssa.Store); ok && carries[st.Val] {
							examined = true
						}
						if pc, ok := pin.(ssa.CallInstruction); ok && pin != ssa.Instruction(c) {
							for _, a := range pc.Common().Args {
								if carries[a] {
									examined = true
								}
							}
						}
					}
					if !examined {
						bad = "path " + pa.String() + " reaches the return at " + r.pos(ret) + " without having looked at the error of " + short(name)
						break
					}
				}
				n++
				if bad != "" {
					r.Bad(fn.String(), "errpath:"+short(name)+"@"+itoa(p.Fset.Position(c.Pos()).Line-p.Fset.Position(fn.Pos()).Line), r.pos(c), bad+": a failure would be masked by whatever else decided that path")
				}
			}
		}
	}
	// an error carried around a loop in a variable: before the loop comes round it has been looked
	// at — otherwise the next assignment to the variable overwrites it and only the error of the
	// last iteration is ever seen
	for _, fn := range p.Funcs {
		if !inPkg(fn, pkgs...) || len(fn.Blocks) == 0 {
			continue
		}
		for _, l := range naturalLoops(fn) {
			for _, hi := range l.Header.Instrs {
				ph, ok := hi.(*ssa.Phi)
				if !ok {
					break
				}
				if !isErrorType(ph.Type()) {
					continue
				}
				for k, pr := range l.Header.Preds {
					if !l.Blocks[pr] {
						continue
					}
					e := stripConv(ph.Edges[k])
					ein, isIn := e.(ssa.Instruction)
					if !isIn || e == ssa.Value(ph) {
						continue
					}
					if _, isPhi := e.(*ssa.Phi); isPhi {
						continue
					}
					if _, isCall := e.(*ssa.Call); !isCall {
						if _, isEx := e.(*ssa.Extract); !isEx {
							continue
						}
					}
					// from the definition of e to the header along this back edge: some branch looks at e
					paths, okp := p.EnumPathsStop(ein.Block(), map[*ssa.BasicBlock]bool{l.Header: true})
					if !okp {
						continue
					}
					for _, pa := range paths {
						if pa.End != "stop" || len(pa.Blocks) < 2 || pa.Blocks[len(pa.Blocks)-2] != pr {
							continue
						}
						looked := false
						for i, blk := range pa.Blocks[:len(pa.Blocks)-1] {
							if i >= len(pa.Edge) || pa.Edge[i] < 0 {
								continue
							}
							if ifi, ok := blk.Instrs[len(blk.Instrs)-1].(*ssa.If); ok && valueMentions(ifi.Cond, map[ssa.Value]bool{e: true, ph.Edges[k]: true}, 0) {
								looked = true
							}
						}
						if !looked {
							r.Bad(fn.String(), "errloop:"+ph.Comment+"#"+itoa(k), r.pos(ein), "the error assigned here is carried into the next iteration of the loop without having been looked at (path "+pa.String()+"): the next assignment overwrites it, so a failure in the middle is lost")
							break
						}
					}
				}
			}
		}
	}
	if n > 0 {
		r.OK("library", "errpaths", "", itoa(n)+" error results, each examined, returned or stored on every path to a return")
	}
}

// valueMentions: the value is computed from one of the given values.
func valueMentions(v ssa.Value, set map[ssa.Value]bool, depth int) bool {
	if depth > 8 || v == nil {
		return false
	}
	if set[v] {
		return true
	}
	switch x := v.(type) {
	case *ssa.BinOp:
		return valueMentions(x.X, set, depth+1) || valueMentions(x.Y, set, depth+1)
	case *ssa.UnOp:
		return valueMentions(x.X, set, depth+1)
	case *ssa.Phi:
		for _, e := range x.Edges {
			if valueMentions(e, set, depth+1) {
				return true
			}
		}
	case *ssa.Call:
		for _, a := range x.Call.Args {
			if valueMentions(a, set, depth+1) {
				return true
			}
		}
	case *ssa.MakeInterface:
		return valueMentions(x.X, set, depth+1)
	case *ssa.ChangeInterface:
		return valueMentions(x.X, set, depth+1)
	case *ssa.TypeAssert:
		return valueMentions(x.X, set, depth+1)
	case *ssa.Extract:
		return valueMentions(x.Tuple, set, depth+1)
	}
	return false
}

// closesReadOnlyFile: the receiver of this (*os.File).Close is, on every path, the first result
// of os.Open (O_RDONLY by definition) — directly, through a local variable or as a variable
// captured by a deferred closure.
func closesReadOnlyFile(c ssa.CallInstruction) bool {
	args := c.Common().Args
	if c.Common().IsInvoke() {
		args = []ssa.Value{c.Common().Value}
	}
	if len(args) == 0 {
		return false
	}
	var fromOpen func(v ssa.Value, d int) bool
	fromOpen = func(v ssa.Value, d int) bool {
		if d > 4 {
			return false
		}
		switch x := stripConv(v).(type) {
		case *ssa.MakeInterface:
			return fromOpen(x.X, d+1)
		case *ssa.Const:
			return x.IsNil() && d > 0 // the error exits of a helper spliced in front of the defer
		case *ssa.Call:
			// io.NopCloser(os.Stdin): closing it does nothing
			return calleeName(&x.Call) == "io.NopCloser"
		case *ssa.Extract:
			call, ok := x.Tuple.(*ssa.Call)
			if ok && x.Index == 0 && calleeName(&call.Call) == "os.Open" {
				return true
			}
			// a module helper that hands out what it opened: every non-nil first result it
			// returns is such a reader
			if callee := call.Call.StaticCallee(); ok && callee != nil && callee.Blocks != nil && x.Index == 0 {
				n := 0
				for _, ret := range returnsOf(callee) {
					rs := resultsOf(ret)
					if len(rs) == 0 {
						return false
					}
					if isNilConst(stripConv(rs[0])) {
						continue
					}
					if !fromOpen(rs[0], d+1) {
						return false
					}
					n++
				}
				return n > 0
			}
			return false
		case *ssa.Phi:
			for _, e := range x.Edges {
				if !fromOpen(e, d+1) {
					return false
				}
			}
			return len(x.Edges) > 0
		case *ssa.UnOp:
			// a load of a local cell or of a captured variable: every store to it is from os.Open
			var cell ssa.Value = x.X
			var fn *ssa.Function
			if fv, ok := cell.(*ssa.FreeVar); ok {
				par := fv.Parent().Parent()
				if par == nil {
					return false
				}
				idx := -1
				for i, f := range fv.Parent().FreeVars {
					if f == fv {
						idx = i
					}
				}
				cell = nil
				for _, b := range par.Blocks {
					for _, in := range b.Instrs {
						if mc, ok := in.(*ssa.MakeClosure); ok && mc.Fn == ssa.Value(fv.Parent()) && idx >= 0 && idx < len(mc.Bindings) {
							cell = mc.Bindings[idx]
						}
					}
				}
				fn = par
			} else if al, ok := cell.(*ssa.Alloc); ok {
				fn = al.Parent()
			}
			al, ok := cell.(*ssa.Alloc)
			if !ok || fn == nil {
				return false
			}
			n := 0
			for _, st := range storesTo(fn, al) {
				if !fromOpen(st.Val, d+1) {
					return false
				}
				n++
			}
			return n > 0
		}
		return false
	}
	return fromOpen(args[0], 0)
}

// checkNoSilentRefusal (R13.9): a function that returns (value..., error) does not return the zero
// value together with a nil error on a path where the nil comes out of a merge — the shape a
// nil-pass-through wrap helper leaves behind when it is handed an error that is known to be nil
// (`return "", nil, wrap("not a plugin recipient", err)` behind `err == nil`): the refusal would
// be a success with nothing parsed. Plain `return nil, nil` statements are not touched (they are
// written on purpose and covered by the rules of their functions).
func checkNoSilentRefusal(p *Program, r *Result, pkgs []string) {
	n := 0
	for _, fn := range p.Funcs {
		if !inPkg(fn, pkgs...) || fn.Signature.Results().Len() < 2 || !isErrorType(fn.Signature.Results().At(fn.Signature.Results().Len()-1).Type()) {
			continue
		}
		tb := p.TB(fn)
		for _, ret := range returnsOf(fn) {
			rs := resultsOf(ret)
			if len(rs) < 2 {
				continue
			}
			ph, isPhi := rs[len(rs)-1].(*ssa.Phi)
			if !isPhi {
				continue
			}
			zero := true
			for _, v := range rs[:len(rs)-1] {
				c, isC := v.(*ssa.Const)
				// (false or 0 with a nil error is an answer, not a refusal)
				if !isC || !(c.Value == nil || c.Value.ExactString() == `""`) {
					zero = false
				}
			}
			if !zero {
				continue
			}
			n++
			retFacts := tb.FactsAt(ret.Block())
			bad := ""
			var walk func(ph *ssa.Phi, d int)
			walk = func(ph *ssa.Phi, d int) {
				if _, tested := nilFact(retFacts, ph, false); tested {
					return // the merged error was found non-nil on the way to this return
				}
				for k, e := range ph.Edges {
					if p2, ok := e.(*ssa.Phi); ok && d < 2 {
						walk(p2, d+1)
						continue
					}
					if !isNilConst(e) {
						continue
					}
					facts := append(append([]Atom(nil), retFacts...), phiEdgeFacts(tb, ph, k)...)
					if !contradictoryNilFacts(facts) {
						bad = "on the way into the merge at " + r.pos(ph) + " the error is nil"
					}
				}
			}
			walk(ph, 0)
			r.Check(bad == "", fn.String(), "refusal#"+itoa(retIndex(fn, ret)), r.pos(ret), "every value merged into the returned error is non-nil where it can be taken", "the function returns zero values and an error that is nil on a feasible path ("+bad+"): a refusal would be reported as a success with nothing parsed")
		}
	}
	r.OK("library", "refusals", "", itoa(n)+" zero-valued returns whose error is a merge: none can be nil")
}

// contradictoryNilFacts: the facts say of one value both that it is nil and that it is not.
func contradictoryNilFacts(facts []Atom) bool {
	isNil, nonNil := map[string]bool{}, map[string]bool{}
	for _, a := range facts {
		if a.Kind != "cmp" || a.X == nil || a.Y == nil || a.Y.Op != "Nil" {
			continue
		}
		switch a.Op {
		case "==":
			isNil[a.X.Key()] = true
		case "!=":
			nonNil[a.X.Key()] = true
		}
	}
	for k := range isNil {
		if nonNil[k] {
			return true
		}
	}
	return false
}

// advisoryQueries: calls that only look at file metadata. Their failure loses nothing of the
// data that flows through the program; code that uses the answer to refuse something earlier
// (`if fi, err := f.Stat(); err == nil && fi.IsDir()`) may pass over the error.
var advisoryQueries = map[string]bool{
	"(*os.File).Stat": true, "os.Stat": true, "os.Lstat": true,
}
