package main

import (
	"go/token"
	"strings"

	"golang.org/x/tools/go/ssa"
)

func init() {
	register(&PropertyDef{
		ID: "C18",
		Explanation: "Key-file parsing decided on all paths of the four scanner loops (age.ParseIdentities, age.ParseRecipients, cmd/age parseIdentities, parseRecipientsFile): (R18.1) an iteration continues with the next line only if the line starts with '#', is empty, produced a key that was appended, or (CLI recipients) is an unsupported-but-valid SSH key announced by a warning; " +
			"(R18.2) a parser error returns a non-nil error carrying the line counter, which is incremented exactly once per scanned line before anything else; (R18.3) no key is an error and keys are appended in loop order; " +
			"(R18.4) taint analysis: in the identity parsers nothing derived from the line reaches an error/log message anywhere in the call tree except integers and the HRP returned by bech32.Decode; in the recipient-file parsers neither the line nor the inner error reaches a message (file name, line number and the SSH key type aside); " +
			"(R18.5) every size limit in front of a key-file parser is followed by a detection that it was hit; (R18.6) a line counts as a key only behind every Bech32 rejection and the exact HRP/length checks; (R18.7) the CLI takes a line for an unsupported SSH key only after decoding its whole key blob. (R18.8) the key type that excuses a line is the leading field of the very line the recipient parser refused.",
		NotDecided:  "that bufio.Scanner splits lines as documented (CR LF, missing final newline); content of messages produced by external libraries (x/crypto/ssh).",
		Assumptions: []string{"integer-typed values (runes, offsets, lengths) do not reproduce key material", "external functions propagate taint from any argument to any textual result"},
		Technique:   "static analysis: per-iteration path enumeration over go/ssa, interprocedural taint with parameter-to-result summaries, who-limits-must-detect sibling rule",
		Run:         runC18,
	})
}

type scanSite struct {
	pkg, fn string
	parser  string // callee that parses one line
	kind    string // identities | recipients
}

var scanSites = []scanSite{
	{pkgAge, "ParseIdentities", pkgAge + ".ParseX25519Identity", "identities"},
	{pkgAge, "ParseRecipients", pkgAge + ".ParseX25519Recipient", "recipients"},
	{pkgCmdAge, "parseIdentities", pkgCmdAge + ".parseIdentity", "identities"},
	{pkgCmdAge, "parseRecipientsFile", pkgCmdAge + ".parseRecipient", "recipients"},
}

func runC18(p *Program, r *Result) {
	r.Rule("R18.1", "a line is passed over only if it is a comment, blank, parsed and appended, or a warned-about unsupported SSH key", 4)
	r.Rule("R18.2", "a malformed line aborts with an error naming its line number", 8)
	r.Rule("R18.3", "no key at all is an error; keys are appended in file order", 8)
	type loopInfo struct {
		fn    *ssa.Function
		loop  *natLoop
		line  ssa.Value
		parse *lineParse
		site  scanSite
	}
	var infos []loopInfo
	for _, s := range scanSites {
		fn := r.anchor(s.pkg, "", s.fn)
		if fn == nil {
			continue
		}
		tb := p.TB(fn)
		var loop *natLoop
		for _, l := range naturalLoops(fn) {
			for _, in := range l.Header.Instrs {
				if c, ok := in.(*ssa.Call); ok && calleeName(&c.Call) == "(*bufio.Scanner).Scan" {
					loop = l
				}
			}
		}
		if loop == nil {
			r.cur = "R18.1"
			r.Unk(fn.String(), "scan-loop", "", "no loop headed by scanner.Scan()")
			continue
		}
		var line ssa.Value
		for b := range loop.Blocks {
			for _, in := range b.Instrs {
				if c, ok := in.(*ssa.Call); ok && (calleeName(&c.Call) == "(*bufio.Scanner).Text" || calleeName(&c.Call) == "(*bufio.Scanner).Bytes") {
					line = c
				}
			}
		}
		parse := findLineParse(p, fn, loop, s.parser, line)
		if line == nil || parse == nil {
			r.cur = "R18.1"
			r.Unk(fn.String(), "scan-loop", "", "scanner.Text() or the per-line parse whose result is appended not found in the loop")
			continue
		}
		infos = append(infos, loopInfo{fn, loop, line, parse, s})

		// counter: phi [0, n+1] at header with n+1 computed in the first body block (the line
		// number is n+1), or phi [1, n+1] with the increment on every way back to the header
		// (`for n := 1; sc.Scan(); n++`: the line number is the phi itself)
		var counter *ssa.BinOp
		var counterPhi *ssa.Phi
		counterStart := int64(-1)
		for _, in := range loop.Header.Instrs {
			ph, ok := in.(*ssa.Phi)
			if !ok {
				break
			}
			for _, e := range ph.Edges {
				if bo, ok := e.(*ssa.BinOp); ok && bo.Op.String() == "+" && bo.X == ssa.Value(ph) {
					if one, ok := constInt(bo.Y); ok && one == 1 {
						counter, counterPhi = bo, ph
						for _, e2 := range ph.Edges {
							if k, isK := constInt(e2); isK {
								counterStart = k
							}
						}
					}
				}
			}
		}
		var lineNumber ssa.Value // what stands for the number of the current line in the body
		if counter != nil {
			lineNumber = counter
			if counterStart == 1 {
				lineNumber = counterPhi
			}
		}

		// ---- R18.1 per-iteration paths
		r.cur = "R18.1"
		body := loop.Header.Succs[0]
		paths, okp := p.EnumPathsStop(body, map[*ssa.BasicBlock]bool{loop.Header: true})
		bad := ""
		nCont := 0
		if !okp {
			bad = "too many paths"
		}
		for _, pa := range paths {
			if pa.End != "stop" {
				continue
			}
			nCont++
			atoms := tb.pathAtoms(pa)
			_, comment := findFact(atoms, func(a Atom) bool {
				return a.Kind == "call" && a.Pol && a.Call.S == "strings.HasPrefix" && len(a.Call.Args) == 2 && a.Call.Args[0].V == line && a.Call.Args[1].S == `"#"`
			})
			if !comment {
				// the same test on the first byte: line[0] == '#'
				_, comment = findFact(atoms, func(a Atom) bool {
					return a.Kind == "cmp" && a.Op == "==" && a.Y.S == "35" && a.X.Op == "Elem" && len(a.X.Args) == 2 && a.X.Args[0].V == line && a.X.Args[1].S == "0"
				})
			}
			_, blank := findFact(atoms, func(a Atom) bool {
				return a.Kind == "cmp" && a.Op == "==" && a.Y.S == "0" && isLenTerm(a.X) && a.X.Args[0].V == line
			})
			if comment || blank {
				continue
			}
			parsedOK := parse.errIs(atoms, true)
			if ph, isPhi := parse.val.(*ssa.Phi); parsedOK && isPhi {
				// the result of a helper spliced in: on this path it is the helper's "nothing
				// parsed" exit (nil key, nil error), not a success of the parser
				if isNilConst(stripConv(pa.Resolve(ph))) {
					parsedOK = false
				}
			}
			if parsedOK {
				// the parser's result must be appended on this path
				appended := false
				for _, in := range pa.Instrs() {
					if in == ssa.Instruction(parse.appendCall) {
						appended = true
					}
				}
				if !appended {
					bad = "path " + pa.String() + ": the line parsed successfully but its key is not appended to the result"
				}
				continue
			}
			// CLI: unsupported SSH key type skipped with a warning
			parseFailed := parse.errIs(atoms, false)
			_, sshOK := findFact(atoms, func(a Atom) bool {
				return a.Kind == "bool" && a.Pol && strings.HasSuffix(a.X.String(), ".1") && strings.Contains(a.X.String(), ".sshKeyType(")
			})
			warned := false
			for _, in := range pa.Instrs() {
				if c, ok := in.(*ssa.Call); ok && calleeName(&c.Call) == pkgCmdAge+".warningf" {
					warned = true
				}
			}
			if s.pkg == pkgCmdAge && s.kind == "recipients" && parseFailed && sshOK && warned {
				continue
			}
			bad = "path " + pa.String() + " continues with the next line although the line is neither comment nor blank nor successfully parsed (branches: " + short(factStrings(atoms)) + "): a malformed line would be skipped silently"
		}
		if nCont == 0 && bad == "" {
			bad = "no continuing path found"
		}
		r.Check(bad == "", fn.String(), "iteration-paths", r.pos(parse.appendCall), itoa(nCont)+" continuing paths, each accounted for", bad)

		// ---- R18.2
		r.cur = "R18.2"
		okCounter := counter != nil && (counterStart == 0 && counter.Block() == body || counterStart == 1)
		if okCounter {
			// counting from 0: nothing but the increment precedes; either way every back edge
			// is dominated by the increment
			for _, pr := range loop.Header.Preds {
				if loop.Blocks[pr] && pr != loop.Header && !(counter.Block() == pr || counter.Block().Dominates(pr)) {
					okCounter = false
				}
			}
		}
		if okCounter && counterStart == 1 {
			// counting from 1: the incremented value must not be used inside the iteration
			for _, ref := range *counter.Referrers() {
				if ref != ssa.Instruction(counterPhi) {
					if _, isDbg := ref.(*ssa.DebugRef); !isDbg {
						okCounter = false
					}
				}
			}
		}
		r.Check(okCounter, fn.String(), "line-counter", "", "n++ first thing in the loop body, once per scanned line", "the line counter is not incremented exactly once at the top of every iteration")
		// the parse-failure return carries the counter
		found := false
		for _, ret := range returnsOf(fn) {
			if !loop.Blocks[ret.Block()] && !body.Dominates(ret.Block()) {
				continue
			}
			facts := tb.FactsAt(ret.Block())
			if !parse.errIs(facts, false) {
				continue
			}
			// skip the SSH-skip branch (not a return)
			rs := resultsOf(ret)
			ei := errorResultIndex(fn.Signature)
			t := tb.Term(rs[ei])
			hasN := false
			if lineNumber != nil {
				t.Walk(func(sub *Term) {
					if sub.V == lineNumber {
						hasN = true
					}
				})
			}
			found = true
			r.Check(hasN && !isNilConst(rs[ei]) && isNilConst(rs[0]), fn.String(), "parse-error-return", r.pos(ret), "returns (nil, error mentioning n)", "a malformed line does not yield (nil, error with the line number): "+short(t.String()))
		}
		if !found {
			r.Bad(fn.String(), "parse-error-return", "", "no return on the parser-error edge")
		}

		// ---- R18.3
		r.cur = "R18.3"
		ret, err := successReturn(fn)
		if err != nil {
			r.Unk(fn.String(), "success-return", "", err.Error())
		} else {
			facts := tb.FactsAt(ret.Block())
			res := resultsOf(ret)[0]
			_, nonEmpty := findFact(facts, func(a Atom) bool {
				return a.Kind == "cmp" && a.Op == "!=" && a.Y.S == "0" && isLenTerm(a.X) && a.X.Args[0].V == res
			})
			r.Check(nonEmpty, fn.String(), "no-keys", r.pos(ret), "success only with len(result) != 0", "success is returned without checking that at least one key was found")
			// appended in order: result is Phi of append(result, parsed)
			// the result is the loop-carried slice to which each parsed key is appended at the end
			okOrder := false
			for b := range loop.Blocks {
				for _, in := range b.Instrs {
					c, isC := in.(*ssa.Call)
					if !isC || !isBuiltin(&c.Call, "append") {
						continue
					}
					has := c == parse.appendCall
					ph, isPhi := stripConv(c.Call.Args[0]).(*ssa.Phi)
					if !has || !isPhi || ph.Block() != loop.Header {
						continue
					}
					feeds := false
					for _, e := range flattenPhi(ph) {
						if e.val == ssa.Value(c) {
							feeds = true
						}
					}
					if feeds && (res == ssa.Value(ph) || phiContains(res, ph)) {
						okOrder = true
					}
				}
			}
			r.Check(okOrder, fn.String(), "append-order", r.pos(ret), "result = append(result, key) carried by the loop", "the returned slice is not the loop-carried slice to which each parsed key is appended (order or completeness of the result is not guaranteed)")
		}
	}

	// ---- R18.4 taint
	r.Rule("R18.4", "error and log messages never reproduce key-file content", 4)
	for _, inf := range infos {
		tt := NewTaint(p)
		tt.CleanResults[pkgBech32+".Decode"] = map[int]bool{0: true} // the HRP of a successfully decoded string
		tt.CleanResults[pkgCmdAge+".sshKeyType"] = map[int]bool{0: true, 1: true}
		var hits []SinkHit
		if inf.site.kind == "identities" {
			hits = tt.Deep(inf.fn, []ssa.Value{inf.line}, map[string]bool{})
		} else {
			tainted := tt.Run(inf.fn, []ssa.Value{inf.line})
			hits = tt.SinksIn(inf.fn, tainted)
			// the returned error itself must not be tainted
			for _, ret := range returnsOf(inf.fn) {
				rs := resultsOf(ret)
				ei := errorResultIndex(inf.fn.Signature)
				if tainted[rs[ei]] {
					hits = append(hits, SinkHit{inf.fn, nil, rs[ei]})
				}
			}
		}
		if len(hits) == 0 {
			r.OK(inf.fn.String(), "taint:"+inf.site.kind, "", "no tainted value reaches a message sink")
		}
		for _, h := range hits {
			pos := ""
			what := "returned error"
			if h.Call != nil {
				pos = r.pos(h.Call)
				what = short(calleeName(h.Call.Common()))
			}
			r.Bad(h.Fn.String(), "taint:"+inf.site.kind+":"+what, pos, "a value derived from the key-file line ("+short(p.TB(h.Fn).Term(h.Arg).String())+") reaches "+what+": messages could reproduce secret key material / confidential file content")
		}
	}

	// ---- R18.6
	r.Rule("R18.6", "a line counts as a key only if it passes every Bech32 rejection (= R09.3) and the exact HRP/length checks", 9)
	if d, cbf := r.anchor(pkgBech32, "", "Decode"), r.anchor(pkgBech32, "", "convertBits"); d != nil && cbf != nil {
		checkDecodeGuards(p, r, d, cbf)
	}
	checkSites(p, r, []Site{
		{"ParseX25519Recipient.hrp", pkgAge, "", "ParseX25519Recipient", "facts:ret", []string{"C18"}},
		{"ParseX25519Identity.hrp", pkgAge, "", "ParseX25519Identity", "facts:ret", []string{"C18"}},
	}, "C18")

	// ---- R18.5
	r.Rule("R18.5", "a size limit that is hit is reported, not silently applied", 6)
	checkLimitDetection(p, r)

	// ---- R18.7 the documented exception is decided on the whole key blob
	r.Rule("R18.7", "a line is taken for an unsupported SSH key only if its whole key blob decodes", 1)
	if skt := r.anchor(pkgCmdAge, "", "sshKeyType"); skt != nil {
		stb := p.TB(skt)
		n := 0
		for _, c := range callsIn(skt) {
			name := calleeName(c.Common())
			if !strings.HasPrefix(name, "(*encoding/base64.Encoding).Decode") {
				continue
			}
			n++
			arg := c.Common().Args[len(c.Common().Args)-1]
			t := stb.Term(arg)
			truncated := ""
			t.Walk(func(x *Term) {
				if x.Op != "Slice" || len(x.Args) < 3 {
					return
				}
				// a cut at a position found in the text (Index, Cut) keeps a whole field; a cut at a
				// computed length does not
				for _, b := range x.Args[1:] {
					if b == nil || b.Op == "Const" {
						continue
					}
					bs := b.String()
					if strings.Contains(bs, "strings.Index") || strings.Contains(bs, "strings.LastIndex") || strings.Contains(bs, "bytes.Index") {
						continue
					}
					truncated = short(x.String())
				}
			})
			r.Check(truncated == "", skt.String(), "decode:whole-blob", r.pos(c), "the decoder sees "+short(t.String()), "only a part of the key blob is decoded ("+truncated+"): a damaged key line of a supported type passes for an unsupported key and is skipped instead of failing the file")
		}
		if n == 0 {
			r.Unk(skt.String(), "decode:whole-blob", "", "no base64 decoding of the key blob found")
		}
	}

	// ---- R18.8 the key type that excuses a line is the beginning of the line the dispatcher saw
	r.Rule("R18.8", "the SSH key type that lets a line be skipped is the leading field of the very line the recipient parser refused", 2)
	if skt := r.anchor(pkgCmdAge, "", "sshKeyType"); skt != nil {
		stb := p.TB(skt)
		n := 0
		for _, b := range skt.Blocks {
			ret, ok := b.Instrs[len(b.Instrs)-1].(*ssa.Return)
			if !ok || len(ret.Results) != 2 {
				continue
			}
			if k, isK := ret.Results[1].(*ssa.Const); isK && k.Value != nil && k.Value.String() == "false" {
				continue
			}
			n++
			t := stb.Term(ret.Results[0])
			r.Check(leadingPieceOf(t, "P1"), skt.String(), "type:leading-field", r.pos(ret), "the reported type is "+short(t.String()), "the type taken for the line's key type ("+short(t.String())+") is not the text the line begins with (split at a separator, nothing trimmed or collapsed): the recipient parser dispatches on the untouched line, so a damaged line of a supported type can pass for an unsupported key and be skipped instead of failing the file")
		}
		if n == 0 {
			r.Unk(skt.String(), "type:leading-field", "", "no return of a key type found")
		}
		if prf := r.anchor(pkgCmdAge, "", "parseRecipientsFile"); prf != nil {
			ptb := p.TB(prf)
			var parsed, typed []string
			pos := ""
			for _, c := range callsIn(prf) {
				switch calleeName(c.Common()) {
				case pkgCmdAge + ".parseRecipient":
					parsed = append(parsed, ptb.Term(c.Common().Args[0]).String())
				case pkgCmdAge + ".sshKeyType":
					typed = append(typed, ptb.Term(c.Common().Args[0]).String())
					pos = r.pos(c)
				}
			}
			same := len(typed) > 0 && len(parsed) > 0
			for _, t := range typed {
				found := false
				for _, q := range parsed {
					found = found || q == t
				}
				same = same && found
			}
			if len(typed) == 0 {
				r.OK(prf.String(), "type:same-line", "", "no line is excused by its SSH key type")
			} else {
				r.Check(same, prf.String(), "type:same-line", pos, "sshKeyType sees the line that parseRecipient refused", "sshKeyType is given another text ("+short(strings.Join(typed, ", "))+") than the recipient parser ("+short(strings.Join(parsed, ", "))+")")
			}
		}
	}
}

// leadingPieceOf: t is what the named parameter begins with, up to a separator or a position:
// Elem(strings.Split/SplitN(P, sep..), 0), strings.Cut(P, sep).0, Slice(P, nil|0, x).
func leadingPieceOf(t *Term, param string) bool {
	if t == nil {
		return false
	}
	isP := func(x *Term) bool { return x != nil && x.String() == param }
	switch {
	case t.Op == "Elem" && len(t.Args) == 2 && t.Args[1] != nil && t.Args[1].String() == "0":
		c := t.Args[0]
		if c != nil && c.Op == "Call" && (c.S == "strings.Split" || c.S == "strings.SplitN") && len(c.Args) >= 2 {
			return isP(c.Args[0])
		}
	case t.Op == "Slice" && len(t.Args) >= 2 && isP(t.Args[0]):
		return t.Args[1] == nil || t.Args[1].String() == "0"
	}
	s := t.String()
	return strings.HasPrefix(s, "strings.Cut("+param+", ") && strings.HasSuffix(s, ").0")
}

// checkLimitDetection: every io.LimitReader / io.LimitedReader in front of a
// key-file parser is followed by a test that the limit was reached.
func checkLimitDetection(p *Program, r *Result) {
	for _, fn := range p.Funcs {
		if !(inPkg(fn, pkgAge) || inPkg(fn, pkgCmdAge)) || fn.Parent() != nil {
			continue
		}
		name := fn.Name()
		if !strings.HasPrefix(name, "Parse") && !strings.HasPrefix(name, "parse") {
			continue
		}
		tb := p.TB(fn)
		// (a) io.LimitReader(r, N)
		for i, c := range callsTo(fn, "io.LimitReader") {
			n, isC := constInt(c.Common().Args[1])
			key := callKey("io.LimitReader", i)
			if !isC {
				r.Unk(fn.String(), key, r.pos(c), "non-constant limit")
				continue
			}
			// consumer
			detected := false
			how := ""
			for _, ref := range *c.Value().Referrers() {
				rc, ok := ref.(*ssa.Call)
				if !ok {
					continue
				}
				switch calleeName(&rc.Call) {
				case "io.ReadAll":
					// len(contents) == N  ->  error return
					for _, ret := range returnsOf(fn) {
						facts := tb.FactsAt(ret.Block())
						if _, ok := findFact(facts, func(a Atom) bool {
							k, isK := intConst(a.Y)
							return a.Kind == "cmp" && a.Op == "==" && isK && k == n && isLenTerm(a.X) && a.X.Args[0].Op == "Ext" && a.X.Args[0].Args[0].V == ssa.Value(rc)
						}); ok && !isNilConst(resultsOf(ret)[errorResultIndex(fn.Signature)]) {
							detected, how = true, "len(contents) == limit is an error"
						}
					}
				case "bufio.NewScanner":
					// no way to observe that an io.LimitReader was exhausted
				}
			}
			r.Check(detected, fn.String(), key, r.pos(c), how, "input is cut at "+itoa(int(n))+" bytes by io.LimitReader and nothing detects that the limit was reached: lines beyond it are dropped silently and the file is accepted")
		}
		// (b) &io.LimitedReader{R: r, N: limit+1} with lr.N tested before success
		for _, b := range fn.Blocks {
			for _, in := range b.Instrs {
				al, ok := in.(*ssa.Alloc)
				if !ok || typeString(al.Type()) != "*io.LimitedReader" {
					continue
				}
				ret, err := successReturn(fn)
				if err != nil {
					r.Unk(fn.String(), "limitedreader", r.pos(al), err.Error())
					continue
				}
				facts := tb.FactsAt(ret.Block())
				_, ok2 := findFact(facts, func(a Atom) bool {
					if a.Kind != "cmp" || a.Op != ">=" || a.Y.S != "1" {
						return false
					}
					ld, isLd := a.X.V.(*ssa.UnOp)
					if !isLd {
						return false
					}
					fa, isFA := ld.X.(*ssa.FieldAddr)
					return isFA && fa.X == ssa.Value(al) && fieldName(fa.X.Type(), fa.Field) == "N"
				})
				r.Check(ok2, fn.String(), "limitedreader", r.pos(al), "success requires lr.N > 0 (limit+1 not exhausted)", "an io.LimitedReader is used but success does not depend on it having bytes left: an over-long file is accepted truncated")
			}
		}
	}
}

func phiContains(v ssa.Value, want *ssa.Phi) bool {
	ph, ok := v.(*ssa.Phi)
	if !ok {
		return false
	}
	seen := map[*ssa.Phi]bool{}
	var rec func(p *ssa.Phi) bool
	rec = func(p *ssa.Phi) bool {
		if p == want {
			return true
		}
		if seen[p] {
			return false
		}
		seen[p] = true
		for _, e := range p.Edges {
			if q, ok := e.(*ssa.Phi); ok && rec(q) {
				return true
			}
		}
		return false
	}
	return rec(ph)
}

// lineParse is the per-line parse of a key-file scanner: the value appended to the result and
// the error that goes with it — the two results of one call of the line parser, or, when the
// parser is spliced into the loop, the merge of its returns.
type lineParse struct {
	appendCall *ssa.Call
	val, err   ssa.Value
	errIfs     map[*ssa.If]bool
}

// errIs: the facts say that the parse error is nil (wantNil) / non-nil.
func (lp *lineParse) errIs(facts []Atom, wantNil bool) bool {
	for _, a := range facts {
		if a.Kind == "cmp" && a.Y != nil && a.Y.Op == "Nil" && a.If != nil && lp.errIfs[a.If] && (a.Op == "==") == wantNil {
			return true
		}
	}
	return false
}

func findLineParse(p *Program, fn *ssa.Function, loop *natLoop, parser string, line ssa.Value) *lineParse {
	if line == nil {
		return nil
	}
	for b := range loop.Blocks {
		for _, in := range b.Instrs {
			c, ok := in.(*ssa.Call)
			if !ok || !isBuiltin(&c.Call, "append") || len(c.Call.Args) != 2 {
				continue
			}
			if ph, isPhi := stripConv(c.Call.Args[0]).(*ssa.Phi); !isPhi || ph.Block() != loop.Header {
				continue
			}
			// the appended element: append(ids, v) compiles to a one-element slice literal
			var val ssa.Value
			if sl, isSl := c.Call.Args[1].(*ssa.Slice); isSl {
				if al, isAl := sl.X.(*ssa.Alloc); isAl {
					for _, r := range *al.Referrers() {
						if ia, isIA := r.(*ssa.IndexAddr); isIA && ia.Referrers() != nil {
							for _, rr := range *ia.Referrers() {
								if st, isSt := rr.(*ssa.Store); isSt && st.Addr == ssa.Value(ia) {
									val = st.Val
								}
							}
						}
					}
				}
			}
			if val == nil {
				continue
			}
			for {
				switch x := val.(type) {
				case *ssa.MakeInterface:
					val = x.X
					continue
				case *ssa.ChangeInterface:
					val = x.X
					continue
				}
				break
			}
			val = stripConv(val)
			lp := &lineParse{appendCall: c, val: val, errIfs: map[*ssa.If]bool{}}
			fromParser := func(v ssa.Value) (*ssa.Call, bool) {
				ex, ok := v.(*ssa.Extract)
				if !ok || ex.Index != 0 {
					return nil, false
				}
				pc, ok := ex.Tuple.(*ssa.Call)
				if !ok || len(pc.Call.Args) == 0 || stripConv(pc.Call.Args[0]) != line {
					return nil, false
				}
				return pc, true
			}
			errVals := map[ssa.Value]bool{}
			errOf := func(pc *ssa.Call) {
				for _, r := range *pc.Referrers() {
					if ex, ok := r.(*ssa.Extract); ok && isErrorType(ex.Type()) {
						errVals[ex] = true
						if lp.err == nil {
							lp.err = ex
						}
					}
				}
			}
			switch v := val.(type) {
			case *ssa.Extract:
				pc, ok := fromParser(v)
				if !ok || calleeName(&pc.Call) != parser {
					continue
				}
				errOf(pc)
			case *ssa.Phi:
				// the spliced parser: every non-nil incoming value is the first result of a call on the line
				good := len(v.Edges) > 0
				for _, e := range v.Edges {
					if isNilConst(e) {
						continue
					}
					pc, ok := fromParser(stripConv(e))
					if !ok {
						good = false
						break
					}
					errOf(pc)
				}
				if !good {
					continue
				}
				for _, in2 := range v.Block().Instrs {
					if ph2, ok := in2.(*ssa.Phi); ok && isErrorType(ph2.Type()) {
						lp.err = ph2
						errVals[ph2] = true
						for _, e := range ph2.Edges {
							errVals[stripConv(e)] = true
						}
					}
				}
			default:
				continue
			}
			if lp.err == nil {
				continue
			}
			for _, bb := range fn.Blocks {
				ifi, ok := bb.Instrs[len(bb.Instrs)-1].(*ssa.If)
				if !ok {
					continue
				}
				cond := ifi.Cond
				for {
					if u, isNot := cond.(*ssa.UnOp); isNot && u.Op == token.NOT {
						cond = u.X
						continue
					}
					break
				}
				bo, ok := cond.(*ssa.BinOp)
				if !ok || (bo.Op != token.EQL && bo.Op != token.NEQ) {
					continue
				}
				x, y := bo.X, bo.Y
				if isNilConst(x) {
					x, y = y, x
				}
				if isNilConst(y) && (errVals[x] || errVals[stripConv(x)]) {
					lp.errIfs[ifi] = true
				}
			}
			return lp
		}
	}
	return nil
}
