package main

// E10 — element predicates: for a loop that tests every element of a string,
// slice or array against constants, the set of element values with which the
// loop carries on (the others make it reject), decided by abstract evaluation
// of the loop body over the partition of the element domain induced by the
// constants the body compares with. The shape of the test (comparison chain,
// switch, membership in a constant string, byte or rune iteration) does not
// matter.

import (
	"go/constant"
	"go/token"
	"go/types"
	"sort"
	"strings"
	"unicode"

	"golang.org/x/tools/go/ssa"
)

type ElemPred struct {
	Loop   *RangeLoop
	Domain string // rune | byte
	elems  map[ssa.Value]bool
	p      *Program
	fn     *ssa.Function
	arith  bool
	points []int64
	// outcome cache per element value: +1 carries on, 0 rejects (return false / error / panic), -1 undecided
	cache map[int64]int
	Why   string // why undecided

	// function mode: the test is `strings.IndexFunc(x, F) < 0` (or !ContainsFunc(x, F)): an
	// element passes when F is false for it. Call is the library call, Pred is F.
	Pred *ssa.Function
	Call *ssa.Call

	// FlagStep: values of the loop-carried booleans on entry to the iteration, and of the merges
	// passed on the way
	env  map[*ssa.Phi]bool
	seen map[*ssa.Phi]evalVal
}

// elemPredicateCall finds, in fn, the library call that applies a predicate function to every
// element of a value satisfying over (strings.IndexFunc, strings.ContainsFunc and their bytes
// counterparts), and returns the element predicate "F is false".
func (p *Program) elemPredicateCall(fn *ssa.Function, over func(v ssa.Value) bool) *ElemPred {
	for _, ci := range callsIn(fn) {
		c, ok := ci.(*ssa.Call)
		if !ok || len(c.Call.Args) != 2 {
			continue
		}
		switch calleeName(&c.Call) {
		case "strings.IndexFunc", "strings.ContainsFunc", "bytes.IndexFunc", "bytes.ContainsFunc", "strings.LastIndexFunc", "bytes.LastIndexFunc":
		default:
			continue
		}
		if !over(stripConv(c.Call.Args[0])) {
			continue
		}
		var pred *ssa.Function
		switch f := c.Call.Args[1].(type) {
		case *ssa.Function:
			pred = f
		case *ssa.MakeClosure:
			if len(f.Bindings) == 0 {
				pred, _ = f.Fn.(*ssa.Function)
			}
		}
		if pred == nil || len(pred.Blocks) == 0 || len(pred.Params) != 1 {
			continue
		}
		ep := &ElemPred{p: p, fn: pred, Pred: pred, Call: c, Domain: "rune", elems: map[ssa.Value]bool{pred.Params[0]: true}, cache: map[int64]int{}}
		crit := map[int64]bool{}
		for _, b := range pred.Blocks {
			for _, in := range b.Instrs {
				for _, op := range in.Operands(nil) {
					k, ok := (*op).(*ssa.Const)
					if !ok || k.Value == nil {
						continue
					}
					switch k.Value.Kind() {
					case constant.Int:
						if n, ok := constant.Int64Val(k.Value); ok {
							crit[n] = true
						}
					case constant.String:
						for _, r := range constant.StringVal(k.Value) {
							crit[int64(r)] = true
						}
					}
				}
				if bo, ok := in.(*ssa.BinOp); ok {
					switch bo.Op {
					case token.ADD, token.SUB, token.MUL, token.QUO, token.REM, token.AND, token.OR, token.XOR, token.SHL, token.SHR, token.AND_NOT:
						if ep.dependsOnElem(bo.X, 0) || ep.dependsOnElem(bo.Y, 0) {
							ep.arith = true
						}
					}
				}
			}
		}
		for _, k := range []int64{0, 0x20, 0x7e, 0x7f, 0x80, 0xff, 0x100, 0xfffd, 0x10ffff} {
			crit[k] = true
		}
		pts := map[int64]bool{}
		for k := range crit {
			for _, d := range []int64{-1, 0, 1} {
				pts[k+d] = true
			}
		}
		for k := range pts {
			if ep.inDomain(k) {
				ep.points = append(ep.points, k)
			}
		}
		sort.Slice(ep.points, func(i, j int) bool { return ep.points[i] < ep.points[j] })
		return ep
	}
	return nil
}

// walkPred evaluates the predicate function on element value c: +1 the element passes (F is
// false), 0 it does not, -1 undecided.
func (ep *ElemPred) walkPred(c int64) int {
	var prev *ssa.BasicBlock
	cur := ep.Pred.Blocks[0]
	for steps := 0; steps < 200; steps++ {
		for _, in := range cur.Instrs {
			if _, isStore := in.(*ssa.Store); isStore {
				ep.Why = "the predicate function stores"
				return -1
			}
		}
		switch x := cur.Instrs[len(cur.Instrs)-1].(type) {
		case *ssa.Return:
			if len(x.Results) != 1 {
				return -1
			}
			v, ok := ep.eval(x.Results[0], c, prev, cur, 0)
			if !ok || !v.isBool {
				ep.Why = "the predicate's result is not a function of the element and constants"
				return -1
			}
			if v.b {
				return 0
			}
			return 1
		case *ssa.Jump:
			prev, cur = cur, cur.Succs[0]
		case *ssa.If:
			v, ok := ep.eval(x.Cond, c, prev, cur, 0)
			if !ok || !v.isBool {
				ep.Why = "a branch of the predicate function is not a function of the element and constants"
				return -1
			}
			if v.b {
				prev, cur = cur, cur.Succs[0]
			} else {
				prev, cur = cur, cur.Succs[1]
			}
		default:
			return -1
		}
	}
	return -1
}

// elemPredicate analyses the single loop of fn over a value satisfying over.
func (p *Program) elemPredicate(fn *ssa.Function, over func(v ssa.Value) bool) (*ElemPred, string) {
	var loops []*RangeLoop
	for _, l := range rangeLoops(fn) {
		if over(stripConv(l.Over)) {
			loops = append(loops, l)
		}
	}
	if len(loops) != 1 {
		return nil, "expected exactly one loop over the tested value"
	}
	l := loops[0]
	ep := &ElemPred{Loop: l, p: p, fn: fn, elems: map[ssa.Value]bool{}, cache: map[int64]int{}}
	set := l.blocks()
	inLoop := func(b *ssa.BasicBlock) bool { return set[b] || l.inLoop(b) }
	// element values
	for _, b := range fn.Blocks {
		if !inLoop(b) {
			continue
		}
		for _, in := range b.Instrs {
			switch x := in.(type) {
			case *ssa.Extract:
				if l.Kind == "rangeiter" && x.Tuple == ssa.Value(l.Iter) && x.Index == 2 {
					ep.elems[x] = true
					ep.Domain = "rune"
				}
			case *ssa.UnOp:
				if x.Op == token.MUL {
					if ia, ok := x.X.(*ssa.IndexAddr); ok && ia.Index == l.Index && stripConv(ia.X) == stripConv(l.Over) {
						ep.elems[x] = true
					}
				}
			case *ssa.Index:
				if x.Index == l.Index && stripConv(x.X) == stripConv(l.Over) {
					ep.elems[x] = true
				}
			case *ssa.Lookup:
				if x.Index == l.Index && stripConv(x.X) == stripConv(l.Over) {
					ep.elems[x] = true
				}
			}
		}
	}
	if len(ep.elems) == 0 {
		return nil, "the loop does not read the element"
	}
	if ep.Domain == "" {
		ep.Domain = "byte"
		for v := range ep.elems {
			if bt, ok := v.Type().Underlying().(*types.Basic); !ok || (bt.Kind() != types.Uint8 && bt.Kind() != types.Byte) {
				if ok && (bt.Kind() == types.Int32 || bt.Kind() == types.Rune) {
					ep.Domain = "rune"
				} else {
					return nil, "element type is neither byte nor rune"
				}
			}
		}
	}
	// critical points: constants and the characters of constant strings in the loop
	crit := map[int64]bool{}
	for _, b := range fn.Blocks {
		if !inLoop(b) {
			continue
		}
		for _, in := range b.Instrs {
			for _, op := range in.Operands(nil) {
				c, ok := (*op).(*ssa.Const)
				if !ok || c.Value == nil {
					continue
				}
				switch c.Value.Kind() {
				case constant.Int:
					if n, ok := constant.Int64Val(c.Value); ok {
						crit[n] = true
					}
				case constant.String:
					for _, r := range constant.StringVal(c.Value) {
						crit[int64(r)] = true
					}
				}
			}
			if bo, ok := in.(*ssa.BinOp); ok {
				switch bo.Op {
				case token.ADD, token.SUB, token.MUL, token.QUO, token.REM, token.AND, token.OR, token.XOR, token.SHL, token.SHR, token.AND_NOT:
					if ep.dependsOnElem(bo.X, 0) || ep.dependsOnElem(bo.Y, 0) {
						ep.arith = true
					}
				}
			}
		}
	}
	for _, k := range []int64{0, 0x20, 0x7e, 0x7f, 0x80, 0xff, 0x100, 0xfffd, 0x10ffff} {
		crit[k] = true
	}
	pts := map[int64]bool{}
	for k := range crit {
		for _, d := range []int64{-1, 0, 1} {
			pts[k+d] = true
		}
	}
	for k := range pts {
		if ep.inDomain(k) {
			ep.points = append(ep.points, k)
		}
	}
	sort.Slice(ep.points, func(i, j int) bool { return ep.points[i] < ep.points[j] })
	return ep, ""
}

func (ep *ElemPred) inDomain(c int64) bool {
	if ep.Domain == "byte" {
		return c >= 0 && c <= 255
	}
	return c >= 0 && c <= 0x10ffff && !(c >= 0xd800 && c <= 0xdfff)
}

func (ep *ElemPred) dependsOnElem(v ssa.Value, depth int) bool {
	if depth > 6 {
		return false
	}
	if ep.elems[v] {
		return true
	}
	switch x := v.(type) {
	case *ssa.Convert:
		return ep.dependsOnElem(x.X, depth+1)
	case *ssa.ChangeType:
		return ep.dependsOnElem(x.X, depth+1)
	case *ssa.BinOp:
		return ep.dependsOnElem(x.X, depth+1) || ep.dependsOnElem(x.Y, depth+1)
	case *ssa.UnOp:
		return ep.dependsOnElem(x.X, depth+1)
	}
	return false
}

// Points: the element values that decide the predicate (every other value of
// the domain behaves like a neighbouring point), or the whole domain when the
// body does arithmetic on the element.
func (ep *ElemPred) Points() []int64 {
	if !ep.arith {
		return ep.points
	}
	var out []int64
	max := int64(255)
	if ep.Domain == "rune" {
		max = 0x10ffff
	}
	for c := int64(0); c <= max; c++ {
		if ep.inDomain(c) {
			out = append(out, c)
		}
	}
	return out
}

type evalVal struct {
	isBool bool
	b      bool
	n      int64
	s      string
	isStr  bool
}

// Carries reports whether the loop goes on to the next element when the
// current one has value c; decided=false if the body does something the
// evaluator does not model.
func (ep *ElemPred) Carries(c int64) (carries bool, decided bool) {
	if r, ok := ep.cache[c]; ok {
		return r == 1, r >= 0
	}
	var res int
	if ep.Pred != nil {
		res = ep.walkPred(c)
	} else {
		res = ep.walk(c)
	}
	ep.cache[c] = res
	return res == 1, res >= 0
}

func (ep *ElemPred) walk(c int64) int {
	l := ep.Loop
	prev := l.Header
	cur := l.Body
	set := l.blocks()
	for steps := 0; steps < 200; steps++ {
		if cur == l.Header {
			return 1
		}
		if !set[cur] && !l.inLoop(cur) {
			// left the loop without returning: a break
			ep.Why = "the loop is left by a break"
			return -1
		}
		last := cur.Instrs[len(cur.Instrs)-1]
		for _, in := range cur.Instrs {
			if ep.p.callNoReturnCached(in) {
				return 0
			}
			switch x := in.(type) {
			case *ssa.Store:
				_ = x
				ep.Why = "the loop body stores"
				return -1
			}
		}
		switch x := last.(type) {
		case *ssa.Return:
			rs := resultsOf(x)
			if len(rs) == 0 {
				ep.Why = "bare return in the loop"
				return -1
			}
			lastRes := rs[len(rs)-1]
			if k, ok := lastRes.(*ssa.Const); ok {
				if k.Value == nil { // nil error
					ep.Why = "success return inside the loop"
					return -1
				}
				if k.Value.Kind() == constant.Bool {
					if constant.BoolVal(k.Value) {
						ep.Why = "return true inside the loop"
						return -1
					}
					return 0
				}
			}
			if ep.p.definitelyNonNil(lastRes, 0) {
				return 0
			}
			ep.Why = "a return in the loop whose result is not a constant"
			return -1
		case *ssa.Panic:
			return 0
		case *ssa.Jump:
			prev, cur = cur, cur.Succs[0]
		case *ssa.If:
			v, ok := ep.eval(x.Cond, c, prev, cur, 0)
			if !ok || !v.isBool {
				if ep.Why == "" {
					ep.Why = "a branch condition in the loop is not a function of the element and constants"
				}
				return -1
			}
			if v.b {
				prev, cur = cur, cur.Succs[0]
			} else {
				prev, cur = cur, cur.Succs[1]
			}
		default:
			ep.Why = "unexpected block end"
			return -1
		}
	}
	ep.Why = "evaluation did not terminate"
	return -1
}

func truncTo(n int64, t types.Type) int64 {
	bt, ok := t.Underlying().(*types.Basic)
	if !ok {
		return n
	}
	switch bt.Kind() {
	case types.Uint8:
		return int64(uint8(n))
	case types.Int8:
		return int64(int8(n))
	case types.Uint16:
		return int64(uint16(n))
	case types.Int16:
		return int64(int16(n))
	case types.Uint32:
		return int64(uint32(n))
	case types.Int32:
		return int64(int32(n))
	}
	return n
}

func (ep *ElemPred) eval(v ssa.Value, c int64, prev, cur *ssa.BasicBlock, depth int) (evalVal, bool) {
	if depth > 12 {
		return evalVal{}, false
	}
	if ep.elems[v] {
		return evalVal{n: c}, true
	}
	switch x := v.(type) {
	case *ssa.Const:
		if x.Value == nil {
			return evalVal{}, false
		}
		switch x.Value.Kind() {
		case constant.Bool:
			return evalVal{isBool: true, b: constant.BoolVal(x.Value)}, true
		case constant.Int:
			n, ok := constant.Int64Val(x.Value)
			return evalVal{n: n}, ok
		case constant.String:
			return evalVal{isStr: true, s: constant.StringVal(x.Value)}, true
		}
	case *ssa.Convert:
		a, ok := ep.eval(x.X, c, prev, cur, depth+1)
		if !ok || a.isBool {
			return evalVal{}, false
		}
		if a.isStr {
			return a, true
		}
		return evalVal{n: truncTo(a.n, x.Type())}, true
	case *ssa.ChangeType:
		return ep.eval(x.X, c, prev, cur, depth+1)
	case *ssa.UnOp:
		a, ok := ep.eval(x.X, c, prev, cur, depth+1)
		if !ok {
			return evalVal{}, false
		}
		switch x.Op {
		case token.NOT:
			return evalVal{isBool: true, b: !a.b}, a.isBool
		case token.SUB:
			return evalVal{n: truncTo(-a.n, x.Type())}, !a.isBool
		}
	case *ssa.Phi:
		if b, ok := ep.env[x]; ok {
			return evalVal{isBool: true, b: b}, true
		}
		if val, ok := ep.seen[x]; ok {
			return val, true
		}
		// the operand of the edge actually taken
		if x.Block() == cur {
			for i, pb := range cur.Preds {
				if pb == prev {
					return ep.eval(x.Edges[i], c, prev, cur, depth+1)
				}
			}
		}
		return evalVal{}, false
	case *ssa.BinOp:
		a, ok1 := ep.eval(x.X, c, prev, cur, depth+1)
		b, ok2 := ep.eval(x.Y, c, prev, cur, depth+1)
		if !ok1 || !ok2 || a.isStr || b.isStr {
			return evalVal{}, false
		}
		if a.isBool != b.isBool {
			return evalVal{}, false
		}
		if a.isBool {
			switch x.Op {
			case token.EQL:
				return evalVal{isBool: true, b: a.b == b.b}, true
			case token.NEQ:
				return evalVal{isBool: true, b: a.b != b.b}, true
			}
			return evalVal{}, false
		}
		switch x.Op {
		case token.EQL:
			return evalVal{isBool: true, b: a.n == b.n}, true
		case token.NEQ:
			return evalVal{isBool: true, b: a.n != b.n}, true
		case token.LSS:
			return evalVal{isBool: true, b: a.n < b.n}, true
		case token.LEQ:
			return evalVal{isBool: true, b: a.n <= b.n}, true
		case token.GTR:
			return evalVal{isBool: true, b: a.n > b.n}, true
		case token.GEQ:
			return evalVal{isBool: true, b: a.n >= b.n}, true
		case token.ADD:
			return evalVal{n: truncTo(a.n+b.n, x.Type())}, true
		case token.SUB:
			return evalVal{n: truncTo(a.n-b.n, x.Type())}, true
		case token.AND:
			return evalVal{n: a.n & b.n}, true
		case token.OR:
			return evalVal{n: a.n | b.n}, true
		case token.XOR:
			return evalVal{n: truncTo(a.n^b.n, x.Type())}, true
		}
	case *ssa.Call:
		name := calleeName(&x.Call)
		var args []evalVal
		for _, a := range x.Call.Args {
			av, ok := ep.eval(a, c, prev, cur, depth+1)
			if !ok {
				return evalVal{}, false
			}
			args = append(args, av)
		}
		switch name {
		case "strings.ContainsRune":
			if len(args) == 2 && args[0].isStr {
				return evalVal{isBool: true, b: strings.ContainsRune(args[0].s, rune(args[1].n))}, true
			}
		case "strings.IndexRune":
			if len(args) == 2 && args[0].isStr {
				return evalVal{n: int64(strings.IndexRune(args[0].s, rune(args[1].n)))}, true
			}
		case "strings.IndexByte":
			if len(args) == 2 && args[0].isStr {
				return evalVal{n: int64(strings.IndexByte(args[0].s, byte(args[1].n)))}, true
			}
		case "unicode.IsUpper":
			return evalVal{isBool: true, b: unicode.IsUpper(rune(args[0].n))}, len(args) == 1
		case "unicode.IsLower":
			return evalVal{isBool: true, b: unicode.IsLower(rune(args[0].n))}, len(args) == 1
		case "unicode.IsDigit":
			return evalVal{isBool: true, b: unicode.IsDigit(rune(args[0].n))}, len(args) == 1
		case "unicode.IsLetter":
			return evalVal{isBool: true, b: unicode.IsLetter(rune(args[0].n))}, len(args) == 1
		}
	}
	return evalVal{}, false
}

// Equals decides whether the set of element values the loop carries on with
// is exactly want; ok=false when undecided. On a difference it returns a
// witness value.
func (ep *ElemPred) Equals(want func(c int64) bool, extra []int64) (equal bool, ok bool, witness int64) {
	pts := ep.Points()
	if !ep.arith {
		m := map[int64]bool{}
		for _, k := range pts {
			m[k] = true
		}
		for _, k := range extra {
			for _, d := range []int64{-1, 0, 1} {
				if ep.inDomain(k+d) && !m[k+d] {
					m[k+d] = true
					pts = append(pts, k+d)
				}
			}
		}
	}
	for _, c := range pts {
		got, decided := ep.Carries(c)
		if !decided {
			return false, false, c
		}
		if got != want(c) {
			return false, true, c
		}
	}
	return true, true, 0
}

// FlagStep runs one iteration of the loop with element value c and the given values of
// loop-carried booleans (merges at the loop header): the values they carry into the next
// iteration. outcome: 1 the loop goes on, 0 the element is rejected (error return, panic),
// -1 undecided.
func (ep *ElemPred) FlagStep(c int64, env map[*ssa.Phi]bool) (map[*ssa.Phi]bool, int) {
	l := ep.Loop
	ep.env, ep.seen = env, map[*ssa.Phi]evalVal{}
	defer func() { ep.env, ep.seen = nil, nil }()
	prev, cur := l.Header, l.Body
	set := l.blocks()
	for steps := 0; steps < 200; steps++ {
		if cur == l.Header {
			out := map[*ssa.Phi]bool{}
			for ph := range env {
				k := -1
				for i, pb := range l.Header.Preds {
					if pb == prev {
						k = i
					}
				}
				if k < 0 {
					return nil, -1
				}
				v, ok := ep.eval(ph.Edges[k], c, nil, nil, 0)
				if !ok || !v.isBool {
					return nil, -1
				}
				out[ph] = v.b
			}
			return out, 1
		}
		if !set[cur] && !l.inLoop(cur) {
			return nil, -1
		}
		// the merges at the top of this block, for the edge taken
		for _, in := range cur.Instrs {
			ph, ok := in.(*ssa.Phi)
			if !ok {
				break
			}
			for i, pb := range cur.Preds {
				if pb == prev && i < len(ph.Edges) {
					if v, ok := ep.eval(ph.Edges[i], c, prev, cur, 0); ok {
						ep.seen[ph] = v
					}
				}
			}
		}
		for _, in := range cur.Instrs {
			if ep.p.callNoReturnCached(in) {
				return nil, 0
			}
		}
		switch x := cur.Instrs[len(cur.Instrs)-1].(type) {
		case *ssa.Return:
			rs := resultsOf(x)
			if len(rs) > 0 && ep.p.definitelyNonNil(rs[len(rs)-1], 0) {
				return nil, 0
			}
			return nil, -1
		case *ssa.Panic:
			return nil, 0
		case *ssa.Jump:
			prev, cur = cur, cur.Succs[0]
		case *ssa.If:
			v, ok := ep.eval(x.Cond, c, prev, cur, 0)
			if !ok || !v.isBool {
				return nil, -1
			}
			if v.b {
				prev, cur = cur, cur.Succs[0]
			} else {
				prev, cur = cur, cur.Succs[1]
			}
		default:
			return nil, -1
		}
	}
	return nil, -1
}
