package main

import (
	"strings"

	"golang.org/x/tools/go/ssa"
)

func init() {
	register(&PropertyDef{
		ID: "C13",
		Explanation: "Error discipline decided for every call site of the library packages (age, agessh, armor, plugin, internal/*): (R13.1) no error result is dropped — each is returned (possibly wrapped), branched on, stored in a sticky field or handed to a recorder; the exceptions are one named symbol each in spec/allow_dropped.json with a reason; " +
			"(R13.2) stream.Writer stores a failed flush in w.err on every path before returning it, and Write/Close test w.err on entry (the reader-side equivalents are R02.6, R08.4, R07.5); " +
			"(R13.3) io.EOF is produced at exactly the two documented places, and a source-read error that is returned raw from a Read path is dominated by err != io.EOF; (R13.4) the close/footer/flush errors of armor and format writers reach the caller (instances of R13.1 named explicitly).",
		NotDecided:  "that the bytes the destination accepted form a valid file whenever all calls report success (value property); writers are assumed to obey the io.Writer contract.",
		Assumptions: []string{"bytes.Buffer, strings.Builder and hash.Hash writes never fail", "io.ReadAll never returns io.EOF"},
		Technique:   "static analysis: error-flow classification of every error-returning call (E5) with a named allow-list, CFG must-pass-through for sticky failure, who-may-produce list for io.EOF",
		Run:         runC13,
	})
}

// source-read functions whose error may be io.EOF
var sourceReads = map[string]bool{
	"io.ReadFull":                  true,
	"io.ReadAtLeast":               true,
	"(*bufio.Reader).ReadBytes":    true,
	"(*bufio.Reader).ReadString":   true,
	"(*bufio.Reader).Peek":         true,
	"(*bufio.Reader).Read":         true,
	"invoke (io.Reader).Read":      true,
}

func runC13(p *Program, r *Result) {
	r.Rule("R13.1", "no error result is dropped in the library packages", 300)
	checkNoDroppedErrors(p, r, libPkgs)

	r.Rule("R13.5", "deferred closures do not overwrite the error being returned; source errors stay reachable through %w", 5)
	checkDeferredOverwrite(p, r, libPkgs)
	checkSourceErrorsWrapped(p, r, libPkgs)

	r.Rule("R13.2", "a failed stream.Writer keeps failing", 3)
	if write, flush, cls := r.anchor(pkgStream, "Writer", "Write"), r.anchor(pkgStream, "Writer", "flushChunk"), r.anchor(pkgStream, "Writer", "Close"); write != nil && flush != nil && cls != nil {
		wtb := p.TB(write)
		for i, c := range callsTo(write, flush.String()) {
			var start []Loc
			for _, b := range write.Blocks {
				for k := range b.Succs {
					if _, isIf := b.Instrs[len(b.Instrs)-1].(*ssa.If); !isIf {
						continue
					}
					fe := wtb.FactsOnEdge(b, k)
					last := fe[len(fe)-1]
					if last.Kind == "cmp" && last.Op == "!=" && last.Y.Op == "Nil" && last.X.V == c.Value() {
						start = append(start, blockStart(b.Succs[k]))
					}
				}
			}
			if len(start) == 0 {
				r.Bad(write.String(), callKey("flushChunk", i)+":sticky", r.pos(c), "the flush error is not branched on")
				continue
			}
			bad := p.MustPass(start, isReturn, func(in ssa.Instruction) bool {
				st, ok := in.(*ssa.Store)
				if !ok || st.Val != c.Value() {
					return false
				}
				fa, ok := st.Addr.(*ssa.FieldAddr)
				return ok && fieldName(fa.X.Type(), fa.Field) == "err"
			})
			r.Check(len(bad) == 0, write.String(), callKey("flushChunk", i)+":sticky", r.pos(c), "the flush error is stored in w.err before it is returned", "a failed flush is returned without being remembered in w.err: a later Write/Close would continue after a write error")
		}
		// Close stores the flush result directly
		ctb := p.TB(cls)
		okc := false
		for _, fs := range p.fieldStores(pkgStream+".Writer", "err") {
			if fs.Fn == cls && short(ctb.Term(fs.Store.Val).String()) == "(*stream.Writer).flushChunk(Recv, true)" {
				okc = true
			}
		}
		r.Check(okc, cls.String(), "flushChunk:sticky", "", "w.err = w.flushChunk(last)", "Close does not remember the final flush error in w.err")
		// the entry tests are R06.6(f); repeated here for the writer only
		for _, fn := range []*ssa.Function{write, cls} {
			ftb := p.TB(fn)
			entry := fn.Blocks[0]
			ifi, isIf := entry.Instrs[len(entry.Instrs)-1].(*ssa.If)
			ok := false
			if isIf {
				a := ftb.atomOf(Guard{If: ifi, Cond: ifi.Cond, Pol: true})
				if a.Kind == "cmp" && a.Op == "!=" && a.Y.Op == "Nil" && short(a.X.String()) == "Field(Recv.err)" {
					// the true edge returns that error
					for _, in := range entry.Succs[0].Instrs {
						if ret, isRet := in.(*ssa.Return); isRet {
							ei := errorResultIndex(fn.Signature)
							ok = short(ftb.Term(ret.Results[ei]).String()) == "Field(Recv.err)"
						}
					}
				}
			}
			r.Check(ok, fn.String(), "entry:sticky", "", "first action: if w.err != nil { return w.err }", "the method does not start by returning the remembered error")
		}
	}

	r.Rule("R13.3", "a source error never turns into a clean end of stream", 4)
	{
		// productions of io.EOF in the library
		n := 0
		for _, fn := range p.Funcs {
			if !inPkg(fn, libPkgs...) {
				continue
			}
			tb := p.TB(fn)
			ei := errorResultIndex(fn.Signature)
			for _, ret := range returnsOf(fn) {
				if ei < 0 {
					continue
				}
				if short(tb.Term(resultsOf(ret)[ei]).String()) == "io.EOF" {
					n++
					okp := strings.HasSuffix(fn.String(), "armoredReader).Read$2") // drainTrailing
					r.Check(okp, fn.String(), "produce:io.EOF", r.pos(ret), "armor: drainTrailing after the footer", "io.EOF is produced here; the documented producers are armor's drainTrailing and stream.Reader.Read's probe branch")
				}
			}
			for _, b := range fn.Blocks {
				for _, in := range b.Instrs {
					if st, ok := in.(*ssa.Store); ok && short(tb.Term(st.Val).String()) == "io.EOF" {
						if _, isIdx := st.Addr.(*ssa.IndexAddr); isIdx {
							continue
						}
						n++
						okp := fn.String() == "(*"+pkgStream+".Reader).Read"
						r.Check(okp, fn.String(), "produce:io.EOF", r.pos(st), "stream: after the final chunk and the probe (R02.4)", "io.EOF is stored here; the documented producers are armor's drainTrailing and stream.Reader.Read's probe branch")
					}
				}
			}
		}
		// raw returns of source-read errors on Read paths
		readFns := []*ssa.Function{}
		for _, spec := range [][3]string{{pkgStream, "Reader", "Read"}, {pkgStream, "Reader", "readChunk"}, {pkgArmor, "armoredReader", "Read"}} {
			if f := r.anchor(spec[0], spec[1], spec[2]); f != nil {
				readFns = append(readFns, f)
				readFns = append(readFns, AnonFuncs(f)...)
			}
		}
		for _, fn := range readFns {
			tb := p.TB(fn)
			ei := errorResultIndex(fn.Signature)
			if ei < 0 {
				continue
			}
			for _, c := range callsIn(fn) {
				name := tb.resolvedCalleeName(c.Common())
				if !sourceReads[name] {
					continue
				}
				for i, ret := range returnsOf(fn) {
					t := tb.Term(resultsOf(ret)[ei])
					if t.Op != "Ext" || t.Args[0].V != c.Value() {
						continue
					}
					facts := tb.FactsAt(ret.Block())
					_, notEOF := findFact(facts, func(a Atom) bool {
						return a.Kind == "cmp" && a.Op == "!=" && short(a.Y.String()) == "io.EOF" && a.X.Op == "Ext" && a.X.Args[0].V == c.Value()
					})
					r.Check(notEOF, fn.String(), "raw-return:"+short(name)+"#"+itoa(i), r.pos(ret), "returned raw only under err != io.EOF", "the error of "+short(name)+" is returned unchanged on a path where it may be io.EOF: a truncated or failing source would look like a clean end of stream")
				}
			}
		}
	}
}
