package main

import (
	"strings"

	"golang.org/x/tools/go/ssa"
)

func init() {
	register(&PropertyDef{
		ID: "C13",
		Explanation: "Error discipline decided for every call site of the library packages (age, agessh, armor, plugin, internal/*): (R13.1) no error result is dropped — each is returned (possibly wrapped), branched on, stored in a sticky field or handed to a recorder; the exceptions are one named symbol each in spec/allow_dropped.json with a reason; " +
			"(R13.2) stream.Writer stores a failed flush in w.err on every path before returning it, and Write/Close test w.err on entry (the reader-side equivalents are R02.6, R08.4, R07.5); " +
			"(R13.3) io.EOF is produced at exactly the two documented places, and a source-read error that is returned raw from a Read path is dominated by err != io.EOF; (R13.4) the close/footer/flush errors of armor and format writers reach the caller (instances of R13.1 named explicitly). (R13.10) no go statement in age, internal/stream, internal/format, armor.",
		NotDecided:  "that the bytes the destination accepted form a valid file whenever all calls report success (value property); writers are assumed to obey the io.Writer contract.",
		Assumptions: []string{"bytes.Buffer, strings.Builder and hash.Hash writes never fail", "io.ReadAll never returns io.EOF"},
		Technique:   "static analysis: error-flow classification of every error-returning call (E5) with a named allow-list, CFG must-pass-through for sticky failure, who-may-produce list for io.EOF",
		Run:         runC13,
	})
}

// source-read functions whose error may be io.EOF
var sourceReads = map[string]bool{
	"io.ReadFull":                true,
	"io.ReadAtLeast":             true,
	"(*bufio.Reader).ReadBytes":  true,
	"(*bufio.Reader).ReadString": true,
	"(*bufio.Reader).ReadSlice":  true,
	"(*bufio.Reader).ReadLine":   true,
	"(*bufio.Reader).Peek":       true,
	"(*bufio.Reader).Read":       true,
	"invoke (io.Reader).Read":    true,
}

func runC13(p *Program, r *Result) {
	r.Rule("R13.1", "no error result is dropped in the library packages", 300)
	checkNoDroppedErrors(p, r, libPkgs)

	r.Rule("R13.5", "deferred closures do not overwrite the error being returned; source errors stay reachable through %w", 5)
	checkDeferredOverwrite(p, r, libPkgs)
	checkSourceErrorsWrapped(p, r, libPkgs)

	r.Rule("R13.2", "a failed stream.Writer keeps failing", 3)
	if write, flush, cls := r.anchor(pkgStream, "Writer", "Write"), r.anchor(pkgStream, "Writer", "flushChunk"), r.anchor(pkgStream, "Writer", "Close"); write != nil && flush != nil && cls != nil {
		wtb := p.TB(write)
		for i, c := range callsTo(write, flush.String()) {
			var start []Loc
			for _, b := range write.Blocks {
				for k := range b.Succs {
					if _, isIf := b.Instrs[len(b.Instrs)-1].(*ssa.If); !isIf {
						continue
					}
					fe := wtb.FactsOnEdge(b, k)
					last := fe[len(fe)-1]
					if last.Kind == "cmp" && last.Op == "!=" && last.Y.Op == "Nil" && last.X.V == c.Value() {
						start = append(start, blockStart(b.Succs[k]))
					}
				}
			}
			if len(start) == 0 {
				r.Bad(write.String(), callKey("flushChunk", i)+":sticky", r.pos(c), "the flush error is not branched on")
				continue
			}
			bad := p.MustPass(start, isReturn, func(in ssa.Instruction) bool {
				st, ok := in.(*ssa.Store)
				if !ok || st.Val != c.Value() {
					return false
				}
				fa, ok := st.Addr.(*ssa.FieldAddr)
				return ok && fieldName(fa.X.Type(), fa.Field) == "err"
			})
			if len(bad) > 0 && latchesOwnError(p, flush) {
				bad = nil // flushChunk records its failure in w.err itself
			}
			r.Check(len(bad) == 0, write.String(), callKey("flushChunk", i)+":sticky", r.pos(c), "the flush error is stored in w.err before it is returned", "a failed flush is returned without being remembered in w.err: a later Write/Close would continue after a write error")
		}
		// Close stores the flush result directly
		ctb := p.TB(cls)
		okc := false
		for _, fs := range p.fieldStores(pkgStream+".Writer", "err") {
			if fs.Fn == cls && short(ctb.Term(fs.Store.Val).String()) == "(*stream.Writer).flushChunk(Recv, true)" {
				okc = true
			}
		}
		if !okc {
			// stored on the error edge (`if err := w.flushChunk(last); err != nil { w.err = err; ... }`)
			// or by flushChunk itself
			for _, fs := range p.fieldStores(pkgStream+".Writer", "err") {
				if fs.Fn == cls && strings.HasPrefix(short(ctb.Term(fs.Store.Val).String()), "(*stream.Writer).flushChunk(Recv, true)") {
					okc = true
				}
			}
			if latchesOwnError(p, flush) {
				okc = true
			}
		}
		r.Check(okc, cls.String(), "flushChunk:sticky", "", "w.err = w.flushChunk(last)", "Close does not remember the final flush error in w.err")
		// the entry tests are R06.6(f); repeated here for the writer only
		for _, fn := range []*ssa.Function{write, cls} {
			ftb := p.TB(fn)
			// the test of the remembered error comes before anything is done: it may be preceded by
			// other refusals (an "already closed" flag), not by calls or stores
			ok := false
			for _, blk := range fn.Blocks {
				ifi, isIf := blk.Instrs[len(blk.Instrs)-1].(*ssa.If)
				if !isIf {
					continue
				}
				a := ftb.atomOf(Guard{If: ifi, Cond: ifi.Cond, Pol: true})
				if !(a.Kind == "cmp" && a.Op == "!=" && a.Y.Op == "Nil" && strings.HasPrefix(short(a.X.String()), "Field(Recv.err")) {
					continue
				}
				returnsIt := false
				for _, in := range blk.Succs[0].Instrs {
					if ret, isRet := in.(*ssa.Return); isRet {
						ei := errorResultIndex(fn.Signature)
						returnsIt = strings.HasPrefix(short(ftb.Term(ret.Results[ei]).String()), "Field(Recv.err")
					}
				}
				if !returnsIt {
					continue
				}
				quiet := true
				vis := p.Reach([]Loc{blockStart(fn.Blocks[0])}, func(in ssa.Instruction) bool { return in == ssa.Instruction(ifi) })
				for in := range vis {
					switch x := in.(type) {
					case *ssa.Store:
						quiet = false
					case ssa.CallInstruction:
						if n := calleeName(x.Common()); !strings.HasPrefix(n, "builtin len") {
							quiet = false
						}
					}
				}
				if quiet {
					ok = true
				}
			}
			r.Check(ok, fn.String(), "entry:sticky", "", "first action: if w.err != nil { return w.err }", "the method does not start by returning the remembered error")
		}
	}

	r.Rule("R13.6", "a reader that fails leaves no decoded data pending (a failed stream keeps failing)", 2)
	for _, spec := range [][3]string{{pkgStream, "Reader", "Read"}, {pkgArmor, "armoredReader", "Read"}} {
		if f := r.anchor(spec[0], spec[1], spec[2]); f != nil {
			checkNoPendingDataOnError(p, r, f, 0)
		}
	}

	r.Rule("R13.8", "an error result that is looked at is looked at on every path to a return", 1)
	checkErrorsExaminedOnEveryPath(p, r, libPkgs)

	r.Rule("R13.10", "the library writes and reads in the caller's goroutine: no go statement in age, internal/stream, internal/format, armor (an error of a write made in the background has to be collected on every way the foreground can end, or it is lost)", 1)
	{
		n := 0
		for _, fn := range p.Funcs {
			if !inPkg(fn, pkgAge, pkgStream, pkgFormat, pkgArmor) {
				continue
			}
			for _, b := range fn.Blocks {
				for _, in := range b.Instrs {
					if g, isGo := in.(*ssa.Go); isGo {
						n++
						r.Bad(fn.String(), "background:"+short(calleeName(g.Common())), r.pos(in), "work is handed to a goroutine: its failure reaches the caller only if every later Write and Close waits for it and looks at its error")
					}
				}
			}
		}
		if n == 0 {
			r.OK(pkgStream, "background:none", "", "no go statement in the four packages")
		}
	}
	r.Rule("R13.9", "a refusal is an error: no zero-valued return whose error is a merge that can be nil", 1)
	checkNoSilentRefusal(p, r, libPkgs)

	r.Rule("R13.7", "every error a reader returns is remembered, so that the next Read fails as well", 4)
	for _, spec := range [][3]string{{pkgStream, "Reader", "Read"}, {pkgArmor, "armoredReader", "Read"}} {
		if f := r.anchor(spec[0], spec[1], spec[2]); f != nil {
			checkReaderLatch(p, r, f)
		}
	}

	r.Rule("R13.3", "a source error never turns into a clean end of stream", 4)
	{
		// productions of io.EOF in the library
		n := 0
		for _, fn := range p.Funcs {
			if !inPkg(fn, libPkgs...) {
				continue
			}
			if fn.Parent() != nil {
				continue // closures are visited with their parent
			}
			for i, pr := range p.producersOf(fn, isEOFValue) {
				switch pr.Kind {
				case "arg":
					if n := calleeName(pr.At.(ssa.CallInstruction).Common()); n == "errors.Is" || strings.HasPrefix(n, "fmt.") {
						continue // comparisons and messages do not produce an end of stream
					}
				case "store":
					if _, isIdx := pr.At.(*ssa.Store).Addr.(*ssa.IndexAddr); isIdx {
						continue
					}
				}
				n++
				switch fn.String() {
				case "(*" + pkgArmor + ".armoredReader).Read":
					// the armor reader's end-of-armor drain: only once reading the rest has succeeded
					_, readOK := findFact(pr.Facts, func(a Atom) bool {
						return a.Kind == "cmp" && a.Op == "==" && a.Y.Op == "Nil" && strings.HasPrefix(short(a.X.String()), "io.ReadAll(")
					})
					r.Check(readOK, fn.String(), "produce:io.EOF#"+itoa(i), r.pos(pr.At), "armor: the end-of-armor drain, after io.ReadAll of the rest succeeded", "io.EOF is produced on a path where reading the rest of the armor has not succeeded")
				case "(*" + pkgStream + ".Reader).Read":
					// after the final chunk, when the probe read itself reported io.EOF (R02.4)
					_, probe := findFact(pr.Facts, func(a Atom) bool {
						return a.Kind == "cmp" && a.Op == "==" && short(a.Y.String()) == "io.EOF" && strings.HasPrefix(short(a.X.String()), "invoke (io.Reader).Read(Field(Recv.src), ")
					})
					r.Check(probe, fn.String(), "produce:io.EOF#"+itoa(i), r.pos(pr.At), "stream: after the final chunk and the probe (R02.4)", "io.EOF is produced on a path where the probe read did not report io.EOF")
				default:
					r.Bad(fn.String(), "produce:io.EOF#"+itoa(i), r.pos(pr.At), "io.EOF is produced here; the documented producers are armor's end-of-armor drain and stream.Reader.Read's probe branch")
				}
			}
		}
		// raw returns of source-read errors on Read paths
		readFns := []*ssa.Function{}
		for _, spec := range [][3]string{{pkgStream, "Reader", "Read"}, {pkgStream, "Reader", "readChunk"}, {pkgArmor, "armoredReader", "Read"}} {
			if f := r.anchor(spec[0], spec[1], spec[2]); f != nil {
				readFns = append(readFns, f)
				readFns = append(readFns, AnonFuncs(f)...)
			}
		}
		for _, fn := range readFns {
			tb := p.TB(fn)
			ei := errorResultIndex(fn.Signature)
			if ei < 0 {
				continue
			}
			for _, c := range callsIn(fn) {
				name := tb.resolvedCalleeName(c.Common())
				if !sourceReads[name] {
					continue
				}
				for i, ret := range returnsOf(fn) {
					t := tb.Term(resultsOf(ret)[ei])
					if t.Op != "Ext" || t.Args[0].V != c.Value() {
						continue
					}
					facts := tb.FactsAt(ret.Block())
					_, notEOF := findFact(facts, func(a Atom) bool {
						return a.Kind == "cmp" && a.Op == "!=" && short(a.Y.String()) == "io.EOF" && a.X.Op == "Ext" && a.X.Args[0].V == c.Value()
					})
					r.Check(notEOF, fn.String(), "raw-return:"+short(name)+"#"+itoa(i), r.pos(ret), "returned raw only under err != io.EOF", "the error of "+short(name)+" is returned unchanged on a path where it may be io.EOF: a truncated or failing source would look like a clean end of stream")
				}
			}
		}
	}
}

// checkNoPendingDataOnError (R13.6, shared with C08): the readers serve
// pending decoded data before they look at the sticky error. A Read that
// returns an error must therefore not leave data pending: on every path to an
// error return, no store of a possibly non-empty slice to the `unread` field
// may have happened since entry. Otherwise the caller's next Read gets bytes
// with a nil error after the stream has already failed (and, if the store was
// the pre-decode `r.unread = r.buf[:]`, bytes that are not plaintext at all).
func checkNoPendingDataOnError(p *Program, r *Result, fn *ssa.Function, depth int) bool {
	tb := p.TB(fn)
	ei := errorResultIndex(fn.Signature)
	if ei < 0 {
		return true
	}
	paths, ok := p.EnumPaths(fn.Blocks[0])
	if !ok {
		r.Unk(fn.String(), "pending-on-error", "", "too many paths")
		return false
	}
	clean := true
	reported := map[ssa.Instruction]bool{}
	for _, pa := range paths {
		if pa.End != "return" {
			continue
		}
		ret := pa.Last.(*ssa.Return)
		ev := pa.Resolve(resultsOf(ret)[ei])
		if isNilConst(ev) {
			continue
		}
		// the entry path that serves pending data and the sticky-error return are fine
		atoms := tb.pathAtoms(pa)
		var dirty ssa.Instruction
		for _, in := range pa.Instrs() {
			switch x := in.(type) {
			case *ssa.Store:
				fa, isFA := x.Addr.(*ssa.FieldAddr)
				if !isFA || fieldName(fa.X.Type(), fa.Field) != "unread" {
					continue
				}
				if emptySliceValue(x.Val) {
					dirty = nil
				} else {
					dirty = in
				}
			case *ssa.Call:
				callee := staticCallee(&x.Call)
				if callee == nil || callee.Blocks == nil || depth > 0 {
					continue
				}
				if eff := p.EffectsOf(callee); eff != nil && eff.AllFields[structTypeName(fn.Params[0].Type())+".unread"] {
					// the callee stores unread: fine if it does so only on its success paths
					// and this path took its error edge
					if _, failed := errFactFor(atoms, x, false); failed && checkNoPendingDataOnError(p, NewResult("", p), callee, depth+1) {
						continue
					}
					if _, okc := errFactFor(atoms, x, true); okc {
						dirty = in
					}
				}
			}
		}
		if dirty != nil {
			clean = false
			if !reported[ret] {
				reported[ret] = true
				r.Bad(fn.String(), "pending-on-error#"+itoa(retIndex(fn, ret)), r.pos(ret), "this error return is reachable after `unread` was set at "+r.pos(dirty)+" (path "+pa.String()+"): the next Read would hand out those bytes with a nil error although the stream has failed")
			}
		}
	}
	if clean {
		r.OK(fn.String(), "pending-on-error", "", "no error return is reachable with data left pending in `unread`")
	}
	return clean
}

func emptySliceValue(v ssa.Value) bool {
	if isNilConst(v) {
		return true
	}
	if sl, ok := v.(*ssa.Slice); ok && sl.High != nil {
		if k, ok := constInt(sl.High); ok && k == 0 {
			return true
		}
	}
	return false
}

// checkReaderLatch: every return of a Read method that may carry an error
// returns the remembered error field, or a value stored to it on every path
// before the return, or the result of a method of the same receiver that
// stores to the field on every path to each of its returns.
func checkReaderLatch(p *Program, r *Result, fn *ssa.Function) {
	tb := p.TB(fn)
	ei := errorResultIndex(fn.Signature)
	isErrStore := func(in ssa.Instruction, val ssa.Value) bool {
		st, ok := in.(*ssa.Store)
		if !ok {
			return false
		}
		fa, ok := st.Addr.(*ssa.FieldAddr)
		if !ok || fieldName(fa.X.Type(), fa.Field) != "err" {
			return false
		}
		return val == nil || st.Val == val
	}
	latching := func(m *ssa.Function) bool {
		if m == nil || m.Blocks == nil {
			return false
		}
		bad := p.MustPass([]Loc{blockStart(m.Blocks[0])}, isReturn, func(in ssa.Instruction) bool { return isErrStore(in, nil) })
		return len(bad) == 0
	}
	for i, ret := range returnsOf(fn) {
		ev := resultsOf(ret)[ei]
		if isNilConst(ev) {
			continue
		}
		key := "latch#" + itoa(i)
		t := short(tb.Term(ev).String())
		if t == "Field(Recv.err)" {
			r.OK(fn.String(), key, r.pos(ret), "returns the remembered error")
			continue
		}
		vals := []ssa.Value{ev}
		if ph, ok := ev.(*ssa.Phi); ok {
			vals = ph.Edges
		}
		ok := true
		for _, v := range vals {
			if isNilConst(v) {
				continue
			}
			if c, isCall := v.(*ssa.Call); isCall {
				if m := c.Call.StaticCallee(); m != nil && m.Signature.Recv() != nil && len(c.Call.Args) > 0 && (c.Call.Args[0] == ssa.Value(fn.Params[0]) || tb.Term(c.Call.Args[0]).String() == "Recv") && latching(m) {
					continue
				}
			}
			bad := p.MustPass([]Loc{blockStart(fn.Blocks[0])}, func(in ssa.Instruction) bool { return in == ssa.Instruction(ret) }, func(in ssa.Instruction) bool { return isErrStore(in, v) })
			if len(bad) != 0 {
				ok = false
			}
		}
		r.Check(ok, fn.String(), key, r.pos(ret), "the returned error was stored in the err field first", "the error "+t+" is returned without being remembered in the err field: the next Read would carry on after a failure")
	}
}

// latchesOwnError: on every path of fn (a method of stream.Writer returning an error) that ends in
// a return whose error is not known to be nil, that error has been stored in the receiver's err
// field: the method records its own failure.
func latchesOwnError(p *Program, fn *ssa.Function) bool {
	if fn == nil || len(fn.Blocks) == 0 {
		return false
	}
	ei := errorResultIndex(fn.Signature)
	if ei < 0 {
		return false
	}
	paths, ok := p.EnumPaths(fn.Blocks[0])
	if !ok {
		return false
	}
	n := 0
	for _, pa := range paths {
		if pa.End != "return" {
			continue
		}
		ret := pa.Last.(*ssa.Return)
		ev := stripConv(pa.Resolve(ret.Results[ei]))
		if isNilConst(ev) {
			continue
		}
		if isNil, known := pa.NilOnPath(ev, len(pa.Blocks)); known && isNil {
			continue
		}
		n++
		stored := false
		for _, in := range pa.Instrs() {
			if st, isSt := in.(*ssa.Store); isSt {
				if fa, isFA := st.Addr.(*ssa.FieldAddr); isFA && fieldName(fa.X.Type(), fa.Field) == "err" && stripConv(pa.Resolve(st.Val)) == ev {
					stored = true
				}
			}
		}
		if !stored {
			return false
		}
	}
	return n > 0
}
