package main

import (
	"go/token"
	"strconv"
	"strings"

	"golang.org/x/tools/go/ssa"
)

func init() {
	register(&PropertyDef{
		ID: "C14",
		Explanation: "Panic- and hang-freedom obligations enumerated for every function of the library packages and discharged statically: (R14.2) each index, slice, signed shift and integer division is discharged by a difference-constraint argument from dominating guards, range-loop structure and library contracts (copy, ReadFull, Decode, LastIndex, Split), or is listed in spec/bounds_table.json with a one-line invariant; " +
			"(R14.1) each explicit panic and (R14.3) each unchecked type assertion is a named table entry whose caller-side guards are re-checked; (R14.4) every loop without a bounded counter consumes input and leaves on a read error; (R14.5) the size and whitespace limits are on the path; (R14.6) armor failures keep their type through the layers above; (R14.10 = R10.2) the passphrase identity refuses a header in which an scrypt stanza has company before it derives any key, so a hostile header costs at most one derivation; (R14.7 = R10.3) scrypt.Key is reached only with a work factor that matched the canonical-decimal pattern, parsed without error and is <= the identity's configured maximum; together with R08.4 (typed armor errors) and R07.4 (nothing on error). Every base64 Decode into a caller-sized buffer in the library carries the DecodedLen precondition (R14.5).",
		NotDecided:  "nil dereferences beyond the structure checked here; time and memory bounds as quantities; panics inside external libraries.",
		Assumptions: []string{"library contracts: copy returns <= min(len), io.ReadFull n <= len(buf), base64 Decode n <= len(dst), strings.Split returns at least one element, strings.LastIndex result < len(s)"},
		Technique:   "static analysis: obligation enumeration over go/ssa with a difference-constraint solver fed by dominance guards, loop structure and contracts; tables for invariants",
		Run:         runC14,
	})
}

func runC14(p *Program, r *Result) {
	// "armor failures carry the armor error type": the typed-error rules of the armor reader
	defer func() {
		r.Rule("R14.9", "the armor reader's rules (typed, sticky failures; = C08 R08.3-R08.5)", 0)
		runC08(p, r)
	}()
	table := loadBoundsTable(r)
	used := map[int]bool{}
	r.Rule("R14.2", "index, slice, shift and division obligations", 100)
	r.Rule("R14.1", "explicit panics are table entries with guarded callers", 1)
	r.Rule("R14.3", "unchecked type assertions are table entries", 0) // enumerated by the same pass as R14.2, whose floor covers it
	for _, fn := range p.Funcs {
		if !inPkg(fn, libPkgs...) {
			continue
		}
		r.Saw(fn.String())
		for _, ob := range p.BoundsOf(fn) {
			if ob.Kind == "panic" && writerSide(fn) {
				// the encrypting side is handed the caller's own plaintext and destination, not an
				// encrypted file, a key or plugin output: its internal assertions are outside C14
				continue
			}
			switch ob.Kind {
			case "panic":
				r.cur = "R14.1"
			case "assert":
				r.cur = "R14.3"
			default:
				r.cur = "R14.2"
			}
			if ob.OK {
				r.OK(fn.String(), ob.Desc, r.pos(ob.Instr), ob.How)
				continue
			}
			found := false
			for i, e := range table {
				if e.Func == fn.String() && e.Construct == ob.Desc {
					found = true
					used[i] = true
					if why := checkRequires(p, r, e); why != "" {
						r.Bad(fn.String(), ob.Desc, r.pos(ob.Instr), "table entry's prerequisite no longer holds: "+why)
					} else {
						r.OK(fn.String(), ob.Desc, r.pos(ob.Instr), "table: "+e.Reason, Witness{Kind: "table", Text: e.Reason})
					}
					break
				}
			}
			// an explicit panic of a helper that has been spliced into this function: the entry
			// names the helper, which no longer exists; the message identifies the panic
			if !found && ob.Kind == "panic" {
				for i, e := range table {
					if e.Construct != ob.Desc || len(e.Requires) != 0 || funcNamed(p, e.Func) || pkgOfFull(e.Func) != pkgOfFull(fn.String()) {
						continue
					}
					found = true
					used[i] = true
					r.OK(fn.String(), ob.Desc, r.pos(ob.Instr), "table (entry of "+short(e.Func)+", spliced here): "+e.Reason, Witness{Kind: "table", Text: e.Reason})
					break
				}
				if found {
					continue
				}
			}
			if !found && ob.Kind == "panic" {
				if why, ok := panicExcludedByCallers(p, fn, ob.Instr); ok {
					r.OK(fn.String(), ob.Desc, r.pos(ob.Instr), why)
					continue
				}
			}
			if !found {
				r.Bad(fn.String(), ob.Desc, r.pos(ob.Instr), ob.Detail+" — may panic on hostile input (no guard found, not in bounds_table.json)")
			}
		}
	}
	checkLoops(p, r)
	checkLimits(p, r)
	r.Rule("R14.7", "a passphrase identity derives a key only for a work factor within its configured maximum (= R10.3)", 1)
	if idu := r.anchor(pkgAge, "ScryptIdentity", "unwrap"); idu != nil {
		checkScryptWorkBound(p, r, idu)
	}
	r.Rule("R14.10", "a header costs a passphrase identity at most one key derivation: the only-stanza refusal stands before any work (= R10.2)", 1)
	if idU := r.anchor(pkgAge, "ScryptIdentity", "Unwrap"); idU != nil {
		checkLoneScan(p, r, idU)
	}
	r.Rule("R14.6", "armor failures stay typed through the layers above: source errors are wrapped with %w", 5)
	checkSourceErrorsWrapped(p, r, libPkgs)
	r.Rule("R14.8", "an error of the source (an armor failure among them) leaves every function as itself or wrapped, on every path (= R13.8)", 1)
	checkErrorsExaminedOnEveryPath(p, r, libPkgs)
	for i, e := range table {
		if !used[i] {
			r.cur = "R14.2"
			// an entry that matches no obligation discharges nothing and so cannot hide anything:
			// the construct was rewritten into a form the solver proves, or removed
			r.OK(e.Func, "unused-table-entry:"+e.Construct, "", "bounds_table.json entry matches no open obligation (nothing relies on it)")
		}
	}
}

// checkRequires evaluates the prerequisites of a table entry. Supported:
//
//	fact:<function>|<callee>|<fact>       the guard dominates the first call of callee in function
//	storefact:<function>|<field>|<fact>   every store to the field in function is dominated by the guard
//	retfact:<function>|<fact>             the success return of function is dominated by the guard
//	asciiguard:<function>|<callee>        argument 0 of the first call of callee in function is ASCII-guarded
func checkRequires(p *Program, r *Result, e boundsEntry) string {
	findFn := func(name string) *ssa.Function {
		for _, f := range p.Funcs {
			if f.String() == name {
				return f
			}
		}
		return nil
	}
	for _, req := range e.Requires {
		i := strings.Index(req, ":")
		if i < 0 {
			return "bad prerequisite " + req
		}
		kind, body := req[:i], req[i+1:]
		parts := strings.Split(body, "|")
		fn := findFn(parts[0])
		if fn == nil {
			return "function " + parts[0] + " not found"
		}
		tb := p.TB(fn)
		switch kind {
		case "fact":
			if len(parts) != 3 {
				return "bad prerequisite " + req
			}
			c, err := nthCall(fn, parts[1])
			if err != nil {
				return err.Error()
			}
			ctb := p.TB(c.Parent())
			if _, ok := hasFactShort(ctb.FactsAt(c.Block()), parts[2]); !ok {
				return "guard `" + parts[2] + "` does not dominate " + parts[1] + " in " + parts[0]
			}
		case "storefact":
			if len(parts) != 3 {
				return "bad prerequisite " + req
			}
			n := 0
			for _, b := range fn.Blocks {
				for _, in := range b.Instrs {
					st, ok := in.(*ssa.Store)
					if !ok {
						continue
					}
					fa, ok := st.Addr.(*ssa.FieldAddr)
					if !ok || fieldName(fa.X.Type(), fa.Field) != parts[1] {
						continue
					}
					n++
					if _, ok := hasFactShort(tb.FactsAt(b), parts[2]); !ok {
						return "a store to " + parts[1] + " in " + parts[0] + " is not dominated by `" + parts[2] + "`"
					}
				}
			}
			if n == 0 {
				return "no store to " + parts[1] + " in " + parts[0]
			}
		case "retfact":
			if len(parts) != 2 {
				return "bad prerequisite " + req
			}
			ret, err := successReturn(fn)
			if err != nil {
				return err.Error()
			}
			if _, ok := hasFactShort(tb.FactsAt(ret.Block()), parts[1]); !ok {
				return "the success return of " + parts[0] + " is not dominated by `" + parts[1] + "`"
			}
		case "guardload":
			// guardload:<function>|<callee>|<field>|<const>: the first call of callee is
			// dominated by the branch len(recv.<field>) == const, with no write to the
			// field between the tested load and the call
			if len(parts) != 4 {
				return "bad prerequisite " + req
			}
			c, err := nthCall(fn, parts[1])
			if err != nil {
				return err.Error()
			}
			okg := false
			for _, at := range tb.FactsAt(c.Block()) {
				// normalised atom for the polarity, branch condition for the operands
				if at.Kind != "cmp" || at.Op != "==" || at.If == nil {
					continue
				}
				cond := at.If.Cond
				for {
					if u, isNot := cond.(*ssa.UnOp); isNot && u.Op == token.NOT {
						cond = u.X
						continue
					}
					break
				}
				bo, ok := cond.(*ssa.BinOp)
				if !ok {
					continue
				}
				k, isK := constInt(bo.Y)
				lc, isL := bo.X.(*ssa.Call)
				if !isK || !isL || !isBuiltin(&lc.Call, "len") || strconv.FormatInt(k, 10) != parts[3] {
					continue
				}
				ld, isLd := lc.Call.Args[0].(*ssa.UnOp)
				if !isLd {
					continue
				}
				fa, isFA := ld.X.(*ssa.FieldAddr)
				if !isFA || fieldName(fa.X.Type(), fa.Field) != parts[2] || fa.X != fn.Params[0] {
					continue
				}
				if !tb.fieldWrittenBetween(ld, c.(ssa.Instruction), fieldKey(fa)) {
					okg = true
				}
			}
			if !okg && parts[2] == "unwritten" && parts[3] == "65536" {
				// the same fact as a consequence of the arithmetic in force at the call
				okg, _ = flushGuardByArithmetic(p, fn, c)
			}
			if !okg {
				return "the call of " + parts[1] + " in " + parts[0] + " is not guarded by len(recv." + parts[2] + ") == " + parts[3]
			}
		case "asciiguard":
			if len(parts) != 2 {
				return "bad prerequisite " + req
			}
			c, err := nthCall(fn, parts[1])
			if err != nil {
				return err.Error()
			}
			if p.asciiGuard(fn, c.Common().Args[0], c.(ssa.Instruction)) == nil {
				return "the operand of " + parts[1] + " in " + parts[0] + " is not covered by an all-bytes ASCII guard"
			}
		default:
			return "unknown prerequisite kind " + kind
		}
	}
	return ""
}

// ---------------------------------------------------------------------------
// R14.4 loops

type natLoop struct {
	Header *ssa.BasicBlock
	Blocks map[*ssa.BasicBlock]bool
}

func naturalLoops(fn *ssa.Function) []*natLoop {
	var out []*natLoop
	byHeader := map[*ssa.BasicBlock]*natLoop{}
	for _, b := range fn.Blocks {
		for _, s := range b.Succs {
			if s == b || s.Dominates(b) {
				l := byHeader[s]
				if l == nil {
					l = &natLoop{Header: s, Blocks: map[*ssa.BasicBlock]bool{s: true}}
					byHeader[s] = l
					out = append(out, l)
				}
				work := []*ssa.BasicBlock{b}
				for len(work) > 0 {
					x := work[len(work)-1]
					work = work[:len(work)-1]
					if l.Blocks[x] {
						continue
					}
					l.Blocks[x] = true
					work = append(work, x.Preds...)
				}
			}
		}
	}
	return out
}

// sourceReaders: calls that consume input and report its end as an error.
var sourceReaders = map[string]bool{
	"(*bufio.Reader).ReadBytes":                    true,
	"(*bufio.Reader).ReadString":                   true,
	"(*bufio.Reader).ReadSlice":                    true,
	"(*bufio.Reader).ReadLine":                     true,
	"(*bufio.Reader).Peek":                         true,
	"(*bufio.Scanner).Scan":                        true,
	"io.ReadFull":                                  true,
	"(*" + pkgFormat + ".StanzaReader).ReadStanza": true,
	"(*" + pkgPlugin + ".ClientUI).readStanza":     true,
}

func checkLoops(p *Program, r *Result) {
	r.Rule("R14.4", "every loop is bounded by a counter/range or consumes input and leaves on a read error", 20)
	for _, fn := range p.Funcs {
		if !inPkg(fn, libPkgs...) {
			continue
		}
		tb := p.TB(fn)
		rls := rangeLoops(fn)
		for i, l := range naturalLoops(fn) {
			key := "loop#" + itoa(i)
			pos := r.pos(l.Header.Instrs[len(l.Header.Instrs)-1])
			// (a) range / index loops
			bounded := false
			for _, rl := range rls {
				if rl.Header == l.Header {
					bounded = true
				}
			}
			// (b) monotone counter compared with a constant or a length in the header
			if !bounded {
				if ifi, ok := l.Header.Instrs[len(l.Header.Instrs)-1].(*ssa.If); ok {
					if cmp, ok := ifi.Cond.(*ssa.BinOp); ok {
						for _, side := range []ssa.Value{cmp.X, cmp.Y} {
							if ph, ok := side.(*ssa.Phi); ok && ph.Block() == l.Header && monotone(ph) {
								bounded = true
							}
						}
					}
				}
			}
			// (b') the same with the test anywhere in the body (`for i := n; ; i-- { .. if i == 0 {
			// panic/return/break } }`): a branch on the monotone counter one side of which
			// leaves the loop
			if !bounded {
				for _, in := range l.Header.Instrs {
					ph, isPhi := in.(*ssa.Phi)
					if !isPhi {
						break
					}
					if !monotone(ph) {
						continue
					}
					for b := range l.Blocks {
						ifi, ok := b.Instrs[len(b.Instrs)-1].(*ssa.If)
						if !ok {
							continue
						}
						cmp, ok := ifi.Cond.(*ssa.BinOp)
						if !ok || (cmp.X != ssa.Value(ph) && cmp.Y != ssa.Value(ph)) {
							continue
						}
						other := cmp.Y
						if cmp.Y == ssa.Value(ph) {
							other = cmp.X
						}
						if _, isConst := other.(*ssa.Const); !isConst {
							continue
						}
						if cmp.Op == token.EQL || cmp.Op == token.NEQ {
							// an equality test is only met for sure when the counter moves in steps of one
							unit := true
							for _, e := range ph.Edges {
								if bo, isBo := e.(*ssa.BinOp); isBo && bo.X == ssa.Value(ph) {
									if k, isK := constInt(bo.Y); !isK || k != 1 {
										unit = false
									}
								}
							}
							if !unit {
								continue
							}
						}
						// every iteration passes this test, and one side does not come back
						everyIter := true
						for _, pr := range l.Header.Preds {
							if l.Blocks[pr] && pr != l.Header && !(b == pr || b.Dominates(pr)) {
								everyIter = false
							}
						}
						leaves := false
						for _, su := range b.Succs {
							if !l.Blocks[su] {
								leaves = true
							}
						}
						if everyIter && leaves {
							bounded = true
						}
					}
				}
			}
			if bounded {
				r.OK(fn.String(), key, pos, "bounded: range/index loop or monotone counter against a fixed bound")
				continue
			}
			// (c) input loops: a source read inside whose error edge leaves the loop
			consumes := false
			for b := range l.Blocks {
				for _, in := range b.Instrs {
					c, ok := in.(*ssa.Call)
					if !ok {
						continue
					}
					name := tb.resolvedCalleeName(&c.Call)
					isReader := sourceReaders[name]
					if !isReader {
						// closures of this function that read (armor getLine)
						if callee := staticCallee(&c.Call); callee != nil && callee.Parent() == fn {
							if p.readsSource(callee, 0) {
								isReader = true
							}
						}
						if name == "dynamic" {
							if t := tb.Term(c.Call.Value); t.Op == "Closure" {
								for _, a := range AnonFuncs(fn) {
									if a.String() == t.S {
										if p.readsSource(a, 0) {
											isReader = true
										}
									}
								}
							}
						}
					}
					if !isReader {
						continue
					}
					// error (or false for Scan) edge must leave the loop
					if name == "(*bufio.Scanner).Scan" {
						consumes = true
						continue
					}
					for _, blk := range fn.Blocks {
						for k := range blk.Succs {
							if _, isIf := blk.Instrs[len(blk.Instrs)-1].(*ssa.If); !isIf {
								continue
							}
							fe := tb.FactsOnEdge(blk, k)
							last := fe[len(fe)-1]
							if last.Kind == "cmp" && last.Op == "!=" && last.Y.Op == "Nil" && (last.X.V == ssa.Value(c) || (last.X.Op == "Ext" && last.X.Args[0].V == ssa.Value(c)) || mergesErrorOf(last.X.V, c, 0)) {
								vis := p.Reach([]Loc{blockStart(blk.Succs[k])}, nil)
								if !vis[l.Header.Instrs[0]] {
									consumes = true
								}
							}
						}
					}
				}
			}
			if consumes {
				r.OK(fn.String(), key, pos, "consumes input on every iteration; a read error leaves the loop")
				continue
			}
			// (d) table
			if reason, ok := loopTable[fn.String()]; ok {
				r.OK(fn.String(), key, pos, "table: "+reason, Witness{Kind: "table", Text: reason})
				continue
			}
			r.Bad(fn.String(), key, pos, "loop with no bounded counter that does not consume input with an exit on read error: hostile input (or a source that keeps failing) could keep it spinning")
		}
	}
}

// loopTable: progress loops whose termination is a value argument.
var loopTable = map[string]string{
	"(*" + pkgStream + ".Writer).Write":                      "each iteration copies n >= 1 bytes of the caller's p unless the buffer is full, in which case it is flushed (emptied) first; p shrinks to empty",
	"(*" + pkgFormat + ".WrappedBase64Encoder).writeWrapped": "each iteration writes toWrite >= 1 bytes of p to a bytes.Buffer (which accepts everything); p shrinks to empty",
	pkgBech32 + ".convertBits":                               "inner loop: bits decreases by tobits > 0 until bits < tobits",
}

func monotone(ph *ssa.Phi) bool {
	dir := 0
	nInit := 0
	blk := ph.Block()
	for i, e := range ph.Edges {
		if !blk.Dominates(blk.Preds[i]) {
			// entered from outside the loop: the start value, whatever it is
			nInit++
			continue
		}
		bo, ok := e.(*ssa.BinOp)
		if !ok || bo.X != ssa.Value(ph) {
			return false
		}
		k, isK := constInt(bo.Y)
		if !isK || k <= 0 {
			return false
		}
		d := 0
		switch bo.Op {
		case token.ADD:
			d = 1
		case token.SUB:
			d = -1
		default:
			return false
		}
		if dir != 0 && dir != d {
			return false
		}
		dir = d
	}
	return nInit > 0 && dir != 0
}

// ---------------------------------------------------------------------------
// R14.5 limits and callee preconditions

func checkLimits(p *Program, r *Result) {
	r.Rule("R14.5", "size limits and decoder preconditions are on the path", 5)
	// key-file readers are size-limited
	for _, s := range []Site{
		{Key: "ParseIdentities.scanner", Pkg: pkgAge, Func: "ParseIdentities", What: "arg:bufio.NewScanner:0"},
		{Key: "ParseRecipients.scanner", Pkg: pkgAge, Func: "ParseRecipients", What: "arg:bufio.NewScanner:0"},
	} {
		got, pos, _, err := p.Extract(s)
		sub := pkgAge + "." + s.Func
		if err != nil {
			r.Unk(sub, "limit:"+s.Key, "", err.Error())
			continue
		}
		ok := strings.Contains(got, "Limit") && (strings.Contains(got, "16777216") || strings.Contains(got, "16777217"))
		r.Check(ok, sub, "limit:"+s.Key, pos, got, "the key file is scanned without the 16 MiB limit: "+got)
	}
	// armor: leading whitespace bounded, trailing drain bounded
	if rd := r.anchor(pkgArmor, "armoredReader", "Read"); rd != nil {
		tb := p.TB(rd)
		// the bound is 1024 bytes; a named constant for it, local or at package level, must say so
		// (the uses of the value are checked below whatever it is called)
		maxWS, ok := p.LocalConst(pkgArmor, rd, "maxWhitespace")
		if !ok {
			maxWS, ok = p.ConstValue(pkgArmor, "maxWhitespace")
		}
		if !ok {
			maxWS, ok = "1024", true
		}
		r.Check(ok && maxWS == "1024", rd.String(), "limit:maxWhitespace", "", "maxWhitespace = 1024", "armor whitespace bound missing or changed: "+maxWS)
		// the blank-line continue is under removedWhitespace <= max
		okLead := false
		for _, l := range naturalLoops(rd) {
			for _, pr := range l.Header.Preds {
				if !l.Blocks[pr] || pr == l.Header {
					continue
				}
				facts := tb.FactsAt(pr)
				for k, s := range pr.Succs {
					if s == l.Header {
						if _, isIf := pr.Instrs[len(pr.Instrs)-1].(*ssa.If); isIf {
							facts = tb.FactsOnEdge(pr, k)
						}
					}
				}
				if _, f := findFact(facts, func(a Atom) bool {
					if a.Kind != "cmp" || a.Op != "<=" || a.Y.S != maxWS {
						return false
					}
					// the running total: a loop-carried sum of line lengths
					hasPhi, hasLen := false, false
					a.X.Walk(func(t *Term) {
						if t.Op == "Phi" {
							hasPhi = true
						}
						if isLenTerm(t) {
							hasLen = true
						}
					})
					// every skipped line must count for at least one byte (its line ending), or
					// empty lines would never reach the bound
					return hasPhi && hasLen && a.X.Op == "Bin" && a.X.S == "+" && additiveConst(a.X) >= 1
				}); f {
					okLead = true
				}
			}
		}
		r.Check(okLead, rd.String(), "limit:leading", "", "blank lines are skipped only while the running total is <= maxWhitespace", "the leading-whitespace loop continues without a bound on a running total that grows by at least one per line: unbounded blank input would be read forever")
		// trailing: ReadAll of a LimitReader
		okTrail := false
		for _, a := range append([]*ssa.Function{rd}, AnonFuncs(rd)...) {
			atb := p.TB(a)
			for _, c := range callsTo(a, "io.ReadAll") {
				t := short(atb.Term(c.Common().Args[0]).String())
				if strings.HasPrefix(t, "io.LimitReader(") && strings.HasSuffix(t, ", "+maxWS+")") {
					okTrail = true
				}
			}
		}
		r.Check(okTrail, rd.String(), "limit:trailing", "", "trailing data read through io.LimitReader(·, maxWhitespace)", "trailing data is read without a bound")
		// base64 Decode precondition: len(dst) >= DecodedLen(len(src))
		okDec := false
		pos := ""
		for _, c := range callsTo(rd, "(*encoding/base64.Encoding).Decode") {
			pos = r.pos(c)
			dst := c.Common().Args[1]
			src := c.Common().Args[2]
			s := tb.system(c.(ssa.Instruction))
			ds, dc, _ := tb.lenSym(dst)
			ss, sc, _ := tb.lenSym(src)
			// find the largest K with len(src) <= K implied, try the column constant
			cols, _ := p.ConstValue(pkgFormat, "ColumnsPerLine")
			k, _ := strconv.ParseInt(cols, 10, 64)
			need := k / 4 * 3
			if s.implied(ss, "0", k-sc) && s.implied("0", ds, dc-need) {
				okDec = true
			}
		}
		r.Check(okDec, rd.String(), "precondition:base64.Decode", pos, "len(line) <= ColumnsPerLine and the destination holds DecodedLen(ColumnsPerLine) bytes", "base64 Decode may be called with a destination shorter than DecodedLen(len(line)): it panics on an over-long armored line")
	}
	// the same precondition wherever else the library decodes into a buffer of its own
	armorRead := p.Func(pkgArmor, "armoredReader", "Read")
	for _, fn := range p.Funcs {
		if fn.Pkg == nil || !isLibPkg(fn.Pkg.Pkg.Path()) || (armorRead != nil && (fn == armorRead || fn.Parent() == armorRead)) {
			continue
		}
		ftb := p.TB(fn)
		for i, c := range callsTo(fn, "(*encoding/base64.Encoding).Decode") {
			dst := c.Common().Args[1]
			src := c.Common().Args[2]
			sys := ftb.system(c.(ssa.Instruction))
			ds, dc, _ := ftb.lenSym(dst)
			ss, sc, _ := ftb.lenSym(src)
			ok := false
			if ds == "0" {
				k := (dc*4 + 3) / 3 // the longest input whose decoding fits dc bytes
				ok = sys.implied(ss, "0", k-sc)
			}
			if ph, isPhi := dst.(*ssa.Phi); !ok && isPhi {
				// the reader's own buffer where the decoded length fits it, a buffer made of the
				// decoded length otherwise
				srcT := ftb.Term(src).String()
				all := len(ph.Edges) > 0
				for i, e := range ph.Edges {
					if strings.Contains(ftb.Term(e).String(), "DecodedLen(") && strings.Contains(ftb.Term(e).String(), "len("+srcT+")") {
						continue
					}
					pr := ph.Block().Preds[i]
					facts := ftb.FactsAt(pr)
					for k, sc := range pr.Succs {
						if sc == ph.Block() {
							if _, isIf := pr.Instrs[len(pr.Instrs)-1].(*ssa.If); isIf {
								facts = ftb.FactsOnEdge(pr, k)
							}
						}
					}
					_, fits := findFact(facts, func(a Atom) bool {
						return a.Kind == "cmp" && a.Op == "<=" && a.X != nil && strings.Contains(a.X.String(), "DecodedLen(") && strings.Contains(a.X.String(), "len("+srcT+")")
					})
					all = all && fits
				}
				ok = all
			} else if !ok && strings.Contains(ftb.Term(dst).String(), "DecodedLen(len("+ftb.Term(src).String()+"))") {
				ok = true
			}
			r.Check(ok, fn.String(), "precondition:base64.Decode#"+itoa(i), r.pos(c), "the destination holds DecodedLen(len(src)) bytes", "base64 Decode is handed a destination ("+short(ftb.Term(dst).String())+") not known to hold DecodedLen(len(src)) bytes for every input: it panics on an over-long field of a hostile file")
		}
	}
}

// additiveConst: the sum of the integer constants of a tree of additions.
func additiveConst(t *Term) int64 {
	if n, ok := intConst(t); ok {
		return n
	}
	if t.Op == "Bin" && t.S == "+" && len(t.Args) == 2 {
		return additiveConst(t.Args[0]) + additiveConst(t.Args[1])
	}
	return 0
}

// panicExcludedByCallers: an assertion on the length of a parameter of an unexported function
// that no call site can trip: the panic sits behind a test of len(P_k) against a constant, and
// every caller (there is at least one, all static) passes a buffer whose length is a constant
// for which the test is false.
func panicExcludedByCallers(p *Program, fn *ssa.Function, at ssa.Instruction) (string, bool) {
	if fn.Object() == nil || fn.Object().Exported() || fn.Parent() != nil {
		return "", false
	}
	callers := p.Callers(fn)
	if len(callers) == 0 || p.CG().AddrTaken[fn] {
		return "", false
	}
	tb := p.TB(fn)
	for _, a := range tb.FactsAt(at.Block()) {
		if a.Kind != "cmp" || !isLenTerm(a.X) || len(a.X.Args) != 1 {
			continue
		}
		prm, ok := a.X.Args[0].V.(*ssa.Parameter)
		if !ok {
			continue
		}
		k, isK := intConst(a.Y)
		if !isK {
			continue
		}
		idx := -1
		for i, q := range fn.Params {
			if q == prm {
				idx = i
			}
		}
		if idx < 0 {
			continue
		}
		all := true
		for _, e := range callers {
			c, ok := e.Site.(ssa.CallInstruction)
			if !ok || e.Kind != "static" || idx >= len(c.Common().Args) {
				all = false
				break
			}
			ctb := p.TB(e.Caller)
			sym, n, _ := ctb.lenSym(c.Common().Args[idx])
			if sym != "0" {
				// a fresh buffer of constant size
				t := ctb.Term(c.Common().Args[idx])
				if (t.Op == "Rand" || t.Op == "ReadN" || t.Op == "Zero" || t.Op == "Copy") && len(t.Args) > 0 {
					if m, ok := intConst(t.Args[len(t.Args)-1]); ok {
						sym, n = "0", m
					}
				}
			}
			if sym != "0" {
				all = false
				break
			}
			holds := false
			switch a.Op {
			case "==":
				holds = n == k
			case "!=":
				holds = n != k
			case "<=":
				holds = n <= k
			case ">=":
				holds = n >= k
			case "<":
				holds = n < k
			case ">":
				holds = n > k
			}
			if holds {
				all = false
				break
			}
		}
		if all {
			return "assertion on " + short(a.String()) + ": every one of the " + itoa(len(callers)) + " call sites passes a buffer of a constant length for which it is false", true
		}
	}
	return "", false
}

// pkgOfFull: the package path of a full function name ("pkg.F", "(*pkg.T).M").
func pkgOfFull(full string) string {
	full = strings.TrimPrefix(strings.TrimPrefix(full, "("), "*")
	if i := strings.Index(full, ")"); i >= 0 {
		full = full[:i]
	}
	if i := strings.LastIndex(full, "."); i >= 0 {
		return full[:i]
	}
	return full
}

// funcNamed: a function with this full name exists in the analysed program.
func funcNamed(p *Program, full string) bool {
	for _, f := range p.Funcs {
		if f.String() == full {
			return true
		}
	}
	return false
}

// writerSide: functions that only ever see what the encrypting caller supplies (plaintext, the
// destination, recipients built by the program) — the STREAM writer, the armor writer, Encrypt.
func writerSide(fn *ssa.Function) bool {
	root := fn
	for root.Parent() != nil {
		root = root.Parent()
	}
	switch root.String() {
	case pkgAge + ".Encrypt", pkgStream + ".NewWriter", pkgArmor + ".NewWriter":
		return true
	}
	if recv := root.Signature.Recv(); recv != nil {
		switch strings.TrimPrefix(typeString(recv.Type()), "*") {
		case pkgStream + ".Writer", pkgArmor + ".armoredWriter":
			return true
		}
	}
	return false
}

func isLibPkg(path string) bool {
	for _, l := range libPkgs {
		if l == path {
			return true
		}
	}
	return false
}

// readsSource: the function takes input from the source itself or through module functions it
// calls (a getLine closure around a readLine method).
func (p *Program) readsSource(fn *ssa.Function, depth int) bool {
	if fn == nil || fn.Blocks == nil || depth > 3 {
		return false
	}
	tb := p.TB(fn)
	for _, cc := range callsIn(fn) {
		if sourceReaders[tb.resolvedCalleeName(cc.Common())] {
			return true
		}
		if callee := cc.Common().StaticCallee(); callee != nil && callee != fn {
			if callee.Pkg != nil && fn.Pkg != nil && callee.Pkg == fn.Pkg && p.readsSource(callee, depth+1) {
				return true
			}
		}
	}
	return false
}

// mergesErrorOf: v is a merge one of whose incoming values (through further merges) is the error
// result of call c — the shape a spliced line-reading helper leaves (`if err != nil` on the
// merged error of its exits).
func mergesErrorOf(v ssa.Value, c *ssa.Call, depth int) bool {
	ph, ok := v.(*ssa.Phi)
	if !ok || depth > 3 {
		return false
	}
	for _, e := range ph.Edges {
		if ex, isEx := e.(*ssa.Extract); isEx && ex.Tuple == ssa.Value(c) && isErrorType(ex.Type()) {
			return true
		}
		if mergesErrorOf(e, c, depth+1) {
			return true
		}
	}
	return false
}
