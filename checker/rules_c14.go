package main

import (
	"strings"

	"golang.org/x/tools/go/ssa"
)

func init() {
	register(&PropertyDef{
		ID: "C14",
		Explanation: "Panic- and hang-freedom obligations enumerated for every function of the library packages and discharged statically: (R14.2) each index, slice, signed shift and integer division is discharged by a difference-constraint argument from dominating guards, range-loop structure and library contracts (copy, ReadFull, Decode, LastIndex, Split), or is listed in spec/bounds_table.json with a one-line invariant; " +
			"(R14.1) each explicit panic and (R14.3) each unchecked type assertion is a named table entry whose caller-side guards are re-checked; (R14.4) every loop without a bounded counter consumes input and leaves on a read error; (R14.5) the size and whitespace limits are on the path; together with R10.3 (bounded scrypt work), R08.4 (typed armor errors) and R07.4 (nothing on error).",
		NotDecided:  "nil dereferences beyond the structure checked here; time and memory bounds as quantities; panics inside external libraries.",
		Assumptions: []string{"library contracts: copy returns <= min(len), io.ReadFull n <= len(buf), base64 Decode n <= len(dst), strings.Split returns at least one element, strings.LastIndex result < len(s)"},
		Technique:   "static analysis: obligation enumeration over go/ssa with a difference-constraint solver fed by dominance guards, loop structure and contracts; tables for invariants",
		Run:         runC14,
	})
}

func runC14(p *Program, r *Result) {
	table := loadBoundsTable(r)
	used := map[int]bool{}
	r.Rule("R14.2", "index, slice, shift and division obligations", 100)
	r.Rule("R14.1", "explicit panics are table entries with guarded callers", 7)
	r.Rule("R14.3", "unchecked type assertions are table entries", 3)
	for _, fn := range p.Funcs {
		if !inPkg(fn, libPkgs...) {
			continue
		}
		r.Saw(fn.String())
		for _, ob := range p.BoundsOf(fn) {
			switch ob.Kind {
			case "panic":
				r.cur = "R14.1"
			case "assert":
				r.cur = "R14.3"
			default:
				r.cur = "R14.2"
			}
			if ob.OK {
				r.OK(fn.String(), ob.Desc, r.pos(ob.Instr), ob.How)
				continue
			}
			found := false
			for i, e := range table {
				if e.Func == fn.String() && e.Construct == ob.Desc {
					found = true
					used[i] = true
					if why := checkRequires(p, r, e); why != "" {
						r.Bad(fn.String(), ob.Desc, r.pos(ob.Instr), "table entry's prerequisite no longer holds: "+why)
					} else {
						r.OK(fn.String(), ob.Desc, r.pos(ob.Instr), "table: "+e.Reason, Witness{Kind: "table", Text: e.Reason})
					}
					break
				}
			}
			if !found {
				r.Bad(fn.String(), ob.Desc, r.pos(ob.Instr), ob.Detail+" — may panic on hostile input (no guard found, not in bounds_table.json)")
			}
		}
	}
	for i, e := range table {
		if !used[i] {
			r.cur = "R14.2"
			r.Unk(e.Func, "stale-table-entry:"+e.Construct, "", "bounds_table.json lists a construct that no longer exists: the table must follow the code")
		}
	}
}

// checkRequires evaluates the prerequisites of a table entry. Supported:
//
//	fact:<function>|<callee>|<fact>       the guard dominates the first call of callee in function
//	storefact:<function>|<field>|<fact>   every store to the field in function is dominated by the guard
//	retfact:<function>|<fact>             the success return of function is dominated by the guard
//	asciiguard:<function>|<callee>        argument 0 of the first call of callee in function is ASCII-guarded
func checkRequires(p *Program, r *Result, e boundsEntry) string {
	findFn := func(name string) *ssa.Function {
		for _, f := range p.Funcs {
			if f.String() == name {
				return f
			}
		}
		return nil
	}
	for _, req := range e.Requires {
		i := strings.Index(req, ":")
		if i < 0 {
			return "bad prerequisite " + req
		}
		kind, body := req[:i], req[i+1:]
		parts := strings.Split(body, "|")
		fn := findFn(parts[0])
		if fn == nil {
			return "function " + parts[0] + " not found"
		}
		tb := p.TB(fn)
		switch kind {
		case "fact":
			if len(parts) != 3 {
				return "bad prerequisite " + req
			}
			c, err := nthCall(fn, parts[1])
			if err != nil {
				return err.Error()
			}
			ctb := p.TB(c.Parent())
			if _, ok := hasFactShort(ctb.FactsAt(c.Block()), parts[2]); !ok {
				return "guard `" + parts[2] + "` does not dominate " + parts[1] + " in " + parts[0]
			}
		case "storefact":
			if len(parts) != 3 {
				return "bad prerequisite " + req
			}
			n := 0
			for _, b := range fn.Blocks {
				for _, in := range b.Instrs {
					st, ok := in.(*ssa.Store)
					if !ok {
						continue
					}
					fa, ok := st.Addr.(*ssa.FieldAddr)
					if !ok || fieldName(fa.X.Type(), fa.Field) != parts[1] {
						continue
					}
					n++
					if _, ok := hasFactShort(tb.FactsAt(b), parts[2]); !ok {
						return "a store to " + parts[1] + " in " + parts[0] + " is not dominated by `" + parts[2] + "`"
					}
				}
			}
			if n == 0 {
				return "no store to " + parts[1] + " in " + parts[0]
			}
		case "retfact":
			if len(parts) != 2 {
				return "bad prerequisite " + req
			}
			ret, err := successReturn(fn)
			if err != nil {
				return err.Error()
			}
			if _, ok := hasFactShort(tb.FactsAt(ret.Block()), parts[1]); !ok {
				return "the success return of " + parts[0] + " is not dominated by `" + parts[1] + "`"
			}
		case "asciiguard":
			if len(parts) != 2 {
				return "bad prerequisite " + req
			}
			c, err := nthCall(fn, parts[1])
			if err != nil {
				return err.Error()
			}
			if p.asciiGuard(fn, c.Common().Args[0], c.(ssa.Instruction)) == nil {
				return "the operand of " + parts[1] + " in " + parts[0] + " is not covered by an all-bytes ASCII guard"
			}
		default:
			return "unknown prerequisite kind " + kind
		}
	}
	return ""
}
