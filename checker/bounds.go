package main

// E8 — bounds: enumerates the operations that can panic (index, slice,
// unchecked type assertion, integer division, signed shift, explicit panic)
// and tries to discharge each from dominating guards, loop structure and
// library contracts with a small difference-constraint solver.

import (
	"regexp"
	"go/ast"
	"encoding/json"
	"fmt"
	"go/token"
	"go/types"
	"os"
	"path/filepath"
	"strconv"
	"strings"

	"golang.org/x/tools/go/ssa"
)

// ---------------------------------------------------------------------------
// difference constraints:  x - y <= c   (symbol "0" is the constant zero)

type dcons struct {
	x, y string
	c    int64
}

type dsys struct {
	cons []dcons
	neq  []dcons // x - y != c
	// for the linear prover (linsolve.go)
	eqs    []linexp  // expressions equal to 0
	ineqs  []linexp  // expressions <= 0
	copies []copyRel // n = copy(dst, src): n is len(dst) or len(src)
}

type copyRel struct {
	n, dst, src    string
	dstOff, srcOff int64
}

// tighten uses the disequalities: x - y <= c and x - y != c give x - y <= c-1 (and likewise from
// below).
func (s *dsys) tighten() {
	for round := 0; round < 2; round++ {
		for _, n := range s.neq {
			if s.implied(n.x, n.y, n.c) && !s.implied(n.x, n.y, n.c-1) {
				s.add(n.x, n.y, n.c-1)
			}
			if s.implied(n.y, n.x, -n.c) && !s.implied(n.y, n.x, -n.c-1) {
				s.add(n.y, n.x, -n.c-1)
			}
		}
	}
}

func (s *dsys) add(x, y string, c int64) {
	if x == y {
		return
	}
	s.cons = append(s.cons, dcons{x, y, c})
}

// le: x <= y + c
func (s *dsys) le(x, y string, c int64) { s.add(x, y, c) }

// implied: does the system imply x - y <= c ?  (Bellman-Ford shortest path
// from y to x in the constraint graph: edge y->x with weight c for x-y<=c)
// bound: the least c with x - y <= c that the constraints imply (ok=false: none).
func (s *dsys) bound(x, y string) (int64, bool) {
	if x == y {
		return 0, true
	}
	dist := map[string]int64{y: 0}
	n := map[string]bool{x: true, y: true}
	for _, k := range s.cons {
		n[k.x], n[k.y] = true, true
	}
	for i := 0; i < len(n)+1; i++ {
		changed := false
		for _, k := range s.cons {
			d, ok := dist[k.y]
			if !ok {
				continue
			}
			if old, ok := dist[k.x]; !ok || d+k.c < old {
				dist[k.x] = d + k.c
				changed = true
			}
		}
		if !changed {
			break
		}
	}
	d, ok := dist[x]
	return d, ok
}

func (s *dsys) implied(x, y string, c int64) bool {
	if x == y {
		return c >= 0
	}
	dist := map[string]int64{y: 0}
	nodes := map[string]bool{x: true, y: true}
	for _, k := range s.cons {
		nodes[k.x], nodes[k.y] = true, true
	}
	for i := 0; i < len(nodes)+1; i++ {
		changed := false
		for _, k := range s.cons {
			d, ok := dist[k.y]
			if !ok {
				continue
			}
			nd := d + k.c
			if old, ok := dist[k.x]; !ok || nd < old {
				dist[k.x] = nd
				changed = true
			}
		}
		if !changed {
			break
		}
	}
	d, ok := dist[x]
	return ok && d <= c
}

// linear decomposes an integer term into (symbol, offset); constants give
// symbol "0".
func linear(t *Term) (string, int64) {
	if t == nil {
		return "?", 0
	}
	if n, ok := intConst(t); ok {
		return "0", n
	}
	if t.Op == "Bin" && len(t.Args) == 2 {
		switch t.S {
		case "+":
			if n, ok := intConst(t.Args[1]); ok {
				s, o := linear(t.Args[0])
				return s, o + n
			}
			if n, ok := intConst(t.Args[0]); ok {
				s, o := linear(t.Args[1])
				return s, o + n
			}
		case "-":
			if n, ok := intConst(t.Args[1]); ok {
				s, o := linear(t.Args[0])
				return s, o - n
			}
		}
	}
	k := t.Key()
	if t.Op == "Bin" && len(t.Args) == 2 && (t.S == "+" || t.S == "-" || t.S == "*") {
		symDefs.Store(k, t) // the linear prover takes it apart
	}
	return k, 0
}

// addAtom translates one guard atom into constraints.
func (s *dsys) addAtom(a Atom) {
	if a.Kind != "cmp" {
		return
	}
	xs, xo := linear(a.X)
	ys, yo := linear(a.Y)
	// X + xo  op  Y + yo
	switch a.Op {
	case "<=":
		s.le(xs, ys, yo-xo)
	case "<":
		s.le(xs, ys, yo-xo-1)
	case ">=":
		s.le(ys, xs, xo-yo)
	case ">":
		s.le(ys, xs, xo-yo-1)
	case "==":
		s.le(xs, ys, yo-xo)
		s.le(ys, xs, xo-yo)
	case "!=":
		// len(x) != 0  =>  len(x) >= 1
		if isLenTerm(a.X) && ys == "0" && yo == 0 && xo == 0 {
			s.le("0", xs, -1)
		}
		if xs != ys {
			s.neq = append(s.neq, dcons{xs, ys, yo - xo})
		}
	}
}

// ---------------------------------------------------------------------------

type BoundOb struct {
	Fn     *ssa.Function
	Instr  ssa.Instruction
	Kind   string
	Desc   string // position-free construct descriptor
	OK     bool
	How    string
	Detail string
	Goals  []string
}

type boundsEntry struct {
	Func      string   `json:"func"`
	Construct string   `json:"construct"`
	Reason    string   `json:"reason"`
	Requires  []string `json:"requires,omitempty"`
}

func loadBoundsTable(r *Result) []boundsEntry {
	b, err := os.ReadFile(filepath.Join(verifDir, "spec", "bounds_table.json"))
	if err != nil {
		r.add(Machinery, "spec/bounds_table.json", "load", "", err.Error())
		return nil
	}
	var out []boundsEntry
	if err := json.Unmarshal(b, &out); err != nil {
		r.add(Machinery, "spec/bounds_table.json", "load", "", err.Error())
		return nil
	}
	return out
}

// lenSym gives the symbol for len(v) or, for arrays, its constant.
func (tb *TB) lenSym(v ssa.Value) (string, int64, bool) {
	t := v.Type().Underlying()
	if p, ok := t.(*types.Pointer); ok {
		t = p.Elem().Underlying()
	}
	if a, ok := t.(*types.Array); ok {
		return "0", a.Len(), true
	}
	if t := tb.Term(v); t.Op == "List" {
		return "0", int64(len(t.Args)), true
	}
	// make([]T, n): the length is n
	if ms, ok := stripConv(v).(*ssa.MakeSlice); ok {
		sy, off := linear(tb.Term(ms.Len))
		return sy, off, false
	}
	// arr[a:] of a fixed-size array (a field, a local)
	if sl, ok := stripConv(v).(*ssa.Slice); ok && sl.High == nil {
		if pt, isP := sl.X.Type().Underlying().(*types.Pointer); isP {
			if at, isA := pt.Elem().Underlying().(*types.Array); isA {
				lo := int64(0)
				okLo := sl.Low == nil
				if sl.Low != nil {
					lo, okLo = constInt(sl.Low)
				}
				if okLo && lo >= 0 && lo <= at.Len() {
					return "0", at.Len() - lo, true
				}
			}
		}
	}
	// x[a:b] with constant a and b (make([]T, 0, n) is new [n]T [:0])
	if sl, ok := stripConv(v).(*ssa.Slice); ok && sl.High != nil {
		if hi, ok := constInt(sl.High); ok {
			lo := int64(0)
			okLo := sl.Low == nil
			if sl.Low != nil {
				lo, okLo = constInt(sl.Low)
			}
			if okLo && hi >= lo {
				return "0", hi - lo, false
			}
		}
	}
	return "len(" + tb.Term(v).Key() + ")", 0, false
}

// capSym: for slicing a slice the upper limit is cap, which we only know to
// be >= len; for strings and arrays it is len.
func isSliceType(v ssa.Value) bool {
	_, ok := v.Type().Underlying().(*types.Slice)
	return ok
}

// system builds the constraint system in force at an instruction.
func (tb *TB) system(in ssa.Instruction) *dsys {
	return tb.buildSystem(tb.FactsAt(in.Block()), in.Block(), in, true)
}

// buildSystem: the constraints implied by the given facts plus the axioms about the values of
// the function. With withPhi, a merge of integers (or of slices, for their lengths) is bounded
// by whatever bounds each of its incoming values under the facts of its own edge.
func (tb *TB) buildSystem(facts []Atom, at *ssa.BasicBlock, before ssa.Instruction, withPhi bool) *dsys {
	s := &dsys{}
	fn := at.Parent()
	var phis []*ssa.Phi
	for _, a := range facts {
		s.addAtom(a)
		// strings.HasPrefix(x, "const") holds: x is at least that long
		if a.Kind == "call" && a.Pol && a.Call != nil && (a.Call.S == "strings.HasPrefix" || a.Call.S == "strings.HasSuffix" || a.Call.S == "bytes.HasPrefix") && len(a.Call.Args) == 2 {
			if c := a.Call.Args[1]; c.Op == "Const" && strings.HasPrefix(c.S, "\"") {
				if lit, err := strconv.Unquote(c.S); err == nil {
					s.le("0", "len("+a.Call.Args[0].Key()+")", -int64(len(lit)))
				}
			}
		}
	}
	// the error result of a call is known to be nil at this point
	errNil := func(call ssa.Value) bool {
		_, ok := findFact(facts, func(a Atom) bool {
			return a.Kind == "cmp" && a.Op == "==" && a.Y != nil && a.Y.Op == "Nil" && a.X != nil && a.X.Op == "Ext" && len(a.X.Args) == 1 && a.X.Args[0].V == call && a.X.V != nil && isErrorType(a.X.V.Type())
		})
		return ok
	}
	// axioms about values of the function
	seenLen := map[string]bool{}
	addLenAxiom := func(sym string) {
		if !seenLen[sym] {
			seenLen[sym] = true
			s.le("0", sym, 0) // len >= 0
		}
	}
	// what an instruction guarantees about its result holds once it has been executed: only
	// instructions that come before the point of interest on every path contribute (an
	// axiom about the result of the very operation whose precondition is being proved, or of
	// a later one, would assume what is to be shown)
	domCache := map[*ssa.BasicBlock]bool{}
	dominates := func(b *ssa.BasicBlock) bool {
		if b == at || b.Dominates(at) {
			return true
		}
		v, ok := domCache[b]
		if !ok {
			v = tb.p.feasDominates(b, at) // over the edges that can be taken
			domCache[b] = v
		}
		return v
	}
	executed := func(x ssa.Instruction) bool {
		if _, isPhi := x.(*ssa.Phi); isPhi {
			return dominates(x.Block())
		}
		if x.Block() == at {
			if before == nil {
				return true
			}
			for _, y := range at.Instrs {
				if y == before {
					return false
				}
				if y == x {
					return true
				}
			}
			return false
		}
		return dominates(x.Block())
	}
	for _, b := range fn.Blocks {
		for _, x := range b.Instrs {
			if !executed(x) {
				continue
			}
			switch c := x.(type) {
			case *ssa.Call:
				name := tb.resolvedCalleeName(&c.Call)
				sym := tb.Term(c).Key()
				switch name {
				case "builtin len", "builtin cap":
					addLenAxiom(sym)
				case "builtin append":
					// len(append(a, b...)) == len(a) + len(b)
					if len(c.Call.Args) == 2 {
						res := "len(" + sym + ")"
						as, ac, _ := tb.lenSym(c.Call.Args[0])
						bs, bc, _ := tb.lenSym(c.Call.Args[1])
						e := symLin(res).addScaled(symLin(as), -1).addScaled(symLin(bs), -1)
						e.k -= ac + bc
						s.eqs = append(s.eqs, e)
						s.le(as, res, -ac) // len(a) <= len(result)
						if bs == "0" {
							s.le(res, as, ac+bc)
							s.le(as, res, -(ac + bc))
						}
					}
				case "builtin copy":
					s.le("0", sym, 0)
					ds, dc, _ := tb.lenSym(c.Call.Args[0])
					ss, sc, _ := tb.lenSym(c.Call.Args[1])
					s.le(sym, ds, dc)
					s.le(sym, ss, sc)
					s.copies = append(s.copies, copyRel{n: sym, dst: ds, dstOff: dc, src: ss, srcOff: sc})
				case "invoke (crypto/cipher.AEAD).Seal", "invoke (crypto/cipher.AEAD).Open":
					// the only AEAD of the module is ChaCha20-Poly1305 (16-byte tag):
					// len(Seal(dst, n, pt, ad)) == len(dst) + len(pt) + 16; a successful
					// Open returns len(dst) + len(ct) - 16 bytes, a failed one nil
					if len(c.Call.Args) == 4 {
						res := "len(" + sym + ")"
						if name == "invoke (crypto/cipher.AEAD).Open" {
							res = "len(" + sym + ".0)"
						}
						ds, dc, _ := tb.lenSym(c.Call.Args[0])
						ps, pc, _ := tb.lenSym(c.Call.Args[2])
						s.le("0", res, 0)
						e := symLin(res).addScaled(symLin(ds), -1).addScaled(symLin(ps), -1)
						e.k -= dc + pc
						tag := int64(16)
						if name == "invoke (crypto/cipher.AEAD).Seal" {
							e.k -= tag
							s.eqs = append(s.eqs, e)
							if ds == "0" {
								s.le(res, ps, dc+pc+tag)
								s.le(ps, res, -(dc + pc + tag))
							} else if ps == "0" {
								s.le(res, ds, dc+pc+tag)
								s.le(ds, res, -(dc + pc + tag))
							}
						} else if errNil(c) {
							// a successful Open returns exactly len(dst) + len(ct) - 16 bytes
							e.k += tag
							s.eqs = append(s.eqs, e)
							if ds == "0" {
								s.le(ps, res, -(dc + pc - tag))
							} else if ps == "0" {
								s.le(ds, res, -(dc + pc - tag))
							}
							if ds == "0" {
								s.le(res, ps, dc+pc-tag)
							} else if ps == "0" {
								s.le(res, ds, dc+pc-tag)
							}
						} else {
							e.k += tag
							s.ineqs = append(s.ineqs, e) // <= (nil on failure)
							if ds == "0" {
								s.le(res, ps, dc+pc-tag)
							} else if ps == "0" {
								s.le(res, ds, dc+pc-tag)
							}
						}
					}
				case "golang.org/x/crypto/curve25519.X25519":
					// a successful X25519 returns a 32-byte point
					if errNil(c) {
						s.le("len("+sym+".0)", "0", 32)
						s.le("0", "len("+sym+".0)", -32)
					}
				case "golang.org/x/crypto/scrypt.Key":
					// a successful scrypt.Key returns keyLen bytes
					if len(c.Call.Args) == 6 && errNil(c) {
						if k, ok := constInt(c.Call.Args[5]); ok {
							s.le("len("+sym+".0)", "0", k)
							s.le("0", "len("+sym+".0)", -k)
						}
					}
				case "invoke (crypto/cipher.AEAD).Overhead", "invoke (crypto/cipher.AEAD).NonceSize":
					// every AEAD of the module is made by chacha20poly1305.New (R05 pins the call sites):
					// 16-byte tag, 12-byte nonce
					if tb.p.aeadIsChaCha(c.Call.Value, 0) {
						k := int64(16)
						if strings.HasSuffix(name, "NonceSize") {
							k = 12
						}
						s.le(sym, "0", k)
						s.le("0", sym, -k)
					}
				case "io.ReadFull", "io.ReadAtLeast":
					n := sym + ".0"
					s.le("0", n, 0)
					bs, bc, _ := tb.lenSym(c.Call.Args[1])
					s.le(n, bs, bc)
					// ReadFull returns len(buf) bytes exactly when it returns no error
					if name == "io.ReadFull" && errNil(c) {
						s.le(bs, n, -bc)
					}
				case "(*encoding/base64.Encoding).Decode":
					n := sym + ".0"
					s.le("0", n, 0)
					ds, dc, _ := tb.lenSym(c.Call.Args[1])
					s.le(n, ds, dc)
				case "(*bytes.Buffer).Write", "(*bytes.Buffer).WriteString", "(*strings.Builder).Write", "(*strings.Builder).WriteString":
					// documented: the count is len(p), the error always nil
					n := sym + ".0"
					bs, bc, _ := tb.lenSym(c.Call.Args[len(c.Call.Args)-1])
					s.le(n, bs, bc)
					s.le(bs, n, -bc)
				case "strings.LastIndex", "strings.Index", "strings.IndexByte", "strings.IndexRune", "bytes.IndexByte", "bytes.Index",
					"strings.LastIndexByte", "bytes.LastIndexByte", "strings.IndexFunc", "bytes.IndexFunc", "strings.LastIndexFunc", "bytes.LastIndexFunc",
					"strings.IndexAny", "strings.LastIndexAny", "bytes.IndexAny", "bytes.LastIndexAny", "bytes.LastIndex", "bytes.IndexRune":
					// -1 <= r  and  r + 1 <= len(s) (r < len(s))
					s.le("0", sym, 1)
					ls, lc, _ := tb.lenSym(c.Call.Args[0])
					s.le(sym, ls, lc-1)
				case "strings.ToLower", "strings.ToUpper", "bytes.ToLower", "bytes.ToUpper":
					// case mapping preserves the length only on ASCII input
					if tb.p.asciiGuard(fn, c.Call.Args[0], c) != nil {
						ls, lc, _ := tb.lenSym(c.Call.Args[0])
						s.le("len("+sym+")", ls, lc)
						s.le(ls, "len("+sym+")", -lc)
					}
				case "strings.Split":
					// at least one element
					s.le("0", "len("+sym+")", -1)
				case "strings.TrimSuffix", "strings.TrimPrefix", "bytes.TrimSuffix", "bytes.TrimPrefix", "bytes.TrimSpace", "strings.TrimSpace":
					ls, lc, _ := tb.lenSym(c.Call.Args[0])
					s.le("len("+sym+")", ls, lc)
				}
			case *ssa.BinOp:
				// x & K  is within [0, K];  x % K within (-K, K)
				if c.Op == token.AND {
					if k, ok := constInt(c.Y); ok && k >= 0 {
						sym := tb.Term(c).Key()
						s.le(sym, "0", k)
						s.le("0", sym, 0)
					}
				}
				if c.Op == token.REM {
					// x % k with a positive constant k lies in (-k, k), in [0, k) for x >= 0
					if k, ok := constInt(c.Y); ok && k > 0 {
						sym := tb.Term(c).Key()
						s.le(sym, "0", k-1)
						if isUnsigned(c.X.Type()) {
							s.le("0", sym, 0)
						} else {
							s.le("0", sym, k-1)
						}
					}
				}
				if c.Op == token.SUB {
					// K - (x % m) and K - (x & m): within [K-hi, K-lo] of the operand's range
					if k, ok := constInt(c.X); ok {
						if y, isB := c.Y.(*ssa.BinOp); isB {
							if m, okm := constInt(y.Y); okm && m > 0 && (y.Op == token.REM || y.Op == token.AND) {
								lo, hi := int64(0), m
								if y.Op == token.REM {
									hi = m - 1
									if !isUnsigned(y.X.Type()) {
										lo = -(m - 1)
									}
								}
								sym, off := linear(tb.Term(c))
								s.le(sym, "0", k-lo-off)   // sym+off <= k-lo
								s.le("0", sym, off-(k-hi)) // sym+off >= k-hi
							}
						}
					}
				}
				if c.Op == token.SHR {
					if isUnsigned(c.X.Type()) {
						sym := tb.Term(c).Key()
						s.le("0", sym, 0)
					}
				}
			case *ssa.Slice:
				// len(x[lo:hi]) == hi - lo
				L := "len(" + tb.Term(c).Key() + ")"
				hs, hc := "", int64(0)
				if c.High != nil {
					hs, hc = linear(tb.Term(c.High))
				} else {
					hs, hc, _ = tb.lenSym(c.X)
				}
				lo := int64(0)
				loKnown := c.Low == nil
				if c.Low != nil {
					if k, ok := constInt(c.Low); ok {
						lo, loKnown = k, true
					}
				}
				if loKnown {
					s.le(L, hs, hc-lo)
					s.le(hs, L, lo-hc)
				} else {
					// len <= hi
					s.le(L, hs, hc)
					// len = hi - lo for the linear prover
					ls2, lo2 := linear(tb.Term(c.Low))
					e := symLin(L).addScaled(symLin(hs), -1).addScaled(symLin(ls2), 1)
					e.k += lo2 - hc
					s.eqs = append(s.eqs, e)
				}
			case *ssa.Phi:
				phis = append(phis, c)
				// a merge of slices that are all cut from fixed-size arrays is no longer than the
				// largest of them
				if isSliceType(c) {
					if L, ok := arrayOriginLen(c, 0); ok {
						s.le("len("+tb.Term(c).Key()+")", "0", L)
					}
				}
				// monotone counters: edges are constants or phi +/- positive constant
				up, down, okc := true, true, true
				var consts []int64
				for _, e := range c.Edges {
					if k, ok := constInt(e); ok {
						consts = append(consts, k)
						continue
					}
					bo, ok := e.(*ssa.BinOp)
					if !ok || bo.X != ssa.Value(c) {
						okc = false
						break
					}
					k, isK := constInt(bo.Y)
					if !isK || k <= 0 {
						okc = false
						break
					}
					switch bo.Op {
					case token.ADD:
						down = false
					case token.SUB:
						up = false
					default:
						okc = false
					}
				}
				if okc && len(consts) > 0 && c.Comment != "rangeindex" {
					sym, off := linear(tb.Term(c)) // the counter may print as (RangeIdx + 1)
					mn, mx := consts[0], consts[0]
					for _, k := range consts {
						if k < mn {
							mn = k
						}
						if k > mx {
							mx = k
						}
					}
					if up {
						s.le("0", sym, off-mn) // sym + off >= mn
					}
					if down {
						s.le(sym, "0", mx-off) // sym + off <= mx
					}
				}
			case *ssa.Convert:
				// conversions are transparent in terms; unsigned sources are >= 0
			}
		}
	}
	// range loops: inside the body 0 <= idx < len(over)
	for _, l := range rangeLoops(fn) {
		if l.Index == nil || !l.inLoop(at) || at == l.Header {
			continue
		}
		if !(l.Body == at || l.Body.Dominates(at)) {
			continue
		}
		is, io := linear(tb.Term(l.Index))
		s.le("0", is, io) // idx >= 0
		ls, lc, _ := tb.lenSym(l.Over)
		s.le(is, ls, lc-1-io)
	}
	// accumulators: after a loop that visits every element of X and appends exactly one element
	// to acc on every iteration, len(acc) == len(start) + len(X) (for a range over a string by
	// rune: at most that, and exactly that if the string is known to be ASCII)
	for _, l := range rangeLoops(fn) {
		if l.inLoop(at) || !tb.p.completedAt(l, at) {
			continue
		}
		for _, hi := range l.Header.Instrs {
			ph, ok := hi.(*ssa.Phi)
			if !ok {
				break
			}
			if !isSliceType(ph) || ph == l.Phi {
				continue
			}
			var start ssa.Value
			okAcc := true
			for k, pr := range l.Header.Preds {
				e := ph.Edges[k]
				if !l.blocks()[pr] {
					if start != nil && start != e {
						okAcc = false
					}
					start = e
					continue
				}
				app, isCall := e.(*ssa.Call)
				if !isCall || !isBuiltin(&app.Call, "append") || app.Call.Args[0] != ssa.Value(ph) {
					okAcc = false
					break
				}
				_, n, known := tb.lenSym(app.Call.Args[1])
				if !known || n != 1 {
					okAcc = false
					break
				}
			}
			if !okAcc || start == nil {
				continue
			}
			as := "len(" + tb.Term(ph).Key() + ")"
			ss, sc, _ := tb.lenSym(start)
			if isNilConst(start) {
				ss, sc = "0", 0
			}
			os, oc, _ := tb.lenSym(l.Over)
			exact := l.Kind != "rangeiter"
			if !exact && isStringType(l.Over.Type()) {
				if in, isIn := l.Over.(ssa.Instruction); isIn && tb.p.asciiGuard(fn, l.Over, in) != nil {
					exact = true
				}
			}
			// len(acc) - len(start) - len(over) <= sc + oc   (and >= when exact)
			e := symLin(as).addScaled(symLin(ss), -1).addScaled(symLin(os), -1)
			e.k -= sc + oc
			if exact {
				s.eqs = append(s.eqs, e)
			} else {
				s.ineqs = append(s.ineqs, e)
			}
		}
	}
	s.tighten()
	if withPhi {
		for _, ph := range phis {
			tb.phiBounds(s, ph)
		}
		s.tighten()
	}
	return s
}

// edgeSystem: the constraints in force when control moves from pred to its k-th successor
// (without merge axioms, which would recurse).
func (tb *TB) edgeSystem(pred *ssa.BasicBlock, k int) *dsys {
	type ek struct {
		b *ssa.BasicBlock
		k int
	}
	if tb.edgeSys == nil {
		tb.edgeSys = map[any]*dsys{}
	}
	if s, ok := tb.edgeSys[ek{pred, k}]; ok {
		return s
	}
	var facts []Atom
	if _, isIf := pred.Instrs[len(pred.Instrs)-1].(*ssa.If); isIf {
		facts = tb.FactsOnEdge(pred, k)
	} else {
		facts = tb.FactsAt(pred)
	}
	s := tb.buildSystem(facts, pred, nil, false)
	tb.edgeSys[ek{pred, k}] = s
	return s
}

// phiBounds: v = Phi(e1..en). For every incoming value taken as a candidate bound c: if each
// e_i <= c holds on its own edge then v <= c, and likewise for lower bounds (also against 0).
// Slices and strings are compared by length.
func (tb *TB) phiBounds(s *dsys, ph *ssa.Phi) {
	if len(ph.Edges) < 2 || len(ph.Edges) > 6 {
		return
	}
	type lin struct {
		sym string
		off int64
	}
	var self lin
	var edges []lin
	switch {
	case isInteger(ph.Type()):
		sy, off := linear(tb.Term(ph))
		self = lin{sy, off}
		for _, e := range ph.Edges {
			es, eo := linear(tb.Term(e))
			edges = append(edges, lin{es, eo})
		}
	case isSliceType(ph) || isStringType(ph.Type()):
		sy, off, _ := tb.lenSym(ph)
		self = lin{sy, off}
		for _, e := range ph.Edges {
			es, eo, _ := tb.lenSym(e)
			edges = append(edges, lin{es, eo})
		}
	default:
		return
	}
	blk := ph.Block()
	var sys []*dsys
	for i := range ph.Edges {
		pred := blk.Preds[i]
		k := 0
		for j, su := range pred.Succs {
			if su == blk {
				k = j
			}
		}
		sys = append(sys, tb.edgeSystem(pred, k))
	}
	// a merge at a loop header: bounds are proved by induction over the iterations — on a back
	// edge the bound may be assumed for the value of the previous iteration; the candidates are
	// then the start values only, which do not change while the loop runs
	back := make([]bool, len(edges))
	header := false
	for i := range edges {
		if blk.Dominates(blk.Preds[i]) {
			back[i], header = true, true
		}
	}
	cands := []lin{{"0", 0}}
	for i, e := range edges {
		if !header || !back[i] {
			cands = append(cands, e)
		}
	}
	with := func(s *dsys, x, y string, c int64) *dsys {
		n := &dsys{cons: append(append([]dcons{}, s.cons...), dcons{x, y, c}), neq: s.neq, eqs: s.eqs, copies: s.copies}
		n.tighten()
		return n
	}
	// constant bounds: the merge is no larger (smaller) than the largest (smallest) constant bound
	// of its incoming values, each under the facts of its own edge (not at loop headers: there
	// the induction above is needed)
	if !header {
		okU, okL := true, true
		var maxU, minL int64
		for i, e := range edges {
			if u, ok := sys[i].bound(e.sym, "0"); ok {
				if i == 0 || u+e.off > maxU {
					maxU = u + e.off
				}
			} else {
				okU = false
			}
			if l, ok := sys[i].bound("0", e.sym); ok {
				// 0 - e.sym <= l  =>  e.sym >= -l
				if i == 0 || -l+e.off < minL {
					minL = -l + e.off
				}
			} else {
				okL = false
			}
		}
		if okU {
			s.le(self.sym, "0", maxU-self.off)
		}
		if okL {
			s.le("0", self.sym, self.off-minL)
		}
	}
	seen := map[lin]bool{}
	for _, c := range cands {
		if seen[c] || c.sym == self.sym {
			continue
		}
		seen[c] = true
		upper, lower := true, true
		for i, e := range edges {
			su, sl := sys[i], sys[i]
			if back[i] {
				su = with(sys[i], self.sym, c.sym, c.off-self.off) // hypothesis: self <= c
				sl = with(sys[i], c.sym, self.sym, self.off-c.off) // hypothesis: self >= c
			}
			// e.sym + e.off <= c.sym + c.off
			if !(e == c || su.implied(e.sym, c.sym, c.off-e.off)) {
				upper = false
			}
			if !(e == c || sl.implied(c.sym, e.sym, e.off-c.off)) {
				lower = false
			}
		}
		if upper {
			s.le(self.sym, c.sym, c.off-self.off)
		}
		if lower {
			s.le(c.sym, self.sym, self.off-c.off)
		}
	}
}

func isStringType(t types.Type) bool {
	b, ok := t.Underlying().(*types.Basic)
	return ok && b.Info()&types.IsString != 0
}

func isUnsigned(t types.Type) bool {
	b, ok := t.Underlying().(*types.Basic)
	return ok && b.Info()&types.IsUnsigned != 0
}

// nonNegative: the value is unsigned, a length, or the system implies >= 0.
func (tb *TB) nonNegative(s *dsys, v ssa.Value) bool {
	if isUnsigned(v.Type()) {
		return true
	}
	if cv, ok := v.(*ssa.Convert); ok && isUnsigned(cv.X.Type()) {
		// widening conversion of an unsigned value
		if b, ok := cv.X.Type().Underlying().(*types.Basic); ok {
			if tb2, ok2 := v.Type().Underlying().(*types.Basic); ok2 && sizeofBasic(b) < sizeofBasic(tb2) {
				return true
			}
		}
	}
	sym, off := linear(tb.Term(v))
	return s.implied("0", sym, off)
}

func sizeofBasic(b *types.Basic) int {
	switch b.Kind() {
	case types.Int8, types.Uint8:
		return 1
	case types.Int16, types.Uint16:
		return 2
	case types.Int32, types.Uint32:
		return 4
	}
	return 8
}

// BoundsOf enumerates and tries to discharge the obligations of fn.
func (p *Program) BoundsOf(fn *ssa.Function) []*BoundOb {
	tb := p.TB(fn)
	var out []*BoundOb
	for _, b := range fn.Blocks {
		for _, in := range b.Instrs {
			switch x := in.(type) {
			case *ssa.IndexAddr:
				out = append(out, tb.indexOb(in, x.X, x.Index))
			case *ssa.Index:
				out = append(out, tb.indexOb(in, x.X, x.Index))
			case *ssa.Lookup:
				if _, isMap := x.X.Type().Underlying().(*types.Map); isMap {
					continue
				}
				out = append(out, tb.indexOb(in, x.X, x.Index))
			case *ssa.Slice:
				if ob := tb.sliceOb(x); ob != nil {
					out = append(out, ob)
				}
			case *ssa.TypeAssert:
				if !x.CommaOk {
					ob := &BoundOb{Fn: fn, Instr: in, Kind: "assert", Desc: "assert:" + short(typeString(x.AssertedType)) + ":" + short(tb.Term(x.X).String()),
						Detail: "type assertion without comma-ok panics if the dynamic type differs"}
					// library contracts: the documented dynamic type of a result
					if c, isCall := stripConv(x.X).(*ssa.Call); isCall {
						if want, ok := documentedDynamicType[tb.resolvedCalleeName(&c.Call)]; ok && typeString(x.AssertedType) == want {
							ob.OK, ob.How = true, "documented dynamic type of "+short(tb.resolvedCalleeName(&c.Call))+"'s result"
							ob.Desc = "assert:" + short(typeString(x.AssertedType)) + ":" + short(tb.resolvedCalleeName(&c.Call)) + "()"
						}
					}
					out = append(out, ob)
				}
			case *ssa.BinOp:
				if (x.Op == token.QUO || x.Op == token.REM) && isInteger(x.X.Type()) {
					if k, ok := constInt(x.Y); ok && k != 0 {
						continue
					}
					out = append(out, &BoundOb{Fn: fn, Instr: in, Kind: "div", Desc: "div:" + short(tb.Term(x).String()), Detail: "integer division by a value not known to be non-zero"})
				}
				if (x.Op == token.SHL || x.Op == token.SHR) && !isUnsigned(x.Y.Type()) {
					if k, ok := constInt(x.Y); ok && k >= 0 {
						continue
					}
					ob := &BoundOb{Fn: fn, Instr: in, Kind: "shift", Desc: "shift:" + short(tb.Term(x).String())}
					s := tb.system(in)
					if tb.nonNegative(s, x.Y) {
						ob.OK, ob.How = true, "shift count >= 0 from guards"
					} else {
						ob.Detail = "shift by a signed count not known to be non-negative"
					}
					out = append(out, ob)
				}
			case *ssa.Panic:
				ob := &BoundOb{Fn: fn, Instr: in, Kind: "panic", Desc: "panic:" + panicText(x), Detail: "explicit panic"}
				// an assertion that cannot fire: the guards under which it stands contradict what
				// is known about the values (library contracts, lengths of fixed buffers)
				if sy := tb.system(in); sy.implied("0", "0", -1) || fmInfeasible(sy.linCons()) {
					ob.OK, ob.How = true, "unreachable: the guards in force contradict the known bounds of the values"
				} else if tb.allEdgesInfeasible(x.Block()) {
					// `a || b`: the block is entered from several tests, each of which cannot hold
					ob.OK, ob.How = true, "unreachable: each of the tests leading here contradicts the known bounds of the values"
				} else if how := tb.p.assertionHeldByCallers(fn, x); how != "" {
					ob.OK, ob.How = true, how
				} else if os.Getenv("AGECHECK_DEBUG_BOUNDS") != "" {
					fmt.Fprintf(os.Stderr, "bounds: %s\n", ob.Desc)
					for _, c := range sy.cons {
						fmt.Fprintf(os.Stderr, "    %s - %s <= %d\n", c.x, c.y, c.c)
					}
					for _, c := range sy.linCons() {
						fmt.Fprintf(os.Stderr, "    lin %v\n", c)
					}
				}
				out = append(out, ob)
			}
		}
	}
	return out
}

// documentedDynamicType: standard-library methods returning an interface whose dynamic type
// the documentation fixes.
var documentedDynamicType = map[string]string{
	"(crypto/ed25519.PrivateKey).Public": "crypto/ed25519.PublicKey",
	"(*crypto/rsa.PrivateKey).Public":    "*crypto/rsa.PublicKey",
	"(*crypto/ecdsa.PrivateKey).Public":  "*crypto/ecdsa.PublicKey",
}

func isInteger(t types.Type) bool {
	b, ok := t.Underlying().(*types.Basic)
	return ok && b.Info()&types.IsInteger != 0
}

func panicText(pn *ssa.Panic) string {
	v := stripConv(pn.X)
	if c, ok := v.(*ssa.Const); ok && c.Value != nil {
		s := c.Value.ExactString()
		if len(s) > 60 {
			s = s[:60]
		}
		return s
	}
	if b, ok := v.(*ssa.BinOp); ok {
		if c, ok := stripConv(b.X).(*ssa.Const); ok && c.Value != nil {
			return c.Value.ExactString() + "+…"
		}
	}
	return "dynamic"
}

func (tb *TB) indexOb(in ssa.Instruction, x, idx ssa.Value) *BoundOb {
	ob := &BoundOb{Fn: in.Parent(), Instr: in, Kind: "index", Desc: "index:" + short(tb.Term(x).String()) + "[" + short(tb.Term(idx).String()) + "]"}
	ls, lc, isArr := tb.lenSym(x)
	if k, ok := constInt(idx); ok && isArr {
		if k >= 0 && k < lc {
			ob.OK, ob.How = true, "constant index into array"
			return ob
		}
	}
	// a byte indexes any array of 256 or more elements, a uint16 any of 65536 or more
	if bt, ok := idx.Type().Underlying().(*types.Basic); ok && isArr && ls == "0" {
		if (bt.Kind() == types.Uint8 && lc >= 256) || (bt.Kind() == types.Uint16 && lc >= 65536) {
			ob.OK, ob.How = true, "index type cannot exceed the array length"
			return ob
		}
	}
	// freshly built literal arrays are Allocs: handled above via array type
	s := tb.system(in)
	is, io := linear(tb.Term(idx))
	lower := s.implied("0", is, io) || isUnsigned(idx.Type()) || tb.nonNegative(s, idx)
	upper := s.implied(is, ls, lc-1-io)
	if lower && upper {
		ob.OK, ob.How = true, "0 <= index < len from guards/contracts"
		return ob
	}
	if (lower || s.linImplied("0", is, io)) && (upper || s.linImplied(is, ls, lc-1-io)) {
		ob.OK, ob.How = true, "0 <= index < len from guards/contracts (linear arithmetic)"
		return ob
	}
	// index produced by masking: x & K with K < array length
	if isArr {
		if s.implied(is, "0", lc-1-io) && lower {
			ob.OK, ob.How = true, "masked index within array"
			return ob
		}
	}
	ob.Detail = fmt.Sprintf("cannot establish 0 <= %s < %s", short(tb.Term(idx).String()), lenDesc(ls, lc))
	if os.Getenv("AGECHECK_DEBUG_BOUNDS") != "" {
		fmt.Fprintf(os.Stderr, "bounds: %s\n  idx=%s%+d len=%s%+d lower=%v upper=%v\n", ob.Desc, is, io, ls, lc, lower, upper)
		for _, c := range s.cons {
			fmt.Fprintf(os.Stderr, "    %s - %s <= %d\n", c.x, c.y, c.c)
		}
	}
	return ob
}

func lenDesc(sym string, c int64) string {
	if sym == "0" {
		return strconv.FormatInt(c, 10)
	}
	return short(sym)
}

func (tb *TB) sliceOb(x *ssa.Slice) *BoundOb {
	if x.Low == nil && x.High == nil && x.Max == nil {
		return nil
	}
	if al, ok := x.X.(*ssa.Alloc); ok && al.Comment == "makeslice" {
		return nil // make([]T, n) with constant n
	}
	ob := &BoundOb{Fn: x.Parent(), Instr: x, Kind: "slice", Desc: "slice:" + short(tb.Term(x).String())}
	ls, lc, isArr := tb.lenSym(x.X)
	s := tb.system(x)
	// upper limit: len for strings and arrays, cap for slices (cap >= len)
	limitS, limitC := ls, lc
	_ = isArr
	var los, his string
	var loo, hio int64
	los, loo = "0", 0
	if x.Low != nil {
		los, loo = linear(tb.Term(x.Low))
	}
	if x.High != nil {
		his, hio = linear(tb.Term(x.High))
	} else {
		his, hio = ls, lc
	}
	okLow := x.Low == nil || s.implied("0", los, loo) || tb.nonNegative(s, x.Low)
	okOrder := s.implied(los, his, hio-loo)
	okHigh := x.High == nil || s.implied(his, limitS, limitC-hio)
	if ph, isPhi := x.High.(*ssa.Phi); isPhi && (!okOrder || !okHigh) {
		// a merged upper bound (n from a helper that returns 0 on its error exits): each incoming
		// value on its own
		allOrder, allHigh := true, true
		for i, e := range ph.Edges {
			es, eo := linear(tb.Term(e))
			// under what is known where the value comes from (the axioms of the call that
			// produced it hold on that way only)
			pr := ph.Block().Preds[i]
			se := tb.system(pr.Instrs[len(pr.Instrs)-1])
			allOrder = allOrder && (se.implied(los, es, eo-loo) || se.linImplied(los, es, eo-loo))
			allHigh = allHigh && (se.implied(es, limitS, limitC-eo) || se.linImplied(es, limitS, limitC-eo))
		}
		okOrder = okOrder || allOrder
		okHigh = okHigh || allHigh
	}
	if !okHigh && his == "0" && hio == 0 && limitC >= 0 {
		okHigh = true // x[:0]: a length or capacity is never negative
	}
	if okLow && okOrder && okHigh {
		ob.OK, ob.How = true, "0 <= low <= high <= len from guards/contracts"
		return ob
	}
	if (okLow || s.linImplied("0", los, loo)) && (okOrder || s.linImplied(los, his, hio-loo)) && (okHigh || s.linImplied(his, limitS, limitC-hio)) {
		ob.OK, ob.How = true, "0 <= low <= high <= len from guards/contracts (linear arithmetic)"
		return ob
	}
	var miss []string
	if !okLow {
		miss = append(miss, "low >= 0")
	}
	if !okOrder {
		miss = append(miss, "low <= high")
	}
	if !okHigh {
		miss = append(miss, "high <= len")
	}
	ob.Detail = "cannot establish " + strings.Join(miss, ", ") + " for " + short(tb.Term(x).String())
	if os.Getenv("AGECHECK_DEBUG_BOUNDS") != "" {
		fmt.Fprintf(os.Stderr, "bounds: %s\n  low=%s%+d high=%s%+d limit=%s%+d\n", ob.Desc, los, loo, his, hio, limitS, limitC)
		for _, c := range s.cons {
			fmt.Fprintf(os.Stderr, "    %s - %s <= %d\n", c.x, c.y, c.c)
		}
	}
	return ob
}

// pathFeasible: the branch conditions taken along an enumerated path are not
// contradictory as far as integer comparisons go (loop counters start at their
// first index, lengths are not negative). A path that is not feasible is never
// executed and proves nothing either way.
func (tb *TB) pathFeasible(pa *Path) bool {
	s := &dsys{}
	atoms := tb.pathAtoms(pa)
	syms := map[string]bool{}
	for _, a := range atoms {
		if a.Kind != "cmp" {
			continue
		}
		s.addAtom(a)
		xs, _ := linear(a.X)
		ys, _ := linear(a.Y)
		syms[xs], syms[ys] = true, true
	}
	for sy := range syms {
		if strings.HasPrefix(sy, "RangeIdx#") {
			s.le("0", sy, 1) // counter >= -1
		}
		if strings.HasPrefix(sy, "len(") {
			s.le("0", sy, 0)
		}
	}
	// a negative cycle through any symbol
	for sy := range syms {
		if sy != "0" && s.implied(sy, sy+"'", -1) {
			// unreachable: implied() with distinct names never holds without constraints
			return false
		}
	}
	if s.implied("0", "0'", 0) {
		return false
	}
	// x <= c and x >= c together with x != c
	for _, a := range atoms {
		if a.Kind != "cmp" {
			continue
		}
		xs, xo := linear(a.X)
		ys, yo := linear(a.Y)
		switch a.Op {
		case "!=":
			if s.implied(xs, ys, yo-xo) && s.implied(ys, xs, xo-yo) {
				return false
			}
		case "<=":
			// contradicted by an implied strict >
			if s.implied(ys, xs, xo-yo-1) {
				return false
			}
		case ">=":
			if s.implied(xs, ys, yo-xo-1) {
				return false
			}
		case "==":
			if s.implied(ys, xs, xo-yo-1) || s.implied(xs, ys, yo-xo-1) {
				return false
			}
		}
	}
	return true
}

// arrayOriginLen: every value the slice v can be is a slice of a fixed-size array (directly, or
// through reslicing and merges); the result is the largest such array length, a bound on len(v)
// and cap(v).
func arrayOriginLen(v ssa.Value, depth int) (int64, bool) {
	if depth > 6 {
		return 0, false
	}
	switch x := v.(type) {
	case *ssa.Slice:
		t := x.X.Type().Underlying()
		if p, ok := t.(*types.Pointer); ok {
			if a, ok := p.Elem().Underlying().(*types.Array); ok {
				return a.Len(), true
			}
		}
		return arrayOriginLen(x.X, depth+1)
	case *ssa.Phi:
		var mx int64
		for _, e := range x.Edges {
			if e == ssa.Value(x) {
				continue
			}
			l, ok := arrayOriginLen(e, depth+1)
			if !ok {
				return 0, false
			}
			if l > mx {
				mx = l
			}
		}
		return mx, true
	case *ssa.ChangeType:
		return arrayOriginLen(x.X, depth+1)
	}
	return 0, false
}

// assertionHeldByCallers: an explicit panic in an unexported function stands under guards that
// speak only of the state the function was entered in (receiver fields not yet reloaded after a
// store, parameters, constants, lengths). It cannot fire if every call site of the function — all
// of them static calls inside the module — stands under facts that contradict one of these
// guards once the callee's receiver and parameters are replaced by what the caller passes.
// Returns a description of the proof, or "".
func (p *Program) assertionHeldByCallers(fn *ssa.Function, pn *ssa.Panic) string {
	if fn.Parent() != nil || ast.IsExported(fn.Name()) || fn.Signature == nil {
		return ""
	}
	tb := p.TB(fn)
	var guards []Atom
	for _, a := range tb.FactsAt(pn.Block()) {
		if a.Kind == "cmp" && entryStateTerm(a.X, 0) && entryStateTerm(a.Y, 0) {
			guards = append(guards, a)
		}
	}
	dbg := os.Getenv("AGECHECK_DEBUG_ASSERT") != ""
	if dbg {
		fmt.Fprintf(os.Stderr, "assert %s %s: guards %s (all facts: %s) callers %d\n", fn, panicText(pn), short(factStrings(guards)), short(factStrings(tb.FactsAt(pn.Block()))), len(p.Callers(fn)))
	}
	if len(guards) == 0 {
		return ""
	}
	callers := p.Callers(fn)
	if len(callers) == 0 {
		return ""
	}
	n := 0
	for _, e := range callers {
		site, ok := e.Site.(ssa.CallInstruction)
		if !ok || staticCallee(site.Common()) != fn || e.Caller == nil || e.Caller.Blocks == nil || !p.inModule(e.Caller) {
			return ""
		}
		if _, isDefer := site.(*ssa.Defer); isDefer {
			return ""
		}
		if _, isGo := site.(*ssa.Go); isGo {
			return ""
		}
		ctb := p.TB(e.Caller)
		args := site.Common().Args
		if len(args) != len(fn.Params) {
			return ""
		}
		sub := map[string]*Term{}
		for i, prm := range fn.Params {
			sub[tb.Term(prm).String()] = ctb.Term(args[i])
		}
		sys := ctb.system(site.(ssa.Instruction))
		refuted := false
		for _, g := range guards {
			g2 := Atom{Kind: "cmp", Op: g.Op, X: substEntryTerm(g.X, sub), Y: substEntryTerm(g.Y, sub)}
			// a guard that compares two constants after substitution decides itself
			if g2.X != nil && g2.Y != nil && g2.X.Op == "Const" && g2.Y.Op == "Const" {
				same := g2.X.S == g2.Y.S
				if (g2.Op == "!=" && same) || (g2.Op == "==" && !same) {
					refuted = true
					break
				}
			}
			s2 := &dsys{cons: append([]dcons(nil), sys.cons...), neq: append([]dcons(nil), sys.neq...), eqs: sys.eqs, ineqs: sys.ineqs, copies: sys.copies}
			s2.addAtom(g2)
			s2.tighten()
			if dbg {
				fmt.Fprintf(os.Stderr, "   guard %s: linear X=%v Y=%v neq=%v\n", g2.String(), func() string { a, _ := linear(g2.X); return a }(), func() string { a, _ := linear(g2.Y); return a }(), s2.neq)
				for _, c := range s2.cons {
					if strings.Contains(c.x+c.y, "err") {
						fmt.Fprintf(os.Stderr, "      %s - %s <= %d\n", c.x, c.y, c.c)
					}
				}
			}
			if s2.inconsistent() || fmInfeasible(s2.linCons()) {
				refuted = true
				break
			}
			// the same on the printed form of the facts (receiver fields are numbered per load in
			// the caller): a fact of the caller about the same terms that excludes the guard,
			// every field it reads unchanged between that load and the call
			for _, cf := range ctb.FactsAt(site.Block()) {
				if dbg {
					fmt.Fprintf(os.Stderr, "   cmp guard [%s|%s|%s] fact [%s|%s|%s] kind=%s\n", g2.X.String(), g2.Op, g2.Y.String(), cf.X, cf.Op, cf.Y, cf.Kind)
				}
				if dbg && atomsContradict(g2, cf) {
					fmt.Fprintf(os.Stderr, "   contradicting fact %s stable=%v\n", cf.String(), p.factStableUntil(cf, site.(ssa.Instruction)))
				}
				if atomsContradict(g2, cf) && p.factStableUntil(cf, site.(ssa.Instruction)) {
					refuted = true
					break
				}
			}
			if refuted {
				break
			}
		}
		if dbg {
			fmt.Fprintf(os.Stderr, "   site in %s refuted=%v facts: %s\n", e.Caller, refuted, short(factStrings(ctb.FactsAt(site.Block()))))
		}
		if !refuted {
			return ""
		}
		n++
	}
	return "unreachable: each of the " + itoa(n) + " call site(s) of " + short(fn.String()) + " stands under facts that contradict the state this assertion tests"
}

// entryStateTerm: the term is built from the receiver, parameters, constants, fields of these
// that have not been stored to since entry, and lengths/arithmetic of such.
func entryStateTerm(t *Term, d int) bool {
	if t == nil || d > 6 {
		return false
	}
	switch t.Op {
	case "Const", "Nil", "Recv", "Param":
		return true
	case "Field":
		return !strings.Contains(t.S, "@") && len(t.Args) == 1 && entryStateTerm(t.Args[0], d+1)
	case "Bin":
		return len(t.Args) == 2 && entryStateTerm(t.Args[0], d+1) && entryStateTerm(t.Args[1], d+1)
	case "Call", "len", "cap":
		return (t.S == "len" || t.S == "cap" || t.Op == "len" || t.Op == "cap") && len(t.Args) == 1 && entryStateTerm(t.Args[0], d+1)
	}
	return false
}

// substTerm replaces receiver and parameter leaves by the given terms.
func substEntryTerm(t *Term, sub map[string]*Term) *Term {
	if t == nil {
		return nil
	}
	if t.Op == "Recv" || t.Op == "Param" {
		if r, ok := sub[t.String()]; ok {
			return r
		}
		return t
	}
	if len(t.Args) == 0 {
		return t
	}
	n := *t
	n.Args = make([]*Term, len(t.Args))
	for i, a := range t.Args {
		n.Args[i] = substEntryTerm(a, sub)
	}
	return &n
}

// inconsistent: some pair of symbols is constrained both to x - y <= c and to x - y >= c+1
// (a negative cycle in the constraint graph).
func (s *dsys) inconsistent() bool {
	for _, k := range s.cons {
		if k.x != k.y && s.implied(k.y, k.x, -k.c-1) {
			return true
		}
		if k.x == k.y && k.c < 0 {
			return true
		}
	}
	return false
}

var versionRe = regexp.MustCompile(`@[0-9]+`)

// atomsContradict: two comparisons over the same pair of (printed) terms that cannot both hold.
func atomsContradict(g, f Atom) bool {
	if g.Kind != "cmp" || f.Kind != "cmp" || g.X == nil || g.Y == nil || f.X == nil || f.Y == nil {
		return false
	}
	gx, gy, gop := versionRe.ReplaceAllString(g.X.String(), ""), versionRe.ReplaceAllString(g.Y.String(), ""), g.Op
	fx, fy, fop := versionRe.ReplaceAllString(f.X.String(), ""), versionRe.ReplaceAllString(f.Y.String(), ""), f.Op
	if gx == fy && gy == fx && gx != gy {
		fx, fy, fop = fy, fx, swapOp[fop]
	}
	if gx != fx {
		return false
	}
	gk, gIsK := intConst(g.Y)
	fk, fIsK := intConst(f.Y)
	if gIsK && fIsK {
		// intervals of x
		rng := func(op string, k int64) (lo, hi int64, ne bool, ok bool) {
			const inf = int64(1) << 62
			switch op {
			case "==":
				return k, k, false, true
			case "<":
				return -inf, k - 1, false, true
			case "<=":
				return -inf, k, false, true
			case ">":
				return k + 1, inf, false, true
			case ">=":
				return k, inf, false, true
			case "!=":
				return k, k, true, true
			}
			return 0, 0, false, false
		}
		glo, ghi, gne, ok1 := rng(gop, gk)
		flo, fhi, fne, ok2 := rng(fop, fk)
		if !ok1 || !ok2 {
			return false
		}
		switch {
		case gne && fne:
			return false
		case gne:
			return flo == fhi && flo == glo
		case fne:
			return glo == ghi && glo == flo
		}
		return ghi < flo || fhi < glo
	}
	if gy != fy {
		return false
	}
	bad := map[string]map[string]bool{
		"==": {"!=": true, "<": true, ">": true},
		"!=": {"==": true},
		"<":  {"==": true, ">=": true, ">": true},
		"<=": {">": true},
		">":  {"==": true, "<=": true, "<": true},
		">=": {"<": true},
	}
	return bad[gop][fop]
}

// factStableUntil: every receiver/parameter field the fact reads was loaded at a point from
// which the call site is reached without a store to that field (directly or through a callee of
// the module that writes it).
func (p *Program) factStableUntil(f Atom, site ssa.Instruction) bool {
	ok := true
	check := func(t *Term) {
		t.Walk(func(x *Term) {
			if x.Op != "Field" || x.V == nil {
				return
			}
			ld, isLd := x.V.(*ssa.UnOp)
			if !isLd {
				// the value of the field as a whole (FieldAddr of an array): treat like a load here
				if in, isIn := x.V.(ssa.Instruction); isIn && !p.fieldUnwrittenBetween(in, site, x.S) {
					ok = false
				}
				return
			}
			if !p.fieldUnwrittenBetween(ld, site, x.S) {
				ok = false
			}
		})
	}
	check(f.X)
	check(f.Y)
	return ok
}

// fieldUnwrittenBetween: no instruction that lies on a way from `from` to `to` stores to a field
// called name or calls a module function whose effects write such a field.
func (p *Program) fieldUnwrittenBetween(from, to ssa.Instruction, name string) bool {
	name = strings.SplitN(name, "@", 2)[0]
	fb, tb := from.Block(), to.Block()
	if fb == nil || tb == nil || fb.Parent() != tb.Parent() || !(fb == tb || fb.Dominates(tb)) {
		return false
	}
	// blocks between: reachable from fb and reaching tb
	fwd := map[*ssa.BasicBlock]bool{}
	var f1 func(b *ssa.BasicBlock)
	f1 = func(b *ssa.BasicBlock) {
		if fwd[b] {
			return
		}
		fwd[b] = true
		if b == tb {
			return
		}
		for _, s := range b.Succs {
			f1(s)
		}
	}
	f1(fb)
	bwd := map[*ssa.BasicBlock]bool{}
	var f2 func(b *ssa.BasicBlock)
	f2 = func(b *ssa.BasicBlock) {
		if bwd[b] {
			return
		}
		bwd[b] = true
		if b == fb {
			return
		}
		for _, s := range b.Preds {
			f2(s)
		}
	}
	f2(tb)
	writes := func(in ssa.Instruction) bool {
		switch x := in.(type) {
		case *ssa.Store:
			if fa, ok := x.Addr.(*ssa.FieldAddr); ok {
				if st, ok := fa.X.Type().Underlying().(*types.Pointer); ok {
					if sty, ok := st.Elem().Underlying().(*types.Struct); ok && fa.Field < sty.NumFields() && sty.Field(fa.Field).Name() == name {
						return true
					}
				}
			}
		case ssa.CallInstruction:
			if in == to {
				return false
			}
			callee := staticCallee(x.Common())
			if callee == nil {
				return !isBuiltinCall(x.Common()) && x.Common().IsInvoke() == false && x.Common().StaticCallee() == nil // a dynamic call may do anything
			}
			if p.inModule(callee) {
				for f := range p.EffectsOf(callee).AllFields {
					if strings.HasSuffix(f, "."+name) {
						return true
					}
				}
			}
		}
		return false
	}
	for b := range fwd {
		if !bwd[b] {
			continue
		}
		for _, in := range b.Instrs {
			if b == fb && b == tb {
				// same block: only what lies between
				if instrIndex(in) <= instrIndex(from) || instrIndex(in) >= instrIndex(to) {
					continue
				}
			} else if b == fb && instrIndex(in) <= instrIndex(from) {
				continue
			} else if b == tb && instrIndex(in) >= instrIndex(to) {
				continue
			}
			if writes(in) {
				return false
			}
		}
	}
	return true
}

func isBuiltinCall(c *ssa.CallCommon) bool {
	_, ok := c.Value.(*ssa.Builtin)
	return ok
}

// aeadIsChaCha: the AEAD value is the result of chacha20poly1305.New, directly or loaded from a
// struct field every store to which (in the module) is such a result.
func (p *Program) aeadIsChaCha(v ssa.Value, d int) bool {
	if d > 3 || v == nil {
		return false
	}
	switch x := stripConv(v).(type) {
	case *ssa.Extract:
		c, ok := x.Tuple.(*ssa.Call)
		if !ok || x.Index != 0 {
			return false
		}
		if calleeName(&c.Call) == "golang.org/x/crypto/chacha20poly1305.New" {
			return true
		}
		// a helper of the module that hands on what chacha20poly1305.New returned
		if callee := staticCallee(&c.Call); callee != nil && p.inModule(callee) && callee.Blocks != nil {
			n := 0
			for _, ret := range returnsOf(callee) {
				rs := resultsOf(ret)
				if len(rs) < 1 || isNilConst(rs[0]) {
					continue
				}
				if !p.aeadIsChaCha(rs[0], d+1) {
					return false
				}
				n++
			}
			return n > 0
		}
		return false
	case *ssa.Phi:
		for _, e := range x.Edges {
			if !p.aeadIsChaCha(e, d+1) {
				return false
			}
		}
		return len(x.Edges) > 0
	case *ssa.UnOp:
		fa, ok := x.X.(*ssa.FieldAddr)
		if !ok {
			return false
		}
		pt, ok := fa.X.Type().Underlying().(*types.Pointer)
		if !ok {
			return false
		}
		st, ok2 := pt.Elem().Underlying().(*types.Struct)
		if !ok2 || fa.Field >= st.NumFields() {
			return false
		}
		stores := p.fieldStores(typeString(pt.Elem()), st.Field(fa.Field).Name())
		if len(stores) == 0 {
			return false
		}
		for _, fs := range stores {
			if !p.aeadIsChaCha(fs.Store.Val, d+1) {
				return false
			}
		}
		return true
	}
	return false
}

// allEdgesInfeasible: the block has several predecessors and the constraints in force on every
// edge into it are contradictory.
func (tb *TB) allEdgesInfeasible(b *ssa.BasicBlock) bool {
	if len(b.Preds) < 2 {
		return false
	}
	for _, pr := range b.Preds {
		ok := false
		for k, su := range pr.Succs {
			if su != b {
				continue
			}
			sy := tb.edgeSystem(pr, k)
			s2 := &dsys{cons: append([]dcons(nil), sy.cons...), neq: append([]dcons(nil), sy.neq...), eqs: sy.eqs, ineqs: sy.ineqs, copies: sy.copies}
			s2.tighten()
			if s2.inconsistent() || fmInfeasible(s2.linCons()) {
				ok = true
			}
		}
		if !ok {
			return false
		}
	}
	return true
}
