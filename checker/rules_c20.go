package main

import (
	"go/token"
	"go/types"
	"strings"

	"golang.org/x/tools/go/ssa"
)

func init() {
	register(&PropertyDef{
		ID: "C20",
		Explanation: "Immutability after construction, decided by effect summaries over the call graph: for X25519Recipient/Identity, ScryptRecipient/Identity, RSARecipient/Identity, Ed25519Recipient/Identity, (R20.1) no function reachable from their Wrap/WrapWithLabels/Unwrap/unwrap/Recipient/String methods writes a field of these types, or memory reachable from the receiver (store, copy, append, writing callee), unless the memory was allocated in that invocation; (R20.2) none writes a package variable; " +
			"(R20.3) module-wide, fields of these types are written on non-fresh values only by the two documented Set*WorkFactor configuration methods; (R20.4) receiver-derived memory is handed to external code only through callees whose contract says they do not write it; (R20.5) the label slices Encrypt sorts in place are freshly allocated by the in-module RecipientWithLabels implementations; " +
			"(R20.6) Encrypt and Decrypt write no shared memory other than dst/src and those labels; (R20.7) the functions behind Encrypt, Decrypt and the STREAM constructors and methods use no package-level state: a package variable they mention is an initialise-once table, sentinel or pattern, never written, or a test hook, and is not a mutable object (buffered reader, buffer, hash, pool, updated map). Immutable shared values imply absence of data races on them and independence of results. (R20.8 = R01.16) Unwrap/Wrap write nothing reachable from their arguments.",
		NotDecided:  "races inside external libraries; third-party Recipient/Identity implementations; real interleavings (this is a sufficient static argument for the in-module part, not an exploration of schedules).",
		Assumptions: []string{"the external callees listed as non-writing in the checker's contract table do not write through their arguments", "CHA call graph over-approximates dynamic dispatch inside the module"},
		Technique:   "static analysis: effect summaries (stored fields, written parameters, globals) with freshness classification, fix-point over a CHA call graph",
		Run:         runC20,
	})
}

var sharedTypes = []string{
	pkgAge + ".X25519Recipient", pkgAge + ".X25519Identity",
	pkgAge + ".ScryptRecipient", pkgAge + ".ScryptIdentity",
	pkgSSH + ".RSARecipient", pkgSSH + ".RSAIdentity",
	pkgSSH + ".Ed25519Recipient", pkgSSH + ".Ed25519Identity",
}

var sharedMethods = []string{"Wrap", "WrapWithLabels", "Unwrap", "unwrap", "Recipient", "String"}

func isSharedField(f string) bool {
	for _, t := range sharedTypes {
		if strings.HasPrefix(f, t+".") {
			return true
		}
	}
	return false
}

func isSharedMethod(fn *ssa.Function) bool {
	recv := fn.Signature.Recv()
	if recv == nil {
		// bound-method wrapper: free variable is the receiver
		if strings.Contains(fn.Name(), "$bound") && len(fn.FreeVars) == 1 {
			n := namedOf(fn.FreeVars[0].Type())
			if n != nil && n.Obj().Pkg() != nil {
				for _, t := range sharedTypes {
					if n.Obj().Pkg().Path()+"."+n.Obj().Name() == t {
						return true
					}
				}
			}
		}
		return false
	}
	n := namedOf(recv.Type())
	if n == nil || n.Obj().Pkg() == nil {
		return false
	}
	for _, t := range sharedTypes {
		if n.Obj().Pkg().Path()+"."+n.Obj().Name() == t {
			return true
		}
	}
	return false
}

func runC20(p *Program, r *Result) {
	// entry methods
	var roots []*ssa.Function
	nMethods := 0
	for _, t := range sharedTypes {
		i := strings.LastIndex(t, ".")
		pkg, name := t[:i], t[i+1:]
		for _, m := range sharedMethods {
			if fn := p.Func(pkg, name, m); fn != nil {
				roots = append(roots, fn)
				nMethods++
				r.Saw(fn.String())
			}
		}
	}
	r.Rule("R20.0", "the shared value types and their methods resolve", 8)
	for _, t := range sharedTypes {
		i := strings.LastIndex(t, ".")
		pk := p.ByPath[t[:i]]
		ok := pk != nil && pk.Types.Scope().Lookup(t[i+1:]) != nil
		r.Check(ok, t, "type", "", "resolved", "type not found")
	}
	if nMethods < 18 {
		r.Unk("shared types", "methods", "", "only "+itoa(nMethods)+" of the expected methods resolved")
	}
	reach := p.Reachable(roots...)

	r.Rule("R20.1", "nothing reachable from Wrap/Unwrap/Recipient/String writes the shared value or memory reachable from it", 20)
	r.Rule("R20.2", "nothing reachable from those methods writes a package variable", 1)
	nGlobalBad := 0
	for _, f := range sortedFuncs(reach) {
		if f.Blocks == nil || !p.inModule(f) {
			continue
		}
		e := p.EffectsOf(f)
		if e == nil {
			continue
		}
		r.Saw(f.String())
		bad := false
		for _, w := range e.Writes {
			if allFresh(w.Roots) {
				continue
			}
			viaRecv := false
			for _, rt := range w.Roots {
				if isSharedMethod(f) && ((rt.Kind == "param" && rt.Param == 0 && f.Signature.Recv() != nil) || rt.Kind == "captured") {
					viaRecv = true
				}
				if rt.Kind == "global" {
					nGlobalBad++
					r.cur = "R20.2"
					r.Bad(f.String(), "write:global:"+rt.Name, r.pos(w.Instr), "a package variable is written on a path reachable from Wrap/Unwrap: concurrent calls race on it")
				}
			}
			r.cur = "R20.1"
			if isSharedField(w.Field) || viaRecv {
				bad = true
				r.Bad(f.String(), "write:"+w.How+":"+w.Field, r.pos(w.Instr), "memory of a shared recipient/identity value is written ("+w.How+" through "+rootsString(w.Roots)+"): concurrent use would race and results could depend on other calls")
			}
		}
		r.cur = "R20.1"
		if !bad && isSharedMethod(f) {
			r.OK(f.String(), "writes", "", "no write to the receiver, to memory reachable from it, or to fields of the shared types")
		}
	}
	r.cur = "R20.2"
	if nGlobalBad == 0 {
		r.OK("reachable-set", "globals", "", itoa(len(reach))+" functions reachable, none writes a package variable")
	}

	r.Rule("R20.3", "fields of the shared types are written on existing values only by the documented setters", 2)
	{
		allowed := map[string]bool{
			"(*" + pkgAge + ".ScryptRecipient).SetWorkFactor":   true,
			"(*" + pkgAge + ".ScryptIdentity).SetMaxWorkFactor": true,
		}
		seenSetter := map[string]bool{}
		for _, f := range p.Funcs {
			e := p.EffectsOf(f)
			for _, w := range e.Writes {
				if !isSharedField(w.Field) || allFresh(w.Roots) {
					continue
				}
				if allowed[f.String()] {
					seenSetter[f.String()] = true
					r.OK(f.String(), "write:"+w.Field, r.pos(w.Instr), "documented configuration method (must be called before use)")
				} else {
					r.Bad(f.String(), "write:"+w.Field, r.pos(w.Instr), "a field of a shared value type is written outside constructors and the documented setters")
				}
			}
		}
		_ = seenSetter
	}

	r.Rule("R20.4", "receiver-derived memory reaches external code only through non-writing callees", 20)
	for _, f := range sortedFuncs(reach) {
		if f.Blocks == nil || !p.inModule(f) {
			continue
		}
		tb := p.TB(f)
		for _, c := range callsIn(f) {
			cc := c.Common()
			callee := staticCallee(cc)
			if callee != nil && callee.Blocks != nil {
				continue // in-module: covered by R20.1
			}
			name := tb.resolvedCalleeName(cc)
			if strings.HasPrefix(name, "builtin ") {
				continue
			}
			if (cc.IsInvoke() || name == "dynamic") && hasModuleTarget(p, f, c) {
				continue // dispatches to in-module code: covered by R20.1 over the reachable set
			}
			args := cc.Args
			if cc.IsInvoke() {
				args = append([]ssa.Value{cc.Value}, args...)
			}
			for i, a := range args {
				if !hasPointers(a.Type()) {
					continue
				}
				rs := p.rootsOf(a, map[ssa.Value]bool{}, false, p.freshFns())
				shared := false
				for _, rt := range rs {
					if rt.Kind == "param" || rt.Kind == "captured" || rt.Kind == "global" {
						shared = true
					}
				}
				if !shared {
					continue
				}
				key := "ext:" + short(name) + ":arg" + itoa(i)
				if wr, isW := writingExt[name]; isW {
					writes := false
					for _, wi := range wr {
						if wi == i {
							writes = true
						}
					}
					if writes {
						// a writing callee given shared memory: R20.1 reports it as a Write
						continue
					}
					r.OK(f.String(), key, r.pos(c), "contract: writes only its other argument(s)")
					continue
				}
				if nonWritingExt[name] || freshExt[name] || readOnlyExt[name] {
					r.OK(f.String(), key, r.pos(c), "contract: does not write its arguments")
					continue
				}
				r.Unk(f.String(), key, r.pos(c), "shared memory ("+rootsString(rs)+") is passed to external callee "+name+" for which the checker has no contract")
			}
		}
	}

	r.Rule("R20.5", "label slices sorted in place by Encrypt are freshly allocated by in-module recipients", 2)
	{
		pk := p.ByPath[pkgAge]
		it := pk.Types.Scope().Lookup("RecipientWithLabels")
		iface, _ := it.Type().Underlying().(*types.Interface)
		n := 0
		for _, mp := range p.Pkgs {
			sc := mp.Types.Scope()
			for _, nm := range sc.Names() {
				tn, ok := sc.Lookup(nm).(*types.TypeName)
				if !ok || tn.IsAlias() {
					continue
				}
				if _, isI := tn.Type().Underlying().(*types.Interface); isI {
					continue
				}
				if iface == nil || !types.Implements(types.NewPointer(tn.Type()), iface) {
					continue
				}
				fn := p.Func(mp.PkgPath, nm, "WrapWithLabels")
				if fn == nil {
					continue
				}
				n++
				ok2 := true
				for _, ret := range returnsOf(fn) {
					rs := resultsOf(ret)
					if len(rs) != 3 {
						continue
					}
					if !allFresh(p.rootsOf(rs[1], map[ssa.Value]bool{}, false, p.freshFns())) {
						ok2 = false
					}
				}
				r.Check(ok2, fn.String(), "labels:fresh", "", "every returned labels slice is allocated per call", "the labels slice returned to Encrypt may be shared between calls; Encrypt sorts it in place, which would race")
			}
		}
		if n == 0 {
			r.Unk(pkgAge+".RecipientWithLabels", "implementations", "", "no in-module implementation found")
		}
	}

	r.Rule("R20.6", "Encrypt and Decrypt keep their state per call", 2)
	for _, name := range []string{"Encrypt", "Decrypt"} {
		fn := r.anchor(pkgAge, "", name)
		if fn == nil {
			continue
		}
		e := p.EffectsOf(fn)
		bad := ""
		for _, w := range e.Writes {
			if allFresh(w.Roots) {
				continue
			}
			// the one documented exception: sort.Strings on the labels returned by the recipient (R20.5)
			if w.How == "call:sort.Strings" {
				continue
			}
			bad = w.How + " through " + rootsString(w.Roots) + " at " + r.pos(w.Instr)
		}
		r.Check(bad == "" && len(e.Globals) == 0, fn.String(), "writes", "", "only freshly allocated memory is written (plus the label sort of R20.5)", "shared memory is written: "+bad)
	}
	r.Rule("R20.8", "Unwrap and Wrap write nothing reachable from their arguments: a stanza list or file key shared by concurrent callers stays as it is (= R01.16)", 8)
	checkArgsUntouched(p, r)
	r.Rule("R20.7", "no package-level state behind Encrypt, Decrypt and the STREAM constructors: concurrent operations share nothing mutable", 1)
	checkNoPackageState(p, r, []*ssa.Function{r.anchor(pkgAge, "", "Encrypt"), r.anchor(pkgAge, "", "Decrypt"), r.anchor(pkgStream, "", "NewWriter"), r.anchor(pkgStream, "", "NewReader"),
		r.anchor(pkgStream, "Writer", "Write"), r.anchor(pkgStream, "Writer", "Close"), r.anchor(pkgStream, "Reader", "Read")}, nil)
}

// readOnlyExt: further external callees that only read their arguments.
var readOnlyExt = map[string]bool{
	"strings.ToUpper": true,
	"(*encoding/base64.Encoding).EncodedLen": true,
	"(*encoding/base64.Encoding).DecodedLen": true,
	"strings.ToLower": true,
	"strconv.Itoa":    true,
	"errors.Is":       true,
	"errors.New":      true,
	"invoke (golang.org/x/crypto/ssh.PublicKey).Marshal": true,
	"invoke (golang.org/x/crypto/ssh.PublicKey).Type":    true,
	"(*regexp.Regexp).MatchString":                       true,
	"strconv.Atoi":                                       true,
	"(*crypto/rsa.PublicKey).Size":                       true,
	"crypto/rsa.DecryptOAEP":                             true,
	"crypto/rsa.EncryptOAEP":                             true,
	"crypto/sha256.New":                                  true,
	"strings.ContainsAny":                                true,
	"io.ReadFull":                                        true,
}

func hasModuleTarget(p *Program, f *ssa.Function, c ssa.CallInstruction) bool {
	for _, e := range p.CG().Out[f] {
		if e.Site == c.(ssa.Instruction) && e.Callee.Blocks != nil && p.inModule(e.Callee) {
			return true
		}
	}
	return false
}

func (p *Program) freshFns() map[*ssa.Function]bool {
	if p.eff == nil {
		p.computeEffects()
	}
	m := map[*ssa.Function]bool{}
	for f, e := range p.eff {
		if e.ReturnsFresh {
			m[f] = true
		}
	}
	return m
}

// checkNoPackageState: the functions reachable (through static calls within the module, depth 4)
// from roots touch no package-level *state*: a package variable they mention is either written
// exactly once by the package initialiser and read-only afterwards (error sentinels, compiled
// patterns, encodings, tables), or a test hook that only _test files assign. Anything else — a
// cache, a sync.Pool, a counter — makes one call depend on, or interfere with, another.
func checkNoPackageState(p *Program, r *Result, roots []*ssa.Function, hooks map[string]bool) {
	seen := map[*ssa.Function]bool{}
	type item struct {
		fn *ssa.Function
		d  int
	}
	var work []item
	for _, f := range roots {
		if f != nil {
			work = append(work, item{f, 0})
		}
	}
	n := 0
	for len(work) > 0 {
		it := work[0]
		work = work[1:]
		if seen[it.fn] || it.fn.Blocks == nil {
			continue
		}
		seen[it.fn] = true
		n++
		bad := ""
		for _, b := range it.fn.Blocks {
			for _, in := range b.Instrs {
				for _, op := range in.Operands(nil) {
					g, ok := (*op).(*ssa.Global)
					if !ok || g.Pkg == nil {
						continue
					}
					pp := g.Pkg.Pkg.Path()
					if pp != modPath && !strings.HasPrefix(pp, modPath+"/") {
						continue
					}
					if hooks[g.String()] || strings.HasPrefix(g.Name(), "testOnly") || strings.HasPrefix(g.Name(), "init$guard") {
						continue
					}
					ts := typeString(g.Type())
					if strings.Contains(ts, "sync.") {
						bad = "uses the package-level " + g.Name() + " (" + strings.TrimPrefix(ts, "*") + ") at " + r.pos(in)
						continue
					}
					if st, isStore := in.(*ssa.Store); isStore && st.Addr == ssa.Value(g) && it.fn.Name() != "init" {
						bad = "assigns the package variable " + g.Name() + " at " + r.pos(in)
						continue
					}
					if why := statefulGlobal(g, in); why != "" {
						bad = "uses the package-level " + g.Name() + " (" + why + ") at " + r.pos(in)
						continue
					}
					if p.globalInit(g) == nil && !p.globalNeverWritten(g) {
						bad = "reads the package variable " + g.Name() + ", which is not written exactly once by the initialiser, at " + r.pos(in)
					}
				}
				if c, ok := in.(ssa.CallInstruction); ok && it.d < 4 {
					if callee := staticCallee(c.Common()); callee != nil && p.inModule(callee) {
						work = append(work, item{callee, it.d + 1})
					}
				}
			}
		}
		if bad != "" {
			r.Bad(it.fn.String(), "package-state", "", "the function "+bad+": calls are no longer independent of each other")
		}
	}
	r.OK("library", "package-state", "", itoa(n)+" functions reachable from the entry points: package variables are initialise-once tables and test hooks only")
}

// globalNeverWritten: no instruction of the module stores to g or through an address derived from
// it, and such addresses go nowhere but into loads and the read-only arguments of bytes.Equal,
// subtle.ConstantTimeCompare and copy's source: a zero-valued constant in variable's clothing
// (var zeroNonce [12]byte).
func (p *Program) globalNeverWritten(g *ssa.Global) bool {
	var ok func(v ssa.Value, refs []ssa.Instruction, d int) bool
	ok = func(v ssa.Value, refs []ssa.Instruction, d int) bool {
		if d > 3 {
			return false
		}
		for _, u := range refs {
			switch x := u.(type) {
			case *ssa.DebugRef:
			case *ssa.UnOp:
				if x.Op != token.MUL {
					return false
				}
			case *ssa.Slice:
				if x.X != v || x.Referrers() == nil || !ok(x, *x.Referrers(), d+1) {
					return false
				}
			case *ssa.IndexAddr:
				if x.X != v || x.Referrers() == nil || !ok(x, *x.Referrers(), d+1) {
					return false
				}
			case ssa.CallInstruction:
				c := x.Common()
				switch {
				case isBuiltin(c, "copy"):
					if len(c.Args) != 2 || c.Args[0] == v {
						return false
					}
				case isBuiltin(c, "len"):
				case calleeName(c) == "bytes.Equal" || calleeName(c) == "crypto/subtle.ConstantTimeCompare":
				default:
					return false
				}
			default:
				return false
			}
		}
		return true
	}
	return ok(g, p.globalUses(g), 0)
}

// statefulGlobal: a package variable that is assigned once can still be state when what it
// holds is a mutable object every call works on: a buffered reader or writer, a buffer, a hash,
// a stream, a file, a random generator; a map that is updated or a slice whose elements are
// assigned outside the initialiser. in is the instruction mentioning g.
func statefulGlobal(g *ssa.Global, in ssa.Instruction) string {
	t := g.Type()
	if pt, ok := t.Underlying().(*types.Pointer); ok {
		t = pt.Elem()
	}
	ts := strings.TrimPrefix(typeString(t), "*")
	for _, pre := range []string{"bufio.", "bytes.Buffer", "strings.Builder", "hash.", "io.Reader", "io.Writer", "io.ReadWriter", "io.ReadCloser", "io.WriteCloser", "os.File",
		"crypto/cipher.Stream", "crypto/cipher.BlockMode", "math/rand.", "math/rand/v2.", "container/", "time.Timer", "time.Ticker"} {
		if strings.HasPrefix(ts, pre) {
			return ts + ": a mutable object shared by all calls"
		}
	}
	if in.Parent() != nil && in.Parent().Name() == "init" {
		return ""
	}
	ld, ok := in.(*ssa.UnOp)
	if !ok || ld.Referrers() == nil {
		return ""
	}
	for _, u := range *ld.Referrers() {
		switch x := u.(type) {
		case *ssa.MapUpdate:
			if x.Map == ssa.Value(ld) {
				return "a map that is updated"
			}
		case *ssa.IndexAddr:
			if x.X == ssa.Value(ld) && x.Referrers() != nil {
				for _, u2 := range *x.Referrers() {
					if st, ok := u2.(*ssa.Store); ok && st.Addr == ssa.Value(x) {
						return "a slice whose elements are assigned"
					}
				}
			}
		case ssa.CallInstruction:
			if isBuiltin(x.Common(), "delete") {
				return "a map that is updated"
			}
		}
	}
	return ""
}
