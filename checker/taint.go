package main

// E6 — taint: which string/[]byte/error/interface values are derived from a
// set of source values. Integer-typed values are always clean (a rune, a
// position, a length do not reproduce key material). In-module calls use
// parameter->result summaries computed to a fix-point; external calls
// propagate from any tainted argument to every non-integer result.

import (
	"go/token"
	"go/types"

	"golang.org/x/tools/go/ssa"
)

type Taint struct {
	p *Program
	// sanitised results: callee name -> result indices that are clean by rule
	CleanResults map[string]map[int]bool
	// summaries: function -> param index -> result indices tainted
	sum map[*ssa.Function]map[int]map[int]bool
}

func NewTaint(p *Program) *Taint {
	return &Taint{p: p, CleanResults: map[string]map[int]bool{}, sum: map[*ssa.Function]map[int]map[int]bool{}}
}

func carriesText(t types.Type) bool {
	switch u := t.Underlying().(type) {
	case *types.Basic:
		return u.Info()&types.IsString != 0
	case *types.Slice, *types.Array, *types.Interface, *types.Pointer, *types.Struct, *types.Map:
		return true
	case *types.Tuple:
		return true
	}
	return false
}

// Run computes the tainted values of fn given tainted seeds (SSA values of
// fn, typically parameters or a call result). It returns the set.
func (t *Taint) Run(fn *ssa.Function, seeds []ssa.Value) map[ssa.Value]bool {
	tainted := map[ssa.Value]bool{}
	for _, s := range seeds {
		tainted[s] = true
	}
	// cells: local allocs and captured variables holding tainted data
	cell := map[ssa.Value]bool{}
	changed := true
	mark := func(v ssa.Value) {
		if v == nil || tainted[v] {
			return
		}
		if !carriesText(v.Type()) {
			return
		}
		tainted[v] = true
		changed = true
	}
	for iter := 0; changed && iter < 50; iter++ {
		changed = false
		for _, b := range fn.Blocks {
			for _, in := range b.Instrs {
				switch x := in.(type) {
				case *ssa.Phi:
					for _, e := range x.Edges {
						if tainted[e] {
							mark(x)
						}
					}
				case *ssa.Convert:
					if tainted[x.X] {
						mark(x)
					}
				case *ssa.ChangeType:
					if tainted[x.X] {
						mark(x)
					}
				case *ssa.MakeInterface:
					if tainted[x.X] {
						mark(x)
					}
				case *ssa.ChangeInterface:
					if tainted[x.X] {
						mark(x)
					}
				case *ssa.TypeAssert:
					if tainted[x.X] {
						mark(x)
					}
				case *ssa.Slice:
					if tainted[x.X] {
						mark(x)
					}
				case *ssa.BinOp:
					if x.Op == token.ADD && (tainted[x.X] || tainted[x.Y]) {
						mark(x)
					}
				case *ssa.Field:
					if tainted[x.X] {
						mark(x)
					}
				case *ssa.FieldAddr:
					if tainted[x.X] {
						mark(x)
					}
				case *ssa.IndexAddr:
					if tainted[x.X] || cell[x.X] {
						mark(x)
					}
				case *ssa.Index:
					if tainted[x.X] {
						mark(x) // element of a []string; bytes are integers and stay clean
					}
				case *ssa.Lookup:
					if tainted[x.X] {
						mark(x)
					}
				case *ssa.Range:
					if tainted[x.X] {
						mark(x)
					}
				case *ssa.Next:
					if tainted[x.Iter] {
						mark(x)
					}
				case *ssa.Extract:
					if tainted[x.Tuple] {
						// per-result precision for calls
						if c, ok := x.Tuple.(*ssa.Call); ok {
							if t.resultTainted(fn, c, x.Index, tainted) {
								mark(x)
							}
						} else {
							mark(x)
						}
					}
				case *ssa.UnOp:
					if x.Op == token.MUL && (tainted[x.X] || cell[x.X]) {
						mark(x)
					}
				case *ssa.Store:
					if tainted[x.Val] {
						a := x.Addr
						for {
							if ia, ok := a.(*ssa.IndexAddr); ok {
								a = ia.X
								continue
							}
							if fa, ok := a.(*ssa.FieldAddr); ok {
								a = fa.X
								continue
							}
							break
						}
						if !cell[a] {
							cell[a] = true
							changed = true
						}
						if _, ok := a.(*ssa.Alloc); ok && !tainted[a] {
							tainted[a] = true
							changed = true
						}
					}
				case *ssa.Call:
					any := false
					args := x.Call.Args
					if x.Call.IsInvoke() {
						args = append([]ssa.Value{x.Call.Value}, args...)
					}
					for _, a := range args {
						if tainted[a] {
							any = true
						}
					}
					if !any {
						continue
					}
					if _, isTuple := x.Type().(*types.Tuple); isTuple {
						if !tainted[x] {
							tainted[x] = true
							changed = true
						}
					} else if t.resultTainted(fn, x, 0, tainted) {
						mark(x)
					}
				}
			}
		}
	}
	return tainted
}

// resultTainted: is result idx of the call tainted, given the tainted set?
func (t *Taint) resultTainted(fn *ssa.Function, c *ssa.Call, idx int, tainted map[ssa.Value]bool) bool {
	name := t.p.TB(fn).resolvedCalleeName(&c.Call)
	if t.CleanResults[name][idx] {
		return false
	}
	var rt types.Type
	if tup, ok := c.Type().(*types.Tuple); ok {
		rt = tup.At(idx).Type()
	} else {
		rt = c.Type()
	}
	if !carriesText(rt) {
		return false
	}
	args := c.Call.Args
	if c.Call.IsInvoke() {
		args = append([]ssa.Value{c.Call.Value}, args...)
	}
	callee := staticCallee(&c.Call)
	if callee != nil && callee.Blocks != nil && t.p.inModule(callee) {
		for i, a := range args {
			if !tainted[a] {
				continue
			}
			if t.summary(callee, i)[idx] {
				return true
			}
		}
		return false
	}
	if name == "builtin len" || name == "builtin cap" {
		return false
	}
	for _, a := range args {
		if tainted[a] {
			return true
		}
	}
	return false
}

// summary: which results of callee are tainted when parameter i is.
func (t *Taint) summary(callee *ssa.Function, i int) map[int]bool {
	if m, ok := t.sum[callee]; ok {
		if r, ok := m[i]; ok {
			return r
		}
	} else {
		t.sum[callee] = map[int]map[int]bool{}
	}
	// provisional (recursion): nothing tainted
	t.sum[callee][i] = map[int]bool{}
	if i >= len(callee.Params) {
		return t.sum[callee][i]
	}
	tainted := t.Run(callee, []ssa.Value{callee.Params[i]})
	res := map[int]bool{}
	for _, ret := range returnsOf(callee) {
		for j, v := range resultsOf(ret) {
			if tainted[v] {
				res[j] = true
			}
		}
	}
	t.sum[callee][i] = res
	return res
}

// SinkHit is a tainted value reaching a message sink.
type SinkHit struct {
	Fn   *ssa.Function
	Call ssa.CallInstruction
	Arg  ssa.Value
}

var messageSinks = map[string]bool{
	"fmt.Errorf": true, "errors.New": true, "fmt.Sprintf": false,
	"(*log.Logger).Printf": true, "log.Printf": true, "log.Fatalf": true,
	pkgCmdAge + ".errorf": true, pkgCmdAge + ".warningf": true, pkgCmdAge + ".printf": true, pkgCmdAge + ".errorWithHint": true,
}

// SinksIn lists the message sinks of fn that receive a tainted argument.
func (t *Taint) SinksIn(fn *ssa.Function, tainted map[ssa.Value]bool) []SinkHit {
	var out []SinkHit
	for _, c := range callsIn(fn) {
		name := t.p.TB(fn).resolvedCalleeName(c.Common())
		if !messageSinks[name] {
			continue
		}
		for _, a := range c.Common().Args {
			if tainted[a] {
				out = append(out, SinkHit{fn, c, a})
			}
		}
	}
	return out
}

// Deep runs the analysis over the call tree below fn: for every in-module
// callee that receives a tainted argument, the callee is analysed with that
// parameter tainted, recursively. Returns all sink hits.
func (t *Taint) Deep(fn *ssa.Function, seeds []ssa.Value, seen map[string]bool) []SinkHit {
	key := fn.String()
	for _, s := range seeds {
		key += "|" + s.Name()
	}
	if seen[key] {
		return nil
	}
	seen[key] = true
	tainted := t.Run(fn, seeds)
	hits := t.SinksIn(fn, tainted)
	for _, c := range callsIn(fn) {
		callee := staticCallee(c.Common())
		if callee == nil || callee.Blocks == nil || !t.p.inModule(callee) {
			continue
		}
		var ps []ssa.Value
		for i, a := range c.Common().Args {
			if tainted[a] && i < len(callee.Params) {
				ps = append(ps, callee.Params[i])
			}
		}
		if len(ps) > 0 {
			hits = append(hits, t.Deep(callee, ps, seen)...)
		}
	}
	return hits
}
