package main

import (
	"go/token"
	"strings"

	"golang.org/x/tools/go/ssa"
)

func init() {
	register(&PropertyDef{
		ID: "C09",
		Explanation: "Structural necessary conditions of C09: (R09.1) a string produced by a Unicode case mapping (strings.ToLower/ToUpper) is used for anything but a comparison with its operand only if the operand is provably ASCII — covered by an all-elements guard loop, produced by bech32 itself, validated by validPluginName, or a parameter all of whose callers pass such values; " +
			"(R09.2) no index computed on one string slices another unless the other is a length-preserving (ASCII-guarded) image of it — the slice obligations of internal/bech32 are discharged by the bounds engine; (R09.3) Decode's guards: mixed case, separator position, every data symbol in the charset, checksum verified, 5-to-8 regrouping without padding, both padding rejections in convertBits; " +
			"(R09.4) exact HRP and 32-byte length in the native parsers; (R09.5) charset, generator, checksum length and polymod constants equal BIP-173; (R09.6) plugin names validated on every successful parse/encode; (R09.7) String methods print the table's HRPs; (R09.8) no parser returns zero values with an error that a merge can leave nil (a refusal reported as success).",
		NotDecided:  "polymod/convertBits arithmetic and hence the <=4-substitution detection guarantee as a computation; 're-encodes to itself' as a round trip over all strings.",
		Assumptions: []string{"strings.ToLower/ToUpper map ASCII to ASCII and preserve length on ASCII input", "BIP-173 constants transcribed correctly"},
		Technique:   "static analysis: provenance of case-mapped strings with loop-guard recognition, bounds obligations via difference constraints, dominance guards, constants compared with the specification table",
		Run:         runC09,
	})
}

// provablyASCII decides, conservatively, that string/[]byte value v holds
// only ASCII when control reaches instruction at in fn.
func (p *Program) provablyASCII(fn *ssa.Function, v ssa.Value, at ssa.Instruction, depth int) (bool, string) {
	if depth > 4 {
		return false, "provenance too deep"
	}
	v = stripConv(v)
	tb := p.TB(fn)
	if p.asciiGuard(fn, v, at) != nil {
		return true, "all-elements guard loop"
	}
	switch x := v.(type) {
	case *ssa.Const:
		if x.Value != nil {
			s := x.Value.ExactString()
			for i := 0; i < len(s); i++ {
				if s[i] >= 128 {
					return false, "non-ASCII constant"
				}
			}
		}
		return true, "constant"
	case *ssa.Slice:
		return p.provablyASCII(fn, x.X, at, depth)
	case *ssa.BinOp:
		if x.Op == token.ADD {
			a, wa := p.provablyASCII(fn, x.X, at, depth)
			b, wb := p.provablyASCII(fn, x.Y, at, depth)
			if a && b {
				return true, "concatenation of ASCII parts"
			}
			if !a {
				return false, wa
			}
			return false, wb
		}
	case *ssa.Phi:
		for _, e := range x.Edges {
			if ok, why := p.provablyASCII(fn, e, at, depth+1); !ok {
				return false, why
			}
		}
		return true, "all incoming values"
	case *ssa.Extract:
		if c, ok := x.Tuple.(*ssa.Call); ok && x.Index == 0 {
			switch calleeName(&c.Call) {
			case pkgBech32 + ".Decode":
				if okd, why := p.decodeHRPGuarded(); okd {
					return true, "HRP returned by bech32.Decode, which range-checks it"
				} else {
					return false, why
				}
			case pkgBech32 + ".Encode":
				return true, "output of bech32.Encode (charset symbols and a checked HRP)"
			}
		}
	case *ssa.Call:
		name := tb.resolvedCalleeName(&x.Call)
		switch {
		case caseMappers[name]:
			return p.provablyASCII(fn, x.Call.Args[0], x, depth)
		case name == "strings.TrimPrefix" || name == "strings.TrimSuffix" || name == "strings.TrimSpace":
			return p.provablyASCII(fn, x.Call.Args[0], at, depth)
		case name == "(*strings.Builder).String":
			return p.builderASCII(fn, x, depth)
		}
	case *ssa.Lookup:
		return p.provablyASCII(fn, x.X, at, depth)
	case *ssa.Index:
		return p.provablyASCII(fn, x.X, at, depth)
	case *ssa.UnOp:
		if g, ok := x.X.(*ssa.Global); ok && x.Op == token.MUL {
			if init := p.globalInit(g); init != nil && init.Op == "Const" {
				for i := 0; i < len(init.S); i++ {
					if init.S[i] >= 128 {
						return false, "non-ASCII package constant"
					}
				}
				return true, "package-level constant string"
			}
		}
	case *ssa.Parameter:
		// validated plugin name?
		facts := tb.FactsAt(at.Block())
		pk := tb.Term(x).Key()
		if _, ok := findFact(facts, func(a Atom) bool {
			return a.Kind == "call" && a.Pol && a.Call.S == pkgPlugin+".validPluginName" && len(a.Call.Args) == 1 && a.Call.Args[0].Key() == pk
		}); ok {
			return true, "validPluginName(v) holds (its allow-list is ASCII, R17.4)"
		}
		// all callers
		idx := -1
		for i, q := range fn.Params {
			if q == x {
				idx = i
			}
		}
		callers := p.Callers(fn)
		if len(callers) == 0 || fn.Object() == nil || fn.Object().Exported() {
			return false, "parameter of an exported or uncalled function"
		}
		for _, e := range callers {
			c, ok := e.Site.(ssa.CallInstruction)
			if !ok || e.Kind != "static" {
				return false, "called indirectly"
			}
			if ok2, why := p.provablyASCII(e.Caller, c.Common().Args[idx], c.(ssa.Instruction), depth+1); !ok2 {
				return false, "caller " + e.Caller.String() + ": " + why
			}
		}
		return true, "every caller passes a provably ASCII value"
	}
	// name validated by a dominating validPluginName fact (non-parameter)
	facts := tb.FactsAt(at.Block())
	vk := tb.Term(v).Key()
	if _, ok := findFact(facts, func(a Atom) bool {
		return a.Kind == "call" && a.Pol && a.Call.S == pkgPlugin+".validPluginName" && len(a.Call.Args) == 1 && a.Call.Args[0].Key() == vk
	}); ok {
		return true, "validPluginName(v) holds"
	}
	return false, "no ASCII guard covers " + short(tb.Term(v).String())
}

// decodeHRPGuarded: bech32.Decode returns as HRP a slice that an in-function
// guard loop restricts to 33..126.
func (p *Program) decodeHRPGuarded() (bool, string) {
	fn := p.Func(pkgBech32, "", "Decode")
	if fn == nil {
		return false, "bech32.Decode not found"
	}
	ret, err := successReturn(fn)
	if err != nil {
		return false, err.Error()
	}
	hrp := resultsOf(ret)[0]
	if p.asciiGuard(fn, hrp, ret) != nil {
		return true, ""
	}
	// or the whole input is guarded
	if sl, ok := stripConv(hrp).(*ssa.Slice); ok {
		if p.asciiGuard(fn, sl.X, ret) != nil {
			return true, ""
		}
	}
	return false, "the HRP returned by bech32.Decode is not range-checked"
}

// builderASCII: every write into the strings.Builder whose String() is taken
// is provably ASCII.
func (p *Program) builderASCII(fn *ssa.Function, strCall *ssa.Call, depth int) (bool, string) {
	recv := strCall.Call.Args[0]
	refs := recv.Referrers()
	if refs == nil {
		return false, "builder not local"
	}
	for _, r := range *refs {
		c, ok := r.(ssa.CallInstruction)
		if !ok {
			continue
		}
		switch calleeName(c.Common()) {
		case "(*strings.Builder).WriteString":
			if ok, why := p.provablyASCII(fn, c.Common().Args[1], c.(ssa.Instruction), depth+1); !ok {
				return false, "builder write: " + why
			}
		case "(*strings.Builder).WriteByte":
			var src ssa.Value
			switch lk := stripConv(c.Common().Args[1]).(type) {
			case *ssa.Lookup:
				src = lk.X
			case *ssa.Index:
				src = lk.X
			}
			if k, isK := constInt(stripConv(c.Common().Args[1])); isK && k >= 0 && k <= 127 {
				continue // ret.WriteByte('1')
			}
			if src == nil {
				return false, "builder byte write of unknown origin"
			}
			if ok, why := p.provablyASCII(fn, src, c.(ssa.Instruction), depth+1); !ok {
				return false, "builder byte write: " + why
			}
		case "(*strings.Builder).String", "(*strings.Builder).Len", "(*strings.Builder).Grow", "(*strings.Builder).Cap":
		default:
			return false, "builder passed to " + calleeName(c.Common())
		}
	}
	return true, "every write into the builder is ASCII"
}

func runC09(p *Program, r *Result) {
	dec := r.anchor(pkgBech32, "", "Decode")
	cb := r.anchor(pkgBech32, "", "convertBits")
	if dec == nil || cb == nil {
		return
	}

	// ---- R09.1
	r.Rule("R09.1", "case mapping is applied to provably ASCII strings only (Unicode folding would create extra spellings and change lengths)", 6)
	for _, fn := range p.Funcs {
		if !inPkg(fn, pkgBech32, pkgPlugin, pkgAge) {
			continue
		}
		tb := p.TB(fn)
		for i, c := range callsIn(fn) {
			_ = i
			name := tb.resolvedCalleeName(c.Common())
			if !caseMappers[name] && name != "strings.EqualFold" {
				continue
			}
			if name == "strings.EqualFold" {
				r.Bad(fn.String(), "casemap:EqualFold", r.pos(c), "strings.EqualFold performs Unicode folding: non-ASCII spellings would compare equal")
				continue
			}
			v := c.Value()
			if v == nil {
				continue
			}
			onlyCompared := true
			for _, ref := range *v.Referrers() {
				switch u := ref.(type) {
				case *ssa.BinOp:
					if u.Op != token.EQL && u.Op != token.NEQ {
						onlyCompared = false
					}
				case *ssa.DebugRef:
				default:
					onlyCompared = false
				}
			}
			key := "casemap:" + short(name) + "(" + short(tb.Term(c.Common().Args[0]).String()) + ")"
			if onlyCompared {
				r.OK(fn.String(), key, r.pos(c), "result only compared with other strings (case test): not a sink")
				continue
			}
			ok, why := p.provablyASCII(fn, c.Common().Args[0], c.(ssa.Instruction), 0)
			if !ok {
				// mapped first, validated afterwards: the operand is provably ASCII wherever the
				// result (or a string built from it) is put to use
				var sinks []ssa.Instruction
				seen := map[ssa.Value]bool{v: true}
				work := []ssa.Value{v}
				for len(work) > 0 {
					cur := work[len(work)-1]
					work = work[:len(work)-1]
					for _, ref := range *cur.Referrers() {
						switch u := ref.(type) {
						case *ssa.DebugRef:
						case *ssa.BinOp:
							if u.Op == token.ADD {
								if !seen[u] {
									seen[u] = true
									work = append(work, u)
								}
							} else if u.Op != token.EQL && u.Op != token.NEQ {
								sinks = append(sinks, u)
							}
						case *ssa.Phi:
							if !seen[u] {
								seen[u] = true
								work = append(work, u)
							}
						default:
							sinks = append(sinks, ref)
						}
					}
				}
				all := len(sinks) > 0
				for _, sk := range sinks {
					if okS, _ := p.provablyASCII(fn, c.Common().Args[0], sk, 0); !okS {
						all = false
					}
				}
				if all {
					ok, why = true, "the operand is validated before every use of the result"
				}
			}
			if ok {
				r.OK(fn.String(), key, r.pos(c), why)
			} else {
				r.Bad(fn.String(), key, r.pos(c), "the result of "+short(name)+" is used (sliced, looked up, returned) but its operand is not provably ASCII ("+why+"): Unicode case folding maps non-ASCII runes such as U+212A KELVIN SIGN into the Bech32 alphabet and can change the string's length")
			}
		}
	}

	// ---- R09.2
	r.Rule("R09.2", "indices are applied to the string they were computed on: slice/index obligations of internal/bech32", 20)
	table := loadBoundsTable(r)
	for _, fn := range p.Funcs {
		if !inPkg(fn, pkgBech32) {
			continue
		}
		r.Saw(fn.String())
		for _, ob := range p.BoundsOf(fn) {
			if ob.Kind != "slice" && ob.Kind != "index" {
				continue
			}
			if ob.OK {
				r.OK(fn.String(), ob.Desc, r.pos(ob.Instr), ob.How)
				continue
			}
			found := false
			for _, e := range table {
				if e.Func == fn.String() && e.Construct == ob.Desc {
					found = true
					if why := checkRequires(p, r, e); why != "" {
						r.Bad(fn.String(), ob.Desc, r.pos(ob.Instr), "table entry's prerequisite no longer holds: "+why)
					} else {
						r.OK(fn.String(), ob.Desc, r.pos(ob.Instr), "table: "+e.Reason)
					}
				}
			}
			if !found {
				r.Bad(fn.String(), ob.Desc, r.pos(ob.Instr), ob.Detail+": the index was computed on a different (or differently sized) string — slicing can panic or select the wrong characters")
			}
		}
	}

	// ---- R09.3
	r.Rule("R09.3", "Decode's rejections", 7)
	checkDecodeGuards(p, r, dec, cb)

	// ---- R09.4 / R09.7 recipes
	r.Rule("R09.4", "exact HRP and length checks; printing uses the table's HRPs", 6)
	checkSites(p, r, recipeSites, "C09")

	// ---- R09.5
	r.Rule("R09.5", "BIP-173 constants", 5)
	checkConsts(p, r, []ConstSite{
		{"bech32.charset", pkgBech32, "charset", "var"},
		{"bech32.generator", pkgBech32, "generator", "var"},
	})
	{
		// polymod: initial value 1; verify == 1; create xor 1; checksum length 6
		for _, site := range []Site{
			{Key: "bech32.verifyChecksum.result", Pkg: pkgBech32, Func: "verifyChecksum", What: "ret:0"},
			{Key: "bech32.createChecksum.values", Pkg: pkgBech32, Func: "createChecksum", What: "arg:bech32.polymod:0"},
			{Key: "bech32.hrpExpand.result", Pkg: pkgBech32, Func: "hrpExpand", What: "ret:0"},
		} {
			got, pos, _, err := p.Extract(site)
			sub := pkgBech32 + "." + site.Func
			if err != nil {
				r.Unk(sub, "recipe:"+site.Key, "", err.Error())
				continue
			}
			want := specRecipe(r, site.Key)
			r.Check(got == want, sub, "recipe:"+site.Key, pos, got, "got  "+got+"\n   want "+want)
		}
	}

	// ---- R09.8
	r.Rule("R09.8", "a string the parsers refuse is reported as an error (= R13.9 for the key-string packages)", 1)
	checkNoSilentRefusal(p, r, []string{pkgAge, pkgPlugin, pkgBech32, pkgSSH})

	// ---- R09.6
	r.Rule("R09.6", "plugin names are validated on every successful parse and encode", 4)
	checkPluginNameValidated(p, r)
}

// checkDecodeGuards is rule R09.3 (shared with C18 R18.6).
func checkDecodeGuards(p *Program, r *Result, dec, cb *ssa.Function) {
	{
		tb := p.TB(dec)
		ret, err := successReturn(dec)
		if err != nil {
			r.Unk(dec.String(), "success-return", "", err.Error())
		} else {
			facts := tb.FactsAt(ret.Block())
			need := []struct{ key, text, alt string }{
				{"separator:low", `strings.LastIndex(P1, "1") >= 1`, `strings.LastIndexByte(P1, 49) >= 1`},
				{"separator:high", `(strings.LastIndex(P1, "1") + 7) <= len(P1)`, `(strings.LastIndexByte(P1, 49) + 7) <= len(P1)`},
			}
			for _, n := range need {
				a, ok := hasFactShort(facts, n.text)
				if !ok {
					a, ok = hasFactShort(facts, n.alt)
				}
				if ok {
					r.OK(dec.String(), n.key, r.pos(ret), "", guardWitness(p, a))
				} else {
					r.Bad(dec.String(), n.key, r.pos(ret), "success is not dominated by `"+n.text+"`")
				}
			}
			a, ok := findFact(facts, func(a Atom) bool {
				return a.Kind == "call" && a.Pol && a.Call.S == pkgBech32+".verifyChecksum" && len(a.Call.Args) == 2 && a.Call.Args[0].Key() == tb.Term(resultsOf(ret)[0]).Key()
			})
			if ok {
				r.OK(dec.String(), "checksum", r.pos(ret), "", guardWitness(p, a))
			} else {
				r.Bad(dec.String(), "checksum", r.pos(ret), "success is not dominated by verifyChecksum(hrp, data) == true for the returned hrp")
			}
			// convertBits(data[:len-6], 5, 8, false) with err == nil
			cc := callsTo(dec, cb.String())
			okc := len(cc) == 1
			if okc {
				args := cc[0].Common().Args
				okc = tb.Term(args[1]).String() == "5" && tb.Term(args[2]).String() == "8" && tb.Term(args[3]).String() == "false" && tb.Term(resultsOf(ret)[1]).Key() == tb.Term(cc[0].Value()).Key()+".0"
				if okc {
					_, okc = errFactFor(facts, cc[0].Value(), true)
				}
			}
			r.Check(okc, dec.String(), "regroup", r.pos(ret), "data = convertBits(·, 5, 8, false) with the error checked", "the returned data is not convertBits(values, 5, 8, false) with its error checked")
		}
		// mixed case
		okMixed := false
		for _, rt := range returnsOf(dec) {
			facts := tb.FactsAt(rt.Block())
			_, a := hasFactShort(facts, "strings.ToLower(P1) != P1")
			_, b := hasFactShort(facts, "strings.ToUpper(P1) != P1")
			if a && b && !isNilConst(resultsOf(rt)[2]) {
				okMixed = true
			}
		}
		if !okMixed {
			// the same decision taken while scanning: one flag per letter case
			okMixed = caseFlagsRejection(p, dec)
		}
		r.Check(okMixed, dec.String(), "mixed-case", "", "rejected when neither all-lower nor all-upper", "no error return under exactly ToLower(s) != s && ToUpper(s) != s")
		// every data symbol in the charset
		okSym := false
		for _, l := range rangeLoops(dec) {
			if len(p.loopEarlyExits(l)) != 0 {
				continue // a range over the data part, by rune or (the string being ASCII by then) by byte
			}
			for _, rt := range returnsOf(dec) {
				if !l.inLoop(rt.Block()) {
					continue
				}
				facts := tb.FactsAt(rt.Block())
				if _, ok := findFact(facts, func(a Atom) bool {
					neg := a.Op == "==" && a.Y.S == "-1" || a.Op == "<" && a.Y.S == "0" || a.Op == "<=" && a.Y.S == "-1"
					return a.Kind == "cmp" && neg && a.X.Op == "Call" && (a.X.S == "strings.IndexRune" || a.X.S == "strings.IndexByte") && short(a.X.Args[0].String()) == specConst(r, "bech32.charset")
				}); ok && !isNilConst(resultsOf(rt)[2]) {
					okSym = true
				}
			}
		}
		r.Check(okSym, dec.String(), "alphabet", "", "a symbol outside the charset is an error", "no in-loop error return under strings.IndexRune(charset, c) == -1")
		// convertBits padding rejections
		ctb := p.TB(cb)
		n := 0
		for _, rt := range returnsOf(cb) {
			if isNilConst(resultsOf(rt)[1]) {
				continue
			}
			facts := ctb.FactsAt(rt.Block())
			_, notPad := findFact(facts, func(a Atom) bool { return a.Kind == "bool" && !a.Pol && a.X.String() == "P4" })
			if notPad {
				n++
			}
		}
		r.Check(n >= 2, cb.String(), "padding", "", "two error returns on the !pad path (surplus bits, non-zero padding)", "convertBits has fewer than two padding rejections on the !pad path")
	}

}

// caseFlagsRejection: Decode rejects a mixed-case string by two flags set while every byte of
// the string is scanned: an error return stands under exactly (flagA, flagB, scan completed),
// both flags start false, and one iteration with byte c turns them into
// flagA || 'a'<=c<='z' and flagB || 'A'<=c<='Z' for every byte the scan lets pass (all of them
// ASCII). Decided by evaluating the loop body for all 256 byte values and the four flag states.
func caseFlagsRejection(p *Program, dec *ssa.Function) bool {
	if len(dec.Params) == 0 {
		return false
	}
	ep, _ := p.elemPredicate(dec, func(v ssa.Value) bool { return v == ssa.Value(dec.Params[0]) })
	if ep == nil || ep.Domain != "byte" {
		return false
	}
	tb := p.TB(dec)
	for _, rt := range returnsOf(dec) {
		rs := resultsOf(rt)
		if len(rs) == 0 || isNilConst(rs[len(rs)-1]) || ep.Loop.inLoop(rt.Block()) || !p.completedAt(ep.Loop, rt.Block()) {
			continue
		}
		var flags []*ssa.Phi
		clean := true
		for _, a := range tb.FactsAt(rt.Block()) {
			if a.Kind == "bool" && a.Pol && a.X != nil {
				if ph, ok := a.X.V.(*ssa.Phi); ok && ph.Block() == ep.Loop.Header {
					dup := false
					for _, f := range flags {
						dup = dup || f == ph
					}
					if !dup {
						flags = append(flags, ph)
					}
					continue
				}
			}
			if a.Kind == "cmp" && a.Op == ">=" && strings.HasSuffix(a.String(), ">= len(P1)") {
				continue // the scan ran to the end
			}
			clean = false
		}
		if !clean || len(flags) != 2 {
			continue
		}
		// both start false
		startFalse := true
		for _, ph := range flags {
			for k, pb := range ep.Loop.Header.Preds {
				if ep.Loop.blocks()[pb] || ep.Loop.inLoop(pb) {
					continue
				}
				if c, ok := ph.Edges[k].(*ssa.Const); !ok || c.Value == nil || c.Value.ExactString() != "false" {
					startFalse = false
				}
			}
		}
		if !startFalse {
			continue
		}
		for _, order := range [][2]int{{0, 1}, {1, 0}} {
			lo, up := flags[order[0]], flags[order[1]]
			good := true
			for c := int64(0); c <= 255 && good; c++ {
				for st := 0; st < 4 && good; st++ {
					env := map[*ssa.Phi]bool{lo: st&1 != 0, up: st&2 != 0}
					out, res := ep.FlagStep(c, env)
					switch res {
					case 0:
					case 1:
						if c > 127 || out[lo] != (env[lo] || (c >= 'a' && c <= 'z')) || out[up] != (env[up] || (c >= 'A' && c <= 'Z')) {
							good = false
						}
					default:
						good = false
					}
				}
			}
			if good {
				return true
			}
		}
	}
	return false
}
