package main

import (
	"go/types"
	"strings"

	"golang.org/x/tools/go/ssa"
)

// Effects of the STREAM helpers, recognised wherever they are written: the
// normal form splices the tiny helpers setLastChunkFlag and nonceIsZero into
// their callers, so the rules look for what they do, not for their names.

// nonceArrayBase: v addresses a nonce array (the `nonce` field of a stream
// reader/writer, or a *[N]byte parameter); returns the array length.
func nonceArrayBase(v ssa.Value) (int64, bool) {
	pt, ok := v.Type().Underlying().(*types.Pointer)
	if !ok {
		return 0, false
	}
	arr, ok := pt.Elem().Underlying().(*types.Array)
	if !ok {
		return 0, false
	}
	if bt, ok := arr.Elem().Underlying().(*types.Basic); !ok || bt.Kind() != types.Uint8 {
		return 0, false
	}
	switch x := v.(type) {
	case *ssa.FieldAddr:
		if fieldName(x.X.Type(), x.Field) == "nonce" {
			return arr.Len(), true
		}
	case *ssa.Parameter:
		return arr.Len(), true
	}
	return 0, false
}

// isFlagSet: the instruction sets the final-chunk flag: it stores the constant
// lastChunkFlag at the last byte of a nonce array (or calls a helper that is
// still called setLastChunkFlag).
func (p *Program) isFlagSet(in ssa.Instruction) bool {
	switch x := in.(type) {
	case *ssa.Store:
		ia, ok := x.Addr.(*ssa.IndexAddr)
		if !ok {
			return false
		}
		n, ok := nonceArrayBase(ia.X)
		if !ok {
			return false
		}
		idx, okI := constInt(ia.Index)
		val, okV := constInt(x.Val)
		flag, _ := p.ConstValue(pkgStream, "lastChunkFlag")
		return okI && okV && idx == n-1 && flag == "1" && val == 1
	case ssa.CallInstruction:
		return calleeName(x.Common()) == pkgStream+".setLastChunkFlag"
	}
	return false
}

// nonceWrites lists, for the stream package, every store into a nonce array
// outside the counter function, with whether it is a flag set.
func (p *Program) nonceStores(skip *ssa.Function) (flagSets, others []*ssa.Store) {
	for _, f := range p.Funcs {
		if f == skip || !inPkg(f, pkgStream) {
			continue
		}
		for _, b := range f.Blocks {
			for _, in := range b.Instrs {
				s, ok := in.(*ssa.Store)
				if !ok {
					continue
				}
				a := s.Addr
				depth := 0
				for {
					if ia, isIA := a.(*ssa.IndexAddr); isIA {
						a = ia.X
						depth++
						continue
					}
					break
				}
				if _, isNonce := nonceArrayBase(a); !isNonce {
					continue
				}
				if _, isParam := a.(*ssa.Parameter); isParam && depth == 0 {
					continue
				}
				if p.isFlagSet(s) {
					flagSets = append(flagSets, s)
				} else {
					others = append(others, s)
				}
			}
		}
	}
	return
}

// isNonceZeroTest: the atom says that a nonce array is (Pol) / is not (!Pol) all zero:
// a comparison of the array with the zero array, or a call of a helper still named nonceIsZero.
func nonceZeroAtom(p *Program, a Atom) (isZero bool, ok bool) {
	switch a.Kind {
	case "call":
		if a.Call != nil && a.Call.S == pkgStream+".nonceIsZero" {
			return a.Pol, true
		}
	case "cmp":
		// the byte-loop form: some byte of the nonce is known to be non-zero
		if a.Op == "!=" && a.Y != nil && a.Y.Op == "Const" && a.Y.S == "0" && a.X != nil && a.X.Op == "Elem" && len(a.X.Args) == 2 && strings.HasPrefix(a.X.Args[1].String(), "(RangeIdx#") {
			// (the index is the counter of a range loop over the array: any byte, not a fixed one)
			if b := a.X.Args[0]; b != nil && (strings.HasSuffix(b.String(), ".nonce)") || strings.HasSuffix(b.String(), ".nonce))")) {
				return false, true
			}
		}
		// compared (bytes.Equal) with a package-level array of the same type that nothing ever writes
		if (a.Op == "==" || a.Op == "!=") && a.X != nil && a.Y != nil && a.X.Op == "Slice" && a.Y.Op == "Slice" && len(a.X.Args) == 3 && len(a.Y.Args) == 3 {
			full := func(t *Term) bool { return t.Args[1].String() == "_" && t.Args[2].String() == "_" }
			if g, isG := a.Y.Args[0].V.(*ssa.Global); isG && full(a.X) && full(a.Y) && strings.HasSuffix(a.X.Args[0].String(), ".nonce)") && p != nil && p.globalNeverWritten(g) {
				if pt, isP := g.Type().Underlying().(*types.Pointer); isP {
					if at, isA := pt.Elem().Underlying().(*types.Array); isA && at.Len() == 12 {
						return a.Op == "==", true
					}
				}
			}
		}
		if (a.Op == "==" || a.Op == "!=") && a.Y != nil && a.Y.Op == "Const" && len(a.Y.S) > 5 && a.Y.S[:5] == "zero(" {
			if x := a.X; x != nil && (x.Op == "Field" || x.Op == "Deref" || x.Op == "Mem") {
				return a.Op == "==", true
			}
			return a.Op == "==", true
		}
	}
	return false, false
}
