package main

// E4 — effects: per function, which struct fields and package variables it may
// store to through memory that is not freshly allocated in that invocation,
// and which parameters it may write through. Fix-point over the call graph.

import (
	"fmt"
	"go/token"
	"go/types"
	"sort"

	"golang.org/x/tools/go/ssa"
)

// Root classifies where the memory behind an address comes from.
type Root struct {
	Kind  string // fresh | param | global | captured | callres | unknown
	Param int    // for param
	Name  string // global name / callee name
	Deep  bool   // reached through a loaded pointer/slice (not the object itself)
}

func (r Root) String() string {
	switch r.Kind {
	case "param":
		d := ""
		if r.Deep {
			d = "*"
		}
		return fmt.Sprintf("param%d%s", r.Param, d)
	case "global", "callres":
		return r.Kind + ":" + r.Name
	}
	return r.Kind
}

// Write is one memory write (store, copy, append, writing external callee).
type Write struct {
	Addr  ssa.Value // the address or slice written through
	Instr ssa.Instruction
	Field string // "pkg.T.f" if the address is (inside) a struct field, else ""
	Roots []Root
	How   string // store | copy | append | call:<name>
}

type Effects struct {
	Fn           *ssa.Function
	Writes       []*Write        // direct, including writes to fresh memory
	Fields       map[string]bool // direct, base not fresh
	AllFields    map[string]bool // transitive
	Globals      map[string]bool // direct
	AllGlobals   map[string]bool // transitive
	WritesParam  map[int]bool    // transitive: may write memory reachable from param i
	ReturnsFresh bool            // every returned pointer/slice result is fresh memory
	UnknownExt   []*Write        // shared memory handed to external callees not in a contract
}

// external callees that write through an argument: name -> arg indices
var writingExt = map[string][]int{
	"crypto/rand.Read":                    {0},
	"crypto/rsa.EncryptOAEP":              {0}, // the hash state is used (reset and written)
	"crypto/rsa.DecryptOAEP":              {0},
	"invoke (hash.Hash).Write":            {0},
	"invoke (hash.Hash).Reset":            {0},
	"io.ReadFull":                         {1},
	"io.ReadAtLeast":                      {1},
	"sort.Strings":                        {0},
	"sort.Slice":                          {0},
	"slices.Sort":                         {0},
	"invoke (io.Reader).Read":             {1},
	"(*bufio.Reader).Read":                {1},
	"(*os.File).Read":                     {1},
	"invoke (crypto/cipher.AEAD).Seal":    {1},
	"invoke (crypto/cipher.AEAD).Open":    {1},
	"(*encoding/base64.Encoding).Decode":  {1},
	"(*encoding/base64.Encoding).Encode":  {1},
	"invoke (hash.Hash).Sum":              {1},
	"encoding/binary.bigEndian.PutUint16": {0},
	"(*bytes.Buffer).Read":                {1},
	"(*strings.Builder).WriteString":      {0},
	"(*strings.Builder).WriteByte":        {0},
	"(*bytes.Buffer).Write":               {0},
	"(*bytes.Buffer).WriteTo":             {0},
	"(*bytes.Buffer).ReadFrom":            {0},
	"flag.BoolVar":                        {0},
	"flag.StringVar":                      {0},
	"flag.Var":                            {0},
}

// external callees that return memory not shared with their arguments
var freshExt = map[string]bool{
	"golang.org/x/crypto/chacha20poly1305.New":         true,
	"golang.org/x/crypto/hkdf.New":                     true,
	"golang.org/x/crypto/curve25519.X25519":            true,
	"golang.org/x/crypto/scrypt.Key":                   true,
	"crypto/hmac.New":                                  true,
	"crypto/sha256.New":                                true,
	"crypto/sha512.New":                                true,
	"crypto/sha256.Sum256":                             true,
	"crypto/rsa.EncryptOAEP":                           true,
	"crypto/rsa.DecryptOAEP":                           true,
	"bufio.NewReader":                                  true,
	"bufio.NewScanner":                                 true,
	"bytes.NewReader":                                  true,
	"errors.New":                                       true,
	"fmt.Errorf":                                       true,
	"fmt.Sprintf":                                      true,
	"io.MultiReader":                                   true,
	"io.LimitReader":                                   true,
	"encoding/base64.NewEncoder":                       true,
	"(*encoding/base64.Encoding).DecodeString":         true,
	"(*encoding/base64.Encoding).Strict":               true,
	"strconv.Itoa":                                     true,
	"encoding/hex.EncodeToString":                      true,
	"invoke (hash.Hash).Sum":                           true, // with nil argument
	"(*filippo.io/edwards25519.Point).BytesMontgomery": true,
	"strings.Split":                                    true,
	"golang.org/x/crypto/ssh.NewSignerFromKey":         true,
}

func (p *Program) EffectsOf(fn *ssa.Function) *Effects {
	if p.eff == nil {
		p.computeEffects()
	}
	return p.eff[fn]
}

func fieldKey(fa *ssa.FieldAddr) string {
	return structTypeName(fa.X.Type()) + "." + fieldName(fa.X.Type(), fa.Field)
}

// rootsOf walks an address (or slice/pointer value) back to where its memory
// comes from. deep records that a pointer was loaded on the way.
func (p *Program) rootsOf(v ssa.Value, seen map[ssa.Value]bool, deep bool, fresh map[*ssa.Function]bool) []Root {
	if seen[v] {
		return nil
	}
	seen[v] = true
	switch x := v.(type) {
	case *ssa.Alloc:
		return []Root{{Kind: "fresh", Deep: deep}}
	case *ssa.MakeSlice, *ssa.MakeMap, *ssa.MakeChan, *ssa.MakeClosure:
		return []Root{{Kind: "fresh", Deep: deep}}
	case *ssa.Const:
		return []Root{{Kind: "fresh", Deep: deep}} // nil / constants: no memory
	case *ssa.Parameter:
		idx := 0
		for i, q := range x.Parent().Params {
			if q == x {
				idx = i
			}
		}
		return []Root{{Kind: "param", Param: idx, Deep: deep}}
	case *ssa.FreeVar:
		return []Root{{Kind: "captured", Deep: deep, Name: x.Name()}}
	case *ssa.Global:
		return []Root{{Kind: "global", Name: x.Pkg.Pkg.Path() + "." + x.Name(), Deep: deep}}
	case *ssa.FieldAddr:
		return p.rootsOf(x.X, seen, deep, fresh)
	case *ssa.IndexAddr:
		return p.rootsOf(x.X, seen, deep, fresh)
	case *ssa.Slice:
		return p.rootsOf(x.X, seen, deep, fresh)
	case *ssa.Convert:
		if _, ok := x.X.Type().Underlying().(*types.Basic); ok {
			// string -> []byte conversion allocates
			return []Root{{Kind: "fresh", Deep: deep}}
		}
		return p.rootsOf(x.X, seen, deep, fresh)
	case *ssa.ChangeType:
		return p.rootsOf(x.X, seen, deep, fresh)
	case *ssa.MakeInterface:
		return p.rootsOf(x.X, seen, deep, fresh)
	case *ssa.ChangeInterface:
		return p.rootsOf(x.X, seen, deep, fresh)
	case *ssa.SliceToArrayPointer:
		return p.rootsOf(x.X, seen, deep, fresh)
	case *ssa.TypeAssert:
		return p.rootsOf(x.X, seen, deep, fresh)
	case *ssa.Phi:
		var out []Root
		for _, e := range x.Edges {
			out = append(out, p.rootsOf(e, seen, deep, fresh)...)
		}
		return out
	case *ssa.Extract:
		return p.rootsOf(x.Tuple, seen, deep, fresh)
	case *ssa.UnOp:
		if x.Op != token.MUL {
			return []Root{{Kind: "fresh"}}
		}
		// a pointer or slice loaded from memory
		switch a := x.X.(type) {
		case *ssa.Alloc:
			// local variable holding a pointer: follow what was stored
			var out []Root
			for _, s := range storesTo(a.Parent(), a) {
				out = append(out, p.rootsOf(s.Val, seen, deep, fresh)...)
			}
			if len(out) == 0 {
				out = []Root{{Kind: "fresh", Deep: deep}}
			}
			return out
		case *ssa.FieldAddr:
			// field of a local struct with stores we can see: follow the
			// stored values; otherwise memory reachable from the base.
			if al, ok := a.X.(*ssa.Alloc); ok {
				var out []Root
				n := 0
				for _, r := range *al.Referrers() {
					if fa, ok := r.(*ssa.FieldAddr); ok && fa.Field == a.Field {
						for _, rr := range *fa.Referrers() {
							if s, ok := rr.(*ssa.Store); ok && s.Addr == fa {
								n++
								out = append(out, p.rootsOf(s.Val, seen, true, fresh)...)
							}
						}
					}
				}
				if n > 0 {
					return out
				}
			}
			return p.rootsOf(a.X, seen, true, fresh)
		case *ssa.FreeVar:
			return []Root{{Kind: "captured", Deep: true, Name: a.Name()}}
		}
		return p.rootsOf(x.X, seen, true, fresh)
	case *ssa.Call:
		name := calleeName(&x.Call)
		if name == "builtin append" {
			// result may alias the first argument
			return p.rootsOf(x.Call.Args[0], seen, deep, fresh)
		}
		if freshExt[name] {
			return []Root{{Kind: "fresh", Deep: deep}}
		}
		if callee := staticCallee(&x.Call); callee != nil && callee.Blocks != nil {
			if fresh[callee] {
				return []Root{{Kind: "fresh", Deep: deep}}
			}
		}
		return []Root{{Kind: "callres", Name: name, Deep: deep}}
	case *ssa.Field, *ssa.Index, *ssa.Lookup:
		var inner ssa.Value
		switch y := x.(type) {
		case *ssa.Field:
			inner = y.X
		case *ssa.Index:
			inner = y.X
		case *ssa.Lookup:
			inner = y.X
		}
		return p.rootsOf(inner, seen, true, fresh)
	case *ssa.BinOp, *ssa.Function, *ssa.Builtin:
		return []Root{{Kind: "fresh"}}
	}
	return []Root{{Kind: "unknown", Deep: deep, Name: fmt.Sprintf("%T", v)}}
}

func allFresh(rs []Root) bool {
	for _, r := range rs {
		if r.Kind != "fresh" {
			return false
		}
	}
	return true
}

func hasPointers(t types.Type) bool {
	switch u := t.Underlying().(type) {
	case *types.Basic:
		return false // strings are immutable
	case *types.Pointer, *types.Slice, *types.Map, *types.Chan, *types.Interface, *types.Signature:
		return true
	case *types.Struct:
		for i := 0; i < u.NumFields(); i++ {
			if hasPointers(u.Field(i).Type()) {
				return true
			}
		}
		return false
	case *types.Array:
		return hasPointers(u.Elem())
	case *types.Tuple:
		for i := 0; i < u.Len(); i++ {
			if hasPointers(u.At(i).Type()) {
				return true
			}
		}
		return false
	}
	return true
}

func (p *Program) computeEffects() {
	p.eff = map[*ssa.Function]*Effects{}
	fresh := map[*ssa.Function]bool{}
	cg := p.CG()

	// 1. ReturnsFresh fix-point (optimistic start: false, grow to true only
	// when all returned reference values are fresh given current knowledge).
	for iter := 0; iter < 6; iter++ {
		changed := false
		for _, fn := range p.Funcs {
			if fresh[fn] {
				continue
			}
			ok := true
			any := false
			for _, r := range returnsOf(fn) {
				for _, res := range r.Results {
					if !hasPointers(res.Type()) || isErrorType(res.Type()) {
						continue
					}
					any = true
					if !allFresh(p.rootsOf(res, map[ssa.Value]bool{}, false, fresh)) {
						ok = false
					}
				}
			}
			if ok && any {
				fresh[fn] = true
				changed = true
			}
		}
		if !changed {
			break
		}
	}

	// 2. direct writes
	for _, fn := range p.Funcs {
		e := &Effects{Fn: fn, Fields: map[string]bool{}, AllFields: map[string]bool{}, Globals: map[string]bool{},
			AllGlobals: map[string]bool{}, WritesParam: map[int]bool{}, ReturnsFresh: fresh[fn]}
		p.eff[fn] = e
		addWrite := func(in ssa.Instruction, addr ssa.Value, how string) {
			w := &Write{Instr: in, How: how, Addr: addr}
			// innermost enclosing field
			a := addr
		loop:
			for {
				switch y := a.(type) {
				case *ssa.FieldAddr:
					w.Field = fieldKey(y)
					break loop
				case *ssa.IndexAddr:
					a = y.X
				case *ssa.Slice:
					a = y.X
				case *ssa.UnOp:
					if y.Op == token.MUL {
						a = y.X
					} else {
						break loop
					}
				default:
					break loop
				}
			}
			w.Roots = p.rootsOf(addr, map[ssa.Value]bool{}, false, fresh)
			e.Writes = append(e.Writes, w)
			for _, r := range w.Roots {
				switch r.Kind {
				case "fresh":
					continue
				case "param":
					e.WritesParam[r.Param] = true
				case "global":
					e.Globals[r.Name] = true
				}
				if w.Field != "" {
					e.Fields[w.Field] = true
				}
			}
		}
		for _, b := range fn.Blocks {
			for _, in := range b.Instrs {
				switch x := in.(type) {
				case *ssa.Store:
					if _, isAlloc := x.Addr.(*ssa.Alloc); isAlloc {
						continue // local variable
					}
					addWrite(in, x.Addr, "store")
				case *ssa.MapUpdate:
					addWrite(in, x.Map, "mapupdate")
				case ssa.CallInstruction:
					c := x.Common()
					name := calleeName(c)
					switch name {
					case "builtin copy":
						addWrite(in, c.Args[0], "copy")
						continue
					case "builtin append":
						// append may write into the spare capacity of its
						// first argument's backing array
						if !isNilConst(c.Args[0]) {
							addWrite(in, c.Args[0], "append")
						}
						continue
					}
					if idxs, ok := writingExt[name]; ok {
						all := c.Args
						if c.IsInvoke() {
							all = append([]ssa.Value{c.Value}, c.Args...)
						}
						for _, i := range idxs {
							if i < len(all) && !isNilConst(all[i]) {
								addWrite(in, all[i], "call:"+name)
							}
						}
					}
				}
			}
		}
	}

	// 3. transitive closure
	for _, fn := range p.Funcs {
		e := p.eff[fn]
		for k := range e.Fields {
			e.AllFields[k] = true
		}
		for k := range e.Globals {
			e.AllGlobals[k] = true
		}
	}
	changed := true
	for changed {
		changed = false
		for _, fn := range p.Funcs {
			e := p.eff[fn]
			for _, edge := range cg.Out[fn] {
				ce := p.eff[edge.Callee]
				if ce == nil {
					continue
				}
				for k := range ce.AllFields {
					if !e.AllFields[k] {
						e.AllFields[k] = true
						changed = true
					}
				}
				for k := range ce.AllGlobals {
					if !e.AllGlobals[k] {
						e.AllGlobals[k] = true
						changed = true
					}
				}
				// parameter write-through
				call, ok := edge.Site.(ssa.CallInstruction)
				if !ok {
					// closure creation: captured variables may be written
					continue
				}
				c := call.Common()
				args := c.Args
				if c.IsInvoke() {
					args = append([]ssa.Value{c.Value}, c.Args...)
				}
				if edge.Kind == "funcvalue" || edge.Kind == "static" {
					if mc, ok := c.Value.(*ssa.MakeClosure); ok {
						_ = mc
					}
				}
				for i := range ce.WritesParam {
					if i >= len(args) {
						continue
					}
					for _, r := range p.rootsOf(args[i], map[ssa.Value]bool{}, false, fresh) {
						if r.Kind == "param" && !e.WritesParam[r.Param] {
							e.WritesParam[r.Param] = true
							changed = true
						}
					}
				}
			}
		}
	}
}

func sortedKeys(m map[string]bool) []string {
	var out []string
	for k := range m {
		out = append(out, k)
	}
	sort.Strings(out)
	return out
}

func writeAddr(w *Write) ssa.Value { return w.Addr }
