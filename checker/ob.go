package main

import (
	"crypto/sha1"
	"encoding/hex"
	"encoding/json"
	"fmt"
	"os"
	"path/filepath"
	"sort"
	"strings"
)

const (
	Discharged = "discharged"
	Violated   = "violated"
	Undecided  = "undecided"
	Machinery  = "machinery"
)

// Witness is the construct that discharged an obligation.
type Witness struct {
	Kind string `json:"kind"` // guard | call | term | store | table
	Pos  string `json:"pos,omitempty"`
	Text string `json:"text"`
}

// Obligation is one instance of one rule on one construct of /repo.
type Obligation struct {
	Property  string    `json:"property"`
	Rule      string    `json:"rule"`
	Subject   string    `json:"subject"`   // function / symbol
	Construct string    `json:"construct"` // construct descriptor, no line numbers
	Status    string    `json:"status"`
	Pos       string    `json:"pos,omitempty"` // diagnostics only
	Witness   []Witness `json:"witness,omitempty"`
	Detail    string    `json:"detail,omitempty"`
	Config    string    `json:"config,omitempty"`
}

func (o *Obligation) Key() string {
	return o.Property + "|" + o.Rule + "|" + o.Subject + "|" + o.Construct
}

// RuleInfo describes one rule for evidence output.
type RuleInfo struct {
	ID    string
	Text  string
	Floor int // minimum number of instances confirmed by hand on the pinned tree
}

// Result collects the obligations produced for one property in one config.
type Result struct {
	Property string
	Rules    []RuleInfo
	Obs      []*Obligation
	cur      string // current rule id
	prog     *Program
	// stats
	FuncsAnalysed map[string]bool
	CallSites     int
}

func NewResult(prop string, p *Program) *Result {
	return &Result{Property: prop, prog: p, FuncsAnalysed: map[string]bool{}}
}

func (r *Result) Rule(id, text string, floor int) {
	r.Rules = append(r.Rules, RuleInfo{ID: id, Text: text, Floor: floor})
	r.cur = id
}

func (r *Result) add(status, subject, construct, pos, detail string, w ...Witness) *Obligation {
	o := &Obligation{Property: r.Property, Rule: r.cur, Subject: subject, Construct: construct,
		Status: status, Pos: pos, Detail: detail, Witness: w}
	if r.prog != nil {
		o.Config = r.prog.Config.String()
	}
	// make keys unique within a rule: repeated construct descriptors get #n
	base := o.Construct
	n := 1
	for {
		dup := false
		for _, e := range r.Obs {
			if e.Rule == o.Rule && e.Subject == o.Subject && e.Construct == o.Construct {
				dup = true
				break
			}
		}
		if !dup {
			break
		}
		n++
		o.Construct = fmt.Sprintf("%s#%d", base, n)
	}
	r.Obs = append(r.Obs, o)
	return o
}

func (r *Result) OK(subject, construct, pos, detail string, w ...Witness) {
	r.add(Discharged, subject, construct, pos, detail, w...)
}
func (r *Result) Bad(subject, construct, pos, detail string) {
	r.add(Violated, subject, construct, pos, detail)
}
func (r *Result) Unk(subject, construct, pos, detail string) {
	r.add(Undecided, subject, construct, pos, detail)
}

// Check adds a discharged or violated obligation depending on ok.
func (r *Result) Check(ok bool, subject, construct, pos, okDetail, badDetail string, w ...Witness) bool {
	if ok {
		r.OK(subject, construct, pos, okDetail, w...)
	} else {
		r.Bad(subject, construct, pos, badDetail)
	}
	return ok
}

func (r *Result) Saw(fn string) { r.FuncsAnalysed[fn] = true }

// applyFloors turns a rule with fewer instances than its floor into a
// machinery failure (a rule that matches nothing passes vacuously forever).
func (r *Result) applyFloors() {
	cnt := map[string]int{}
	for _, o := range r.Obs {
		cnt[o.Rule]++
	}
	for _, ri := range r.Rules {
		if cnt[ri.ID] < ri.Floor {
			r.cur = ri.ID
			r.add(Machinery, "rule:"+ri.ID, "floor", "", fmt.Sprintf("rule matched %d instances, floor is %d: the anchored constructs were not found (renamed, removed or rewritten beyond the accepted idioms)", cnt[ri.ID], ri.Floor))
		}
	}
}

// ---------------------------------------------------------------------------
// known findings

type Finding struct {
	Property  string `json:"property"`
	Rule      string `json:"rule"`
	Subject   string `json:"subject"`
	Construct string `json:"construct"`
	Status    string `json:"status"` // known | fixed
	Commit    string `json:"commit,omitempty"`
	What      string `json:"what"`
}

type FindingsFile struct {
	Comment  string    `json:"comment"`
	Findings []Finding `json:"findings"`
	Lines    []string  `json:"lines"` // the "fixed: property=… <commit> <what>" records
}

func loadFindings(path string) (*FindingsFile, error) {
	b, err := os.ReadFile(path)
	if err != nil {
		if os.IsNotExist(err) {
			return &FindingsFile{}, nil
		}
		return nil, err
	}
	var f FindingsFile
	if err := json.Unmarshal(b, &f); err != nil {
		return nil, err
	}
	return &f, nil
}

func (f *FindingsFile) known(o *Obligation) *Finding {
	for i := range f.Findings {
		k := &f.Findings[i]
		if k.Status == "known" && k.Property == o.Property && k.Rule == o.Rule &&
			k.Subject == o.Subject && k.Construct == o.Construct {
			return k
		}
	}
	return nil
}

// ---------------------------------------------------------------------------
// evidence

type ruleEvidence struct {
	Rule       string `json:"rule"`
	Text       string `json:"text"`
	Instances  int    `json:"instances"`
	Floor      int    `json:"floor"`
	Discharged int    `json:"discharged"`
	Violated   int    `json:"violated"`
	Undecided  int    `json:"undecided"`
}

type controlsEvidence struct {
	Built           int      `json:"built"`
	Flipped         int      `json:"flipped"`
	Unbuildable     int      `json:"unbuildable"`
	Redundant       []string `json:"redundant_witness,omitempty"`
	UnbuildableList []string `json:"unbuildable_list,omitempty"`
	Samples         []string `json:"samples,omitempty"`
	failed          string
}

func writeEvidence(verif, prop, tier string, seed int, wall float64, results []*Result, configs []string,
	violations, knownCount int, explanation string, assumptions []string, ctl *controlsEvidence, extra map[string]interface{}) error {

	rules := map[string]*ruleEvidence{}
	var order []string
	funcs := map[string]bool{}
	calls := 0
	total, disch := 0, 0
	distinct := map[string]bool{}
	var samples []interface{}
	seenSampleRule := map[string]int{}
	for _, r := range results {
		for _, ri := range r.Rules {
			if rules[ri.ID] == nil {
				rules[ri.ID] = &ruleEvidence{Rule: ri.ID, Text: ri.Text, Floor: ri.Floor}
				order = append(order, ri.ID)
			}
		}
		for f := range r.FuncsAnalysed {
			funcs[f] = true
		}
		calls += r.CallSites
		for _, o := range r.Obs {
			re := rules[o.Rule]
			if re == nil {
				re = &ruleEvidence{Rule: o.Rule}
				rules[o.Rule] = re
				order = append(order, o.Rule)
			}
			// instance counts are reported for the first configuration only,
			// the totals over all configurations are in obligations/discharged.
			if r == results[0] {
				re.Instances++
				switch o.Status {
				case Discharged:
					re.Discharged++
				case Violated:
					re.Violated++
				default:
					re.Undecided++
				}
			}
			total++
			if o.Status == Discharged {
				disch++
			}
			distinct[o.Key()] = true
			if r == results[0] && seenSampleRule[o.Rule] < 3 {
				seenSampleRule[o.Rule]++
				samples = append(samples, o)
			}
		}
	}
	var rlist []*ruleEvidence
	for _, id := range order {
		rlist = append(rlist, rules[id])
	}
	var flist []string
	for f := range funcs {
		flist = append(flist, f)
	}
	sort.Strings(flist)
	cov := map[string]interface{}{
		"explanation":         explanation,
		"obligations":         total,
		"discharged":          disch,
		"evaluations":         total,
		"distinct_nontrivial": len(distinct),
		"rule":                "one obligation per (rule, function, construct) instance found in /repo's current source; distinct = distinct obligation keys; all are non-trivial in that each names a concrete construct and a witness or counter-construct",
		"rules":               rlist,
		"functions_analysed":  flist,
		"functions_count":     len(flist),
		"call_sites":          calls,
		"build_configs":       configs,
		"samples":             samples,
		"exhaustive":          true,
		"known_findings":      knownCount,
		"checker_cmd":         fmt.Sprintf("./bin/agecheck -prop %s -tier %s", prop, tier),
		"trusted_base": []string{
			"go/types and go/ssa of golang.org/x/tools v0.29.0",
			"contracts of the external functions modelled by the engines (see DESIGN.md App. D)",
			"hand-transcribed specification tables under /verif/spec",
		},
	}
	if ctl != nil {
		cov["controls"] = ctl
	}
	for k, v := range extra {
		cov[k] = v
	}
	ev := map[string]interface{}{
		"property_id": prop,
		"tier":        tier,
		"seed":        seed,
		"level":       "other",
		"coverage":    cov,
		"assumptions": assumptions,
		"wall_s":      wall,
		"violations":  violations,
	}
	b, err := json.MarshalIndent(ev, "", " ")
	if err != nil {
		return err
	}
	dir := filepath.Join(verif, "evidence")
	os.MkdirAll(dir, 0o755)
	return os.WriteFile(filepath.Join(dir, prop+".json"), b, 0o644)
}

// writeReplay stores one failing obligation so that it can be re-evaluated.
func writeReplay(verif string, o *Obligation) string {
	dir := filepath.Join(verif, "out")
	os.MkdirAll(dir, 0o755)
	h := sha1.Sum([]byte(o.Key() + "|" + o.Config))
	name := fmt.Sprintf("%s-%s-%s.json", o.Property, strings.ReplaceAll(o.Rule, ".", "_"), hex.EncodeToString(h[:5]))
	path := filepath.Join(dir, name)
	kind := o.Status
	b, _ := json.MarshalIndent(map[string]interface{}{
		"kind": kind, "obligation": o,
		"replay": fmt.Sprintf("./bin/agecheck -replay %s", path),
	}, "", " ")
	os.WriteFile(path, b, 0o644)
	return path
}
