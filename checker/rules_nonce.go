package main

import (
	"go/token"
	"go/types"

	"golang.org/x/tools/go/ssa"
)

func structUnder(t types.Type) (*types.Struct, bool) {
	st, ok := t.Underlying().(*types.Struct)
	return st, ok
}

// checkNonceLayout decides the structural facts about the STREAM nonce:
// incNonce is the only function that increments, it walks from index len-2
// down to 0 adding one with carry and aborts on wrap-around; setLastChunkFlag
// stores the flag constant at index len-1; nothing else stores into a nonce.
func checkNonceLayout(p *Program, r *Result) {
	inc := r.anchor(pkgStream, "", "incNonce")
	if inc == nil {
		return
	}
	// array length from the parameter type
	arrLen := func(fn *ssa.Function) int64 {
		if len(fn.Params) != 1 {
			return -1
		}
		pt, ok := fn.Params[0].Type().Underlying().(*types.Pointer)
		if !ok {
			return -1
		}
		at, ok := pt.Elem().Underlying().(*types.Array)
		if !ok {
			return -1
		}
		return at.Len()
	}
	n := arrLen(inc)
	if n != 12 {
		r.Bad(inc.String(), "nonce:len", "", "nonce array length is not 12")
		return
	}
	// --- incNonce
	var stores []*ssa.Store
	for _, b := range inc.Blocks {
		for _, in := range b.Instrs {
			if s, ok := in.(*ssa.Store); ok {
				stores = append(stores, s)
			}
		}
	}
	ok := len(stores) == 1
	detail := ""
	if !ok {
		detail = "incNonce must contain exactly one store"
	}
	var phi *ssa.Phi
	prefix := int64(-1) // k when the store goes through nonce[:k]
	if ok {
		s := stores[0]
		ia, isIA := s.Addr.(*ssa.IndexAddr)
		// the counter bytes may be addressed through a prefix nonce[:k] of the parameter
		if isIA {
			if sl, isSl := ia.X.(*ssa.Slice); isSl && sl.X == ssa.Value(inc.Params[0]) && sl.Max == nil {
				lo := int64(0)
				if sl.Low != nil {
					lo, _ = evalIntConst(sl.Low, n)
				}
				if hi, okHi := evalIntConst(sl.High, n); sl.High != nil && okHi && lo == 0 && hi <= n {
					prefix = hi
				}
			}
		}
		if !isIA || (ia.X != inc.Params[0] && prefix < 0) {
			ok, detail = false, "store does not target an element of the nonce parameter"
		} else {
			phi, _ = ia.Index.(*ssa.Phi)
			add, isAdd := s.Val.(*ssa.BinOp)
			if phi == nil {
				ok, detail = false, "element index is not the loop counter"
			} else if !isAdd || add.Op != token.ADD {
				ok, detail = false, "stored value is not element + 1"
			} else {
				one, isOne := constInt(add.Y)
				ld, isLd := add.X.(*ssa.UnOp)
				if !isOne || one != 1 || !isLd || ld.X != ssa.Value(ia) {
					// the load may use a second IndexAddr of the same element
					ia2, _ := func() (*ssa.IndexAddr, bool) {
						if !isLd {
							return nil, false
						}
						x, ok := ld.X.(*ssa.IndexAddr)
						return x, ok
					}()
					if !(isOne && one == 1 && ia2 != nil && ia2.X == ia.X && ia2.Index == ia.Index) {
						ok, detail = false, "stored value is not the same element + 1"
					}
				}
			}
		}
	}
	if ok {
		// counter: init len-2, step -1, bound >= 0
		init, step := false, false
		for _, e := range phi.Edges {
			if c, isC := evalIntConst(e, n); isC && c == n-2 && (prefix < 0 || prefix == n-1) {
				init = true
			} else if b, isB := e.(*ssa.BinOp); isB && b.Op == token.SUB && b.X == ssa.Value(phi) {
				if one, isOne := constInt(b.Y); isOne && one == 1 {
					step = true
				}
			} else {
				ok = false
			}
		}
		if !init || !step || !ok {
			ok, detail = false, "counter does not run from len-2 downwards in steps of one (byte order of the 88-bit counter)"
		}
	}
	if ok {
		// header test i >= 0
		hdr := phi.Block()
		ifi, isIf := hdr.Instrs[len(hdr.Instrs)-1].(*ssa.If)
		cmp, isCmp := func() (*ssa.BinOp, bool) {
			if !isIf {
				return nil, false
			}
			c, ok := ifi.Cond.(*ssa.BinOp)
			return c, ok
		}()
		zero := int64(-1)
		if isCmp {
			zero, _ = constInt(cmp.Y)
		}
		if !isCmp || cmp.Op != token.GEQ || cmp.X != ssa.Value(phi) || zero != 0 {
			// or: no header test at all, and after the byte at i was incremented a test i == 0
			// whose true side never returns (`for i := n-2; ; i-- { c[i]++; ..; if i == 0 { panic } }`)
			alt := false
			if !isCmp || (cmp.X != ssa.Value(phi) && cmp.Y != ssa.Value(phi)) {
				for _, b := range inc.Blocks {
					bi, isBi := b.Instrs[len(b.Instrs)-1].(*ssa.If)
					if !isBi {
						continue
					}
					c2, isC2 := bi.Cond.(*ssa.BinOp)
					if !isC2 || c2.Op != token.EQL || c2.X != ssa.Value(phi) {
						continue
					}
					if k, isK := constInt(c2.Y); !isK || k != 0 {
						continue
					}
					if !dominatesInstr(stores[0], bi) {
						continue
					}
					vis := p.Reach([]Loc{blockStart(b.Succs[0])}, nil)
					sawReturn, sawStore := false, false
					for in := range vis {
						if _, isR := in.(*ssa.Return); isR {
							sawReturn = true
						}
						if in == ssa.Instruction(stores[0]) {
							sawStore = true
						}
					}
					if !sawReturn && !sawStore {
						alt = true
					}
				}
			}
			if !alt {
				ok, detail = false, "loop bound is not i >= 0 (all counter bytes must be reachable)"
			}
		}
	}
	if ok {
		// a non-zero result stops the carry; wrap-around at i == 0 panics
		tb := p.TB(inc)
		stopOK, panicOK := false, false
		for _, b := range inc.Blocks {
			for _, in := range b.Instrs {
				if pn, isP := in.(*ssa.Panic); isP {
					facts := tb.FactsAt(pn.Block())
					if _, f := findFact(facts, func(a Atom) bool {
						return a.Kind == "cmp" && a.Op == "==" && a.X.V == ssa.Value(phi) && a.Y.S == "0"
					}); f {
						if _, g := findFact(facts, func(a Atom) bool {
							return a.Kind == "cmp" && a.Op == "==" && a.X.Op == "Elem" && a.Y.S == "0"
						}); g {
							panicOK = true
						}
					}
				}
			}
		}
		// or: the loop running out of counter bytes (header test false) can only end in a panic
		if !panicOK {
			hdr := phi.Block()
			if ifi, isIf := hdr.Instrs[len(hdr.Instrs)-1].(*ssa.If); isIf && len(hdr.Succs) == 2 {
				_ = ifi
				vis := p.Reach([]Loc{blockStart(hdr.Succs[1])}, nil)
				sawPanic, sawReturn := false, false
				for in := range vis {
					switch in.(type) {
					case *ssa.Panic:
						sawPanic = true
					case *ssa.Return:
						sawReturn = true
					}
				}
				panicOK = sawPanic && !sawReturn
			}
		}
		// the edge "element != 0" must leave the loop: find an If on elem != 0
		for _, b := range inc.Blocks {
			ifi, isIf := b.Instrs[len(b.Instrs)-1].(*ssa.If)
			if !isIf {
				continue
			}
			a := tb.atomOf(Guard{If: ifi, Cond: ifi.Cond, Pol: true})
			if a.Kind == "cmp" && a.X.Op == "Elem" && a.Y.S == "0" {
				k := 0
				if a.Op == "==" {
					k = 1
				}
				// from the "!= 0" successor the store must not be reachable
				vis := p.Reach([]Loc{blockStart(b.Succs[k])}, nil)
				reachesPanic := false
				for in := range vis {
					if _, isP := in.(*ssa.Panic); isP {
						reachesPanic = true
					}
				}
				if !vis[ssa.Instruction(stores[0])] && !reachesPanic {
					stopOK = true
				}
			}
		}
		if !stopOK {
			ok, detail = false, "a non-zero byte does not stop the carry propagation"
		} else if !panicOK {
			ok, detail = false, "wrap-around of the whole counter (i == 0 and byte == 0) does not abort"
		}
	}
	pos := ""
	if len(stores) > 0 {
		pos = r.pos(stores[0])
	}
	r.Check(ok, inc.String(), "nonce:counter", pos, "big-endian counter over bytes len-2..0 with carry and abort on wrap", detail)

	// --- the final-chunk flag: wherever it is written (setLastChunkFlag is spliced into its
	// callers by the normal form), every store of a constant into a nonce array outside the
	// counter function stores lastChunkFlag (1) at the last byte; there is no other writer
	flagSets, others := p.nonceStores(inc)
	fpos := ""
	if len(flagSets) > 0 {
		fpos = r.pos(flagSets[0])
	}
	r.Check(len(flagSets) >= 2, pkgStream, "nonce:flag", fpos, "flag constant 1 stored at the last nonce byte ("+itoa(len(flagSets))+" sites)", "the final-chunk flag (constant 1 at index len-1 of the nonce) is not set on both the reading and the writing side")

	other := ""
	if len(others) > 0 {
		other = others[0].Parent().String() + " at " + r.pos(others[0])
	}
	for _, f := range p.Funcs {
		if f == inc || !inPkg(f, pkgStream) {
			continue
		}
		for _, c := range callsIn(f) {
			if isBuiltin(c.Common(), "copy") {
				if fa, isF := stripSliceToField(c.Common().Args[0]); isF && fieldName(fa.X.Type(), fa.Field) == "nonce" {
					other = f.String() + " at " + r.pos(c)
				}
			}
		}
	}
	r.Check(other == "", pkgStream, "nonce:writers", "", "the nonce fields are written only by incNonce and the final-chunk flag stores", "nonce written outside incNonce and the final-chunk flag store: "+other)
}

func stripSliceToField(v ssa.Value) (*ssa.FieldAddr, bool) {
	for {
		switch x := v.(type) {
		case *ssa.Slice:
			v = x.X
		case *ssa.FieldAddr:
			return x, true
		default:
			return nil, false
		}
	}
}

// evalIntConst folds an integer expression over constants and the lengths of the nonce array
// (n) and of its constant-bounded slices.
func evalIntConst(v ssa.Value, n int64) (int64, bool) {
	if k, ok := constInt(v); ok {
		return k, true
	}
	switch x := v.(type) {
	case *ssa.BinOp:
		a, ok1 := evalIntConst(x.X, n)
		b, ok2 := evalIntConst(x.Y, n)
		if ok1 && ok2 {
			switch x.Op {
			case token.ADD:
				return a + b, true
			case token.SUB:
				return a - b, true
			}
		}
	case *ssa.Call:
		if isBuiltin(&x.Call, "len") && len(x.Call.Args) == 1 {
			switch y := x.Call.Args[0].(type) {
			case *ssa.Slice:
				lo, hi := int64(0), int64(-1)
				okB := true
				if y.Low != nil {
					lo, okB = evalIntConst(y.Low, n)
				}
				if y.High != nil && okB {
					hi, okB = evalIntConst(y.High, n)
				} else if okB {
					if pt, isP := y.X.Type().Underlying().(*types.Pointer); isP {
						if at, isA := pt.Elem().Underlying().(*types.Array); isA {
							hi = at.Len()
						}
					}
				}
				if okB && hi >= lo {
					return hi - lo, true
				}
			default:
				if pt, isP := y.Type().Underlying().(*types.Pointer); isP {
					if at, isA := pt.Elem().Underlying().(*types.Array); isA {
						return at.Len(), true
					}
				}
			}
		}
	}
	return 0, false
}
