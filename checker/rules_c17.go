package main

import (
	"go/token"
	"sort"
	"strconv"
	"strings"

	"golang.org/x/tools/go/ssa"
)

func init() {
	register(&PropertyDef{
		ID: "C17",
		Explanation: "Who-may-call, provenance and validator rules for plugin execution: (R17.1) process creation (exec.Command*, os.StartProcess, syscall.Exec/ForkExec) occurs in non-test module code at exactly one site, plugin.openClientConnection; (R17.2) on the path where the test hook is empty its program argument is \"age-plugin-\"+name, resolved by execabs/os-exec PATH lookup, and the hook is never assigned by production code; " +
			"(R17.3) openClientConnection is called only with the name field of a plugin.Recipient/Identity, and every store to those fields takes its value from ParseRecipient/ParseIdentity under err==nil, from a parameter validated by EncodeIdentity(name,·)!=\"\" or validPluginName, or from the name field of another such value; " +
			"(R17.4) validPluginName rejects the empty string and any rune outside its allow-list constant, which equals the specification's set (letters, digits, + - . _; no path separator); (R17.5) only cmd/age imports the plugin package and the constructors are called only from its flag/argument/file-line parsers, so nothing derived from a file header constructs a plugin. (R17.6) cmd/age hands the -j value itself to plugin.NewIdentityWithoutData.",
		NotDecided:  "what exec PATH lookup does on a given system; the behaviour of the plugin binary.",
		Assumptions: []string{"golang.org/x/sys/execabs (or os/exec of Go >= 1.19) refuses results relative to the current directory"},
		Technique:   "static analysis: who-may-call over the module call graph, per-path term of the exec argument, field-store provenance with dominance guards, validator constant compared with the specification set",
		Run:         runC17,
	})
}

var procCreators = map[string]bool{
	"os/exec.Command": true, "os/exec.CommandContext": true,
	"golang.org/x/sys/execabs.Command": true, "golang.org/x/sys/execabs.CommandContext": true,
	"os.StartProcess": true, "syscall.Exec": true, "syscall.ForkExec": true, "syscall.StartProcess": true,
}

func runC17(p *Program, r *Result) {
	occ := r.anchor(pkgPlugin, "", "openClientConnection")
	vpn := r.anchor(pkgPlugin, "", "validPluginName")
	if occ == nil || vpn == nil {
		return
	}
	r.Rule("R17.0", "the plugin name is the key string's prefix with the fixed affixes removed (recipes)", 2)
	checkSites(p, r, recipeSites, "C17")

	// ---- R17.1
	r.Rule("R17.1", "a single process-creation site", 1)
	var execCall ssa.CallInstruction
	var execCalls []ssa.CallInstruction
	n := 0
	for _, fn := range p.Funcs {
		for _, c := range callsIn(fn) {
			name := calleeName(c.Common())
			if !procCreators[name] {
				continue
			}
			n++
			if fn == occ {
				// more than one site is fine (one per mode): R17.2 looks at the program of each
				if execCall == nil {
					execCall = c
				}
				execCalls = append(execCalls, c)
				r.OK(fn.String(), "exec:"+short(name), r.pos(c), "the plugin client's process creation")
			} else {
				r.Bad(fn.String(), "exec:"+short(name), r.pos(c), "a process is started outside plugin.openClientConnection: its program name is not covered by the plugin-name validation")
			}
		}
	}
	if n == 0 {
		r.Bad(occ.String(), "exec", "", "no process creation found")
		return
	}
	if execCall == nil {
		return
	}

	// ---- R17.2
	r.Rule("R17.2", "the program started is age-plugin-NAME found on PATH", 3)
	{
		tb := p.TB(occ)
		paths, ok := p.EnumPaths(occ.Blocks[0])
		bad := ""
		np := 0
		if !ok {
			bad = "too many paths"
		}
		for _, pa := range paths {
			for _, ec := range execCalls {
				if !pathHas(pa, ec.(ssa.Instruction)) {
					continue
				}
				atoms := tb.pathAtoms(pa)
				_, hookEmpty := findFact(atoms, func(a Atom) bool {
					return a.Kind == "cmp" && a.Op == "==" && a.Y.S == "0" && short(a.X.String()) == "len(plugin.testOnlyPluginPath)"
				})
				if !hookEmpty {
					continue // test mode
				}
				// the hook tested twice with opposite outcomes: no run takes this way
				if _, hookSet := findFact(atoms, func(a Atom) bool {
					k, isK := intConst(a.Y)
					return a.Kind == "cmp" && isK && short(a.X.String()) == "len(plugin.testOnlyPluginPath)" && (a.Op == "!=" && k == 0 || a.Op == ">=" && k == 1 || a.Op == ">" && k == 0)
				}); hookSet {
					continue
				}
				np++
				idx := blockIndexOnPath(pa, ec.Block())
				arg := pa.ResolveAt(ec.Common().Args[0], idx)
				got := short(tb.Term(arg).String())
				// exec.Command searches PATH itself; handing it the result of an explicit
				// LookPath of the same name (its error checked: R13/R15) starts the same file
				lookedUp := got == `execabs.LookPath(("age-plugin-" + P1)).0` || got == `exec.LookPath(("age-plugin-" + P1)).0`
				if got != `("age-plugin-" + P1)` && !lookedUp {
					bad = "on the production path the program argument is " + got + ", not \"age-plugin-\" + name"
				}
			}
		}
		if np == 0 && bad == "" {
			bad = "no path with an empty test hook reaches the process creation"
		}
		r.Check(bad == "", occ.String(), "exec:program", r.pos(execCall), "\"age-plugin-\"+name on every production path", bad)
		okLookup, badName := true, ""
		for _, ec := range execCalls {
			name := calleeName(ec.Common())
			if !(strings.HasPrefix(name, "golang.org/x/sys/execabs.") || strings.HasPrefix(name, "os/exec.")) {
				okLookup, badName = false, name
			}
		}
		r.Check(okLookup, occ.String(), "exec:lookup", r.pos(execCall), short(calleeName(execCall.Common()))+" (PATH lookup that refuses relative results)", "process created through "+badName+" without the PATH lookup")
		// the refusal of a program found relative to the current directory is carried by the
		// command's Err field: nothing in the module assigns it
		errStore := ""
		for _, f := range p.Funcs {
			if !p.inModule(f) {
				continue
			}
			for _, b := range f.Blocks {
				for _, in := range b.Instrs {
					st, ok := in.(*ssa.Store)
					if !ok {
						continue
					}
					fa, ok := st.Addr.(*ssa.FieldAddr)
					if !ok {
						continue
					}
					if ts := typeString(fa.X.Type()); (ts == "*os/exec.Cmd" || ts == "*golang.org/x/sys/execabs.Cmd") && fieldName(fa.X.Type(), fa.Field) == "Err" {
						errStore = f.String() + " at " + r.pos(st)
					}
				}
			}
		}
		r.Check(errStore == "", occ.String(), "exec:err-kept", "", "the command's Err (program found relative to the current directory) is left alone", "the command's Err field is assigned in "+errStore+": the refusal to run a program found through a relative PATH entry is switched off")
		// the hook is never assigned by production code
		g := p.Global(pkgPlugin, "testOnlyPluginPath")
		okh := g != nil
		if okh {
			for _, use := range p.globalUses(g) {
				if st, isSt := use.(*ssa.Store); isSt && st.Addr == ssa.Value(g) {
					if !(st.Parent().Name() == "init" && st.Parent().Parent() == nil) {
						okh = false
					}
				} else if _, isLd := use.(*ssa.UnOp); !isLd {
					okh = false
				}
			}
		}
		r.Check(okh, pkgPlugin+".testOnlyPluginPath", "hook", "", "read-only in production code", "the plugin-path test hook is assigned or its address taken by non-test code")
	}

	// ---- R17.3
	r.Rule("R17.3", "the executed name comes from a validated plugin name", 5)
	{
		for _, e := range p.Callers(occ) {
			c, ok := e.Site.(ssa.CallInstruction)
			if !ok {
				continue
			}
			tb := p.TB(e.Caller)
			t := short(tb.Term(c.Common().Args[0]).String())
			okArg := t == "Field(Recv.name)" && (strings.HasPrefix(e.Caller.String(), "(*"+pkgPlugin+".Recipient).") || strings.HasPrefix(e.Caller.String(), "(*"+pkgPlugin+".Identity)."))
			r.Check(okArg, e.Caller.String(), "call:openClientConnection:name", r.pos(c), "called with the receiver's name field", "openClientConnection is called with "+t+", not with the name field of a plugin.Recipient/Identity")
		}
		for _, typ := range []string{"Recipient", "Identity"} {
			for _, fs := range p.fieldStores(pkgPlugin+"."+typ, "name") {
				tb := p.TB(fs.Fn)
				val := short(tb.Term(fs.Store.Val).String())
				facts := tb.FactsAt(fs.Store.Block())
				ok := false
				why := ""
				switch {
				case val == "plugin.ParseRecipient(P1).0" || val == "plugin.ParseIdentity(P1).0":
					call := strings.TrimSuffix(val, ".0")
					_, ok = hasFactShort(facts, call+".2 == nil")
					why = "first result of " + call + " under err == nil"
				case val == "P1":
					_, a := hasFactShort(facts, `len(plugin.EncodeIdentity(P1, nil)) != 0`)
					_, b := findFact(facts, func(a Atom) bool {
						return a.Kind == "call" && a.Pol && short(a.Call.String()) == "plugin.validPluginName(P1)"
					})
					ok = a || b
					why = "parameter validated by EncodeIdentity(name, nil) != \"\" / validPluginName(name)"
				case val == "Field(Recv.name)" && (strings.HasPrefix(fs.Fn.String(), "(*"+pkgPlugin+".Identity).") || strings.HasPrefix(fs.Fn.String(), "(*"+pkgPlugin+".Recipient).")):
					ok = true
					why = "copied from the name field of an existing plugin value"
				}
				r.Check(ok, fs.Fn.String(), "store:"+typ+".name", r.pos(fs.Store), why, "the plugin name field is set to "+val+" without validation (facts: "+short(factStrings(facts))+"): an unvalidated name would be executed")
			}
		}
		checkPluginNameValidated(p, r)
	}

	// ---- R17.4
	// ---- R17.6
	r.Rule("R17.6", "a bare plugin name given with -j reaches the plugin client as it was typed: cmd/age hands the flag's value itself to plugin.NewIdentityWithoutData (a detour through an identity string folds its case: another program would be started)", 1)
	for _, fn := range p.Funcs {
		if fn.Pkg == nil || fn.Pkg.Pkg.Path() != pkgCmdAge {
			continue
		}
		ftb := p.TB(fn)
		for i, c := range callsTo(fn, pkgPlugin+".NewIdentityWithoutData") {
			t := short(ftb.Term(c.Common().Args[0]).String())
			verbatim := strings.HasPrefix(t, "Field(") && strings.HasSuffix(t, ".Value)") && !strings.Contains(t, "strings.") && !strings.Contains(t, "plugin.")
			r.Saw(fn.String())
			r.Check(verbatim, fn.String(), "bare-name#"+itoa(i), r.pos(c), "the name is the flag value "+t, "the name handed to the plugin client is "+t+", not the value of the -j flag as given")
		}
	}

	r.Rule("R17.4", "the name validator accepts exactly the specified character set", 3)
	{
		tb := p.TB(vpn)
		// empty string rejected
		okEmpty := false
		for _, ret := range returnsOf(vpn) {
			facts := tb.FactsAt(ret.Block())
			if _, ok := hasFact(facts, "len(P1) == 0"); ok {
				if c, isC := ret.Results[0].(*ssa.Const); isC && c.Value.ExactString() == "false" {
					okEmpty = true
				}
			}
		}
		if !okEmpty {
			okEmpty = emptyRejectedInExpression(tb, vpn)
		}
		r.Check(okEmpty, vpn.String(), "empty", "", "the empty name is rejected", "the empty string is not rejected")
		// loop over all runes
		var loop *RangeLoop
		for _, l := range rangeLoops(vpn) {
			if l.Kind == "rangeiter" && stripConv(l.Over) == vpn.Params[0] {
				loop = l
			}
		}
		allowed := ""
		// E10 first: the accepted set by abstract evaluation, whatever the shape of the test
		if ep, _ := p.elemPredicate(vpn, func(v ssa.Value) bool { return v == ssa.Value(vpn.Params[0]) }); ep != nil {
			want := specConst(r, "plugin.validNameChars")
			var extra []int64
			for _, c := range want {
				extra = append(extra, int64(c))
			}
			eq, ok, w := ep.Equals(func(c int64) bool { return c >= 0 && strings.ContainsRune(want, rune(c)) }, extra)
			if ok {
				trueAfter := true
				for _, ret := range returnsOf(vpn) {
					if c, isC := ret.Results[0].(*ssa.Const); isC && c.Value.ExactString() == "true" {
						if !p.completedAt(ep.Loop, ret.Block()) {
							trueAfter = false
						}
					} else if !isC {
						trueAfter = false
					}
				}
				r.Check(trueAfter, vpn.String(), "loop", "", "every element is tested; true only after the loop", "validPluginName returns true before every character was tested")
				r.Check(eq, vpn.String(), "alphabet", "", "the accepted character set equals the specified set", "the accepted character set differs from the specification's at "+strconv.QuoteRune(rune(w)))
				goto r175
			}
		}
		// the same through a library call that applies a predicate function to every rune
		// (strings.IndexFunc(name, notAllowed) < 0)
		if ep := p.elemPredicateCall(vpn, func(v ssa.Value) bool { return v == ssa.Value(vpn.Params[0]) }); ep != nil {
			want := specConst(r, "plugin.validNameChars")
			var extra []int64
			for _, c := range want {
				extra = append(extra, int64(c))
			}
			eq, ok, w := ep.Equals(func(c int64) bool { return c >= 0 && strings.ContainsRune(want, rune(c)) }, extra)
			if ok {
				trueOnlyIfAll := true
				for _, ret := range returnsOf(vpn) {
					if !allPassOrFalse(ret.Results[0], ep.Call, 0) {
						trueOnlyIfAll = false
					}
				}
				r.Check(trueOnlyIfAll, vpn.String(), "loop", "", "every rune is tested by "+short(calleeName(&ep.Call.Call))+"; true only if none is refused", "validPluginName can return true without every character having been tested")
				r.Check(eq, vpn.String(), "alphabet", "", "the accepted character set equals the specified set", "the accepted character set differs from the specification's at "+strconv.QuoteRune(rune(w)))
				goto r175
			}
		}
		{
			okLoop := loop != nil && len(p.loopEarlyExits(loop)) == 0
			if okLoop {
				// in-loop: !ContainsRune(allowed, r) -> return false ; true only after the loop
				okLoop = false
				for _, ret := range returnsOf(vpn) {
					c, isC := ret.Results[0].(*ssa.Const)
					if !isC {
						continue
					}
					facts := tb.FactsAt(ret.Block())
					if c.Value.ExactString() == "false" && loop.inLoop(ret.Block()) {
						if a, ok := findFact(facts, func(a Atom) bool {
							return a.Kind == "call" && !a.Pol && a.Call.S == "strings.ContainsRune" && len(a.Call.Args) == 2 && a.Call.Args[0].Op == "Const" && a.Call.Args[1].String() == "Next(Range(P1)).2"
						}); ok {
							okLoop = true
							allowed, _ = strconv.Unquote(a.Call.Args[0].S)
						}
					}
					if c.Value.ExactString() == "true" && !(ret.Block() == loop.Exit || loop.Exit.Dominates(ret.Block())) {
						okLoop = false
						break
					}
				}
			}
			r.Check(okLoop, vpn.String(), "loop", "", "every rune is tested against the allow-list; true only after the loop", "validPluginName does not test every rune against a constant allow-list with `return false` on the first miss")
			want := specConst(r, "plugin.validNameChars")
			sortStr := func(s string) string {
				rs := []rune(s)
				sort.Slice(rs, func(i, j int) bool { return rs[i] < rs[j] })
				// dedupe
				var out []rune
				for i, c := range rs {
					if i == 0 || c != rs[i-1] {
						out = append(out, c)
					}
				}
				return string(out)
			}
			r.Check(okLoop && sortStr(allowed) == sortStr(want), vpn.String(), "alphabet", "", "allow-list equals the specified set", "allow-list is "+strconv.Quote(sortStr(allowed))+", the specification's set is "+strconv.Quote(sortStr(want)))
		}
	}
r175:

	// ---- R17.5
	r.Rule("R17.5", "plugins are constructed only from explicit command-line input", 4)
	{
		for _, pk := range p.Pkgs {
			if _, imp := pk.Imports[pkgPlugin]; imp {
				r.Check(pk.PkgPath == pkgCmdAge, pk.PkgPath, "import:plugin", "", "only the CLI imports the plugin package", "package "+pk.PkgPath+" imports the plugin package: library code could construct and start plugins")
			}
		}
		allowedCallers := map[string]bool{
			pkgCmdAge + ".parseRecipient": true, pkgCmdAge + ".parseIdentity": true, pkgCmdAge + ".parseIdentities": true,
			pkgCmdAge + ".encryptNotPass": true, pkgCmdAge + ".decryptNotPass": true,
		}
		for _, cn := range []string{"NewRecipient", "NewIdentity", "NewIdentityWithoutData"} {
			fn := r.anchor(pkgPlugin, "", cn)
			if fn == nil {
				continue
			}
			ok := true
			who := ""
			// a new plain helper function of the CLI (not a method: those are reachable through
			// interfaces such as Identity.Unwrap) stands for its callers
			var accepted func(f *ssa.Function, depth int) bool
			accepted = func(f *ssa.Function, depth int) bool {
				if allowedCallers[f.String()] {
					return true
				}
				if depth > 3 || f.Signature.Recv() != nil || f.Parent() != nil || f.Pkg == nil || f.Pkg.Pkg.Path() != pkgCmdAge || isKnownFunc(f.String()) {
					return false
				}
				cs := p.Callers(f)
				if len(cs) == 0 {
					return false
				}
				for _, e := range cs {
					if !accepted(e.Caller, depth+1) {
						return false
					}
				}
				return true
			}
			for _, e := range p.Callers(fn) {
				if !accepted(e.Caller, 0) {
					ok = false
					who = e.Caller.String()
				}
			}
			r.Check(ok, fn.String(), "callers", "", "called only by the CLI's recipient/identity parsers", "constructor called from "+who)
		}
		// struct literals of the plugin types only in the constructors and Identity.Recipient
		okAlloc := true
		where := ""
		for _, fn := range p.Funcs {
			for _, b := range fn.Blocks {
				for _, in := range b.Instrs {
					al, isAl := in.(*ssa.Alloc)
					if !isAl {
						continue
					}
					ts := typeString(al.Type())
					if ts != "*"+pkgPlugin+".Recipient" && ts != "*"+pkgPlugin+".Identity" {
						continue
					}
					switch fn.String() {
					case pkgPlugin + ".NewRecipient", pkgPlugin + ".NewIdentity", pkgPlugin + ".NewIdentityWithoutData", "(*" + pkgPlugin + ".Identity).Recipient", pkgPlugin + ".init":
					default:
						okAlloc = false
						where = fn.String() + " at " + r.pos(al)
					}
				}
			}
		}
		r.Check(okAlloc, pkgPlugin, "literals", "", "plugin values are built only by the validating constructors", "a plugin.Recipient/Identity is built outside the constructors: "+where)
	}
}

// checkPluginNameValidated: ParseRecipient/ParseIdentity return success, and
// EncodeIdentity/EncodeRecipient a non-empty string, only for a name that
// passed validPluginName (shared by C09 R09.6 and C17 R17.3).
func checkPluginNameValidated(p *Program, r *Result) {
	// ParseRecipient / ParseIdentity / EncodeIdentity / EncodeRecipient return success only under validPluginName
	for _, fnName := range []string{"ParseRecipient", "ParseIdentity"} {
		fn := r.anchor(pkgPlugin, "", fnName)
		if fn == nil {
			continue
		}
		tb := p.TB(fn)
		vret, err := successVRet(fn)
		if err != nil {
			r.Unk(fn.String(), "success:validated", "", err.Error())
			continue
		}
		ret := vret.Ret
		name := vret.Results[0]
		facts := tb.FactsAt(vret.Block)
		_, ok := findFact(facts, func(a Atom) bool {
			return a.Kind == "call" && a.Pol && a.Call.S == pkgPlugin+".validPluginName" && len(a.Call.Args) == 1 && a.Call.Args[0].String() == tb.Term(name).String()
		})
		r.Check(ok, fn.String(), "success:validated", r.pos(ret), "the returned name passed validPluginName", "the name returned on success ("+short(tb.Term(name).String())+") was not checked by validPluginName")
	}
	for _, fnName := range []string{"EncodeIdentity", "EncodeRecipient"} {
		fn := r.anchor(pkgPlugin, "", fnName)
		if fn == nil {
			continue
		}
		tb := p.TB(fn)
		okAll := true
		for _, ret := range virtualReturns(fn) {
			if c, isC := ret.Results[0].(*ssa.Const); isC && c.Value.ExactString() == `""` {
				continue
			}
			facts := tb.FactsAt(ret.Block)
			if _, ok := findFact(facts, func(a Atom) bool {
				return a.Kind == "call" && a.Pol && short(a.Call.String()) == "plugin.validPluginName(P1)"
			}); !ok {
				okAll = false
			}
		}
		r.Check(okAll, fn.String(), "nonempty:validated", "", "a non-empty encoding is returned only for a valid name", "a non-empty encoding can be returned for a name that was not validated")
	}
}

// allPassOrFalse: v is false, or is true exactly when the library call found no element for
// which the predicate holds (IndexFunc(..) < 0, == -1, !ContainsFunc(..)), or a merge of such.
func allPassOrFalse(v ssa.Value, call *ssa.Call, depth int) bool {
	if depth > 4 {
		return false
	}
	switch x := v.(type) {
	case *ssa.Const:
		return x.Value != nil && x.Value.ExactString() == "false"
	case *ssa.Phi:
		for _, e := range x.Edges {
			if !allPassOrFalse(e, call, depth+1) {
				return false
			}
		}
		return true
	case *ssa.UnOp:
		if x.Op == token.NOT && x.X == ssa.Value(call) && strings.HasSuffix(calleeName(&call.Call), "ContainsFunc") {
			return true
		}
	case *ssa.BinOp:
		if x.X != ssa.Value(call) || !strings.HasSuffix(calleeName(&call.Call), "IndexFunc") {
			return false
		}
		k, ok := constInt(x.Y)
		if !ok {
			return false
		}
		return x.Op == token.LSS && k == 0 || x.Op == token.EQL && k == -1 || x.Op == token.LEQ && k == -1
	}
	return false
}
