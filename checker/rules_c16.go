package main

import (
	"fmt"
	"encoding/json"
	"go/types"
	"os"
	"path/filepath"
	"regexp"
	"sort"
	"strings"

	"golang.org/x/tools/go/ssa"
)

func init() {
	register(&PropertyDef{
		ID: "C16",
		Explanation: "The plugin client's two state machines and its UI dispatcher compared with the protocol table (spec/protocol.json): (R16.1) the ordered phase-1 writes that dominate the read loop are the prescribed messages (recipient or identity, grease, file key or one recipient-stanza per input stanza with index 0, label extension, done), each write's error returned; " +
			"(R16.2) for every arm of the command switches, the set of (reply sequence, outcome) over all acyclic paths from the arm to the loop back-edge, the loop exit or a return equals the table: exactly one reply per accepted command, none after a malformed one, `unsupported` exactly when the UI did not handle it; " +
			"(R16.3) the index is parsed and compared with 0, and repeats are rejected, before a stanza/key/labels is accepted; (R16.4) zero stanzas is an error, no file key is exactly ErrIncorrectIdentity kept by %w, a read error leaves the loop. (R16.8 = R07.6) the stanza reader passes over no line; (R16.9) Wrap/WrapWithLabels/Unwrap store into no field of the client values; (R16.10) no goroutine or in-process pipe between the plugin and the reader.",
		NotDecided:  "what a real plugin process does; timing of WaitTimer; framing arithmetic (C07).",
		Assumptions: []string{"spec/protocol.json transcribes the age plugin protocol correctly"},
		Technique:   "static analysis: acyclic path enumeration per switch arm over go/ssa with the write calls as the alphabet, compared as sets with a protocol table; dominance guards",
		Run:         runC16,
	})
}

const (
	fnWriteStanza     = pkgPlugin + ".writeStanza"
	fnWriteStanzaBody = pkgPlugin + ".writeStanzaWithBody"
	fnStanzaMarshal   = "(*" + pkgFormat + ".Stanza).Marshal"
	fnHandle          = "(*" + pkgPlugin + ".ClientUI).handle"
	fnReadStanza      = "(*" + pkgPlugin + ".ClientUI).readStanza"
)

// writeLabel names a protocol write for comparison with the table.
func writeLabel(tb *TB, pa *Path, c ssa.CallInstruction) string {
	name := calleeName(c.Common())
	args := c.Common().Args
	res := func(v ssa.Value) ssa.Value {
		if pa == nil {
			return v
		}
		return pa.ResolveAt(v, blockIndexOnPath(pa, c.Block()))
	}
	switch name {
	case fnWriteStanza:
		t := short(tb.Term(res(args[1])).String())
		extra := short(tb.Term(args[2]).String())
		if extra == "nil" {
			return "W(" + t + ")"
		}
		if ph, ok := args[2].(*ssa.Slice); ok {
			_ = ph
		}
		return "W(" + t + " " + extra + ")"
	case fnWriteStanzaBody:
		return "WB(" + short(tb.Term(res(args[1])).String()) + "; " + short(tb.Term(args[2]).String()) + ")"
	case fnStanzaMarshal:
		return "M(" + short(tb.Term(args[0]).String()) + ")"
	case fnHandle:
		return "handle"
	}
	return ""
}

// armPaths enumerates, for a function with a read loop, the paths of one
// iteration grouped by switch arm.
func armPaths(p *Program, fn *ssa.Function, start *ssa.BasicBlock, stop map[*ssa.BasicBlock]bool, typeOf func(a Atom) (string, bool)) map[string][]string {
	tb := p.TB(fn)
	out := map[string]map[string]bool{}
	paths, _ := p.EnumPathsStop(start, stop)
	for _, pa := range paths {
		atoms := tb.pathAtoms(pa)
		arm := "default"
		for _, a := range atoms {
			if k, ok := typeOf(a); ok {
				arm = k
			}
		}
		for _, a := range atoms {
			if a.Kind == "cmp" && a.Op == "!=" && a.Y.Op == "Nil" && a.X.Op == "Ext" && strings.HasSuffix(a.X.Args[0].S, ".readStanza") && a.X.V != nil && isErrorType(a.X.V.Type()) {
				arm = "read-error"
			}
		}
		var seq []string
		for _, in := range pa.Instrs() {
			if c, ok := in.(ssa.CallInstruction); ok {
				if _, isDefer := in.(*ssa.Defer); isDefer {
					continue
				}
				if l := writeLabel(tb, pa, c); l != "" {
					if l == "handle" {
						// was the command handled by the UI?
						for _, a := range atoms {
							if a.Kind == "bool" && a.X.Op == "Ext" && a.X.S == "0" && a.X.Args[0].V == c.Value() {
								if a.Pol {
									l = "handle[handled]"
								} else {
									l = "handle[not-handled]"
								}
							}
						}
					}
					seq = append(seq, l)
				}
			}
		}
		// UI callbacks: which condition leads to which reply
		var conds []string
		for _, a := range atoms {
			if a.Kind != "cmp" || a.Y.Op != "Nil" {
				continue
			}
			x := short(a.X.String())
			switch {
			case x == "Field(Recv.DisplayMessage)" || x == "Field(Recv.RequestValue)" || x == "Field(Recv.Confirm)":
				conds = append(conds, "callback"+a.Op+"nil")
			case strings.HasPrefix(x, "CallV(Field(Recv."):
				conds = append(conds, "callback-error"+a.Op+"nil")
			}
		}
		if len(conds) > 0 {
			seq = append([]string{"[" + strings.Join(conds, ",") + "]"}, seq...)
		}
		end := pa.End
		switch pa.End {
		case "stop":
			end = "continue"
			last := pa.Blocks[len(pa.Blocks)-1]
			if !stop[last] {
				end = "leave"
			}
			// a loop left through a flag (`done = true` in the arm, `for !done` / `if done { break }`
			// where the iteration starts again): the test at the stop block is decided by the
			// values this path carries into it
			if end == "continue" && len(last.Instrs) > 0 {
				if ifi, isIf := last.Instrs[len(last.Instrs)-1].(*ssa.If); isIf {
					if val, known := pa.boolOnPath(ifi.Cond, len(pa.Blocks)-1); known {
						taken := last.Succs[1]
						if val {
							taken = last.Succs[0]
						}
						if taken != start && !taken.Dominates(start) {
							end = "leave"
						}
					}
				}
			}
			if len(stop) > 1 {
				// two stop blocks: loop header (continue) and loop exit (leave)
				if last != start && !last.Dominates(start) && last != pa.Blocks[0] {
					end = "leave"
				}
			}
		case "return":
			ret := pa.Last.(*ssa.Return)
			rs := resultsOf(ret)
			ei := errorResultIndex(fn.Signature)
			ev := rs[ei]
			switch {
			case fn.Signature.Results().Len() == 2 && fn.Signature.Results().At(0).Type().String() == "bool":
				// ClientUI.handle: (handled, err)
				h := short(tb.Term(pa.Resolve(rs[0])).String())
				e := "error"
				et := short(tb.Term(pa.Resolve(ev)).String())
				switch {
				case isNilConst(ev):
					e = "nil"
				case strings.HasPrefix(et, "plugin.writeStanza"):
					e = "write-result"
				}
				end = "return(" + h + "," + e + ")"
			case isNilConst(ev):
				end = "return-ok"
			default:
				t := short(tb.Term(pa.Resolve(ev)).String())
				end = "return-error"
				if strings.HasPrefix(t, "plugin.writeStanza") {
					end = "return-write-error"
				}
				if strings.HasPrefix(t, "(*plugin.ClientUI).readStanza(") && strings.HasSuffix(t, ").1") {
					end = "return-read-error"
				}
				if strings.HasPrefix(t, "(*plugin.ClientUI).handle(") {
					end = "return-handle-error"
				}
				if t == `fmt.Errorf("%s", List(Field(`+"" {
					end = "return-plugin-error"
				}
				if strings.HasPrefix(t, `fmt.Errorf("%s", List(Field(`) && strings.HasSuffix(t, ".Body)))") {
					end = "return-plugin-error"
				}
				if os.Getenv("AGECHECK_DEBUG_C16") != "" && end == "return-error" {
					fmt.Fprintf(os.Stderr, "c16 outcome term: %s\n", t)
				}
				// the plugin's text carried by an error type of the module whose Error method
				// returns exactly that field: &reportedError{string(s.Body)}
				if i := strings.Index(t, "{"); i > 0 && strings.HasPrefix(t, "plugin.") && strings.HasSuffix(t, ".Body)}") && strings.Count(t, ": ") == 1 {
					tn := t[:i]
					field := strings.TrimSpace(strings.SplitN(t[i+1:], ":", 2)[0])
					if em := p.Func(pkgPlugin, strings.TrimPrefix(tn, "plugin."), "Error"); em != nil {
						all := len(returnsOf(em)) > 0
						for _, er := range returnsOf(em) {
							if short(p.TB(em).Term(er.Results[0]).String()) != "Field(Recv."+field+")" {
								all = false
							}
						}
						if all {
							end = "return-plugin-error"
						}
					}
				}
				// the same error built without a format: errors.New(string(s.Body))
				if strings.HasPrefix(t, `errors.New(Field(`) && strings.HasSuffix(t, ".Body))") {
					end = "return-plugin-error"
				}
			}
		}
		// a labels message is refused only as a repeat (the set was received before): any other
		// refusal in that arm — of an empty set, say — changes which recipient lists encrypt
		if arm == "labels" && end == "return-error" {
			repeat := false
			for _, a := range atoms {
				if a.Kind == "cmp" && a.Op == "!=" && a.Y != nil && a.Y.Op == "Nil" && a.X != nil && a.X.V != nil {
					if _, isSlice := a.X.V.Type().Underlying().(*types.Slice); isSlice {
						repeat = true
					}
				}
				if a.Kind == "bool" && a.Pol && a.X != nil && a.X.V != nil {
					if _, isPhi := a.X.V.(*ssa.Phi); isPhi {
						repeat = true // a "seen" flag carried by the loop
					}
				}
			}
			if !repeat {
				seq = append([]string{"[not-a-repeat]"}, seq...)
			}
		}
		key := strings.Join(seq, ",") + " -> " + end
		if out[arm] == nil {
			out[arm] = map[string]bool{}
		}
		out[arm][key] = true
	}
	res := map[string][]string{}
	for arm, m := range out {
		for k := range m {
			res[arm] = append(res[arm], k)
		}
		sort.Strings(res[arm])
	}
	return res
}

var armTestRe = regexp.MustCompile(`\(Field\(P3\.Type\) == ("[^"]*")\)`)

// underArm: inside the arm of command a, a comparison of the command's type with a constant has
// a known value (RequestValue(.., s.Type == "request-secret") is RequestValue(.., true) there).
func underArm(keys []string, arm string) []string {
	if keys == nil {
		return nil
	}
	out := make([]string, len(keys))
	for i, k := range keys {
		out[i] = armTestRe.ReplaceAllStringFunc(k, func(m string) string {
			sub := armTestRe.FindStringSubmatch(m)
			if strings.Trim(sub[1], `"`) == arm {
				return "true"
			}
			return "false"
		})
	}
	return out
}

var constMergeRe = regexp.MustCompile(`Phi\(("[^"]*"(?:, "[^"]*")+)\)`)

// expandConstMerges: a reply argument that is a merge of string constants
// (result := "yes"; if !ok { result = "no" }) stands for one outcome per
// constant, the same as writing the reply once per branch.
func expandConstMerges(keys []string) []string {
	if keys == nil {
		return nil
	}
	set := map[string]bool{}
	var expand func(k string)
	expand = func(k string) {
		m := constMergeRe.FindStringSubmatchIndex(k)
		if m == nil {
			set[k] = true
			return
		}
		for _, c := range strings.Split(k[m[2]:m[3]], ", ") {
			expand(k[:m[0]] + c + k[m[1]:])
		}
	}
	for _, k := range keys {
		expand(k)
	}
	var out []string
	for k := range set {
		out = append(out, k)
	}
	sort.Strings(out)
	return out
}

func loadProtocol(r *Result) map[string]map[string][]string {
	b, err := os.ReadFile(filepath.Join(verifDir, "spec", "protocol.json"))
	if err != nil {
		r.add(Machinery, "spec/protocol.json", "load", "", err.Error())
		return nil
	}
	var out map[string]map[string][]string
	if err := json.Unmarshal(b, &out); err != nil {
		r.add(Machinery, "spec/protocol.json", "load", "", err.Error())
		return nil
	}
	return out
}

// readLoop finds the natural loop of fn whose body calls readStanza.
func readLoop(fn *ssa.Function) (*natLoop, *ssa.Call) {
	for _, l := range naturalLoops(fn) {
		for b := range l.Blocks {
			for _, in := range b.Instrs {
				if c, ok := in.(*ssa.Call); ok && calleeName(&c.Call) == fnReadStanza {
					return l, c
				}
			}
		}
	}
	return nil, nil
}

func reachesSuccessReturn(fn *ssa.Function, from *ssa.BasicBlock) bool {
	ei := errorResultIndex(fn.Signature)
	seen := map[*ssa.BasicBlock]bool{}
	var rec func(b *ssa.BasicBlock) bool
	rec = func(b *ssa.BasicBlock) bool {
		if seen[b] {
			return false
		}
		seen[b] = true
		if len(b.Instrs) > 0 {
			if ret, ok := b.Instrs[len(b.Instrs)-1].(*ssa.Return); ok {
				return ei >= 0 && isNilConst(resultsOf(ret)[ei])
			}
		}
		for _, s := range b.Succs {
			if rec(s) {
				return true
			}
		}
		return false
	}
	return rec(from)
}

func loopExitBlocks(l *natLoop) map[*ssa.BasicBlock]bool {
	out := map[*ssa.BasicBlock]bool{}
	for b := range l.Blocks {
		for _, s := range b.Succs {
			if !l.Blocks[s] {
				out[s] = true
			}
		}
	}
	return out
}

func stateMachineArms(p *Program, fn *ssa.Function) (map[string][]string, *natLoop, *ssa.Call) {
	l, rc := readLoop(fn)
	if l == nil {
		return nil, nil, nil
	}
	stop := map[*ssa.BasicBlock]bool{l.Header: true}
	// blocks outside the loop that are entered from it and do not end the
	// function immediately count as "leave" when they are the loop exit
	for b := range loopExitBlocks(l) {
		// only the exit towards the normal continuation (from which a success
		// return is reachable) ends an iteration path; error-return regions
		// stay part of the path
		if reachesSuccessReturn(fn, b) {
			stop[b] = true
		}
	}
	typeOf := func(a Atom) (string, bool) {
		if a.Kind == "cmp" && a.Op == "==" && a.Y.Op == "Const" && strings.HasSuffix(a.X.String(), ".Type)") && a.X.Op == "Field" {
			if a.X.Args[0].Op == "Ext" && a.X.Args[0].Args[0].V == ssa.Value(rc) {
				return strings.Trim(a.Y.S, `"`), true
			}
		}
		return "", false
	}
	return armPaths(p, fn, rc.Block(), stop, typeOf), l, rc
}

func handleArms(p *Program, fn *ssa.Function) map[string][]string {
	typeOf := func(a Atom) (string, bool) {
		if a.Kind == "cmp" && a.Op == "==" && a.Y.Op == "Const" && short(a.X.String()) == "Field(P3.Type)" {
			return strings.Trim(a.Y.S, `"`), true
		}
		return "", false
	}
	return armPaths(p, fn, fn.Blocks[0], nil, typeOf)
}

// compareProtocolArms compares the (replies, outcome) sets of a state machine with one table of
// spec/protocol.json, arm by arm.
func compareProtocolArms(r *Result, proto map[string]map[string][]string, fn *ssa.Function, got map[string][]string, table string) {
	want := proto[table]
	arms := map[string]bool{}
	for a := range got {
		arms[a] = true
	}
	for a := range want {
		arms[a] = true
	}
	var names []string
	for a := range arms {
		names = append(names, a)
	}
	sort.Strings(names)
	for _, a := range names {
		g, w := strings.Join(expandConstMerges(underArm(got[a], a)), " | "), strings.Join(expandConstMerges(underArm(want[a], a)), " | ")
		switch {
		case want[a] == nil:
			r.Bad(fn.String(), "arm:"+a, "", "the client handles command \""+a+"\", which the protocol table does not list: "+g)
		case got[a] == nil:
			r.Bad(fn.String(), "arm:"+a, "", "no arm for command \""+a+"\" (table: "+w+")")
		default:
			r.Check(g == w, fn.String(), "arm:"+a, "", g, "replies/outcomes differ from the protocol table\n   got  "+g+"\n   want "+w)
		}
	}
}

// checkPluginRecipientArms (shared with C11): the recipient state machine alone.
func checkPluginRecipientArms(p *Program, r *Result) {
	wwl := r.anchor(pkgPlugin, "Recipient", "WrapWithLabels")
	if wwl == nil {
		return
	}
	proto := loadProtocol(r)
	if proto == nil {
		return
	}
	got, _, _ := stateMachineArms(p, wwl)
	if got == nil {
		r.Unk(pkgPlugin, "read-loops", "", "read loop calling ClientUI.readStanza not found")
		return
	}
	compareProtocolArms(r, proto, wwl, got, "recipient")
}

// checkRecipientPhase1 (shared with C11): the messages the recipient machine sends before it
// listens, among them extension-labels, without which a plugin declares no labels.
func checkRecipientPhase1(p *Program, r *Result) {
	wwl := r.anchor(pkgPlugin, "Recipient", "WrapWithLabels")
	if wwl == nil {
		return
	}
	proto := loadProtocol(r)
	if proto == nil {
		return
	}
	_, loopR, _ := stateMachineArms(p, wwl)
	if loopR == nil {
		r.Unk(pkgPlugin, "read-loops", "", "read loop calling ClientUI.readStanza not found")
		return
	}
	seq, okErr := phase1Seq(p, wwl, loopR)
	got := strings.Join(seq, " ; ")
	want := strings.Join(proto["phase1"]["recipient"], " ; ")
	r.Check(got == want && okErr, wwl.String(), "phase1", "", got, "phase-1 messages differ from the protocol table or a write error is not returned\n   got  "+got+"\n   want "+want)
}

func runC16(p *Program, r *Result) {
	wwl := r.anchor(pkgPlugin, "Recipient", "WrapWithLabels")
	unw := r.anchor(pkgPlugin, "Identity", "Unwrap")
	hnd := r.anchor(pkgPlugin, "ClientUI", "handle")
	if wwl == nil || unw == nil || hnd == nil {
		return
	}
	proto := loadProtocol(r)
	if proto == nil {
		return
	}
	compareArms := func(fn *ssa.Function, got map[string][]string, table string) {
		compareProtocolArms(r, proto, fn, got, table)
	}

	r.Rule("R16.2", "per command: the set of (reply sequence, outcome) over all paths equals the protocol table", 13)
	gotR, loopR, rcR := stateMachineArms(p, wwl)
	gotI, loopI, rcI := stateMachineArms(p, unw)
	if gotR == nil || gotI == nil {
		r.Unk(pkgPlugin, "read-loops", "", "read loop calling ClientUI.readStanza not found")
		return
	}
	if os.Getenv("AGECHECK_DUMP_PROTOCOL") != "" {
		dumpProtocol(p, wwl, unw, hnd, gotR, gotI, loopR, loopI)
	}
	compareArms(wwl, gotR, "recipient")
	compareArms(unw, gotI, "identity")
	compareArms(hnd, handleArms(p, hnd), "handle")

	r.Rule("R16.1", "phase 1: the prescribed messages, in order, before the read loop", 2)
	for _, sm := range []struct {
		fn    *ssa.Function
		loop  *natLoop
		table string
	}{{wwl, loopR, "recipient"}, {unw, loopI, "identity"}} {
		seq, okErr := phase1Seq(p, sm.fn, sm.loop)
		got := strings.Join(seq, " ; ")
		want := strings.Join(proto["phase1"][sm.table], " ; ")
		r.Check(got == want && okErr, sm.fn.String(), "phase1", "", got, "phase-1 messages differ from the protocol table or a write error is not returned\n   got  "+got+"\n   want "+want)
	}

	// the recipient machine announces an identity exactly when r.identity is set
	{
		tb := p.TB(wwl)
		ok := false
		// the type of the first message: the argument of the first writeStanza, or the Type field
		// of the first stanza of the list that is sent
		var cands []*ssa.Phi
		for _, c := range callsTo(wwl, fnWriteStanza) {
			if ph, isPhi := c.Common().Args[1].(*ssa.Phi); isPhi {
				cands = append(cands, ph)
			}
		}
		if len(cands) == 0 {
			for _, b := range wwl.Blocks {
				for _, in := range b.Instrs {
					st, isSt := in.(*ssa.Store)
					if !isSt {
						continue
					}
					fa, isFA := st.Addr.(*ssa.FieldAddr)
					if ph, isPhi := st.Val.(*ssa.Phi); isFA && isPhi && fieldName(fa.X.Type(), fa.Field) == "Type" && strings.HasSuffix(structTypeName(fa.X.Type()), "format.Stanza") {
						cands = append(cands, ph)
					}
				}
			}
		}
		for _, ph := range cands {
			good := len(ph.Edges) == 2
			for k, e := range ph.Edges {
				cst, isC := e.(*ssa.Const)
				if !isC {
					good = false
					continue
				}
				pred := ph.Block().Preds[k]
				var facts []Atom
				for j, sb := range pred.Succs {
					if sb == ph.Block() {
						if _, isIf := pred.Instrs[len(pred.Instrs)-1].(*ssa.If); isIf {
							facts = tb.FactsOnEdge(pred, j)
						} else {
							facts = tb.FactsAt(pred)
						}
					}
				}
				_, isID := findFact(facts, func(a Atom) bool { return a.Kind == "bool" && a.Pol && short(a.X.String()) == "Field(Recv.identity)" })
				_, notID := findFact(facts, func(a Atom) bool { return a.Kind == "bool" && !a.Pol && short(a.X.String()) == "Field(Recv.identity)" })
				switch cst.Value.ExactString() {
				case `"add-identity"`:
					good = good && isID
				case `"add-recipient"`:
					good = good && notID
				default:
					good = false
				}
			}
			ok = good
		}
		r.Check(ok, wwl.String(), "phase1:add-type", "", "add-identity iff r.identity", "the first message's type is not add-identity exactly when the recipient wraps an identity string")
	}

	r.Rule("R16.3", "index 0 and no-repeat guards dominate acceptance", 4)
	{
		// recipient-stanza: the append of the new stanza
		tb := p.TB(wwl)
		ok := false
		for b := range loopR.Blocks {
			for _, in := range b.Instrs {
				c, isC := in.(*ssa.Call)
				if !isC || !isBuiltin(&c.Call, "append") {
					continue
				}
				t := short(tb.Term(c).String())
				if !strings.Contains(t, "age.Stanza{") {
					continue
				}
				facts := tb.FactsAt(b)
				need := map[int]bool{}
				for _, a := range facts {
					s := short(a.String())
					if strings.HasPrefix(s, "strconv.Atoi(Elem(Field(") && strings.HasSuffix(s, ".Args), 0)).1 == nil") {
						need[1] = true
					}
					if strings.HasPrefix(s, "strconv.Atoi(Elem(Field(") && strings.HasSuffix(s, ".Args), 0)).0 == 0") {
						need[2] = true
					}
					if strings.HasPrefix(s, "len(Field(") && strings.HasSuffix(s, ".Args)) >= 2") {
						need[3] = true
					}
				}
				ok = len(need) == 3
			}
		}
		r.Check(ok, wwl.String(), "accept:recipient-stanza", "", "under len(Args) >= 2, Atoi ok, index == 0", "a recipient stanza is accepted without the guards len(Args) >= 2, Atoi(Args[0]) ok and index == 0")
		// file-key
		utb := p.TB(unw)
		okf := false
		for _, c := range returnsOf(unw) {
			_ = c
		}
		for b := range loopI.Blocks {
			for _, in := range b.Instrs {
				st, isS := in.(*ssa.Store)
				if !isS {
					continue
				}
				v := short(utb.Term(st.Val).String())
				if !(strings.HasPrefix(v, "Field((*plugin.ClientUI).readStanza(") && strings.HasSuffix(v, ".Body)")) {
					continue
				}
				facts := utb.FactsAt(b)
				need := map[int]bool{}
				for _, a := range facts {
					s := short(a.String())
					if strings.HasPrefix(s, "strconv.Atoi(Elem(Field(") && strings.HasSuffix(s, ".Args), 0)).1 == nil") {
						need[1] = true
					}
					if strings.HasPrefix(s, "strconv.Atoi(Elem(Field(") && strings.HasSuffix(s, ".Args), 0)).0 == 0") {
						need[2] = true
					}
					if strings.HasPrefix(s, "len(Field(") && strings.HasSuffix(s, ".Args)) == 1") {
						need[3] = true
					}
					if a.Kind == "cmp" && a.Op == "==" && a.Y.Op == "Nil" {
						if ld, isLd := a.X.V.(*ssa.UnOp); isLd && ld.X == st.Addr {
							need[4] = true
						}
					}
				}
				okf = len(need) == 4
			}
		}
		r.Check(okf, unw.String(), "accept:file-key", "", "under len(Args) == 1, Atoi ok, index == 0, no key yet", "a file key is accepted without the guards len(Args) == 1, Atoi ok, index == 0 and fileKey == nil (duplicate)")
	}

	checkPluginLabels(p, r)

	r.Rule("R16.6", "the plugin's messages are read by the strict stanza reader: every token validated and Args the (non-nil) slice of the tokens after the type, which the repeat test `labels != nil` relies on (= R07.1)", 16)
	if pf, rsf, ivf, df := r.anchor(pkgFormat, "", "Parse"), r.anchor(pkgFormat, "StanzaReader", "ReadStanza"), r.anchor(pkgFormat, "", "isValidString"), r.anchor(pkgFormat, "", "DecodeString"); pf != nil && rsf != nil && ivf != nil && df != nil {
		checkCanonicalParse(p, r, pf, rsf, ivf, df)
	}

	r.Rule("R16.9", "a conversation leaves nothing behind: Wrap/WrapWithLabels/Unwrap store into no field of plugin.Recipient, plugin.Identity or plugin.ClientUI, so every call talks to its own process through its own reader, whatever an earlier call ended with", 3)
	for _, m := range [][2]string{{"Recipient", "Wrap"}, {"Recipient", "WrapWithLabels"}, {"Identity", "Unwrap"}} {
		fn := r.prog.Func(pkgPlugin, m[0], m[1])
		if fn == nil {
			continue // Wrap may be absent in variants; the anchors of R16.1 report a missing machine
		}
		r.Saw(fn.String())
		var hit []string
		if e := p.EffectsOf(fn); e != nil {
			for f := range e.AllFields {
				for _, t := range []string{"Recipient", "Identity", "ClientUI"} {
					if strings.HasPrefix(f, pkgPlugin+"."+t+".") {
						hit = append(hit, short(f))
					}
				}
			}
		}
		sort.Strings(hit)
		r.Check(len(hit) == 0, fn.String(), "receiver-state", "", "no field of the client's values is written", "the call stores into "+strings.Join(hit, ", ")+": state kept from one conversation to the next (a reader with a latched error, buffered bytes of the previous process, a flag) makes the result of a call depend on earlier calls, and two goroutines using one value share it")
	}
	r.Rule("R16.10", "the end of the plugin's output reaches the client as it happens: the client reads the process's pipe synchronously, with no goroutine and no io.Pipe in between (a relay that does not pass a clean end of output on turns a plugin that stopped into a hang)", 1)
	{
		n := 0
		for _, fn := range p.Funcs {
			if fn.Pkg == nil || fn.Pkg.Pkg.Path() != pkgPlugin {
				continue
			}
			for _, b := range fn.Blocks {
				for _, in := range b.Instrs {
					switch x := in.(type) {
					case *ssa.Go:
						n++
						r.Bad(fn.String(), "relay:go:"+short(calleeName(x.Common())), r.pos(in), "a goroutine is started in the plugin client: what the stanza reader sees of the plugin's output (its end included) then depends on that goroutine passing it on")
					case *ssa.Call:
						if calleeName(x.Common()) == "io.Pipe" {
							n++
							r.Bad(fn.String(), "relay:io.Pipe", r.pos(in), "an in-process pipe stands between the plugin and the client: its write end has to be closed on every way the copying side can end, a clean end of the plugin's output included, or the client waits for ever")
						}
					}
				}
			}
		}
		if n == 0 {
			r.OK(pkgPlugin, "relay:none", "", "no go statement and no io.Pipe in the package")
		}
	}
	r.Rule("R16.8", "the stanza reader the client listens through passes over no line (= R07.6)", 1)
	checkNoLineDiscarded(p, r)
	r.Rule("R16.7", "replies reach the plugin when they are written: no buffered writer stands between the client and the plugin's stdin (a reply held back in a buffer is never sent when the conversation ends with it)", 1)
	{
		n := 0
		for _, f := range p.Funcs {
			if !inPkg(f, pkgPlugin) {
				continue
			}
			for _, c := range callsIn(f) {
				switch calleeName(c.Common()) {
				case "bufio.NewWriter", "bufio.NewWriterSize", "bufio.NewReadWriter":
					n++
					r.Bad(f.String(), "buffered-writer", r.pos(c), "the plugin client builds a buffered writer: what is written to it reaches the plugin only when it is flushed, and the last reply of a conversation (the ok after an error message, the acknowledgements before done) has no later flush")
				}
			}
		}
		if n == 0 {
			r.OK("package plugin", "buffered-writer", "", "no bufio writer in the plugin client: every writeStanza goes to the pipe at once")
		}
	}

	r.Rule("R16.4", "end conditions", 3)
	{
		// recipient: zero stanzas -> error
		tb := p.TB(wwl)
		okz := false
		for _, ret := range returnsOf(wwl) {
			rs := resultsOf(ret)
			if !isNilConst(rs[2]) {
				continue
			}
			facts := tb.FactsAt(ret.Block())
			for _, a := range facts {
				if a.Kind == "cmp" && a.Op == "!=" && a.Y.S == "0" && isLenTerm(a.X) {
					if ld, isLd := a.X.Args[0].V.(*ssa.UnOp); isLd {
						if rl, isRl := ret.Results[0].(*ssa.UnOp); isRl && ld.X == rl.X {
							okz = true
						}
					}
				}
			}
		}
		r.Check(okz, wwl.String(), "end:zero-stanzas", "", "success only with len(stanzas) != 0", "a wrap that produced no stanza can return success")
		// identity: no key -> ErrIncorrectIdentity
		utb := p.TB(unw)
		oks := false
		for _, ret := range returnsOf(unw) {
			rs := resultsOf(ret)
			if short(utb.Term(rs[1]).String()) != "age.ErrIncorrectIdentity" {
				continue
			}
			facts := utb.FactsAt(ret.Block())
			for _, a := range facts {
				if a.Kind == "cmp" && a.Op == "==" && a.Y.Op == "Nil" {
					if ld, isLd := a.X.V.(*ssa.UnOp); isLd {
						if rl, isRl := ret.Results[0].(*ssa.UnOp); isRl && ld.X == rl.X {
							oks = true
						}
					}
				}
			}
		}
		r.Check(oks, unw.String(), "end:no-key", "", "fileKey == nil returns exactly age.ErrIncorrectIdentity", "an unwrap that yielded no file key does not return age.ErrIncorrectIdentity: other identities would not be tried")
		// the deferred wrapper keeps it with %w
		okw := false
		for _, a := range AnonFuncs(unw) {
			for _, c := range callsTo(a, "fmt.Errorf") {
				if k, isK := c.Common().Args[0].(*ssa.Const); isK && strings.Contains(k.Value.ExactString(), "%w") {
					okw = true
				}
			}
		}
		// the same decoration in a named helper: `defer prefixError(i.name, &err)`
		for _, b := range unw.Blocks {
			for _, in := range b.Instrs {
				d, isDefer := in.(*ssa.Defer)
				if !isDefer {
					continue
				}
				callee := d.Call.StaticCallee()
				if callee == nil || callee.Blocks == nil || callee.Parent() != nil {
					continue
				}
				for _, c := range callsTo(callee, "fmt.Errorf") {
					if k, isK := c.Common().Args[0].(*ssa.Const); isK && strings.Contains(k.Value.ExactString(), "%w") {
						okw = true
					}
				}
			}
		}
		r.Check(okw, unw.String(), "end:wrap-%w", "", "the deferred error decoration uses %w", "the deferred wrapper does not keep the sentinel reachable through errors.Is (%w)")
	}
	_, _ = rcR, rcI
}

// inDominatingLoop: the call sits in a loop whose exit dominates target
// (phase-1 stanza loop of Identity.Unwrap).
func inDominatingLoop(p *Program, fn *ssa.Function, c ssa.CallInstruction, target *ssa.BasicBlock) bool {
	for _, l := range rangeLoops(fn) {
		if l.inLoop(c.Block()) && p.feasDominates(l.Exit, target) {
			return len(p.loopEarlyExits(l)) == 0
		}
	}
	return false
}

func phase1Seq(p *Program, fn *ssa.Function, loop *natLoop) ([]string, bool) {
	tb := p.TB(fn)
	var writes []ssa.CallInstruction
	for _, c := range callsIn(fn) {
		if _, isDefer := c.(*ssa.Defer); isDefer {
			continue
		}
		if writeLabel(tb, nil, c) == "" || loop.Blocks[c.Block()] {
			continue
		}
		if p.feasDominates(c.Block(), loop.Header) || inDominatingLoop(p, fn, c, loop.Header) {
			writes = append(writes, c)
		}
	}
	sort.Slice(writes, func(i, j int) bool { return dominatesInstr(writes[i].(ssa.Instruction), writes[j].(ssa.Instruction)) })
	var seq []string
	okErr := true
	for _, c := range writes {
		if _, ok := errCheckedWithExit(p, c); !ok {
			okErr = false
		}
		// the messages collected in a list and marshalled by one loop over it: the list's
		// elements, in order, are the messages
		if calleeName(c.Common()) == fnStanzaMarshal {
			if t := tb.Term(c.Common().Args[0]); t.Op == "Elem" && len(t.Args) == 2 && strings.Contains(t.Args[1].String(), "RangeIdx#") {
				if elems, ok := expandStanzaList(t.Args[0], 0); ok && len(elems) > 0 {
					for _, e := range elems {
						seq = append(seq, stanzaLabel(e))
					}
					continue
				}
			}
		}
		seq = append(seq, writeLabel(tb, nil, c))
	}
	for i := range seq {
		seq[i] = greaseRe.ReplaceAllString(seq[i], `fmt.Sprintf("grease-%x", List($1))`)
	}
	return seq, okErr
}

// "grease-" + strconv.FormatInt(n, 16) is fmt.Sprintf("grease-%x", n) for the non-negative n of
// math/rand
var greaseRe = regexp.MustCompile(`\("grease-" \+ strconv\.Format(?:Int|Uint)\((MATHRAND\.[A-Za-z0-9]+\(\)), 16\)\)`)

// expandStanzaList: the elements of a slice of stanzas given as a literal, a concatenation, or
// an accumulator that starts from a list and gets one element appended per iteration of a loop
// (that element stands once, as the write inside such a loop does in the call-by-call form).
func expandStanzaList(t *Term, d int) ([]*Term, bool) {
	if t == nil || d > 4 {
		return nil, false
	}
	switch t.Op {
	case "List":
		return t.Args, true
	case "Concat":
		var out []*Term
		for _, a := range t.Args {
			if a.Op == "Loop" {
				continue
			}
			es, ok := expandStanzaList(a, d+1)
			if !ok {
				return nil, false
			}
			out = append(out, es...)
		}
		return out, true
	case "Phi":
		// accumulator: Phi(Concat(Loop(), List(s)), Init) in either order
		var init, step *Term
		for _, a := range t.Args {
			if a.Op == "Concat" && len(a.Args) == 2 && a.Args[0].Op == "Loop" {
				step = a.Args[1]
			} else {
				init = a
			}
		}
		if step == nil || init == nil || len(t.Args) != 2 {
			return nil, false
		}
		a, ok1 := expandStanzaList(init, d+1)
		b, ok2 := expandStanzaList(step, d+1)
		if !ok1 || !ok2 {
			return nil, false
		}
		return append(append([]*Term(nil), a...), b...), true
	case "Nil":
		return nil, true
	}
	return nil, false
}

// stanzaLabel renders a stanza value the way the write helpers that send it are labelled.
func stanzaLabel(e *Term) string {
	if e == nil || e.Op != "Struct" {
		return "M(" + short(e.String()) + ")"
	}
	kv := map[string]*Term{}
	for _, a := range e.Args {
		if a.Op == "KV" && len(a.Args) == 1 {
			kv[a.S] = a.Args[0]
		}
	}
	typ, args, body := kv["Type"], kv["Args"], kv["Body"]
	if typ == nil {
		return "M(" + short(e.String()) + ")"
	}
	ts := short(typ.String())
	switch {
	case args != nil && body != nil:
		return "M(" + short(e.String()) + ")"
	case body != nil:
		return "WB(" + ts + "; " + short(body.String()) + ")"
	case args != nil:
		return "W(" + ts + " " + short(args.String()) + ")"
	}
	return "W(" + ts + ")"
}

func dumpProtocol(p *Program, wwl, unw, hnd *ssa.Function, gotR, gotI map[string][]string, loopR, loopI *natLoop) {
	r1, _ := phase1Seq(p, wwl, loopR)
	i1, _ := phase1Seq(p, unw, loopI)
	out := map[string]map[string][]string{
		"recipient": gotR, "identity": gotI, "handle": handleArms(p, hnd),
		"phase1": {"recipient": r1, "identity": i1},
	}
	enc := json.NewEncoder(os.Stderr)
	enc.SetEscapeHTML(false)
	enc.SetIndent("", " ")
	enc.Encode(out)
}
