package main

// Source-level inlining of helper functions the rules do not know about.
//
// The rules anchor on the functions of the pinned tree (spec/known_funcs.json).
// Maintenance refactorings typically extract new helpers from them, which
// would hide guards, calls and stores from the intra-procedural engines. To
// stay silent on such behaviour-preserving edits the loader normalises the
// program first: every call, in a supported statement context, to a
// same-package function that is NOT on the known list is replaced by the
// callee's body, using a labelled once-loop so that early returns keep their
// control flow:
//
//	x, err := helper(a, b)        var r1 T1; var r2 error
//	                        =>    L: for { p, q := P(a), Q(b); <body, `return u, v` => `r1, r2 = u, v; break L`>; break L }
//	                              x, err := r1, r2
//
// The rewritten files are handed to go/packages as an overlay (with //line
// directives, so diagnostics keep pointing at /repo) and must type-check;
// otherwise the original program is analysed. On the pinned tree there are no
// unknown functions and nothing is rewritten.

import (
	"bytes"
	"fmt"
	"go/ast"
	"go/printer"
	"go/token"
	"go/types"
	"strings"

	"golang.org/x/tools/go/packages"
)

type inliner struct {
	fset    *token.FileSet
	pkg     *packages.Package
	decls   map[*types.Func]*ast.FuncDecl
	unknown map[*types.Func]bool
	n       int
	changed map[*ast.File]bool
	fileOf  map[*ast.FuncDecl]*ast.File
	stack   map[*types.Func]bool
}

// inlinable reports whether the callee's body can be spliced.
func (il *inliner) inlinable(fd *ast.FuncDecl) bool {
	if fd == nil || fd.Body == nil {
		return false
	}
	ok := true
	ast.Inspect(fd.Body, func(n ast.Node) bool {
		switch x := n.(type) {
		case *ast.DeferStmt, *ast.LabeledStmt:
			ok = false
		case *ast.BranchStmt:
			if x.Tok == token.GOTO {
				ok = false
			}
		case *ast.CallExpr:
			if id, isID := x.Fun.(*ast.Ident); isID && id.Name == "recover" {
				ok = false
			}
		case *ast.FuncLit:
			return false
		}
		return true
	})
	if fd.Type.TypeParams != nil {
		ok = false
	}
	return ok
}

// calleeOf resolves a call expression to an unknown same-package function.
func (il *inliner) calleeOf(call *ast.CallExpr) (*types.Func, *ast.FuncDecl, ast.Expr) {
	var obj types.Object
	var recv ast.Expr
	switch f := call.Fun.(type) {
	case *ast.Ident:
		obj = il.pkg.TypesInfo.Uses[f]
	case *ast.SelectorExpr:
		if sel, ok := il.pkg.TypesInfo.Selections[f]; ok && sel.Kind() == types.MethodVal {
			obj = sel.Obj()
			recv = f.X
			// only direct method calls on the declared receiver type (no embedding promotion)
			if len(sel.Index()) != 1 {
				return nil, nil, nil
			}
		}
	}
	fn, ok := obj.(*types.Func)
	if !ok || !il.unknown[fn] || il.stack[fn] {
		return nil, nil, nil
	}
	fd := il.decls[fn]
	if !il.inlinable(fd) {
		return nil, nil, nil
	}
	return fn, fd, recv
}

func exprString(fset *token.FileSet, e ast.Node) string {
	var b bytes.Buffer
	printer.Fprint(&b, fset, e)
	return b.String()
}

// sideEffectFree: evaluating e cannot have effects or depend on evaluation order.
func sideEffectFree(e ast.Expr) bool {
	ok := true
	ast.Inspect(e, func(n ast.Node) bool {
		switch x := n.(type) {
		case *ast.CallExpr:
			// conversions and len/cap are fine
			if id, isID := x.Fun.(*ast.Ident); isID && (id.Name == "len" || id.Name == "cap" || id.Name == "string" || id.Name == "byte" || id.Name == "int") {
				return true
			}
			ok = false
		case *ast.UnaryExpr:
			if x.Op == token.ARROW {
				ok = false
			}
		case *ast.FuncLit:
			return false
		}
		return true
	})
	return ok
}

// prelude builds the statements that evaluate one call by splicing the
// callee's body, and returns the expressions that stand for its results.
func (il *inliner) prelude(call *ast.CallExpr, fn *types.Func, fd *ast.FuncDecl, recv ast.Expr) ([]ast.Stmt, []ast.Expr, bool) {
	il.n++
	id := il.n
	label := fmt.Sprintf("_inl%d", id)
	sig := fn.Type().(*types.Signature)
	var stmts []ast.Stmt
	var results []ast.Expr

	// result variables
	named := false
	var resultNames []string
	if fd.Type.Results != nil {
		k := 0
		for _, f := range fd.Type.Results.List {
			names := f.Names
			if len(names) == 0 {
				names = []*ast.Ident{nil}
			}
			for _, nm := range names {
				rn := fmt.Sprintf("_r%d_%d", id, k)
				k++
				resultNames = append(resultNames, rn)
				stmts = append(stmts, &ast.DeclStmt{Decl: &ast.GenDecl{Tok: token.VAR, Specs: []ast.Spec{
					&ast.ValueSpec{Names: []*ast.Ident{ast.NewIdent(rn)}, Type: f.Type},
				}}})
				stmts = append(stmts, &ast.AssignStmt{Lhs: []ast.Expr{ast.NewIdent("_")}, Tok: token.ASSIGN, Rhs: []ast.Expr{ast.NewIdent(rn)}})
				results = append(results, ast.NewIdent(rn))
				if nm != nil && nm.Name != "_" {
					named = true
				}
			}
		}
	}
	if named {
		// named results may be assigned in the body and returned bare: not supported
		return nil, nil, false
	}

	// parameter bindings (one tuple assignment: right-hand sides see the caller's scope)
	var lhs, rhs []ast.Expr
	if recv != nil && fd.Recv != nil && len(fd.Recv.List) == 1 {
		rf := fd.Recv.List[0]
		name := "_"
		if len(rf.Names) == 1 {
			name = rf.Names[0].Name
		}
		r := recv
		// pointer receiver called on an addressable value, or value receiver on a pointer
		_, wantPtr := rf.Type.(*ast.StarExpr)
		rt := il.pkg.TypesInfo.TypeOf(recv)
		_, havePtr := rt.Underlying().(*types.Pointer)
		if wantPtr && !havePtr {
			r = &ast.UnaryExpr{Op: token.AND, X: recv}
		} else if !wantPtr && havePtr {
			r = &ast.StarExpr{X: recv}
		}
		if name != "_" {
			lhs = append(lhs, ast.NewIdent(name))
			rhs = append(rhs, r)
		} else if !sideEffectFree(recv) {
			return nil, nil, false
		}
	}
	args := call.Args
	pi := 0
	nparams := sig.Params().Len()
	for _, f := range fd.Type.Params.List {
		names := f.Names
		if len(names) == 0 {
			names = []*ast.Ident{ast.NewIdent("_")}
		}
		for _, nm := range names {
			if pi >= nparams {
				return nil, nil, false
			}
			var val ast.Expr
			if ell, isVar := f.Type.(*ast.Ellipsis); isVar {
				// variadic: f(a, xs...) passes the slice; f(a, x, y) builds one
				if call.Ellipsis.IsValid() {
					if pi >= len(args) {
						return nil, nil, false
					}
					val = args[pi]
				} else {
					lit := &ast.CompositeLit{Type: &ast.ArrayType{Elt: ell.Elt}}
					for _, a := range args[pi:] {
						lit.Elts = append(lit.Elts, a)
					}
					if len(args[pi:]) == 0 {
						val = &ast.CallExpr{Fun: &ast.ParenExpr{X: &ast.ArrayType{Elt: ell.Elt}}, Args: []ast.Expr{ast.NewIdent("nil")}}
					} else {
						val = lit
					}
				}
			} else {
				if pi >= len(args) {
					return nil, nil, false
				}
				// explicit conversion keeps untyped constants and interface conversions right
				val = &ast.CallExpr{Fun: &ast.ParenExpr{X: f.Type}, Args: []ast.Expr{args[pi]}}
			}
			if nm.Name == "_" {
				if !sideEffectFree(val) {
					lhs = append(lhs, ast.NewIdent("_"))
					rhs = append(rhs, val)
				}
			} else {
				lhs = append(lhs, ast.NewIdent(nm.Name))
				rhs = append(rhs, val)
			}
			pi++
		}
	}
	var body []ast.Stmt
	if len(lhs) > 0 {
		allBlank := true
		for _, l := range lhs {
			if l.(*ast.Ident).Name != "_" {
				allBlank = false
			}
		}
		tok := token.DEFINE
		if allBlank {
			tok = token.ASSIGN
		}
		body = append(body, &ast.AssignStmt{Lhs: lhs, Tok: tok, Rhs: rhs})
		for _, l := range lhs {
			if l.(*ast.Ident).Name != "_" {
				body = append(body, &ast.AssignStmt{Lhs: []ast.Expr{ast.NewIdent("_")}, Tok: token.ASSIGN, Rhs: []ast.Expr{ast.NewIdent(l.(*ast.Ident).Name)}})
			}
		}
	}

	// the callee body with returns rewritten (deep copy by re-parsing would lose types; the
	// body nodes are shared with the callee declaration, which is fine for printing)
	il.stack[fn] = true
	copied := il.rewriteReturns(fd.Body, resultNames, label)
	delete(il.stack, fn)
	body = append(body, copied...)
	body = append(body, &ast.BranchStmt{Tok: token.BREAK, Label: ast.NewIdent(label)})
	stmts = append(stmts, &ast.LabeledStmt{Label: ast.NewIdent(label), Stmt: &ast.ForStmt{Body: &ast.BlockStmt{List: body}}})
	return stmts, results, true
}

// rewriteReturns returns a copy of the statement list in which every return
// of the callee (not of nested function literals) assigns the result
// variables and leaves the once-loop.
func (il *inliner) rewriteReturns(b *ast.BlockStmt, results []string, label string) []ast.Stmt {
	var conv func(s ast.Stmt) ast.Stmt
	convList := func(l []ast.Stmt) []ast.Stmt {
		var out []ast.Stmt
		for _, s := range l {
			out = append(out, conv(s))
		}
		return out
	}
	convBlock := func(b *ast.BlockStmt) *ast.BlockStmt {
		if b == nil {
			return nil
		}
		return &ast.BlockStmt{Lbrace: b.Lbrace, List: convList(b.List), Rbrace: b.Rbrace}
	}
	conv = func(s ast.Stmt) ast.Stmt {
		switch x := s.(type) {
		case *ast.ReturnStmt:
			var list []ast.Stmt
			if len(x.Results) == len(results) && len(results) > 0 {
				var l []ast.Expr
				for _, r := range results {
					l = append(l, ast.NewIdent(r))
				}
				list = append(list, &ast.AssignStmt{Lhs: l, Tok: token.ASSIGN, Rhs: x.Results, TokPos: x.Pos()})
			} else if len(x.Results) == 1 && len(results) > 1 {
				// return g() forwarding several results
				var l []ast.Expr
				for _, r := range results {
					l = append(l, ast.NewIdent(r))
				}
				list = append(list, &ast.AssignStmt{Lhs: l, Tok: token.ASSIGN, Rhs: x.Results, TokPos: x.Pos()})
			}
			list = append(list, &ast.BranchStmt{Tok: token.BREAK, Label: ast.NewIdent(label), TokPos: x.Pos()})
			return &ast.BlockStmt{List: list}
		case *ast.BlockStmt:
			return convBlock(x)
		case *ast.IfStmt:
			n := *x
			n.Body = convBlock(x.Body)
			if x.Else != nil {
				n.Else = conv(x.Else)
			}
			return &n
		case *ast.ForStmt:
			n := *x
			n.Body = convBlock(x.Body)
			return &n
		case *ast.RangeStmt:
			n := *x
			n.Body = convBlock(x.Body)
			return &n
		case *ast.SwitchStmt:
			n := *x
			n.Body = convBlock(x.Body)
			return &n
		case *ast.TypeSwitchStmt:
			n := *x
			n.Body = convBlock(x.Body)
			return &n
		case *ast.SelectStmt:
			n := *x
			n.Body = convBlock(x.Body)
			return &n
		case *ast.CaseClause:
			n := *x
			n.Body = convList(x.Body)
			return &n
		case *ast.CommClause:
			n := *x
			n.Body = convList(x.Body)
			return &n
		}
		return s
	}
	return convList(b.List)
}

// splice rewrites one statement if it contains an inlinable call in a
// supported context; it returns the replacement statements.
func (il *inliner) splice(s ast.Stmt) ([]ast.Stmt, bool) {
	try := func(call *ast.CallExpr) ([]ast.Stmt, []ast.Expr, bool) {
		fn, fd, recv := il.calleeOf(call)
		if fn == nil {
			return nil, nil, false
		}
		return il.prelude(call, fn, fd, recv)
	}
	switch x := s.(type) {
	case *ast.ExprStmt:
		if call, ok := x.X.(*ast.CallExpr); ok {
			if pre, _, ok := try(call); ok {
				return pre, true
			}
		}
	case *ast.AssignStmt:
		if len(x.Rhs) == 1 {
			if call, ok := x.Rhs[0].(*ast.CallExpr); ok {
				if pre, res, ok := try(call); ok && len(res) == len(x.Lhs) {
					n := *x
					n.Rhs = res
					return append(pre, &n), true
				}
			}
		}
		// a call nested as the sole effectful operand of a simple expression
		if len(x.Rhs) == 1 {
			if pre, repl, ok := il.hoistNested(x.Rhs[0]); ok {
				n := *x
				n.Rhs = []ast.Expr{repl}
				return append(pre, &n), true
			}
		}
	case *ast.ReturnStmt:
		if len(x.Results) == 1 {
			if call, ok := x.Results[0].(*ast.CallExpr); ok {
				if pre, res, ok := try(call); ok && len(res) > 0 {
					n := *x
					n.Results = res
					return append(pre, &n), true
				}
			}
		}
		for i, r := range x.Results {
			// every other result must be free of effects for the hoist to keep the order
			others := true
			for j, o := range x.Results {
				if j != i && !sideEffectFree(o) {
					others = false
				}
			}
			if !others {
				continue
			}
			if pre, repl, ok := il.hoistNested(r); ok {
				n := *x
				n.Results = append([]ast.Expr{}, x.Results...)
				n.Results[i] = repl
				return append(pre, &n), true
			}
		}
	case *ast.IfStmt:
		// if x, err := helper(); cond { ... }   or   if helper(..) { ... }
		if x.Init != nil {
			if pre, ok := il.splice(x.Init); ok {
				n := *x
				n.Init = pre[len(pre)-1]
				blk := &ast.BlockStmt{List: append(pre[:len(pre)-1], &n)}
				return []ast.Stmt{blk}, true
			}
		} else if pre, repl, ok := il.hoistNested(x.Cond); ok {
			n := *x
			n.Cond = repl
			return []ast.Stmt{&ast.BlockStmt{List: append(pre, &n)}}, true
		}
	}
	return nil, false
}

// hoistNested handles a call that is the expression itself, or negated, or
// one operand of a comparison whose other operand has no effects.
func (il *inliner) hoistNested(e ast.Expr) ([]ast.Stmt, ast.Expr, bool) {
	switch x := e.(type) {
	case *ast.CallExpr:
		fn, fd, recv := il.calleeOf(x)
		if fn != nil {
			if pre, res, ok := il.prelude(x, fn, fd, recv); ok && len(res) == 1 {
				return pre, res[0], true
			}
			return nil, nil, false
		}
		// a known/external call with exactly one inlinable argument and otherwise effect-free arguments
		idx := -1
		for i, a := range x.Args {
			if c, ok := a.(*ast.CallExpr); ok {
				if f2, _, _ := il.calleeOf(c); f2 != nil {
					if idx >= 0 {
						return nil, nil, false
					}
					idx = i
					continue
				}
			}
			if !sideEffectFree(a) {
				return nil, nil, false
			}
		}
		if idx >= 0 && sideEffectFree(x.Fun) {
			pre, repl, ok := il.hoistNested(x.Args[idx])
			if ok {
				n := *x
				n.Args = append([]ast.Expr{}, x.Args...)
				n.Args[idx] = repl
				return pre, &n, true
			}
		}
	case *ast.UnaryExpr:
		if x.Op == token.NOT {
			if pre, repl, ok := il.hoistNested(x.X); ok {
				return pre, &ast.UnaryExpr{Op: token.NOT, X: repl, OpPos: x.OpPos}, true
			}
		}
	case *ast.ParenExpr:
		if pre, repl, ok := il.hoistNested(x.X); ok {
			return pre, &ast.ParenExpr{X: repl}, true
		}
	case *ast.BinaryExpr:
		if x.Op == token.LAND || x.Op == token.LOR {
			return nil, nil, false // short-circuit evaluation must be preserved
		}
		if sideEffectFree(x.Y) {
			if pre, repl, ok := il.hoistNested(x.X); ok {
				n := *x
				n.X = repl
				return pre, &n, true
			}
		}
		if sideEffectFree(x.X) {
			if pre, repl, ok := il.hoistNested(x.Y); ok {
				n := *x
				n.Y = repl
				return pre, &n, true
			}
		}
	}
	return nil, nil, false
}

// rewriteBlock applies splice to every statement list of a function body.
func (il *inliner) rewriteBlock(list []ast.Stmt) ([]ast.Stmt, bool) {
	changed := false
	var out []ast.Stmt
	for _, s := range list {
		// inner blocks first
		switch x := s.(type) {
		case *ast.BlockStmt:
			if l, c := il.rewriteBlock(x.List); c {
				x.List = l
				changed = true
			}
		case *ast.IfStmt:
			for cur := x; cur != nil; {
				if l, c := il.rewriteBlock(cur.Body.List); c {
					cur.Body.List = l
					changed = true
				}
				switch e := cur.Else.(type) {
				case *ast.IfStmt:
					cur = e
				case *ast.BlockStmt:
					if l, c := il.rewriteBlock(e.List); c {
						e.List = l
						changed = true
					}
					cur = nil
				default:
					cur = nil
				}
			}
		case *ast.ForStmt:
			if l, c := il.rewriteBlock(x.Body.List); c {
				x.Body.List = l
				changed = true
			}
		case *ast.RangeStmt:
			if l, c := il.rewriteBlock(x.Body.List); c {
				x.Body.List = l
				changed = true
			}
		case *ast.SwitchStmt:
			for _, cc := range x.Body.List {
				if cl, ok := cc.(*ast.CaseClause); ok {
					if l, c := il.rewriteBlock(cl.Body); c {
						cl.Body = l
						changed = true
					}
				}
			}
		case *ast.TypeSwitchStmt:
			for _, cc := range x.Body.List {
				if cl, ok := cc.(*ast.CaseClause); ok {
					if l, c := il.rewriteBlock(cl.Body); c {
						cl.Body = l
						changed = true
					}
				}
			}
		case *ast.LabeledStmt:
			if f, ok := x.Stmt.(*ast.ForStmt); ok {
				if l, c := il.rewriteBlock(f.Body.List); c {
					f.Body.List = l
					changed = true
				}
			}
		}
		if repl, ok := il.splice(s); ok {
			out = append(out, repl...)
			changed = true
		} else {
			out = append(out, s)
		}
	}
	return out, changed
}

// inlineUnknownHelpers returns an overlay in which calls to unknown
// same-package helpers are spliced into their callers (nil if none).
func inlineUnknownHelpers(pkgs []*packages.Package, fset *token.FileSet) (map[string][]byte, []string) {
	overlay := map[string][]byte{}
	var names []string
	for _, pk := range pkgs {
		il := &inliner{fset: fset, pkg: pk, decls: map[*types.Func]*ast.FuncDecl{}, unknown: map[*types.Func]bool{},
			changed: map[*ast.File]bool{}, fileOf: map[*ast.FuncDecl]*ast.File{}, stack: map[*types.Func]bool{}}
		for _, f := range pk.Syntax {
			if isTestFile(fset.Position(f.Pos()).Filename) {
				continue
			}
			for _, d := range f.Decls {
				fd, ok := d.(*ast.FuncDecl)
				if !ok {
					continue
				}
				obj, _ := pk.TypesInfo.Defs[fd.Name].(*types.Func)
				if obj == nil {
					continue
				}
				il.decls[obj] = fd
				il.fileOf[fd] = f
				if !isKnownFunc(funcObjName(obj)) {
					il.unknown[obj] = true
					names = append(names, funcObjName(obj))
				}
			}
		}
		if len(il.unknown) == 0 {
			continue
		}
		// callee and caller must share a file's imports: restrict to callees whose
		// file imports are a subset (by name and path) of the caller's file imports
		for _, f := range pk.Syntax {
			if isTestFile(fset.Position(f.Pos()).Filename) {
				continue
			}
			fileChanged := false
			for _, d := range f.Decls {
				fd, ok := d.(*ast.FuncDecl)
				if !ok || fd.Body == nil {
					continue
				}
				// inline repeatedly (helpers calling helpers), bounded
				for round := 0; round < 4; round++ {
					obj, _ := pk.TypesInfo.Defs[fd.Name].(*types.Func)
					il.stack = map[*types.Func]bool{}
					if obj != nil {
						il.stack[obj] = true
					}
					l, c := il.rewriteBlock(fd.Body.List)
					if !c {
						break
					}
					fd.Body.List = l
					fileChanged = true
					break // nested helper calls inside spliced bodies are not re-typed; one round
				}
			}
			if fileChanged {
				// imports: add those of the files of inlined callees that this file lacks
				addMissingImports(f, pk)
				var buf bytes.Buffer
				cfg := printer.Config{Mode: printer.SourcePos | printer.UseSpaces | printer.TabIndent, Tabwidth: 8}
				if err := cfg.Fprint(&buf, fset, f); err == nil {
					overlay[fset.Position(f.Pos()).Filename] = buf.Bytes()
				}
			}
		}
	}
	if len(overlay) == 0 {
		return nil, names
	}
	return overlay, names
}

func funcObjName(f *types.Func) string {
	sig := f.Type().(*types.Signature)
	if r := sig.Recv(); r != nil {
		t := r.Type()
		ptr := ""
		if p, ok := t.(*types.Pointer); ok {
			t = p.Elem()
			ptr = "*"
		}
		if n, ok := t.(*types.Named); ok {
			return "(" + ptr + n.Obj().Pkg().Path() + "." + n.Obj().Name() + ")." + f.Name()
		}
	}
	if f.Pkg() == nil {
		return f.Name()
	}
	return f.Pkg().Path() + "." + f.Name()
}

// addMissingImports makes sure the file imports every package that any file
// of the same package imports (spliced bodies may come from a sibling file).
func addMissingImports(f *ast.File, pk *packages.Package) {
	have := map[string]bool{}
	for _, im := range f.Imports {
		have[strings.Trim(im.Path.Value, `"`)] = true
	}
	for _, other := range pk.Syntax {
		if other == f {
			continue
		}
		for _, im := range other.Imports {
			p := strings.Trim(im.Path.Value, `"`)
			if have[p] {
				continue
			}
			have[p] = true
			spec := &ast.ImportSpec{Path: &ast.BasicLit{Kind: token.STRING, Value: im.Path.Value}}
			name := "_"
			if im.Name != nil {
				name = im.Name.Name
			} else {
				name = ""
			}
			if name != "" {
				spec.Name = ast.NewIdent(name)
			}
			f.Decls = append([]ast.Decl{&ast.GenDecl{Tok: token.IMPORT, Specs: []ast.Spec{spec}}}, f.Decls...)
			f.Imports = append(f.Imports, spec)
		}
	}
}
