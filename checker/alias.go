package main

// Rename tolerance. The rules name functions, methods and struct fields of
// the pinned tree. spec/known_shapes.json records, for every function of the
// pinned tree, its signature without parameter names, and for every struct of
// the module the (name, type) list of its fields. When a name of the pinned
// tree is missing in the tree being analysed and exactly one new name of the
// same package/receiver (same struct) has the same signature (same field
// type), the new name is an alias of the old one: anchors resolve through it,
// and terms print the pinned name.

import (
	"encoding/json"
	"go/ast"
	"go/token"
	"go/types"
	"os"
	"path/filepath"
	"sort"
	"strings"
	"sync"

	"golang.org/x/tools/go/packages"
)

type knownShapes struct {
	Funcs  map[string]string      `json:"funcs"`
	Fields map[string][][2]string `json:"fields"`

	curName map[string]string            // name after undoing type renames -> name in the tree (computeAliases)
	under   map[string]map[string]string // struct type -> field -> underlying type, for fields of a named module type
}

// replaceTypeName replaces the qualified type name old by new where it stands as a whole name.
func replaceTypeName(s, old, new string) string {
	out := ""
	for {
		i := strings.Index(s, old)
		if i < 0 {
			return out + s
		}
		end := i + len(old)
		whole := end == len(s) || !(s[end] == '_' || s[end] >= '0' && s[end] <= '9' || s[end] >= 'a' && s[end] <= 'z' || s[end] >= 'A' && s[end] <= 'Z')
		if whole {
			out += s[:i] + new
		} else {
			out += s[:end]
		}
		s = s[end:]
	}
}

var (
	shapesOnce sync.Once
	shapes     knownShapes

	aliasMu       sync.RWMutex
	funcAlias     = map[string]string{}            // current name -> pinned name
	funcAliasRev  = map[string]string{}            // pinned name -> current name
	fieldAliasMap = map[string]map[string]string{} // struct type -> current field name -> pinned field name
	typeAliasMap  = map[string]string{}            // current struct type (pkg.Name) -> pinned type
)

func loadShapes() *knownShapes {
	shapesOnce.Do(func() {
		b, err := os.ReadFile(filepath.Join(verifDir, "spec", "known_shapes.json"))
		if err == nil {
			json.Unmarshal(b, &shapes)
		}
	})
	return &shapes
}

func qualFull(p *types.Package) string { return p.Path() }

// sigShape: the signature without parameter names.
func sigShape(sig *types.Signature) string {
	var ps, rs []string
	for i := 0; i < sig.Params().Len(); i++ {
		t := types.TypeString(sig.Params().At(i).Type(), qualFull)
		if sig.Variadic() && i == sig.Params().Len()-1 {
			t = "..." + strings.TrimPrefix(t, "[]")
		}
		ps = append(ps, t)
	}
	for i := 0; i < sig.Results().Len(); i++ {
		rs = append(rs, types.TypeString(sig.Results().At(i).Type(), qualFull))
	}
	return "(" + strings.Join(ps, ", ") + ") (" + strings.Join(rs, ", ") + ")"
}

// scopeOfName: "pkg" for functions, "(*pkg.T)" / "(pkg.T)" for methods.
func scopeOfName(full string) string {
	if strings.HasPrefix(full, "(") {
		if i := strings.Index(full, ")."); i >= 0 {
			return full[:i+1]
		}
	}
	if i := strings.LastIndex(full, "."); i >= 0 {
		return full[:i]
	}
	return full
}

// collectShapes describes the module packages (used to write the spec file and
// to compare the current tree with it).
func collectShapes(pkgs []*packages.Package) *knownShapes {
	ks := &knownShapes{Funcs: map[string]string{}, Fields: map[string][][2]string{}}
	for _, pk := range pkgs {
		scope := pk.Types.Scope()
		for _, name := range scope.Names() {
			switch obj := scope.Lookup(name).(type) {
			case *types.Func:
				ks.Funcs[funcObjName(obj)] = sigShape(obj.Type().(*types.Signature))
			case *types.TypeName:
				named, ok := obj.Type().(*types.Named)
				if !ok {
					continue
				}
				for i := 0; i < named.NumMethods(); i++ {
					m := named.Method(i)
					ks.Funcs[funcObjName(m)] = sigShape(m.Type().(*types.Signature))
				}
				if st, ok := named.Underlying().(*types.Struct); ok {
					var fl [][2]string
					for i := 0; i < st.NumFields(); i++ {
						fl = append(fl, [2]string{st.Field(i).Name(), types.TypeString(st.Field(i).Type(), qualFull)})
						if nt, isNamed := st.Field(i).Type().(*types.Named); isNamed && nt.Obj().Pkg() != nil && nt.Obj().Pkg() == pk.Types {
							if ks.under == nil {
								ks.under = map[string]map[string]string{}
							}
							if ks.under[typeString(named)] == nil {
								ks.under[typeString(named)] = map[string]string{}
							}
							ks.under[typeString(named)][st.Field(i).Name()] = types.TypeString(nt.Underlying(), qualFull)
						}
					}
					ks.Fields[typeString(named)] = fl
				}
			}
		}
	}
	return ks
}

// computeAliases compares the tree being analysed with the pinned shapes.
func computeAliases(pkgs []*packages.Package) {
	known := loadShapes()
	if len(known.Funcs) == 0 {
		return
	}
	cur := collectShapes(pkgs)
	// struct types first: a pinned struct type that is missing, and exactly one new struct type
	// of the same package with the same field types (as a multiset), is that type renamed
	ta := map[string]string{}
	{
		sigOf := func(fl [][2]string, self string) string {
			var ts []string
			for _, f := range fl {
				ts = append(ts, strings.ReplaceAll(f[1], self, "<self>"))
			}
			sort.Strings(ts)
			return strings.Join(ts, ";")
		}
		pkgOf := func(t string) string {
			if i := strings.LastIndex(t, "."); i >= 0 {
				return t[:i]
			}
			return t
		}
		type tk struct{ pkg, sig string }
		missingT, freshT := map[tk][]string{}, map[tk][]string{}
		for t, fl := range known.Fields {
			if _, ok := cur.Fields[t]; !ok && len(fl) > 0 {
				k := tk{pkgOf(t), sigOf(fl, t)}
				missingT[k] = append(missingT[k], t)
			}
		}
		for t, fl := range cur.Fields {
			if _, ok := known.Fields[t]; !ok && len(fl) > 0 {
				k := tk{pkgOf(t), sigOf(fl, t)}
				freshT[k] = append(freshT[k], t)
			}
		}
		for k, olds := range missingT {
			if news := freshT[k]; len(olds) == 1 && len(news) == 1 {
				ta[news[0]] = olds[0]
			}
		}
		if len(ta) > 0 {
			ren := func(x string) string {
				for n, o := range ta {
					x = replaceTypeName(x, n, o)
				}
				return x
			}
			nf := map[string]string{}
			curName := map[string]string{}
			for name, sig := range cur.Funcs {
				nf[ren(name)] = ren(sig)
				curName[ren(name)] = name
			}
			cur.Funcs = nf
			cur.curName = curName
			nfl := map[string][][2]string{}
			for t, fl := range cur.Fields {
				var l [][2]string
				for _, f := range fl {
					l = append(l, [2]string{f[0], ren(f[1])})
				}
				nfl[ren(t)] = l
			}
			cur.Fields = nfl
		}
	}
	fa, far := map[string]string{}, map[string]string{}
	// functions: missing pinned names vs new names, per scope and signature
	type key struct{ scope, sig string }
	missing := map[key][]string{}
	fresh := map[key][]string{}
	for name, sig := range known.Funcs {
		if _, ok := cur.Funcs[name]; !ok {
			k := key{scopeOfName(name), sig}
			missing[k] = append(missing[k], name)
		}
	}
	for name, sig := range cur.Funcs {
		if _, ok := known.Funcs[name]; !ok {
			k := key{scopeOfName(name), sig}
			fresh[k] = append(fresh[k], name)
		}
	}
	for k, olds := range missing {
		news := fresh[k]
		if len(olds) == 1 && len(news) == 1 {
			n := news[0]
			if c, ok := cur.curName[n]; ok {
				n = c
			}
			fa[n] = olds[0]
			far[olds[0]] = n
		}
	}
	// methods of a renamed type that kept their names are known under the pinned type
	for renamed, c := range cur.curName {
		if renamed != c {
			if _, known0 := known.Funcs[renamed]; known0 {
				if _, done := fa[c]; !done {
					fa[c] = renamed
					far[renamed] = c
				}
			}
		}
	}
	// fields
	fm := map[string]map[string]string{}
	for typ, pinned := range known.Fields {
		now, ok := cur.Fields[typ]
		if !ok {
			continue
		}
		have := map[string]bool{}
		for _, f := range now {
			have[f[0]] = true
		}
		was := map[string]bool{}
		for _, f := range pinned {
			was[f[0]] = true
		}
		oldByType, newByType := map[string][]string{}, map[string][]string{}
		for _, f := range pinned {
			if !have[f[0]] {
				oldByType[f[1]] = append(oldByType[f[1]], f[0])
			}
		}
		for _, f := range now {
			if !was[f[0]] {
				newByType[f[1]] = append(newByType[f[1]], f[0])
			}
		}
		for t, olds := range oldByType {
			if news := newByType[t]; len(olds) == 1 && len(news) == 1 {
				if fm[typ] == nil {
					fm[typ] = map[string]string{}
				}
				fm[typ][news[0]] = olds[0]
			}
		}
		// a field whose type became a new named type of the package with the old type as its
		// underlying type (nonce [12]byte -> counter chunkNonce)
		for t, olds := range oldByType {
			if len(olds) != 1 || len(newByType[t]) != 0 {
				continue
			}
			var cands []string
			for _, f := range now {
				if was[f[0]] {
					continue
				}
				if u := cur.under[typ][f[0]]; u == t {
					if _, pinnedType := known.Fields[f[1]]; !pinnedType {
						cands = append(cands, f[0])
					}
				}
			}
			if len(cands) == 1 {
				if fm[typ] == nil {
					fm[typ] = map[string]string{}
				}
				if _, taken := fm[typ][cands[0]]; !taken {
					fm[typ][cands[0]] = olds[0]
				}
			}
		}
	}
	// field aliases are keyed by the current type name
	if len(ta) > 0 {
		back := map[string]string{}
		for n, o := range ta {
			back[o] = n
		}
		fm2 := map[string]map[string]string{}
		for t, m := range fm {
			if c, ok := back[t]; ok {
				fm2[c] = m
			} else {
				fm2[t] = m
			}
		}
		fm = fm2
	}
	aliasMu.Lock()
	funcAlias, funcAliasRev, fieldAliasMap, typeAliasMap = fa, far, fm, ta
	aliasMu.Unlock()
}

// applyAliases renames, in the syntax trees, every aliased function and field back to its
// pinned name (declaration and all uses), so that the normalised program literally carries
// the names the rules know. It returns the files it touched.
func applyAliases(pkgs []*packages.Package) map[*ast.File]bool {
	computeAliases(pkgs)
	aliasMu.RLock()
	fa, fm, ta := funcAlias, fieldAliasMap, typeAliasMap
	aliasMu.RUnlock()
	touched := map[*ast.File]bool{}
	if len(fa) == 0 && len(fm) == 0 && len(ta) == 0 {
		return touched
	}
	rename := map[types.Object]string{}
	for _, pk := range pkgs {
		scope := pk.Types.Scope()
		for _, name := range scope.Names() {
			switch obj := scope.Lookup(name).(type) {
			case *types.Func:
				if o, ok := fa[funcObjName(obj)]; ok {
					rename[obj] = o[strings.LastIndex(o, ".")+1:]
				}
			case *types.TypeName:
				named, ok := obj.Type().(*types.Named)
				if !ok {
					continue
				}
				if o, ok := ta[typeString(named)]; ok {
					rename[obj] = o[strings.LastIndex(o, ".")+1:]
				}
				for i := 0; i < named.NumMethods(); i++ {
					m := named.Method(i)
					if o, ok := fa[funcObjName(m)]; ok {
						rename[m] = o[strings.LastIndex(o, ".")+1:]
					}
				}
				if st, ok := named.Underlying().(*types.Struct); ok {
					if m := fm[typeString(named)]; m != nil {
						for i := 0; i < st.NumFields(); i++ {
							if o, ok := m[st.Field(i).Name()]; ok {
								rename[st.Field(i)] = o
							}
						}
					}
				}
			}
		}
	}
	if len(rename) == 0 {
		return touched
	}
	for _, pk := range pkgs {
		fileOf := func(pos token.Pos) *ast.File {
			for _, f := range pk.Syntax {
				if f.Pos() <= pos && pos <= f.End() {
					return f
				}
			}
			return nil
		}
		for id, obj := range pk.TypesInfo.Defs {
			if n, ok := rename[obj]; ok && obj != nil {
				id.Name = n
				if f := fileOf(id.Pos()); f != nil {
					touched[f] = true
				}
			}
		}
		for id, obj := range pk.TypesInfo.Uses {
			if n, ok := rename[obj]; ok {
				id.Name = n
				if f := fileOf(id.Pos()); f != nil {
					touched[f] = true
				}
			}
		}
	}
	return touched
}

func aliasSummary() []string {
	aliasMu.RLock()
	defer aliasMu.RUnlock()
	var out []string
	for n, o := range funcAlias {
		out = append(out, n+" = "+o)
	}
	for t, m := range fieldAliasMap {
		for n, o := range m {
			out = append(out, t+"."+n+" = ."+o)
		}
	}
	for n, o := range typeAliasMap {
		out = append(out, "type "+n+" = "+o)
	}
	sort.Strings(out)
	return out
}
