package main

// Virtual inlining of helper functions the rules do not know about.
//
// The rules anchor on the functions that exist on the pinned tree (frozen in
// spec/known_funcs.json). A maintenance refactoring typically *extracts* new
// unexported helpers from them. To keep terms and guards stable under such
// edits, a call to an in-module function that is NOT on the known list is
// treated as transparent:
//
//   * E3: the call's results are replaced by the callee's result terms (the
//     results of its unique success return) with the parameters substituted
//     by the argument terms;
//   * E1: a fact "helper(args) succeeded" (error == nil, or boolean result
//     true for a predicate with a unique `return true`) imports the guards
//     that dominate that return inside the helper, parameters substituted.
//
// Functions on the known list are never expanded, so nothing changes on the
// pinned tree.

import (
	"encoding/json"
	"go/constant"
	"os"
	"path/filepath"
	"sync"

	"golang.org/x/tools/go/ssa"
)

var (
	knownOnce  sync.Once
	knownFuncs map[string]bool
)

func isKnownFunc(name string) bool {
	knownOnce.Do(func() {
		knownFuncs = map[string]bool{}
		b, err := os.ReadFile(filepath.Join(verifDir, "spec", "known_funcs.json"))
		if err != nil {
			return
		}
		var l []string
		if json.Unmarshal(b, &l) == nil {
			for _, n := range l {
				knownFuncs[n] = true
			}
		}
	})
	if len(knownFuncs) == 0 {
		return true // table missing: expand nothing
	}
	if alwaysSplice[name] {
		return false
	}
	return knownFuncs[name]
}

// alwaysSplice: tiny helpers of the pinned tree that the normal form has spliced into
// their callers as well, so that a later edit that inlines (or re-extracts, or renames)
// them changes nothing for the rules, which are written against the flat callers.
var alwaysSplice = map[string]bool{
	"filippo.io/age/internal/stream.setLastChunkFlag": true,
	"filippo.io/age/internal/stream.nonceIsZero":      true,
	"filippo.io/age.wrapWithLabels":                   true,
	"filippo.io/age.newX25519RecipientFromPoint":      true,
	"filippo.io/age.multiUnwrap":                      true,
	"filippo.io/age/agessh.multiUnwrap":               true,
	"filippo.io/age/cmd/age.parseIdentity":            true,
}

// transparent: an in-module helper the rules do not know.
func (p *Program) transparent(f *ssa.Function) bool {
	if f == nil || f.Blocks == nil || !p.inModule(f) {
		return false
	}
	if f.Parent() != nil {
		return false // closures are handled through their parent
	}
	return !isKnownFunc(f.String())
}

// successReturnOf: the unique return of f whose error result is the nil
// constant (or the unique return, for functions without an error result, or
// the unique return forwarding all results of one call).
func successReturnOf(f *ssa.Function) *ssa.Return {
	ret, err := successReturn(f)
	if err != nil {
		return nil
	}
	return ret
}

// trueReturnOf: for a boolean predicate, its unique `return true`.
func trueReturnOf(f *ssa.Function) *ssa.Return {
	if f.Signature.Results().Len() != 1 {
		return nil
	}
	var out *ssa.Return
	for _, r := range returnsOf(f) {
		c, ok := r.Results[0].(*ssa.Const)
		if !ok || c.Value == nil || c.Value.Kind() != constant.Bool {
			return nil
		}
		if constant.BoolVal(c.Value) {
			if out != nil {
				return nil
			}
			out = r
		}
	}
	return out
}

// substTerm copies t replacing the callee's parameter nodes by the argument
// terms. ctx distinguishes fresh buffers of different expansions.
func substTerm(t *Term, args map[string]*Term, ctx string) *Term {
	if t == nil {
		return nil
	}
	if t.Op == "Param" || t.Op == "Recv" {
		if a, ok := args[t.S]; ok {
			return a
		}
	}
	n := &Term{Op: t.Op, S: t.S, V: t.V, Ctx: t.Ctx}
	switch t.Op {
	case "Rand", "ReadN", "Zero", "Copy", "Call", "Invoke", "CallV", "RangeIdx":
		n.Ctx = ctx + t.Ctx
	}
	for _, a := range t.Args {
		n.Args = append(n.Args, substTerm(a, args, ctx))
	}
	return n
}

// argMap maps the callee's parameter names (as printed by its own builder)
// to the caller's argument terms.
func (tb *TB) argMap(callee *ssa.Function, args []ssa.Value) map[string]*Term {
	ctb := tb.p.TB(callee)
	m := map[string]*Term{}
	for i, prm := range callee.Params {
		if i < len(args) {
			m[ctb.paramTerm(prm).S] = tb.baseTerm(args[i])
		}
	}
	return m
}

// expandResult returns the term of result k of a call to a transparent
// helper, or nil if the helper has no unique success return.
func (tb *TB) expandResult(c *ssa.Call, k int) *Term {
	callee := staticCallee(&c.Call)
	if !tb.p.transparent(callee) || tb.depth > 4 {
		return nil
	}
	for _, f := range tb.stack {
		if f == callee {
			return nil
		}
	}
	ret := successReturnOf(callee)
	if ret == nil {
		return nil
	}
	rs := resultsOf(ret)
	if k >= len(rs) {
		return nil
	}
	// the error result stays symbolic unless it is forwarded from an inner call
	if ei := errorResultIndex(callee.Signature); ei == k && isNilConst(rs[k]) {
		return nil
	}
	ctb := tb.p.TB(callee)
	ctb.depth = tb.depth + 1
	ctb.stack = append(append([]*ssa.Function{}, tb.stack...), tb.fn)
	inner := ctb.Term(rs[k])
	ctx := ctxOf(c)
	return substTerm(inner, tb.argMap(callee, c.Call.Args), ctx)
}

func ctxOf(c *ssa.Call) string {
	return "@" + c.Name() + ":" + c.Parent().Name()
}

// importFacts extends a fact list with the guards established inside
// transparent helpers whose success the list already asserts.
func (tb *TB) importFacts(facts []Atom, depth int) []Atom {
	if depth > 3 {
		return facts
	}
	out := facts
	for _, a := range facts {
		var call *ssa.Call
		var ret *ssa.Return
		switch {
		case a.Kind == "cmp" && a.Op == "==" && a.Y != nil && a.Y.Op == "Nil":
			x := a.X
			if x.Op == "Ext" {
				x = x.Args[0]
			}
			c, ok := x.V.(*ssa.Call)
			if !ok {
				continue
			}
			callee := staticCallee(&c.Call)
			if !tb.p.transparent(callee) || errorResultIndex(callee.Signature) < 0 {
				continue
			}
			// the success return must have a nil error constant
			for _, r := range returnsOf(callee) {
				if isNilConst(resultsOf(r)[errorResultIndex(callee.Signature)]) {
					if ret != nil {
						ret = nil
						break
					}
					ret = r
				}
			}
			call = c
		case a.Kind == "call" && a.Pol:
			c, ok := a.Call.V.(*ssa.Call)
			if !ok {
				continue
			}
			callee := staticCallee(&c.Call)
			if !tb.p.transparent(callee) {
				continue
			}
			ret = trueReturnOf(callee)
			call = c
		}
		if call == nil || ret == nil {
			continue
		}
		callee := staticCallee(&call.Call)
		ctb := tb.p.TB(callee)
		inner := ctb.importFacts(ctb.FactsAtRaw(ret.Block()), depth+1)
		am := tb.argMap(callee, call.Call.Args)
		ctx := ctxOf(call)
		for _, ia := range inner {
			na := ia
			na.X = substTerm(ia.X, am, ctx)
			na.Y = substTerm(ia.Y, am, ctx)
			na.Call = substTerm(ia.Call, am, ctx)
			out = append(out, na)
		}
	}
	return out
}
