package main

import (
	"fmt"
	"os"
	"strings"

	"golang.org/x/tools/go/ssa"
)

// Producer is a program point at which a value of interest is committed: a
// return, a store, a call argument or the predecessor edge of a Phi.
type Producer struct {
	Fn    *ssa.Function
	Kind  string // return | store | arg | phi-edge
	At    ssa.Instruction
	Facts []Atom
}

// producersOf lists where fn (closures included) commits a value satisfying
// want, with the facts in force there (on the edge, for a Phi operand).
func (p *Program) producersOf(fn *ssa.Function, want func(tb *TB, v ssa.Value) bool) []Producer {
	var out []Producer
	for _, f := range append([]*ssa.Function{fn}, AnonFuncs(fn)...) {
		tb := p.TB(f)
		for _, b := range f.Blocks {
			for _, in := range b.Instrs {
				switch x := in.(type) {
				case *ssa.Return:
					for _, v := range resultsOf(x) {
						if want(tb, v) {
							out = append(out, Producer{f, "return", in, tb.FactsAt(b)})
						}
					}
				case *ssa.Store:
					if want(tb, x.Val) {
						out = append(out, Producer{f, "store", in, tb.FactsAt(b)})
					}
				case ssa.CallInstruction:
					for _, a := range x.Common().Args {
						if want(tb, a) {
							out = append(out, Producer{f, "arg", in, tb.FactsAt(b)})
						}
					}
				case *ssa.Phi:
					for i, e := range x.Edges {
						if !want(tb, e) {
							continue
						}
						pr := b.Preds[i]
						facts := tb.FactsAt(pr)
						if _, isIf := pr.Instrs[len(pr.Instrs)-1].(*ssa.If); isIf {
							for k, s := range pr.Succs {
								if s == b {
									facts = tb.FactsOnEdge(pr, k)
								}
							}
						}
						out = append(out, Producer{f, "phi-edge", pr.Instrs[len(pr.Instrs)-1], facts})
					}
				}
			}
		}
	}
	return out
}

// isEOFValue: the value is io.EOF itself (not a merge that may be).
func isEOFValue(tb *TB, v ssa.Value) bool {
	if _, isPhi := v.(*ssa.Phi); isPhi {
		return false
	}
	return short(tb.Term(v).String()) == "io.EOF"
}

// mayBeEOF: io.EOF itself, or a merge one of whose inputs may be, or the
// result of a closure one of whose returns may be.
func (p *Program) mayBeEOF(tb *TB, v ssa.Value, depth int) bool {
	return p.mayBeEOFAt(tb, v, nil, depth)
}

// mayBeEOFAt: the same with the facts in force where the value is used; the error of a source
// read handed on as it came may be io.EOF unless those facts say `err != io.EOF`.
func (p *Program) mayBeEOFAt(tb *TB, v ssa.Value, facts []Atom, depth int) bool {
	if depth > 4 {
		return false
	}
	if ph, ok := v.(*ssa.Phi); ok {
		// the merged value itself is known not to be io.EOF where it is used
		if len(facts) > 0 {
			ts := tb.Term(v).String()
			if _, excluded := findFact(facts, func(a Atom) bool {
				return a.Kind == "cmp" && a.Op == "!=" && ((a.X.String() == ts && short(a.Y.String()) == "io.EOF") || (a.Y.String() == ts && short(a.X.String()) == "io.EOF"))
			}); excluded {
				return false
			}
		}
		for i, e := range ph.Edges {
			pr := ph.Block().Preds[i]
			ef := tb.FactsAt(pr)
			for k, sc := range pr.Succs {
				if sc == ph.Block() {
					if _, isIf := pr.Instrs[len(pr.Instrs)-1].(*ssa.If); isIf {
						ef = tb.FactsOnEdge(pr, k)
					}
				}
			}
			if p.mayBeEOFAt(tb, e, append(append([]Atom{}, facts...), ef...), depth+1) {
				return true
			}
		}
		return false
	}
	if c, ok := v.(*ssa.Call); ok {
		if mc, ok := c.Call.Value.(*ssa.MakeClosure); ok {
			f := mc.Fn.(*ssa.Function)
			ftb := p.TB(f)
			for _, ret := range returnsOf(f) {
				for _, rv := range resultsOf(ret) {
					if p.mayBeEOFAt(ftb, rv, ftb.FactsAt(ret.Block()), depth+1) {
						return true
					}
				}
			}
			return false
		}
	}
	if isSourceReadError(v) {
		ts := tb.Term(v).String()
		_, excluded := findFact(facts, func(a Atom) bool {
			return a.Kind == "cmp" && a.Op == "!=" && ((a.X.String() == ts && short(a.Y.String()) == "io.EOF") || (a.Y.String() == ts && short(a.X.String()) == "io.EOF"))
		})
		if os.Getenv("AGECHECK_DEBUG_EOF") != "" {
			fmt.Fprintf(os.Stderr, "mayBeEOFAt %s excluded=%v facts=%s\n", ts, excluded, factStrings(facts))
		}
		return !excluded
	}
	return strings.TrimSpace(short(tb.Term(v).String())) == "io.EOF"
}

// isSourceReadError: the error result of a read from a bufio.Reader or io.Reader.
func isSourceReadError(v ssa.Value) bool {
	ex, ok := v.(*ssa.Extract)
	if !ok || !isErrorType(ex.Type()) {
		return false
	}
	c, ok := ex.Tuple.(*ssa.Call)
	if !ok {
		return false
	}
	switch calleeName(&c.Call) {
	case "(*bufio.Reader).ReadBytes", "(*bufio.Reader).ReadString", "(*bufio.Reader).ReadSlice", "(*bufio.Reader).ReadLine",
		"(*bufio.Reader).Read", "(*bufio.Reader).ReadByte", "io.ReadFull", "io.ReadAtLeast", "invoke (io.Reader).Read":
		return true
	}
	return false
}

// eofOnlyBehind: every leaf of v (through merges) that may be io.EOF is reached under a fact
// satisfying need.
func (p *Program) eofOnlyBehind(tb *TB, v ssa.Value, facts []Atom, need func(Atom) bool, depth int) bool {
	if ph, ok := v.(*ssa.Phi); ok && depth <= 4 {
		for i, e := range ph.Edges {
			pr := ph.Block().Preds[i]
			ef := tb.FactsAt(pr)
			for k, sc := range pr.Succs {
				if sc == ph.Block() {
					if _, isIf := pr.Instrs[len(pr.Instrs)-1].(*ssa.If); isIf {
						ef = tb.FactsOnEdge(pr, k)
					}
				}
			}
			if !p.eofOnlyBehind(tb, e, append(append([]Atom{}, facts...), ef...), need, depth+1) {
				return false
			}
		}
		return true
	}
	if !p.mayBeEOFAt(tb, v, facts, depth) {
		return true
	}
	_, ok := findFact(facts, need)
	return ok
}
