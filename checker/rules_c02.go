package main

import (
	"fmt"
	"os"
	"strings"

	"golang.org/x/tools/go/ssa"
)

func init() {
	register(&PropertyDef{
		ID: "C02",
		Explanation: "Path rules over the CFG of internal/stream.Reader (all acyclic paths enumerated, Phis resolved per path): (R02.1) the caller's buffer is written only by copy(p, r.unread), and r.unread is only ever a reslice of itself or a slice of r.buf filled from the output of an AEAD.Open whose error is nil on that path; " +
			"(R02.2) every Open uses r.nonce[:] and nil AD, exactly one incNonce follows the accepted Open on every successful path, and a second Open occurs only as the retry-as-final idiom; (R02.3) readChunk returns last==true exactly on paths where setLastChunkFlag precedes the accepted Open; " +
			"(R02.4) io.EOF is produced in the package at exactly one place, dominated by last==true and by the 1-byte probe returning io.EOF, and EOF from the chunk read becomes ErrUnexpectedEOF; (R02.5) the short-read path rejects an empty final chunk unless the nonce is zero, before Open; " +
			"(R02.6) terminal state: the last branch always leaves r.err non-nil, readChunk is called only under r.err==nil and empty r.unread, and its error is stored before it is returned; (R02.7) the payload key is streamKey(fileKey, 16-byte nonce read from the payload); (R02.8) the nonce counter is a correct big-endian increment with carry over bytes len-2..0 that aborts on wrap, and the final flag is the last byte (the rule of C05/C06), so that no two chunk positions share a nonce. (R02.9) the reader Decrypt returns is the one stream.NewReader made, on every way.",
		NotDecided:  "that ChaCha20-Poly1305 rejects modified ciphertext.",
		Assumptions: []string{"AEAD.Open returns a non-nil error unless the ciphertext authenticates under (key, nonce, AD)", "io.ReadFull returns io.ErrUnexpectedEOF on a short read and io.EOF on an empty one"},
		Technique:   "static analysis: acyclic path enumeration with per-path Phi resolution over go/ssa, dominance guards, EOF-production who-may-produce list",
		Run:         runC02,
	})
}

const openName = "invoke (crypto/cipher.AEAD).Open"

func runC02(p *Program, r *Result) {
	read := r.anchor(pkgStream, "Reader", "Read")
	rc := r.anchor(pkgStream, "Reader", "readChunk")
	inc := r.anchor(pkgStream, "", "incNonce")
	// setLastChunkFlag and nonceIsZero are spliced into their callers by the normal form:
	// the rules recognise what they do (streamfx.go), not their names
	niz := p.Func(pkgStream, "", "nonceIsZero")
	if read == nil || rc == nil || inc == nil {
		return
	}
	rtb := p.TB(read)
	ctb := p.TB(rc)
	paths, ok := p.EnumPaths(rc.Blocks[0])
	if !ok {
		r.Rule("R02.paths", "path enumeration", 0)
		r.Unk(rc.String(), "paths", "", "more than 4096 paths")
		return
	}
	opens := callsTo(rc, openName)

	// ---- R02.1
	r.Rule("R02.1", "plaintext is released only from the output of a successful Open", 5)
	{
		// writes through the caller's buffer
		for _, f := range p.Funcs {
			if !inPkg(f, pkgStream) || f.Signature.Recv() == nil || !strings.Contains(f.String(), ".Reader)") {
				continue
			}
			e := p.EffectsOf(f)
			for _, w := range e.Writes {
				for _, rt := range w.Roots {
					if rt.Kind == "param" && rt.Param >= 1 {
						c, isCall := w.Instr.(ssa.CallInstruction)
						okc := false
						if isCall && isBuiltin(c.Common(), "copy") {
							src := short(p.TB(f).Term(c.Common().Args[1]).String())
							okc = src == "Field(Recv.unread)"
						}
						r.Check(okc, f.String(), "write:p", r.pos(w.Instr), "copy(p, r.unread)", "the caller's buffer is written from something other than r.unread")
					}
				}
			}
		}
		// stores to unread
		for _, fs := range p.fieldStores(pkgStream+".Reader", "unread") {
			tb := p.TB(fs.Fn)
			val := short(tb.Term(fs.Store.Val).String())
			switch {
			case strings.HasPrefix(val, "Slice(Field(Recv.unread), ") && fs.Fn == read:
				r.OK(fs.Fn.String(), "store:unread", r.pos(fs.Store), "reslice of itself")
			case fs.Fn == rc:
				// r.buf[:copy(r.buf[:], out)] with out the output of the Open accepted on the path
				cp, isSlice := fs.Store.Val.(*ssa.Slice)
				var cpCall *ssa.Call
				if isSlice {
					cpCall, _ = cp.High.(*ssa.Call)
				}
				if cpCall == nil || !isBuiltin(&cpCall.Call, "copy") || !strings.HasPrefix(val, "Slice(Field(Recv.buf), _, copy(Slice(Field(Recv.buf), _, _), ") {
					// the output of Open released as it is (decrypted into a buffer of its own):
					// on every path the stored value is the output of an Open whose error is nil
					bad := ""
					n := 0
					for _, pa := range paths {
						if !pathHas(pa, fs.Store) {
							continue
						}
						n++
						src := stripConv(pa.ResolveAt(fs.Store.Val, blockIndexOnPath(pa, fs.Store.Block())))
						ex, isEx := src.(*ssa.Extract)
						var oc *ssa.Call
						if isEx {
							oc, _ = ex.Tuple.(*ssa.Call)
						}
						if oc == nil || calleeName(&oc.Call) != openName || ex.Index != 0 {
							bad = "r.unread is set to " + val + ", neither r.buf[:copy(r.buf[:], out)] nor the output of AEAD.Open (path " + pa.String() + ")"
							break
						}
						if _, ok := errFactFor(ctb.pathAtoms(pa), oc, true); !ok {
							bad = "on path " + pa.String() + " the output of Open at " + r.pos(oc) + " is released without its error having been found nil"
							break
						}
					}
					if n == 0 && bad == "" {
						bad = "no path reaches the store"
					}
					r.Check(bad == "", fs.Fn.String(), "store:unread", r.pos(fs.Store), itoa(n)+" paths: released bytes are the output of the Open whose error is nil on that path", bad)
					continue
				}
				bad := ""
				n := 0
				for _, pa := range paths {
					if !pathHas(pa, fs.Store) {
						continue
					}
					n++
					idx := blockIndexOnPath(pa, cpCall.Block())
					src := stripConv(pa.ResolveAt(cpCall.Call.Args[1], idx))
					ex, isEx := src.(*ssa.Extract)
					var oc *ssa.Call
					if isEx {
						oc, _ = ex.Tuple.(*ssa.Call)
					}
					if oc == nil || calleeName(&oc.Call) != openName || ex.Index != 0 {
						bad = "on path " + pa.String() + " the released bytes are " + short(ctb.Term(src).String()) + ", not the output of AEAD.Open"
						break
					}
					atoms := ctb.pathAtoms(pa)
					if _, ok := errFactFor(atoms, oc, true); !ok {
						bad = "on path " + pa.String() + " the output of Open at " + r.pos(oc) + " is released without its error having been found nil"
						break
					}
				}
				if n == 0 {
					bad = "no path reaches the store"
				}
				r.Check(bad == "", fs.Fn.String(), "store:unread", r.pos(fs.Store), itoa(n)+" paths: released bytes are the output of the Open whose error is nil on that path", bad)
			default:
				if al, isAl := fs.FA.X.(*ssa.Alloc); isAl && al.Heap {
					continue
				}
				r.Bad(fs.Fn.String(), "store:unread", r.pos(fs.Store), "unexpected store to r.unread: "+val)
			}
		}
	}

	// ---- R02.2 / R02.3 on the success paths of readChunk
	r.Rule("R02.2", "nonce step: one incNonce after the accepted Open; a second Open only as retry-as-final", 2)
	r.Rule("R02.3", "last == true exactly when the final flag was set before the accepted Open", 1)
	{
		bad22, bad23 := "", ""
		nSucc := 0
		for _, pa := range paths {
			if pa.End != "return" {
				continue
			}
			ret := pa.Last.(*ssa.Return)
			if len(ret.Results) != 2 || !isNilConst(ret.Results[1]) {
				continue
			}
			nSucc++
			var seq []string
			var lastOpenIdx int = -1
			ins := pa.Instrs()
			for i, in := range ins {
				if p.isFlagSet(in) {
					seq = append(seq, "flag")
					continue
				}
				c, ok := in.(ssa.CallInstruction)
				if !ok {
					continue
				}
				switch calleeName(c.Common()) {
				case openName:
					seq = append(seq, "Open")
					lastOpenIdx = i
				case inc.String():
					seq = append(seq, "inc")
				}
			}
			s := strings.Join(seq, ",")
			// accepted shapes
			switch s {
			case "Open,inc", "flag,Open,inc", "Open,flag,Open,inc":
			default:
				bad22 = "success path " + pa.String() + " has the call sequence [" + s + "]; accepted are [Open,inc], [flag,Open,inc], [Open,flag,Open,inc]"
			}
			if s == "Open,flag,Open,inc" {
				// retry idiom: the second Open only on the failure edge of the first, same input
				o1, o2 := opens[0].(*ssa.Call), opens[len(opens)-1].(*ssa.Call)
				atoms := ctb.pathAtoms(pa)
				if _, ok := errFactFor(atoms, o1, false); !ok {
					bad22 = "on path " + pa.String() + " a second Open follows a first one whose failure was not established"
				}
				if o1.Call.Args[2] != o2.Call.Args[2] {
					bad22 = "the retry Open uses a different input than the first"
				}
			}
			// R02.3
			flagged := false
			for i, in := range ins {
				if i >= lastOpenIdx {
					break
				}
				if p.isFlagSet(in) {
					flagged = true
				}
			}
			lv := pa.Resolve(ret.Results[0])
			k, isConst := lv.(*ssa.Const)
			if !isConst {
				bad23 = "the last result on path " + pa.String() + " is not a constant after Phi resolution"
			} else if (k.Value.ExactString() == "true") != flagged {
				bad23 = "path " + pa.String() + " returns last=" + k.Value.ExactString() + " but the final flag was " + map[bool]string{true: "set", false: "not set"}[flagged] + " before the accepted Open"
			}
		}
		if nSucc == 0 {
			bad22, bad23 = "no successful path through readChunk", "no successful path through readChunk"
		}
		r.cur = "R02.2"
		r.Check(bad22 == "", rc.String(), "success-paths:nonce", "", itoa(nSucc)+" success paths, each Open..incNonce shaped", bad22)
		// Open reachable from a successful Open without incNonce?
		for i, oc := range opens {
			vis := p.Reach([]Loc{locAfter(oc.(ssa.Instruction))}, func(in ssa.Instruction) bool {
				c, ok := in.(ssa.CallInstruction)
				return ok && calleeName(c.Common()) == inc.String()
			})
			okr := true
			// the same exploration under the assumption that this Open succeeded: whatever it
			// still reaches is not "on the failure edge"
			succeeded := map[ssa.Value]bool{}
			if oc.Value() != nil && oc.Value().Referrers() != nil {
				for _, rr := range *oc.Value().Referrers() {
					if ex, ok := rr.(*ssa.Extract); ok && isErrorType(ex.Type()) {
						succeeded[ex] = true
					}
				}
			}
			visOK := p.ReachAssuming([]Loc{locAfter(oc.(ssa.Instruction))}, func(in ssa.Instruction) bool {
				c, ok := in.(ssa.CallInstruction)
				return ok && calleeName(c.Common()) == inc.String()
			}, succeeded)
			for in := range vis {
				if c, isC := in.(ssa.CallInstruction); isC && calleeName(c.Common()) == openName {
					// allowed only as the retry: must be on the failure edge of oc
					facts := ctb.FactsAt(in.Block())
					if _, f := errFactFor(facts, oc.Value(), false); !f && (len(succeeded) == 0 || visOK[in]) {
						okr = false
					}
				}
			}
			r.Check(okr, rc.String(), callKey("Open", i)+":no-reuse", r.pos(oc), "no Open is reachable from this Open without incNonce except on its failure edge", "an Open is reachable from this Open under the same nonce without incNonce and not on its failure edge")
		}
		r.cur = "R02.3"
		r.Check(bad23 == "", rc.String(), "success-paths:last", "", "last result agrees with the flag on every success path", bad23)
	}

	// ---- R02.4
	r.Rule("R02.4", "a clean end of stream is produced only after the final chunk and an EOF probe", 2)
	{
		n := 0
		for _, f := range p.Funcs {
			if !inPkg(f, pkgStream) {
				continue
			}
			if f.Parent() != nil {
				continue // closures are visited with their parent
			}
			for _, pr := range p.producersOf(f, isEOFValue) {
				switch pr.Kind {
				case "arg":
					if cn := calleeName(pr.At.(ssa.CallInstruction).Common()); cn == "errors.Is" || strings.HasPrefix(cn, "fmt.") {
						continue
					}
				case "store":
					if _, isIdx := pr.At.(*ssa.Store).Addr.(*ssa.IndexAddr); isIdx {
						continue
					}
				}
				n++
				if pr.Kind == "return" {
					r.Bad(f.String(), "return:io.EOF", r.pos(pr.At), "io.EOF is returned directly")
					continue
				}
				if f != read {
					r.Bad(f.String(), "store:io.EOF", r.pos(pr.At), "io.EOF produced outside Reader.Read")
					continue
				}
				facts := pr.Facts
				a1, ok1 := findFact(facts, func(a Atom) bool {
					return a.Kind == "bool" && a.Pol && short(a.X.String()) == "(*stream.Reader).readChunk(Recv).0"
				})
				a2, ok2 := findFact(facts, func(a Atom) bool {
					return a.Kind == "cmp" && a.Op == "==" && short(a.Y.String()) == "io.EOF" &&
						strings.HasPrefix(short(a.X.String()), "invoke (io.Reader).Read(Field(Recv.src), ") && strings.HasSuffix(a.X.String(), ".1")
				})
				// the probe's byte count matters as well: io.Reader may return data together with
				// io.EOF, and a byte delivered that way is trailing data all the same
				isProbeCount := func(t *Term) bool {
					s := short(t.String())
					return strings.HasPrefix(s, "invoke (io.Reader).Read(Field(Recv.src), ") && strings.HasSuffix(s, ".0")
				}
				a3, ok3 := findFact(facts, func(a Atom) bool {
					if a.Kind != "cmp" {
						return false
					}
					x, y, op := a.X, a.Y, a.Op
					if isProbeCount(y) {
						x, y, op = y, x, swapOp[op]
					}
					if !isProbeCount(x) {
						return false
					}
					c := short(y.String())
					return (op == "==" && c == "0") || (op == "<=" && c == "0") || (op == "<" && c == "1")
				})
				if ok1 && ok2 {
					r.OK(f.String(), "store:io.EOF", r.pos(pr.At), "", guardWitness(p, a1), guardWitness(p, a2))
					if ok3 {
						r.OK(f.String(), "store:io.EOF:count", r.pos(pr.At), "", guardWitness(p, a3))
					} else {
						r.Bad(f.String(), "store:io.EOF:count", r.pos(pr.At), "the clean-EOF state is entered without the probe's byte count being known to be zero: a source that returns a trailing byte together with io.EOF ends the stream cleanly; facts: "+short(factStrings(facts)))
					}
				} else {
					r.Bad(f.String(), "store:io.EOF", r.pos(pr.At), "the clean-EOF state is entered on a path not dominated by last == true and by the probe read returning io.EOF; facts: "+short(factStrings(facts)))
				}
			}
		}
		if n == 0 {
			r.Bad(read.String(), "store:io.EOF", "", "no production of io.EOF found: a complete file would never end cleanly")
		}
		// EOF from the chunk read is not a clean end
		found := false
		for _, ret := range returnsOf(rc) {
			facts := ctb.FactsAt(ret.Block())
			if _, ok := findFact(facts, func(a Atom) bool {
				return a.Kind == "cmp" && a.Op == "==" && short(a.Y.String()) == "io.EOF" && strings.HasPrefix(a.X.String(), "io.ReadFull(")
			}); ok {
				found = true
				e := short(ctb.Term(ret.Results[1]).String())
				r.Check(e == "io.ErrUnexpectedEOF" || isFreshNonSentinelError(ret.Results[1]), rc.String(), "chunk-read:EOF", r.pos(ret), "EOF at a chunk boundary becomes "+e, "EOF from the chunk read is returned as "+e)
			}
		}
		if !found {
			// without a dedicated branch the raw error would be returned: io.EOF
			r.Bad(rc.String(), "chunk-read:EOF", "", "no branch turns io.EOF from the chunk read into a non-EOF error: a file cut at a chunk boundary would end cleanly")
		}
	}

	// ---- R02.5
	r.Rule("R02.5", "an empty final chunk is rejected unless it is the only chunk", 1)
	{
		found := false
		for _, ret := range returnsOf(rc) {
			if isNilConst(ret.Results[1]) {
				continue
			}
			facts := ctb.FactsAt(ret.Block())
			var core, rest []string
			for _, a := range facts {
				s := short(a.String())
				isZero, isNonceTest := nonceZeroAtom(p, a)
				switch {
				case isNonceTest && !isZero:
					core = append(core, "nonce")
				case strings.HasPrefix(s, "io.ReadFull(") && (strings.HasSuffix(s, ".0 == invoke (cipher.AEAD).Overhead(Field(Recv.a))") || strings.HasSuffix(s, ".0 == 16")):
					core = append(core, "n")
				case strings.HasPrefix(s, "io.ReadFull(") && strings.HasSuffix(s, ".1 == io.ErrUnexpectedEOF"):
					core = append(core, "short")
				case strings.HasPrefix(s, "io.ReadFull(") && (strings.HasSuffix(s, ".1 != io.EOF") || strings.HasSuffix(s, ".1 != nil")):
					// implied by err == io.ErrUnexpectedEOF
				case strings.HasPrefix(s, "io.ReadFull(") && (strings.HasSuffix(s, ".0 >= invoke (cipher.AEAD).Overhead(Field(Recv.a))") || strings.HasSuffix(s, ".0 >= 16") ||
					strings.HasSuffix(s, ".0 <= invoke (cipher.AEAD).Overhead(Field(Recv.a))") || strings.HasSuffix(s, ".0 <= 16")):
					// implied by n == Overhead (an earlier refusal of a chunk shorter than the tag)
				case s == "len(Field(Recv.unread)) == 0":
				case s == "Field(Recv.err) == nil":
					// the reader has not failed or ended yet (otherwise readChunk is not entered)
				case a.Kind == "bool" && a.X != nil && a.X.Op == "Phi":
					// the merged result of a spliced predicate: its meaning is carried by the threaded facts
				case strings.HasPrefix(s, "(RangeIdx#") && a.Kind == "cmp":
					// loop counter bounds of a spliced predicate's loop
				default:
					rest = append(rest, s)
				}
			}
			if len(core) == 3 && len(rest) == 0 {
				found = true
				// it must come before any Open
				before := true
				for _, oc := range opens {
					if dominatesInstr(oc.(ssa.Instruction), ret) {
						before = false
					}
				}
				r.Check(before, rc.String(), "empty-final", r.pos(ret), "rejected under short read && nonce != 0 && n == Overhead, before Open", "the empty-final-chunk rejection comes after Open")
			}
		}
		if !found {
			if os.Getenv("AGECHECK_DEBUG_C02") != "" {
				for _, ret := range returnsOf(rc) {
					if !isNilConst(ret.Results[1]) {
						fmt.Fprintf(os.Stderr, "C02 R02.5 %s: %s\n", r.pos(ret), short(factStrings(ctb.FactsAt(ret.Block()))))
					}
				}
			}
			r.Bad(rc.String(), "empty-final", "", "no error return under exactly (short read, nonce != 0, n == Overhead): an empty final chunk after a full one would be accepted, so a plaintext would have two chunkings")
		}
		// a helper that is still called nonceIsZero (not spliced) really compares with the zero array
		if niz != nil && len(callsTo(rc, niz.String())) > 0 {
			got, _, _, err := p.Extract(Site{Pkg: pkgStream, Func: "nonceIsZero", What: "ret:0"})
			want := specRecipe(r, "stream.nonceIsZero.result")
			if err != nil {
				decided := false
				if ep, _ := p.elemPredicate(niz, func(v ssa.Value) bool { return len(niz.Params) == 1 && v == ssa.Value(niz.Params[0]) }); ep != nil {
					eq, ok, w := ep.Equals(func(c int64) bool { return c == 0 }, []int64{0})
					if ok {
						decided = true
						trueAfter := true
						for _, ret := range returnsOf(niz) {
							if c, isC := ret.Results[0].(*ssa.Const); isC && c.Value.ExactString() == "true" {
								if !p.completedAt(ep.Loop, ret.Block()) {
									trueAfter = false
								}
							} else if !isC {
								trueAfter = false
							}
						}
						r.Check(eq && trueAfter, niz.String(), "recipe", "", "every byte of the nonce is compared with zero", "nonceIsZero does not test every byte for zero (differs at byte value "+itoa(int(w))+")")
					}
				}
				if !decided {
					r.Unk(niz.String(), "recipe", "", err.Error())
				}
			} else {
				r.Check(got == want, niz.String(), "recipe", "", got, "nonceIsZero is "+got+", want "+want)
			}
		}
	}

	// ---- R02.6
	r.Rule("R02.6", "terminal state is sticky and readChunk is never re-entered after it", 3)
	{
		rcCalls := callsTo(read, rc.String())
		if len(rcCalls) != 1 {
			r.Bad(read.String(), "call:readChunk", "", "expected exactly one readChunk call in Read")
		} else {
			call := rcCalls[0]
			facts := rtb.FactsAt(call.Block())
			_, e1 := findFact(facts, func(a Atom) bool {
				if !(a.Kind == "cmp" && a.Op == "==" && a.Y.Op == "Nil" && short(a.X.String()) == "Field(Recv.err)") {
					return false
				}
				return loadBeforeAnyStore(read, a.X.V, "err")
			})
			_, e2 := findFact(facts, func(a Atom) bool {
				return a.Kind == "cmp" && a.Op == "==" && a.Y.S == "0" && short(a.X.String()) == "len(Field(Recv.unread))"
			})
			r.Check(e1 && e2, read.String(), "call:readChunk:guards", r.pos(call), "under r.err == nil && len(r.unread) == 0", "readChunk is reachable with r.err possibly set or unread data pending; facts: "+short(factStrings(facts)))
			// (iii) its error is stored before being returned
			var start []Loc
			for _, b := range read.Blocks {
				for k := range b.Succs {
					if _, isIf := b.Instrs[len(b.Instrs)-1].(*ssa.If); !isIf {
						continue
					}
					fe := rtb.FactsOnEdge(b, k)
					last := fe[len(fe)-1]
					if last.Kind == "cmp" && last.Op == "!=" && last.Y.Op == "Nil" && last.X.Op == "Ext" && last.X.Args[0].V == call.Value() {
						start = append(start, blockStart(b.Succs[k]))
					}
				}
			}
			if len(start) == 0 {
				r.Bad(read.String(), "readChunk-error:sticky", "", "the error of readChunk is not branched on")
			} else {
				bad := p.MustPass(start, isReturn, func(in ssa.Instruction) bool {
					st, ok := in.(*ssa.Store)
					if !ok {
						return false
					}
					fa, ok := st.Addr.(*ssa.FieldAddr)
					if !ok || fieldName(fa.X.Type(), fa.Field) != "err" {
						return false
					}
					t := rtb.Term(st.Val)
					return t.Op == "Ext" && t.Args[0].V == call.Value()
				})
				r.Check(len(bad) == 0, read.String(), "readChunk-error:sticky", "", "stored in r.err on every path before the return", "a readChunk failure is returned without being stored in r.err: the next Read would call readChunk again after an error")
			}
			// (i) the last branch always leaves r.err non-nil
			rpaths, okp := p.EnumPaths(read.Blocks[0])
			bad := ""
			n := 0
			if !okp {
				bad = "too many paths"
			}
			for _, pa := range rpaths {
				if pa.End != "return" || !pathHas(pa, call.(ssa.Instruction)) {
					continue
				}
				atoms := rtb.pathAtoms(pa)
				_, isLast := findFact(atoms, func(a Atom) bool {
					return a.Kind == "bool" && a.Pol && a.X.Op == "Ext" && a.X.S == "0" && a.X.Args[0].V == call.Value()
				})
				if !isLast {
					continue
				}
				n++
				state := false
				after := false
				for _, in := range pa.Instrs() {
					if in == call.(ssa.Instruction) {
						after = true
					}
					if st, ok := in.(*ssa.Store); ok && after {
						if fa, ok := st.Addr.(*ssa.FieldAddr); ok && fieldName(fa.X.Type(), fa.Field) == "err" {
							sv := pa.Resolve(st.Val)
							v := short(rtb.Term(sv).String())
							state = isFreshNonSentinelError(sv) || v == "io.EOF" || strings.HasPrefix(v, "fmt.Errorf(") || p.definitelyNonNil(stripConv(sv), 0)
						}
					}
				}
				if !state {
					bad = "path " + pa.String() + " returns after the final chunk without a non-nil r.err: a later Read would call readChunk again and could accept appended chunks"
				}
			}
			if n == 0 && bad == "" {
				bad = "no path with last == true found"
			}
			r.Check(bad == "", read.String(), "last:terminal", "", itoa(n)+" paths after the final chunk all store a non-nil r.err", bad)
		}
	}

	// ---- R02.7 and Open recipes
	r.Rule("R02.7", "payload key and Open call-site recipes equal the specification table", 6)
	checkSites(p, r, recipeSites, "C02")

	// ---- R02.8: reordering, dropping or duplicating chunks is caught because every position has
	// its own nonce: the counter must really count (shared with C05/C06)
	r.Rule("R02.9", "what Decrypt hands out is the STREAM reader itself: no wrapper between the caller and internal/stream.Reader (a wrapper that forgets the reader after an error turns the next Read into a clean end of stream)", 1)
	if dec := r.anchor(pkgAge, "", "Decrypt"); dec != nil {
		dtb := p.TB(dec)
		n := 0
		for _, vr := range virtualReturns(dec) {
			if len(vr.Results) != 2 || isNilConst(vr.Results[0]) {
				continue
			}
			n++
			t := short(dtb.Term(vr.Results[0]).String())
			direct := strings.HasPrefix(t, "stream.NewReader(") && strings.HasSuffix(t, ").0")
			r.Check(direct, dec.String(), "reader:direct#"+itoa(n), r.pos(vr.Ret), "the result is stream.NewReader's", "Decrypt returns "+t+" instead of the reader made by stream.NewReader: whether a failed stream keeps failing, and whether its end is authenticated, is then up to the wrapper")
		}
		if n == 0 {
			r.Unk(dec.String(), "reader:direct", "", "no return with a reader found")
		}
	}
	r.Rule("R02.8", "chunk positions have distinct nonces: 11-byte big-endian counter with carry, flag in the last byte (= R05.stream-nonce)", 3)
	checkNonceLayout(p, r)
}

func blockIndexOnPath(pa *Path, b *ssa.BasicBlock) int {
	idx := -1
	for i, x := range pa.Blocks {
		if x == b {
			idx = i
		}
	}
	return idx
}

// loadBeforeAnyStore: v is a load of the named receiver field located in the
// entry region of fn, with no store to that field able to precede it.
func loadBeforeAnyStore(fn *ssa.Function, v ssa.Value, field string) bool {
	ld, ok := v.(*ssa.UnOp)
	if !ok {
		return false
	}
	for _, b := range fn.Blocks {
		for _, in := range b.Instrs {
			st, ok := in.(*ssa.Store)
			if !ok {
				continue
			}
			fa, ok := st.Addr.(*ssa.FieldAddr)
			if !ok || fieldName(fa.X.Type(), fa.Field) != field {
				continue
			}
			// can the store reach the load?
			if st.Block() == ld.Block() && instrIndex(st) < instrIndex(ld) {
				return false
			}
			if st.Block() != ld.Block() && blockCanReach(st.Block(), ld.Block()) {
				return false
			}
		}
	}
	return true
}

func blockCanReach(from, to *ssa.BasicBlock) bool {
	seen := map[*ssa.BasicBlock]bool{}
	var rec func(b *ssa.BasicBlock) bool
	rec = func(b *ssa.BasicBlock) bool {
		if b == to {
			return true
		}
		if seen[b] {
			return false
		}
		seen[b] = true
		for _, s := range b.Succs {
			if rec(s) {
				return true
			}
		}
		return false
	}
	for _, s := range from.Succs {
		if rec(s) {
			return true
		}
	}
	return false
}
