package main

// E8b — linear arithmetic. The difference-constraint solver of bounds.go knows x - y <= c
// only. Buffer arithmetic regularly needs three variables ("used + n <= 65536 where
// n <= 65536 - used"), so an obligation the difference solver cannot discharge is given to a
// small Fourier–Motzkin prover over the same facts: the constraints of the difference system,
// the definitions of compound symbols (a + b, a - b, k*a), slice lengths with non-constant
// bounds, and the case split of copy (it returns len(dst) or len(src)). Everything is over the
// rationals, which is sound for showing that the negated goal has no solution.

import (
	"sort"
	"sync"
)

// symDefs: compound integer terms seen by linear(), by key (keys name values uniquely).
var symDefs sync.Map // string -> *Term

type linexp struct {
	co map[string]int64
	k  int64
}

func (a linexp) clone() linexp {
	n := linexp{co: map[string]int64{}, k: a.k}
	for x, c := range a.co {
		n.co[x] = c
	}
	return n
}

func (a linexp) addScaled(b linexp, f int64) linexp {
	n := a.clone()
	for x, c := range b.co {
		n.co[x] += c * f
		if n.co[x] == 0 {
			delete(n.co, x)
		}
	}
	n.k += b.k * f
	return n
}

func gcd64(a, b int64) int64 {
	if a < 0 {
		a = -a
	}
	if b < 0 {
		b = -b
	}
	for b != 0 {
		a, b = b, a%b
	}
	return a
}

// termLin decomposes an integer term into a linear expression over opaque symbols.
func termLin(t *Term, depth int) linexp {
	if t == nil {
		return linexp{co: map[string]int64{"?": 1}}
	}
	if n, ok := intConst(t); ok {
		return linexp{co: map[string]int64{}, k: n}
	}
	if depth < 12 && t.Op == "Bin" && len(t.Args) == 2 {
		switch t.S {
		case "+":
			return termLin(t.Args[0], depth+1).addScaled(termLin(t.Args[1], depth+1), 1)
		case "-":
			return termLin(t.Args[0], depth+1).addScaled(termLin(t.Args[1], depth+1), -1)
		case "*":
			if n, ok := intConst(t.Args[0]); ok && n > -1<<20 && n < 1<<20 {
				return linexp{co: map[string]int64{}}.addScaled(termLin(t.Args[1], depth+1), n)
			}
			if n, ok := intConst(t.Args[1]); ok && n > -1<<20 && n < 1<<20 {
				return linexp{co: map[string]int64{}}.addScaled(termLin(t.Args[0], depth+1), n)
			}
		}
	}
	return linexp{co: map[string]int64{t.Key(): 1}}
}

// symLin expands a symbol of the difference system (a term key, "0", or "len(key)").
func symLin(sym string) linexp {
	if sym == "0" {
		return linexp{co: map[string]int64{}}
	}
	if d, ok := symDefs.Load(sym); ok {
		return termLin(d.(*Term), 0)
	}
	return linexp{co: map[string]int64{sym: 1}}
}

// linCons builds the constraint list (each expression <= 0) of a difference system.
func (s *dsys) linCons() []linexp {
	var out []linexp
	for _, c := range s.cons {
		// x - y <= c
		e := symLin(c.x).addScaled(symLin(c.y), -1)
		e.k -= c.c
		out = append(out, e)
	}
	for _, e := range s.eqs {
		out = append(out, e, linexp{co: map[string]int64{}}.addScaled(e, -1))
	}
	out = append(out, s.ineqs...)
	return out
}

// fmInfeasible: the constraints (each <= 0) have no rational solution.
func fmInfeasible(cons []linexp) bool {
	norm := func(e linexp) (linexp, bool) {
		g := int64(0)
		for _, c := range e.co {
			g = gcd64(g, c)
		}
		if g > 1 {
			n := linexp{co: map[string]int64{}}
			for x, c := range e.co {
				n.co[x] = c / g
			}
			// floor division keeps integer solutions: sum/g + ceil(k/g) <= 0
			k := e.k
			if k >= 0 {
				n.k = (k + g - 1) / g
			} else {
				n.k = -((-k) / g)
			}
			e = n
		}
		if len(e.co) == 0 {
			return e, e.k > 0 // 0 + k <= 0 violated
		}
		return e, false
	}
	var cur []linexp
	for _, e := range cons {
		n, bad := norm(e)
		if bad {
			return true
		}
		if len(n.co) > 0 {
			cur = append(cur, n)
		}
	}
	for round := 0; round < 64; round++ {
		// pick the variable with the fewest combinations
		count := map[string][2]int{}
		for _, e := range cur {
			for x, c := range e.co {
				v := count[x]
				if c > 0 {
					v[0]++
				} else {
					v[1]++
				}
				count[x] = v
			}
		}
		if len(count) == 0 {
			return false
		}
		var vars []string
		for x := range count {
			vars = append(vars, x)
		}
		sort.Strings(vars)
		best, bestCost := "", 1<<30
		for _, x := range vars {
			if cost := count[x][0] * count[x][1]; cost < bestCost {
				best, bestCost = x, cost
			}
		}
		var pos, neg, rest []linexp
		for _, e := range cur {
			switch c := e.co[best]; {
			case c > 0:
				pos = append(pos, e)
			case c < 0:
				neg = append(neg, e)
			default:
				rest = append(rest, e)
			}
		}
		if len(pos)*len(neg) > 4000 {
			return false // give up: not proved
		}
		seen := map[string]bool{}
		for _, p := range pos {
			for _, n := range neg {
				a, b := p.co[best], -n.co[best]
				if a > 1<<30 || b > 1<<30 {
					return false
				}
				// b*p + a*n cancels the variable
				e := linexp{co: map[string]int64{}}.addScaled(p, b).addScaled(n, a)
				delete(e.co, best)
				ne, bad := norm(e)
				if bad {
					return true
				}
				if len(ne.co) == 0 {
					continue
				}
				key := linKey(ne)
				if !seen[key] {
					seen[key] = true
					rest = append(rest, ne)
				}
			}
		}
		cur = rest
		if len(cur) > 3000 {
			return false
		}
	}
	return false
}

func linKey(e linexp) string {
	var xs []string
	for x := range e.co {
		xs = append(xs, x)
	}
	sort.Strings(xs)
	s := ""
	for _, x := range xs {
		s += x + "*" + itoa(int(e.co[x])) + ";"
	}
	return s + "k" + itoa(int(e.k))
}

// relevant keeps the constraints connected, through shared symbols, with the goal.
func relevant(cons []linexp, goal linexp) []linexp {
	want := map[string]bool{}
	for x := range goal.co {
		want[x] = true
	}
	used := make([]bool, len(cons))
	for changed := true; changed; {
		changed = false
		for i, e := range cons {
			if used[i] {
				continue
			}
			hit := false
			for x := range e.co {
				if want[x] {
					hit = true
				}
			}
			if hit {
				used[i] = true
				changed = true
				for x := range e.co {
					want[x] = true
				}
			}
		}
	}
	var out []linexp
	for i, e := range cons {
		if used[i] {
			out = append(out, e)
		}
	}
	return out
}

// linImplied: the facts of the system entail  a <= b  for linear expressions a, b.
func (s *dsys) linEntails(a, b linexp) bool {
	// negated goal over the integers: a - b >= 1, i.e. b - a + 1 <= 0
	neg := b.addScaled(a, -1)
	neg.k++
	base := s.linCons()
	// copy returns len(dst) or len(src): the goal must follow in every case
	cases := [][]linexp{nil}
	if len(s.copies) <= 3 {
		for _, c := range s.copies {
			var next [][]linexp
			for _, pre := range cases {
				d := symLin(c.n).addScaled(symLin(c.dst), -1)
				d.k -= c.dstOff
				sc := symLin(c.n).addScaled(symLin(c.src), -1)
				sc.k -= c.srcOff
				// n == len(dst): n - dst <= 0 is known already, add dst - n <= 0
				next = append(next, append(append([]linexp{}, pre...), linexp{co: map[string]int64{}}.addScaled(d, -1)))
				next = append(next, append(append([]linexp{}, pre...), linexp{co: map[string]int64{}}.addScaled(sc, -1)))
			}
			cases = next
		}
	}
	for _, extra := range cases {
		all := append(append(append([]linexp{}, base...), extra...), neg)
		if !fmInfeasible(relevant(all, neg)) {
			return false
		}
	}
	return true
}

// linImplied is implied() for the linear prover: x - y <= c.
func (s *dsys) linImplied(x, y string, c int64) bool {
	a := symLin(x)
	b := symLin(y)
	b.k += c
	return s.linEntails(a, b)
}
