package main

import (
	"go/token"
	"go/types"
	"strings"

	"golang.org/x/tools/go/ssa"
)

// stripConv removes value-preserving wrappers.
func stripConv(v ssa.Value) ssa.Value {
	for {
		switch x := v.(type) {
		case *ssa.Convert:
			v = x.X
		case *ssa.ChangeType:
			v = x.X
		case *ssa.MakeInterface:
			v = x.X
		case *ssa.ChangeInterface:
			v = x.X
		case *ssa.SliceToArrayPointer:
			v = x.X
		default:
			return v
		}
	}
}

// calleeName gives a stable, fully qualified name for what a call invokes.
//
//	static function   "golang.org/x/crypto/scrypt.Key"
//	static method     "(*filippo.io/age.X25519Identity).unwrap"
//	interface invoke  "invoke (io.Reader).Read"
//	builtin           "builtin append"
//	closure           name of the anonymous function
//	dynamic           "dynamic"
func calleeName(c *ssa.CallCommon) string {
	if c.IsInvoke() {
		return "invoke " + c.Method.FullName()
	}
	switch v := c.Value.(type) {
	case *ssa.Builtin:
		return "builtin " + v.Name()
	case *ssa.Function:
		return v.String()
	case *ssa.MakeClosure:
		return v.Fn.(*ssa.Function).String()
	}
	return "dynamic"
}

func staticCallee(c *ssa.CallCommon) *ssa.Function {
	if c.IsInvoke() {
		return nil
	}
	switch v := c.Value.(type) {
	case *ssa.Function:
		return v
	case *ssa.MakeClosure:
		return v.Fn.(*ssa.Function)
	}
	return nil
}

func isBuiltin(c *ssa.CallCommon, name string) bool {
	b, ok := c.Value.(*ssa.Builtin)
	return ok && b.Name() == name
}

// callsIn returns every call-like instruction (call, defer, go) of fn.
func callsIn(fn *ssa.Function) []ssa.CallInstruction {
	var out []ssa.CallInstruction
	for _, b := range fn.Blocks {
		for _, in := range b.Instrs {
			if c, ok := in.(ssa.CallInstruction); ok {
				out = append(out, c)
			}
		}
	}
	return out
}

// callsTo returns the call instructions in fn whose calleeName equals name.
func callsTo(fn *ssa.Function, name string) []ssa.CallInstruction {
	var out []ssa.CallInstruction
	for _, c := range callsIn(fn) {
		if calleeName(c.Common()) == name {
			out = append(out, c)
		}
	}
	return out
}

func callsToAny(fn *ssa.Function, names ...string) []ssa.CallInstruction {
	var out []ssa.CallInstruction
	for _, c := range callsIn(fn) {
		n := calleeName(c.Common())
		for _, w := range names {
			if n == w {
				out = append(out, c)
				break
			}
		}
	}
	return out
}

func instrIndex(in ssa.Instruction) int {
	for i, x := range in.Block().Instrs {
		if x == in {
			return i
		}
	}
	return -1
}

// instrPos gives the best source position for an instruction.
func instrPos(in ssa.Instruction) token.Pos {
	if in == nil {
		return token.NoPos
	}
	if p := in.Pos(); p.IsValid() {
		return p
	}
	if c, ok := in.(ssa.CallInstruction); ok {
		if p := c.Common().Pos(); p.IsValid() {
			return p
		}
	}
	// fall back to any operand with a position
	var rands [8]*ssa.Value
	for _, op := range in.Operands(rands[:0]) {
		if op != nil && *op != nil && (*op).Pos().IsValid() {
			return (*op).Pos()
		}
	}
	// or a neighbouring instruction of the same block
	if b := in.Block(); b != nil {
		idx := instrIndex(in)
		for d := 1; d < len(b.Instrs); d++ {
			for _, j := range []int{idx - d, idx + d} {
				if j >= 0 && j < len(b.Instrs) && b.Instrs[j].Pos().IsValid() {
					return b.Instrs[j].Pos()
				}
			}
		}
	}
	return token.NoPos
}

// dominatesInstr reports whether instruction a is executed before b on every
// path that reaches b (same block: earlier index; otherwise block dominance).
func dominatesInstr(a, b ssa.Instruction) bool {
	if a.Block() == b.Block() {
		return instrIndex(a) < instrIndex(b)
	}
	return a.Block().Dominates(b.Block())
}

func typeString(t types.Type) string {
	return types.TypeString(t, func(p *types.Package) string { return p.Path() })
}

func isErrorType(t types.Type) bool {
	return types.Identical(t, types.Universe.Lookup("error").Type())
}

// errorResultIndex returns the index of the error result in a signature, or -1.
func errorResultIndex(sig *types.Signature) int {
	r := sig.Results()
	for i := r.Len() - 1; i >= 0; i-- {
		if isErrorType(r.At(i).Type()) {
			return i
		}
	}
	return -1
}

func fieldName(t types.Type, idx int) string {
	if p, ok := t.Underlying().(*types.Pointer); ok {
		t = p.Elem()
	}
	st, ok := t.Underlying().(*types.Struct)
	if !ok || idx >= st.NumFields() {
		return "?"
	}
	return st.Field(idx).Name()
}

// structOf returns the named struct type behind a (pointer to) struct.
func structTypeName(t types.Type) string {
	if p, ok := t.Underlying().(*types.Pointer); ok {
		t = p.Elem()
	}
	return typeString(t)
}

func isTestFile(name string) bool { return strings.HasSuffix(name, "_test.go") }

// returnsOf lists the Return instructions of fn.
func returnsOf(fn *ssa.Function) []*ssa.Return {
	var out []*ssa.Return
	for _, b := range fn.Blocks {
		if len(b.Instrs) == 0 || b == fn.Recover {
			continue // the recover block only runs after a recovered panic
		}
		if r, ok := b.Instrs[len(b.Instrs)-1].(*ssa.Return); ok {
			out = append(out, r)
		}
	}
	return out
}

func isNilConst(v ssa.Value) bool {
	c, ok := stripConv(v).(*ssa.Const)
	return ok && c.IsNil()
}

// resultsOf returns the values a Return delivers. In functions with named
// results and a deferred closure, go/ssa spills the results: the return
// statement stores into the named-result allocs and the Return loads them
// back. Those loads are resolved to the values stored by the same return
// statement (the stores directly preceding the loads in the block).
func resultsOf(ret *ssa.Return) []ssa.Value {
	out := make([]ssa.Value, len(ret.Results))
	blk := ret.Block()
	for j, res := range ret.Results {
		out[j] = res
		ld, ok := res.(*ssa.UnOp)
		if !ok || ld.Op != token.MUL || ld.Block() != blk {
			continue
		}
		al, ok := ld.X.(*ssa.Alloc)
		if !ok {
			continue
		}
		// last store to the alloc in this block before the load
		idx := instrIndex(ld)
		for i := idx - 1; i >= 0; i-- {
			if st, ok := blk.Instrs[i].(*ssa.Store); ok && st.Addr == al {
				out[j] = st.Val
				break
			}
			if _, isCall := blk.Instrs[i].(ssa.CallInstruction); isCall {
				// a call (e.g. rundefers) between store and load could change it
				if _, isRD := blk.Instrs[i].(*ssa.RunDefers); !isRD {
					continue
				}
			}
		}
	}
	return out
}

// VRet is one way out of a function: a Return instruction, or — where several exits were merged
// into one Return whose results are Phis (a helper spliced in front of `return s, err`, named
// results assigned on several ways) — one incoming way of it, with the values that way carries
// and the block whose facts hold on it.
type VRet struct {
	Ret     *ssa.Return
	Block   *ssa.BasicBlock
	Results []ssa.Value
}

func virtualReturns(fn *ssa.Function) []VRet {
	var out []VRet
	var split func(v VRet, depth int)
	split = func(v VRet, depth int) {
		b := v.Block
		merged := false
		for _, res := range v.Results {
			if ph, ok := res.(*ssa.Phi); ok && ph.Block() == b {
				merged = true
			}
		}
		// only blocks that do nothing but merge (Phis, then the return or a jump to it) are split:
		// anything else between merge and return belongs to every way alike
		if !merged || depth > 3 {
			out = append(out, v)
			return
		}
		for i, pr := range b.Preds {
			nv := VRet{Ret: v.Ret, Block: pr, Results: make([]ssa.Value, len(v.Results))}
			for j, res := range v.Results {
				nv.Results[j] = res
				if ph, ok := res.(*ssa.Phi); ok && ph.Block() == b && i < len(ph.Edges) {
					nv.Results[j] = ph.Edges[i]
				}
			}
			split(nv, depth+1)
		}
	}
	for _, ret := range returnsOf(fn) {
		split(VRet{Ret: ret, Block: ret.Block(), Results: resultsOf(ret)}, 0)
	}
	return out
}
