package main

// E9 — tables: the hand-transcribed specification tables under /verif/spec.

import (
	"encoding/json"
	"os"
	"path/filepath"
	"sync"
)

var (
	specOnce sync.Once
	specTabs = map[string]map[string]string{}
	specErr  error
)

func loadSpec() {
	for _, name := range []string{"recipes", "constants"} {
		b, err := os.ReadFile(filepath.Join(verifDir, "spec", name+".json"))
		if err != nil {
			specErr = err
			return
		}
		var m map[string]string
		if err := json.Unmarshal(b, &m); err != nil {
			specErr = err
			return
		}
		specTabs[name] = m
	}
}

func specLookup(r *Result, table, key string) string {
	specOnce.Do(loadSpec)
	if specErr != nil {
		save := r.cur
		r.add(Machinery, "spec/"+table+".json", "load", "", specErr.Error())
		r.cur = save
		return "<spec table unreadable>"
	}
	v, ok := specTabs[table][key]
	if !ok {
		save := r.cur
		r.add(Machinery, "spec/"+table+".json", "key:"+key, "", "specification table has no entry "+key)
		r.cur = save
		return "<missing spec entry " + key + ">"
	}
	return v
}

func specRecipe(r *Result, key string) string { return specLookup(r, "recipes", key) }
func specConst(r *Result, key string) string  { return specLookup(r, "constants", key) }
