package main

import (
	"go/types"
	"strings"

	"golang.org/x/tools/go/ssa"
)

func init() {
	register(&PropertyDef{
		ID: "C19",
		Explanation: "Structural necessary conditions of C19 decided on all CFG paths of agessh.(*EncryptedSSHIdentity).Unwrap: " +
			"(R19.1) every path to the passphrase callback takes the type-equal and tag-equal branch edges of the stanza loop, and every path taking them reaches the callback; " +
			"(R19.2) every store to the cached `decrypted` field is dominated by err==nil of the constructor whose result is stored and by the true edge of the public-key Equal call against the declared key; " +
			"(R19.3) no other field of the identity is stored outside its constructor; (R19.4) the match loop covers all stanzas and only leaves early with the malformed-stanza error.",
		NotDecided:  "that ssh.ParseRawPrivateKeyWithPassphrase / Equal behave cryptographically as documented; the behaviour of the wrapped identity.",
		Assumptions: []string{"external callees (ssh.*, crypto/*) do not store into the identity value", "go/ssa Phi placement pairs `x, err = f()` results in one block"},
		Run:         runC19,
	})
}

const encSSHType = pkgSSH + ".EncryptedSSHIdentity"

func runC19(p *Program, r *Result) {
	fn := r.anchor(pkgSSH, "EncryptedSSHIdentity", "Unwrap")
	ctor := r.anchor(pkgSSH, "", "NewEncryptedSSHIdentity")
	if fn == nil || ctor == nil {
		return
	}
	tb := p.TB(fn)
	sub := fn.String()

	// locate the passphrase callback calls: dynamic calls whose function
	// value is a load of the `passphrase` field.
	var prompts []ssa.CallInstruction
	for _, f := range p.Funcs {
		if !inPkg(f, pkgSSH) {
			continue
		}
		for _, c := range callsIn(f) {
			if c.Common().IsInvoke() {
				continue
			}
			if fa, ok := isLoadOfField(c.Common().Value, "passphrase"); ok && structTypeName(fa.X.Type()) == encSSHType {
				if f != fn {
					r.Rule("R19.1", "passphrase callback only after a stanza matched", 2)
					r.Bad(f.String(), "call:passphrase", r.pos(c), "the passphrase callback is invoked outside Unwrap, where no match test guards it")
					continue
				}
				prompts = append(prompts, c)
			}
		}
	}

	r.Rule("R19.1", "passphrase callback only after a stanza matched (type and tag equal), and always after one", 2)
	paths, ok := p.EnumPaths(fn.Blocks[0])
	if !ok {
		r.Unk(sub, "paths", "", "more than 4096 acyclic paths")
		return
	}
	alias := p.sshPrecomputedFields()
	isTypeEq := func(a Atom) bool { return sshTypeEqAtomA(a, alias) }
	isTagEq := func(a Atom) bool { return sshTagEqAtomA(a, alias) }
	if len(prompts) == 0 {
		r.Unk(sub, "call:passphrase", "", "no call of the passphrase field found in Unwrap")
	}
	for i, pc := range prompts {
		bad := ""
		n := 0
		for _, pa := range paths {
			if !pathHas(pa, pc.(ssa.Instruction)) {
				continue
			}
			n++
			atoms := tb.pathAtoms(pa)
			_, t1 := findFact(atoms, isTypeEq)
			_, t2 := findFact(atoms, isTagEq)
			if !t1 || !t2 {
				bad = "path " + pa.String() + " reaches the callback without the type-equal and tag-equal edges; branches taken: " + short(factStrings(atoms))
				break
			}
		}
		if n == 0 {
			bad = "no enumerated path reaches the callback"
		}
		r.Check(bad == "", sub, callKey("passphrase", i), r.pos(pc), "every one of the paths reaching the callback takes both equality edges", bad,
			Witness{Kind: "guard", Text: "s.Type == i.pubKey.Type() && s.Args[0] == sshFingerprint(i.pubKey)"})
	}
	// converse: a path that takes both equality edges must reach a prompt
	{
		bad := ""
		n := 0
		for _, pa := range paths {
			atoms := tb.pathAtoms(pa)
			_, t1 := findFact(atoms, isTypeEq)
			_, t2 := findFact(atoms, isTagEq)
			if !t1 || !t2 {
				continue
			}
			n++
			found := false
			for _, pc := range prompts {
				if pathHas(pa, pc.(ssa.Instruction)) {
					found = true
				}
			}
			if !found {
				bad = "path " + pa.String() + " takes the match edges but ends (" + pa.End + " at " + r.pos(pa.Last) + ") without asking for the passphrase"
				break
			}
		}
		if n == 0 {
			bad = "no path takes both the type-equal and the tag-equal edge: the match idiom was not recognised"
			r.Unk(sub, "match->prompt", "", bad)
		} else {
			r.Check(bad == "", sub, "match->prompt", "", "every path with a matching stanza reaches the callback", bad)
		}
	}

	// R19.2 cache after validation
	r.Rule("R19.2", "the decrypted key is cached only after the constructor succeeded and the public keys compared equal", 1)
	stores := p.fieldStores(encSSHType, "decrypted")
	for _, fs := range stores {
		if isNilConst(fs.Store.Val) {
			continue
		}
		key := "store:decrypted"
		s := fs.Store
		if fs.Fn != fn {
			// stores into freshly allocated values (constructor) are fine
			if al, ok := fs.FA.X.(*ssa.Alloc); ok && al.Heap {
				continue
			}
			r.Bad(fs.Fn.String(), key, r.pos(s), "store to the cache outside Unwrap, where no validation guards it")
			continue
		}
		ftb := tb
		facts := ftb.FactsAt(s.Block())
		// a merge that the guards in force here restrict to one incoming value is that value
		// (the result variable of a spliced helper: its failure returns never get here)
		cached := s.Val
		fe := p.feasibleEdgesAt(s.Block())
		for {
			ph, isPhi := stripConv(cached).(*ssa.Phi)
			if !isPhi || fe[ph.Block()] == nil {
				break
			}
			only, n := -1, 0
			for k, okE := range fe[ph.Block()] {
				if okE {
					only = k
					n++
				}
			}
			if n != 1 {
				break
			}
			cached = ph.Edges[only]
		}
		pe := pairedErr(cached)
		var a1 Atom
		ok1 := false
		if pe == nil {
			// the result of a helper spliced in: a merge whose every value that can get here is a
			// constructor's result, found error-free on its own way into the merge
			if ph, isPhi := stripConv(cached).(*ssa.Phi); isPhi {
				n := 0
				var walk func(ph *ssa.Phi, depth int) bool
				walk = func(ph *ssa.Phi, depth int) bool {
					if depth > 4 {
						return false
					}
					for k, e := range ph.Edges {
						if feas := fe[ph.Block()]; feas != nil && !feas[k] {
							continue
						}
						if isNilConst(e) {
							continue // nothing is remembered on this way
						}
						// a merge of merges: two helpers, one spliced into the other
						if inner, isInner := stripConv(e).(*ssa.Phi); isInner {
							if !walk(inner, depth+1) {
								return false
							}
							continue
						}
						epe := pairedErr(e)
						if epe == nil {
							return false
						}
						a, okE := nilFact(phiEdgeFacts(ftb, ph, k), epe, true)
						if !okE {
							return false
						}
						a1 = a
						n++
					}
					return true
				}
				if walk(ph, 0) && n > 0 {
					ok1 = true
				}
			}
		}
		if pe == nil && !ok1 {
			r.Unk(sub, key, r.pos(s), "stored value is not (a Phi of) the first result of constructor calls returning (identity, error): "+short(ftb.Term(s.Val).String()))
			continue
		}
		if !ok1 {
			a1, ok1 = nilFact(facts, pe, true)
		}
		a2, ok2 := findFact(facts, func(a Atom) bool {
			return a.Kind == "call" && a.Pol && strings.HasSuffix(strings.SplitN(a.Call.S, "(", 2)[0]+a.Call.S, ".Equal") || (a.Kind == "call" && a.Pol && strings.HasSuffix(a.Call.S, ".Equal"))
		})
		if ok2 {
			// the comparison must be against the declared public key
			if !strings.Contains(short(a2.Call.String()), "Field(Recv.pubKey)") {
				ok2 = false
			}
		}
		if !ok2 {
			// the comparison made per key type and merged into one flag: every value merged is an
			// Equal against the declared key
			a2, ok2 = findFact(facts, func(a Atom) bool {
				if a.Kind != "bool" || !a.Pol || a.X == nil || a.X.Op != "Phi" || len(a.X.Args) == 0 {
					return false
				}
				for _, e := range a.X.Args {
					if !(e.Op == "Call" || e.Op == "Invoke") || !strings.HasSuffix(e.S, ".Equal") || !strings.Contains(short(e.String()), "Field(Recv.pubKey)") {
						return false
					}
				}
				return true
			})
		}
		switch {
		case !ok1:
			r.Bad(sub, key, r.pos(s), "the store is not dominated by err == nil of the constructor whose result is cached (a failed or unvalidated key would be remembered); facts here: "+short(factStrings(facts)))
		case !ok2:
			r.Bad(sub, key, r.pos(s), "the store is not dominated by the true edge of pubKey.Equal(<declared key>): a private key that does not belong to the declared public key is remembered for later calls; facts here: "+short(factStrings(facts)))
		default:
			r.OK(sub, key, r.pos(s), "", guardWitness(p, a1), guardWitness(p, a2))
		}
	}
	if len(stores) == 0 {
		r.Unk(sub, "store:decrypted", "", "no store to the cache field found")
	}

	// R19.3 no other state
	r.Rule("R19.3", "no field of the identity other than the cache is stored outside the constructor", 1)
	bad := false
	for _, f := range p.Funcs {
		e := p.EffectsOf(f)
		for _, w := range e.Writes {
			if !strings.HasPrefix(w.Field, encSSHType+".") || allFresh(w.Roots) {
				continue
			}
			if w.Field == encSSHType+".decrypted" && f == fn {
				continue
			}
			bad = true
			r.Bad(f.String(), "write:"+strings.TrimPrefix(w.Field, encSSHType+"."), r.pos(w.Instr), "identity state written outside the constructor: later calls can depend on earlier ones")
		}
	}
	if !bad {
		r.OK(encSSHType, "writes", "", "the only non-constructor write to the type is the cache store in Unwrap")
	}

	// R19.4 match loop shape
	r.Rule("R19.4", "the match loop ranges over all stanzas and leaves early only with an error or a match", 1)
	checkEncryptedSSHStanzaLoop(p, r)
}

// checkEncryptedSSHStanzaLoop is rule R19.4 (shared with C01 R01.10).
func checkEncryptedSSHStanzaLoop(p *Program, r *Result) {
	fn := r.anchor(pkgSSH, "EncryptedSSHIdentity", "Unwrap")
	if fn == nil {
		return
	}
	tb := p.TB(fn)
	sub := fn.String()
	alias := p.sshPrecomputedFields()
	isTypeEq := func(a Atom) bool { return sshTypeEqAtomA(a, alias) }
	isTagEq := func(a Atom) bool { return sshTagEqAtomA(a, alias) }
	loops := loopOver(fn, func(v ssa.Value) bool { return len(fn.Params) > 1 && v == fn.Params[1] })
	if len(loops) != 1 {
		r.Unk(sub, "loop:stanzas", "", "expected exactly one range loop over the stanzas parameter")
	} else {
		l := loops[0]
		okLoop := true
		for _, ret := range returnsOf(fn) {
			if !l.inLoop(ret.Block()) {
				continue
			}
			// a return inside the loop must carry a non-nil error
			if len(ret.Results) == 2 && isNilConst(ret.Results[1]) {
				okLoop = false
				r.Bad(sub, "loop:stanzas", r.pos(ret), "the stanza loop returns success/no-error before all stanzas were examined")
			}
		}
		// the loop is left before the last stanza only with an error or on a match: any other
		// early exit would skip a later stanza that is addressed to this identity
		set := l.blocks()
		for b := range set {
			for k, sb := range b.Succs {
				if set[sb] || (b == l.Header && sb == l.Exit) {
					continue
				}
				{
					// an exit into a region from which only error returns are reachable is fine
					errOnly := true
					seen := map[*ssa.BasicBlock]bool{}
					var walk func(x *ssa.BasicBlock)
					walk = func(x *ssa.BasicBlock) {
						if seen[x] || set[x] {
							return
						}
						seen[x] = true
						if ret, ok := x.Instrs[len(x.Instrs)-1].(*ssa.Return); ok {
							rs := resultsOf(ret)
							if len(rs) != 2 || !p.definitelyNonNil(rs[1], 0) {
								errOnly = false
							}
						}
						for _, y := range p.feasibleSuccs(x) {
							walk(y)
						}
					}
					walk(sb)
					if errOnly {
						continue
					}
					// the same along the paths that take this exit: behind the merge of a spliced
					// helper's results the error test is decided by the value that came in on this way
					if paths, okp := p.EnumPathsStop(b, set); okp {
						n, all := 0, true
						for _, pa := range paths {
							if len(pa.Blocks) < 2 || pa.Blocks[1] != sb {
								continue
							}
							n++
							ret, isRet := pa.Last.(*ssa.Return)
							if pa.End != "return" || !isRet {
								all = false
								break
							}
							rs := resultsOf(ret)
							if len(rs) != 2 || !p.definitelyNonNil(stripConv(pa.Resolve(rs[1])), 0) {
								all = false
								break
							}
						}
						if all && n > 0 {
							continue
						}
					}
				}
				facts := tb.FactsAt(b)
				if _, isIf := b.Instrs[len(b.Instrs)-1].(*ssa.If); isIf {
					facts = tb.FactsOnEdge(b, k)
				}
				_, t1 := findFact(facts, isTypeEq)
				_, t2 := findFact(facts, isTagEq)
				if !t1 || !t2 {
					okLoop = false
					r.Bad(sub, "loop:stanzas", r.pos(b.Instrs[len(b.Instrs)-1]), "the stanza loop is left early on an edge that is neither an error return nor the type-equal and tag-equal match: a later stanza addressed to this identity would be skipped; facts: "+short(factStrings(facts)))
				}
			}
		}
		if okLoop {
			r.OK(sub, "loop:stanzas", r.pos(l.Header.Instrs[0]), "range over the whole stanza slice; early exits are error returns or the match")
		}
	}
}

func sshTypeEqAtom(a Atom) bool { return sshTypeEqAtomA(a, nil) }
func sshTagEqAtom(a Atom) bool  { return sshTagEqAtomA(a, nil) }

// sshPrecomputedFields: fields of EncryptedSSHIdentity that hold, for the life of the value, the
// type or the fingerprint of its public key: every store to the field in the module is in a
// function that also stores pk into the pubKey field of the same (freshly allocated) value, and
// stores pk.Type() resp. sshFingerprint(pk). Maps "Field(Recv.f)" to what it stands for.
func (p *Program) sshPrecomputedFields() map[string]string {
	out := map[string]string{}
	st, ok := p.structType(encSSHType)
	if !ok {
		return out
	}
	for i := 0; i < st.NumFields(); i++ {
		f := st.Field(i).Name()
		if f == "pubKey" {
			continue
		}
		stores := p.fieldStores(encSSHType, f)
		if len(stores) == 0 {
			continue
		}
		def := ""
		for _, fs := range stores {
			al, isAl := fs.FA.X.(*ssa.Alloc)
			if !isAl {
				def = ""
				break
			}
			// the value stored into pubKey of the same allocation in the same function
			var pk ssa.Value
			for _, ps := range p.fieldStores(encSSHType, "pubKey") {
				if ps.Fn == fs.Fn && ps.FA.X == ssa.Value(al) {
					pk = ps.Store.Val
				}
			}
			if pk == nil {
				def = ""
				break
			}
			d := ""
			if c, isCall := fs.Store.Val.(*ssa.Call); isCall {
				switch {
				case calleeName(&c.Call) == "invoke (golang.org/x/crypto/ssh.PublicKey).Type" && c.Call.Value == pk:
					d = "invoke (ssh.PublicKey).Type(Field(Recv.pubKey))"
				case strings.HasSuffix(calleeName(&c.Call), "agessh.sshFingerprint") && len(c.Call.Args) == 1 && c.Call.Args[0] == pk:
					d = "agessh.sshFingerprint(Field(Recv.pubKey))"
				}
			}
			if d == "" || (def != "" && def != d) {
				def = ""
				break
			}
			def = d
		}
		if def != "" {
			out["Field(Recv."+f+")"] = def
		}
	}
	return out
}

func sshTypeEqAtomA(a Atom, alias map[string]string) bool {
	if a.Kind != "cmp" || a.Op != "==" {
		return false
	}
	x, y := short(a.X.String()), short(a.Y.String())
	if d, ok := alias[x]; ok {
		x = d
	}
	if d, ok := alias[y]; ok {
		y = d
	}
	m := func(s, t string) bool {
		return strings.HasPrefix(s, "Field(Elem(P1,") && strings.HasSuffix(s, ".Type)") &&
			t == "invoke (ssh.PublicKey).Type(Field(Recv.pubKey))"
	}
	return m(x, y) || m(y, x)
}
func sshTagEqAtomA(a Atom, alias map[string]string) bool {
	if a.Kind != "cmp" || a.Op != "==" {
		return false
	}
	x, y := short(a.X.String()), short(a.Y.String())
	if d, ok := alias[x]; ok {
		x = d
	}
	if d, ok := alias[y]; ok {
		y = d
	}
	m := func(s, t string) bool {
		return strings.HasPrefix(s, "Elem(Field(Elem(P1,") && strings.HasSuffix(s, ".Args), 0)") &&
			t == "agessh.sshFingerprint(Field(Recv.pubKey))"
	}
	return m(x, y) || m(y, x)
}

// structType finds a named struct type of the module by its full name (pkg path + "." + name).
func (p *Program) structType(full string) (*types.Struct, bool) {
	i := strings.LastIndex(full, ".")
	if i < 0 {
		return nil, false
	}
	sp := p.SSAPkg[full[:i]]
	if sp == nil {
		return nil, false
	}
	obj := sp.Pkg.Scope().Lookup(full[i+1:])
	if obj == nil {
		return nil, false
	}
	st, ok := obj.Type().Underlying().(*types.Struct)
	return st, ok
}
