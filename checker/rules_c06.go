package main

import (
	"go/token"
	"strings"

	"golang.org/x/tools/go/ssa"
)

func init() {
	register(&PropertyDef{
		ID: "C06",
		Explanation: "Value-provenance and path rules for C06: (R06.1) each of the 8 secret slots (file key, payload nonce, two ephemeral scalars, scrypt salt, scrypt label, generated identity, random word) reaches its sink as a buffer of the specified size allocated in that invocation, filled whole by crypto/rand (rand.Read or io.ReadFull(rand.Reader)) with the error checked, and not written otherwise before use; ssh-rsa passes crypto/rand.Reader itself; " +
			"(R06.2) distinct roles use distinct buffers; (R06.3) math/rand is imported only by the plugin client and its values flow only into the grease stanza type; (R06.4) no non-test code assigns crypto/rand.Reader or a testOnly* hook outside test mode; " +
			"(R06.5) every zero-nonce aeadEncrypt call uses a key derived from a random value drawn in the same invocation, and aeadEncrypt has no other callers; " +
			"(R06.6) STREAM writer nonce discipline: single Seal site using w.nonce, incNonce on every path after Seal, final flag only under last, flushChunk(last) only from Close which leaves the writer failed, Write/Close refuse when failed, nonce written only by incNonce/setLastChunkFlag, counter layout and abort on wrap.",
		NotDecided:  "quality of the operating system CSPRNG; injectivity of incNonce as arithmetic beyond index range, carry structure and abort.",
		Assumptions: []string{"crypto/rand.Read and io.ReadFull fill the whole slice or return an error", "AEAD.Seal does not modify its nonce argument"},
		Technique:   "static analysis: SSA value provenance (fresh-buffer fill analysis), forward-flow confinement, who-may-call, CFG must-pass-through and per-path state tracking",
		Run:         runC06,
	})
}

type randSlot struct {
	name          string
	pkg, recv, fn string
	sinks         []string // extraction specs whose value must be the same Rand buffer
	size          string
	inside        bool // the Rand is a sub-term of the sink argument (salt inside Concat)
}

var randSlots = []randSlot{
	{"fileKey", pkgAge, "", "Encrypt", []string{"arg:invoke (age.Recipient).Wrap:1", "arg:invoke (age.RecipientWithLabels).WrapWithLabels:1", "arg:age.headerMAC:0", "arg:age.streamKey:0"}, "16", false},
	{"payloadNonce", pkgAge, "", "Encrypt", []string{"arg:age.streamKey:1", "arg:invoke (io.Writer).Write:1"}, "16", false},
	{"x25519Ephemeral", pkgAge, "X25519Recipient", "Wrap", []string{"arg:curve25519.X25519#1:0", "arg:curve25519.X25519#2:0"}, "32", false},
	{"ed25519Ephemeral", pkgSSH, "Ed25519Recipient", "Wrap", []string{"arg:curve25519.X25519#1:0", "arg:curve25519.X25519#2:0"}, "32", false},
	{"scryptSalt", pkgAge, "ScryptRecipient", "Wrap", []string{"arg:scrypt.Key:1"}, "16", true},
	{"scryptLabel", pkgAge, "ScryptRecipient", "WrapWithLabels", []string{"arg:hex.EncodeToString:0"}, "16", false},
	{"generatedIdentity", pkgAge, "", "GenerateX25519Identity", []string{"arg:age.newX25519IdentityFromScalar:0"}, "32", false},
	{"randomWord", pkgCmdAge, "", "randomWord", []string{"arg:(binary.bigEndian).Uint16:1"}, "2", false},
}

// argValue resolves an "arg:<callee>[#n]:<k>" spec to the SSA value.
func argValue(p *Program, fn *ssa.Function, spec string) (ssa.Value, ssa.CallInstruction, error) {
	body := strings.TrimPrefix(spec, "arg:")
	i := strings.LastIndex(body, ":")
	k := int(body[i+1] - '0')
	c, err := nthCall(fn, body[:i])
	if err != nil {
		return nil, nil, err
	}
	cc := c.Common()
	args := cc.Args
	if cc.IsInvoke() {
		args = append([]ssa.Value{cc.Value}, args...)
	}
	if k >= len(args) {
		return nil, nil, errNoArg
	}
	return args[k], c, nil
}

var errNoArg = &argErr{}

type argErr struct{}

func (*argErr) Error() string { return "no such argument" }

func runC06(p *Program, r *Result) {
	// ---- R06.1 / R06.2
	r.Rule("R06.1", "every secret slot is a fresh, whole, checked crypto/rand buffer of the specified size", 9)
	slotVals := map[string]ssa.Value{}
	for _, sl := range randSlots {
		fn := r.anchor(sl.pkg, sl.recv, sl.fn)
		if fn == nil {
			continue
		}
		tb := p.TB(fn)
		var slotV ssa.Value
		bad := ""
		pos := ""
		for _, spec := range sl.sinks {
			v, c, err := argValue(p, fn, spec)
			if err != nil {
				bad = "sink " + spec + ": " + err.Error()
				break
			}
			pos = r.pos(c)
			t := tb.Term(v)
			var rt *Term
			if sl.inside {
				rs := t.Find("Rand")
				// a merge on the way to the random buffer means that on some path the value is
				// something else (a cached or constant salt): not a fresh draw on every path
				if len(rs) == 1 && !underMerge(t, rs[0]) {
					rt = rs[0]
				}
			} else if t.Op == "Rand" {
				rt = t
			}
			if rt == nil {
				bad = "value reaching " + spec + " is " + short(t.String()) + ", not a buffer freshly filled from crypto/rand in this call"
				break
			}
			if len(rt.Args) != 1 || rt.Args[0].String() != sl.size {
				bad = "random buffer has size " + rt.Args[0].String() + ", specification says " + sl.size
				break
			}
			if slotV == nil {
				slotV = rt.V
			} else if slotV != rt.V {
				bad = "the sinks of this slot receive different buffers"
				break
			}
		}
		if bad != "" {
			r.Bad(fn.String(), "slot:"+sl.name, pos, bad)
			continue
		}
		slotVals[sl.name] = slotV
		r.OK(fn.String(), "slot:"+sl.name, pos, "Rand("+sl.size+") allocated in the call, filled by crypto/rand with the error checked, no other writer", Witness{Kind: "term", Text: short(tb.Term(slotV).String())})
	}
	// ssh-rsa: the OAEP randomness source is crypto/rand.Reader itself
	if fn := r.anchor(pkgSSH, "RSARecipient", "Wrap"); fn != nil {
		v, c, err := argValue(p, fn, "arg:rsa.EncryptOAEP:1")
		if err != nil {
			r.Unk(fn.String(), "slot:oaepRandom", "", err.Error())
		} else {
			r.Check(isRandReader(v), fn.String(), "slot:oaepRandom", r.pos(c), "rand.Reader passed to EncryptOAEP", "EncryptOAEP is given "+short(p.TB(fn).Term(v).String())+" instead of crypto/rand.Reader")
		}
	}

	r.Rule("R06.2", "distinct roles use distinct random values", 1)
	if a, b := slotVals["fileKey"], slotVals["payloadNonce"]; a != nil && b != nil {
		r.Check(a != b, pkgAge+".Encrypt", "distinct:fileKey/nonce", "", "two separate buffers", "file key and payload nonce are the same buffer")
	} else {
		r.Unk(pkgAge+".Encrypt", "distinct:fileKey/nonce", "", "slots not resolved")
	}

	// ---- R06.3
	r.Rule("R06.3", "math/rand is confined to the plugin protocol's grease stanza type", 2)
	checkMathRand(p, r)

	// ---- R06.4
	r.Rule("R06.4", "the randomness source and the test hooks are not assigned by production code", 5)
	checkHooks(p, r)

	// ---- R06.5
	r.Rule("R06.5", "zero-nonce AEAD keys are single-use: derived from randomness drawn in the same call", 3)
	for _, pk := range []string{pkgAge, pkgSSH} {
		ae := r.anchor(pk, "", "aeadEncrypt")
		if ae == nil {
			continue
		}
		for _, e := range p.Callers(ae) {
			c, ok := e.Site.(ssa.CallInstruction)
			if !ok {
				continue
			}
			caller := e.Caller
			tb := p.TB(caller)
			key := tb.Term(c.Common().Args[0])
			okc := freshOnEveryPath(key, caller)
			r.Check(okc, caller.String(), "call:"+short(ae.String())+":key", r.pos(c), "key term contains a Rand of this invocation",
				"aeadEncrypt (fixed zero nonce) is called with key "+short(key.String())+", which does not depend on randomness drawn in this call: the (key, nonce) pair can repeat")
		}
	}

	// ---- R06.6
	r.Rule("R06.6", "STREAM writer: one nonce per sealed chunk, final flag on the last chunk only, nothing sealed after it", 9)
	checkStreamWriter(p, r)
	checkNonceLayout(p, r)
}

// underMerge: on the way from t down to target there is a Phi.
func underMerge(t, target *Term) bool {
	var rec func(x *Term, merged bool) (found, viaMerge bool)
	rec = func(x *Term, merged bool) (bool, bool) {
		if x == target {
			return true, merged
		}
		for _, a := range x.Args {
			if f, m := rec(a, merged || x.Op == "Phi"); f {
				return true, m
			}
		}
		return false, false
	}
	_, m := rec(t, false)
	return m
}

// freshOnEveryPath: the value is a function of a crypto/rand buffer drawn in this
// invocation whatever path produced it: every alternative of a merge must be.
func freshOnEveryPath(t *Term, caller *ssa.Function) bool {
	if t == nil {
		return false
	}
	switch t.Op {
	case "Rand":
		in, isIn := t.V.(ssa.Instruction)
		return isIn && in.Parent() == caller
	case "Loop":
		return true // the value itself, one iteration earlier
	case "Phi":
		if len(t.Args) == 0 {
			return false
		}
		for _, a := range t.Args {
			if !freshOnEveryPath(a, caller) {
				return false
			}
		}
		return true
	}
	for _, a := range t.Args {
		if freshOnEveryPath(a, caller) {
			return true
		}
	}
	return false
}

func checkMathRand(p *Program, r *Result) {
	// import confinement
	for _, pk := range p.Pkgs {
		for imp := range pk.Imports {
			if imp == "math/rand" || imp == "math/rand/v2" {
				r.Check(pk.PkgPath == pkgPlugin, pk.PkgPath, "import:"+imp, "", "imported by the plugin client only", "package "+pk.PkgPath+" imports "+imp+": a non-cryptographic generator is available next to secret material")
			}
		}
	}
	// every use flows only into the grease stanza type
	n := 0
	for _, fn := range p.Funcs {
		for _, c := range callsIn(fn) {
			name := calleeName(c.Common())
			if !strings.HasPrefix(name, "math/rand.") && !strings.HasPrefix(name, "math/rand/v2.") && !strings.HasPrefix(name, "(*math/rand.") {
				continue
			}
			n++
			v := c.Value()
			bad := ""
			if v == nil {
				bad = "result unused"
			} else {
				bad = confinedTo(v, func(call ssa.CallInstruction) bool {
					cc := call.Common()
					// "grease-" + strconv.FormatInt(n, 16): the formatted number goes nowhere else
					if n := calleeName(cc); n == "strconv.FormatInt" || n == "strconv.FormatUint" || n == "strconv.Itoa" {
						cv := call.Value()
						if cv == nil || cv.Referrers() == nil {
							return false
						}
						uses := 0
						for _, u := range *cv.Referrers() {
							if _, isDbg := u.(*ssa.DebugRef); isDbg {
								continue
							}
							bo, isBo := u.(*ssa.BinOp)
							if !isBo || bo.Op != token.ADD {
								return false
							}
							k, isK := bo.X.(*ssa.Const)
							if !isK || k.Value == nil || !strings.HasPrefix(k.Value.ExactString(), `"grease-`) {
								return false
							}
							uses++
						}
						return uses > 0
					}
					if calleeName(cc) != "fmt.Sprintf" {
						return false
					}
					k, ok := cc.Args[0].(*ssa.Const)
					return ok && strings.HasPrefix(k.Value.ExactString(), `"grease-`)
				})
			}
			r.Check(bad == "", fn.String(), "use:"+short(name), r.pos(c), "value flows only into fmt.Sprintf(\"grease-…\")", "math/rand value "+bad)
		}
	}
	if n == 0 {
		r.OK(pkgPlugin, "use:none", "", "math/rand is not called at all")
	}
}

// confinedTo follows a value forward through boxing, local array stores and
// slicing; every call it reaches must satisfy ok. Returns "" or a description
// of the first escaping use.
func confinedTo(v ssa.Value, ok func(ssa.CallInstruction) bool) string {
	seen := map[ssa.Value]bool{}
	work := []ssa.Value{v}
	for len(work) > 0 {
		cur := work[len(work)-1]
		work = work[:len(work)-1]
		if seen[cur] {
			continue
		}
		seen[cur] = true
		refs := cur.Referrers()
		if refs == nil {
			continue
		}
		for _, ref := range *refs {
			switch x := ref.(type) {
			case *ssa.MakeInterface:
				work = append(work, x)
			case *ssa.Convert:
				work = append(work, x)
			case *ssa.ChangeType:
				work = append(work, x)
			case *ssa.Slice:
				work = append(work, x)
			case *ssa.DebugRef:
			case *ssa.IndexAddr:
				if x.X == cur {
					// element address of the local varargs array: stores only
					continue
				}
				return "is used as an index"
			case *ssa.Store:
				if x.Val != cur {
					continue
				}
				a := x.Addr
				if ia, isIA := a.(*ssa.IndexAddr); isIA {
					a = ia.X
				}
				al, isAl := a.(*ssa.Alloc)
				if !isAl {
					return "is stored to non-local memory"
				}
				work = append(work, al)
			case ssa.CallInstruction:
				if !ok(x) {
					return "reaches " + calleeName(x.Common())
				}
			default:
				return "is used by an unexpected instruction"
			}
		}
	}
	return ""
}

func checkHooks(p *Program, r *Result) {
	// stores to globals from non-init module code
	n := 0
	for _, pk := range p.Pkgs {
		sp := p.SSAPkg[pk.PkgPath]
		for name, m := range sp.Members {
			g, ok := m.(*ssa.Global)
			if !ok || !strings.HasPrefix(name, "testOnly") {
				continue
			}
			n++
			bad := ""
			for _, use := range p.globalUses(g) {
				st, isSt := use.(*ssa.Store)
				if !isSt || st.Addr != g {
					if _, isLoad := use.(*ssa.UnOp); !isLoad {
						bad = "address taken at " + r.pos(use)
					}
					continue
				}
				if st.Parent().Name() == "init" && st.Parent().Pkg == sp && st.Parent().Parent() == nil {
					continue // package-level initialiser
				}
				// allowed only in test mode: dominated by another testOnly hook being set
				tb := p.TB(st.Parent())
				facts := tb.FactsAt(st.Block())
				_, inTestMode := findFact(facts, func(a Atom) bool {
					return strings.Contains(a.String(), ".testOnly") && ((a.Kind == "bool" && a.Pol) || (a.Kind == "cmp" && a.Op == "!="))
				})
				if !inTestMode {
					bad = "assigned by non-test code in " + st.Parent().String() + " at " + r.pos(st)
				}
			}
			r.Check(bad == "", pk.PkgPath+"."+name, "hook:"+name, "", "assigned only by its initialiser (and by test files)", "test hook "+bad)
		}
	}
	// crypto/rand.Reader must never be assigned
	bad := ""
	for _, fn := range p.Funcs {
		for _, b := range fn.Blocks {
			for _, in := range b.Instrs {
				if st, ok := in.(*ssa.Store); ok {
					if g, isG := st.Addr.(*ssa.Global); isG && g.Pkg.Pkg.Path() == "crypto/rand" {
						bad = fn.String() + " at " + r.pos(st)
					}
				}
			}
		}
	}
	r.Check(bad == "", "crypto/rand.Reader", "assign", "", "never assigned by the module", "crypto/rand.Reader is replaced in "+bad)
	_ = n
}

func checkStreamWriter(p *Program, r *Result) {
	flush := r.anchor(pkgStream, "Writer", "flushChunk")
	write := r.anchor(pkgStream, "Writer", "Write")
	cls := r.anchor(pkgStream, "Writer", "Close")
	inc := r.anchor(pkgStream, "", "incNonce")
	// setLastChunkFlag is spliced into its callers by the normal form: the flag store is
	// recognised by what it does (streamfx.go)
	if flush == nil || write == nil || cls == nil || inc == nil {
		return
	}
	// (a) one Seal site in the package, in flushChunk
	var seals []ssa.CallInstruction
	for _, f := range p.Funcs {
		if !inPkg(f, pkgStream) {
			continue
		}
		for _, c := range callsTo(f, "invoke (crypto/cipher.AEAD).Seal") {
			seals = append(seals, c)
		}
	}
	if len(seals) != 1 || seals[0].Parent() != flush {
		r.Bad(pkgStream, "seal:sites", "", "expected exactly one AEAD.Seal site, in Writer.flushChunk")
		return
	}
	seal := seals[0]
	tb := p.TB(flush)
	nonce := short(tb.Term(seal.Common().Args[1]).String())
	r.Check(nonce == "Slice(Field(Recv.nonce), _, _)", flush.String(), "seal:nonce", r.pos(seal), "Seal uses w.nonce[:]", "Seal is given nonce "+nonce)

	// (b) incNonce(&w.nonce) on every path from Seal to return
	isInc := func(in ssa.Instruction) bool {
		c, ok := in.(ssa.CallInstruction)
		if !ok || calleeName(c.Common()) != inc.String() {
			return false
		}
		return short(tb.Term(c.Common().Args[0]).String()) == "Field(Recv.nonce)"
	}
	bad := p.MustPass([]Loc{locAfter(seal.(ssa.Instruction))}, isReturn, isInc)
	// a return that carries an error known to be non-nil needs no increment if every caller
	// latches that error (stores it in w.err on the err != nil edge before it returns): the
	// writer is failed from then on and seals nothing more, under this nonce or any other
	if len(bad) > 0 {
		latched := true
		callers := p.Callers(flush)
		if len(callers) == 0 {
			latched = false
		}
		for _, e := range callers {
			c, ok := e.Site.(ssa.CallInstruction)
			if !ok || c.Value() == nil {
				latched = false
				continue
			}
			ctb := p.TB(e.Caller)
			// every return of the caller reachable on the error edge lies behind a store to w.err
			okCaller := false
			for _, b := range e.Caller.Blocks {
				for _, in := range b.Instrs {
					st, isSt := in.(*ssa.Store)
					if !isSt {
						continue
					}
					fa, isFA := st.Addr.(*ssa.FieldAddr)
					if !isFA || fieldName(fa.X.Type(), fa.Field) != "err" {
						continue
					}
					if stripConv(st.Val) == c.Value() {
						// w.err = w.flushChunk(...): stored unconditionally
						okCaller = true
					}
					if _, f := errFactFor(ctb.FactsAt(b), c.Value(), false); f && (stripConv(st.Val) == c.Value() || p.definitelyNonNil(stripConv(st.Val), 0) || pairedErrOf(st.Val, c.Value())) {
						okCaller = true
					}
				}
			}
			if !okCaller {
				latched = false
			}
		}
		if latched {
			var rest []ssa.Instruction
			for _, in := range bad {
				ret, isRet := in.(*ssa.Return)
				if isRet && len(ret.Results) == 1 && p.nonNilAt(ret.Results[0], ret.Block()) {
					continue
				}
				rest = append(rest, in)
			}
			bad = rest
		}
	}
	if len(bad) > 0 {
		r.Bad(flush.String(), "seal->incNonce", r.pos(bad[0]), "a path from Seal reaches the return at "+r.pos(bad[0])+" without incNonce(&w.nonce): the next chunk would be sealed under the same nonce")
	} else {
		r.OK(flush.String(), "seal->incNonce", r.pos(seal), "every path from Seal to return passes incNonce(&w.nonce)")
	}
	// exactly one increment per Seal: no incNonce call outside this path
	nInc := 0
	for _, f := range p.Funcs {
		if inPkg(f, pkgStream) && f.Signature.Recv() != nil && strings.Contains(f.String(), "Writer") {
			nInc += len(callsTo(f, inc.String()))
		}
	}
	r.Check(nInc == 1, pkgStream+".Writer", "incNonce:sites", "", "single increment site on the writer side", "the writer increments its nonce at "+itoa(nInc)+" sites")

	// (c) final flag only under last
	nFlag := 0
	for _, b := range flush.Blocks {
		for _, in := range b.Instrs {
			if !p.isFlagSet(in) {
				continue
			}
			facts := tb.FactsAt(b)
			_, ok := findFact(facts, func(a Atom) bool { return a.Kind == "bool" && a.Pol && a.X.String() == "P1" })
			r.Check(ok, flush.String(), callKey("setLastChunkFlag", nFlag), r.pos(in), "under last == true", "the final-chunk flag is set on a path where last is not known to be true")
			nFlag++
		}
	}
	// and on the last path it is set before Seal
	{
		// from entry along last==true edge, every path to Seal passes setLastChunkFlag
		var start []Loc
		for _, b := range flush.Blocks {
			ifi, ok := b.Instrs[len(b.Instrs)-1].(*ssa.If)
			if ok && tb.Term(ifi.Cond).String() == "P1" {
				_ = ifi
			}
		}
		paths, okp := p.EnumPaths(flush.Blocks[0])
		if !okp {
			r.Unk(flush.String(), "last->flag", "", "too many paths")
		} else {
			badp := ""
			for _, pa := range paths {
				if !pathHas(pa, seal.(ssa.Instruction)) {
					continue
				}
				lastTrue := false
				for _, a := range tb.pathAtoms(pa) {
					if a.Kind == "bool" && a.X.String() == "P1" {
						lastTrue = a.Pol
					}
				}
				flagged := false
				for _, in := range pa.Instrs() {
					if in == seal.(ssa.Instruction) {
						break
					}
					if p.isFlagSet(in) {
						flagged = true
					}
				}
				if lastTrue != flagged {
					badp = "path " + pa.String() + ": last=" + boolStr(lastTrue) + " but flag set=" + boolStr(flagged)
				}
			}
			r.Check(badp == "", flush.String(), "last<->flag", "", "the flag is set before Seal exactly on the paths with last == true", badp)
		}
		_ = start
	}

	// (d) flushChunk(true) only from Close
	for _, e := range p.Callers(flush) {
		c, ok := e.Site.(ssa.CallInstruction)
		if !ok {
			continue
		}
		arg := c.Common().Args[1]
		k, isConst := arg.(*ssa.Const)
		switch {
		case !isConst:
			r.Bad(e.Caller.String(), "call:flushChunk", r.pos(c), "flushChunk is called with a non-constant last flag")
		case k.Value.ExactString() == "true" && e.Caller != cls:
			r.Bad(e.Caller.String(), "call:flushChunk(last)", r.pos(c), "the final chunk is flushed outside Close")
		default:
			r.OK(e.Caller.String(), "call:flushChunk("+k.Value.ExactString()+")", r.pos(c), "")
		}
	}

	// (e) after flushChunk(true) every return of Close leaves w.err non-nil
	{
		ctb := p.TB(cls)
		paths, okp := p.EnumPaths(cls.Blocks[0])
		badp := ""
		n := 0
		if !okp {
			badp = "too many paths"
		}
		for _, pa := range paths {
			flagsSet := map[string]bool{}
			var after bool
			state := "unknown"
			var lastStore *ssa.Store
			// values a branch taken earlier on the path has shown to be non-nil
			knownNonNil := map[ssa.Value]bool{}
			for bi, b := range pa.Blocks {
				for _, in := range b.Instrs {
					if c, ok := in.(ssa.CallInstruction); ok && calleeName(c.Common()) == flush.String() {
						after = true
						state = "unknown"
					}
					if st, ok := in.(*ssa.Store); ok {
						// a "closed" flag: a bool field of the writer set to true
						if fa, ok := st.Addr.(*ssa.FieldAddr); ok && structTypeName(fa.X.Type()) == pkgStream+".Writer" {
							if k, isK := st.Val.(*ssa.Const); isK && k.Value != nil && k.Value.ExactString() == "true" {
								flagsSet[fieldName(fa.X.Type(), fa.Field)] = true
							}
						}
						if fa, ok := st.Addr.(*ssa.FieldAddr); ok && fieldName(fa.X.Type(), fa.Field) == "err" {
							lastStore = st
							if isFreshNonSentinelError(st.Val) || knownNonNil[stripConv(st.Val)] || p.definitelyNonNil(stripConv(st.Val), 0) {
								state = "nonnil"
							} else {
								state = "unknown"
							}
						}
					}
					if in == pa.Last {
						break
					}
				}
				// branch on a load of w.err performed after the last store
				if bi < len(pa.Edge) && pa.Edge[bi] >= 0 {
					if ifi, ok := b.Instrs[len(b.Instrs)-1].(*ssa.If); ok {
						a := ctb.atomOf(Guard{If: ifi, Cond: ifi.Cond, Pol: pa.Edge[bi] == 0})
						if a.Kind == "cmp" && a.Y.Op == "Nil" && a.Op == "!=" && a.X.V != nil {
							knownNonNil[stripConv(a.X.V)] = true
							// the failure of a flushChunk that records its own failure in w.err
							if c, isC := stripConv(a.X.V).(*ssa.Call); isC && calleeName(&c.Call) == flush.String() && latchesOwnError(p, flush) {
								state = "nonnil"
							}
						}
						if a.Kind == "cmp" && a.Y.Op == "Nil" && lastStore != nil && a.X.V != nil && stripConv(a.X.V) == stripConv(lastStore.Val) {
							// the branch tests the value just stored in w.err
							if a.Op == "!=" {
								state = "nonnil"
							} else {
								state = "nil"
							}
						} else if a.Kind == "cmp" && a.Y.Op == "Nil" && strings.HasPrefix(a.X.String(), "Field(Recv.err") {
							if ld, ok := a.X.V.(*ssa.UnOp); ok && ld.Op == token.MUL {
								if lastStore == nil || (ld.Block() == lastStore.Block() && instrIndex(ld) > instrIndex(lastStore)) || (ld.Block() != lastStore.Block() && lastStore.Block().Dominates(ld.Block())) {
									if a.Op == "!=" {
										state = "nonnil"
									} else {
										state = "nil"
									}
								}
							}
						}
					}
				}
			}
			if after && pa.End == "return" {
				n++
				closedByFlag := false
				for f := range flagsSet {
					if refusesOnFlag(p, write, cls, flush, f) {
						closedByFlag = true
					}
				}
				if state != "nonnil" && !closedByFlag {
					badp = "path " + pa.String() + " returns from Close after the final flush with w.err not known to be non-nil: a later Write could seal another chunk after the final one"
				}
			}
		}
		if n == 0 && badp == "" {
			badp = "no path through flushChunk(last) found in Close"
		}
		r.Check(badp == "", cls.String(), "closed-state", "", "every return after the final flush leaves w.err != nil", badp)
	}

	// (f) Write and Close refuse when w.err != nil before doing anything
	for _, fn := range []*ssa.Function{write, cls} {
		ftb := p.TB(fn)
		okf := true
		where := ""
		for _, b := range fn.Blocks {
			for _, in := range b.Instrs {
				work := false
				switch x := in.(type) {
				case ssa.CallInstruction:
					n := calleeName(x.Common())
					work = n == flush.String() || n == "builtin copy"
				case *ssa.Store:
					if fa, ok := x.Addr.(*ssa.FieldAddr); ok && fieldName(fa.X.Type(), fa.Field) == "unwritten" {
						work = true
					}
				}
				if !work {
					continue
				}
				facts := ftb.FactsAt(b)
				_, ok := findFact(facts, func(a Atom) bool {
					if a.Kind != "cmp" || a.Op != "==" || a.Y.Op != "Nil" || !strings.HasPrefix(a.X.String(), "Field(Recv.err") {
						return false
					}
					// the tested load comes before any store to the field (it may follow other
					// refusals, such as an "already closed" flag)
					ld, isLd := a.X.V.(*ssa.UnOp)
					if !isLd {
						return false
					}
					if ld.Block() == fn.Blocks[0] {
						return true
					}
					vis := p.Reach([]Loc{blockStart(fn.Blocks[0])}, func(in ssa.Instruction) bool { return in == ssa.Instruction(ld) })
					for in := range vis {
						if st, ok := in.(*ssa.Store); ok {
							if fa, ok := st.Addr.(*ssa.FieldAddr); ok && fieldName(fa.X.Type(), fa.Field) == "err" {
								return false
							}
						}
					}
					return true
				})
				if !ok {
					okf = false
					where = r.pos(in)
				}
			}
		}
		r.Check(okf, fn.String(), "sticky-entry", where, "all buffer work is dominated by w.err == nil tested on entry", "buffer work at "+where+" is not guarded by the sticky error test on entry")
	}
}

func boolStr(b bool) string {
	if b {
		return "true"
	}
	return "false"
}

// pairedErrOf: v is (a conversion of) the error value call, or of a merge/extract of it.
func pairedErrOf(v ssa.Value, call ssa.Value) bool {
	v = stripConv(v)
	if v == call {
		return true
	}
	if ex, ok := v.(*ssa.Extract); ok && ex.Tuple == call {
		return true
	}
	if ph, ok := v.(*ssa.Phi); ok {
		for _, e := range ph.Edges {
			if stripConv(e) == call {
				return true
			}
		}
	}
	return false
}

// refusesOnFlag: Write and Close do their buffer work (flushing, copying into the buffer) only
// where the bool field flag of the writer is known to be false: once it is set, nothing more is
// sealed.
func refusesOnFlag(p *Program, write, cls, flush *ssa.Function, flag string) bool {
	for _, fn := range []*ssa.Function{write, cls} {
		ftb := p.TB(fn)
		for _, b := range fn.Blocks {
			for _, in := range b.Instrs {
				work := false
				switch x := in.(type) {
				case ssa.CallInstruction:
					n := calleeName(x.Common())
					work = n == flush.String() || n == "builtin copy" || n == "builtin append"
				case *ssa.Store:
					if fa, ok := x.Addr.(*ssa.FieldAddr); ok && fieldName(fa.X.Type(), fa.Field) == "unwritten" {
						work = true
					}
				}
				if !work {
					continue
				}
				if _, ok := findFact(ftb.FactsAt(b), func(a Atom) bool {
					return a.Kind == "bool" && !a.Pol && a.X != nil && strings.HasPrefix(a.X.String(), "Field(Recv."+flag)
				}); !ok {
					return false
				}
			}
		}
	}
	return true
}
