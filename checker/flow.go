package main

import (
	"go/token"
	"strings"

	"golang.org/x/tools/go/ssa"
)

// flowsTo follows a value forward through value-preserving and
// value-containing instructions (conversion, slicing, append, element
// store/load of local arrays, range iteration, string concatenation, Phi)
// and reports whether it reaches a call argument accepted by sink.
func flowsTo(v ssa.Value, sink func(call ssa.CallInstruction, arg int) bool) (ssa.CallInstruction, bool) {
	return flowsToOpt(v, false, sink)
}

// flowsToOpt with whole=true does not follow partial views of the value
// (sub-slices, constant-index elements): the whole value must reach the sink.
func flowsToOpt(v ssa.Value, whole bool, sink func(call ssa.CallInstruction, arg int) bool) (ssa.CallInstruction, bool) {
	seen := map[ssa.Value]bool{}
	work := []ssa.Value{v}
	for len(work) > 0 {
		cur := work[len(work)-1]
		work = work[:len(work)-1]
		if seen[cur] {
			continue
		}
		seen[cur] = true
		refs := cur.Referrers()
		if refs == nil {
			continue
		}
		for _, r := range *refs {
			switch x := r.(type) {
			case ssa.CallInstruction:
				c := x.Common()
				args := c.Args
				off := 0
				if c.IsInvoke() {
					if c.Value == cur && sink(x, 0) {
						return x, true
					}
					off = 1
				}
				for i, a := range args {
					if a == cur && sink(x, i+off) {
						return x, true
					}
				}
				if isBuiltin(c, "append") {
					if val := x.Value(); val != nil {
						work = append(work, val)
					}
				}
				// written into a local strings.Builder / bytes.Buffer: continue from what is read
				// back out of it
				if cn := calleeName(c); len(args) == 2 && args[1] == cur && (strings.HasPrefix(cn, "(*strings.Builder).Write") || strings.HasPrefix(cn, "(*bytes.Buffer).Write")) {
					if al, ok := args[0].(*ssa.Alloc); ok && al.Referrers() != nil {
						for _, r2 := range *al.Referrers() {
							if c2, ok := r2.(*ssa.Call); ok {
								if n2 := calleeName(&c2.Call); strings.HasSuffix(n2, ").String") || strings.HasSuffix(n2, ").Bytes") {
									work = append(work, c2)
								}
							}
						}
					}
				}
				// library calls whose result contains their first argument whole
				switch calleeName(c) {
				case "strings.Join", "bytes.Join":
					if val := x.Value(); val != nil && len(args) > 0 && args[0] == cur {
						work = append(work, val)
					}
				}
			case *ssa.Phi:
				work = append(work, x)
			case *ssa.BinOp:
				if x.Op == token.ADD {
					work = append(work, x)
				}
			case *ssa.Convert:
				work = append(work, x)
			case *ssa.ChangeType:
				work = append(work, x)
			case *ssa.MakeInterface:
				work = append(work, x)
			case *ssa.Slice:
				if whole && (x.Low != nil || x.High != nil) {
					continue
				}
				work = append(work, x)
			case *ssa.IndexAddr:
				if _, isConst := x.Index.(*ssa.Const); whole && isConst {
					if _, isAlloc := x.X.(*ssa.Alloc); !isAlloc {
						continue
					}
				}
				if x.X == cur {
					work = append(work, x)
				}
			case *ssa.Index:
				if _, isConst := x.Index.(*ssa.Const); whole && isConst {
					continue
				}
				if x.X == cur {
					work = append(work, x)
				}
			case *ssa.Lookup:
				if x.X == cur {
					work = append(work, x)
				}
			case *ssa.UnOp:
				if x.Op == token.MUL {
					work = append(work, x)
				}
			case *ssa.Range:
				work = append(work, x)
			case *ssa.Next:
				work = append(work, x)
			case *ssa.Extract:
				work = append(work, x)
			case *ssa.Store:
				if x.Val == cur {
					// stored into a local array element or local variable:
					// continue from the base allocation
					a := x.Addr
					for {
						if ia, ok := a.(*ssa.IndexAddr); ok {
							a = ia.X
							continue
						}
						break
					}
					if al, ok := a.(*ssa.Alloc); ok {
						work = append(work, al)
					}
				}
			}
		}
	}
	return nil, false
}
