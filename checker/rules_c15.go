package main

import "golang.org/x/tools/go/ssa"

func init() {
	register(&PropertyDef{
		ID: "C15",
		Explanation: "CLI exit-status and output-file discipline decided structurally for cmd/age and cmd/age-keygen: (R15.1) every error-returning call is returned, branched on, or handed to errorf/errorWithHint/log.Fatalf (no-return functions ending in a non-zero exit); the only drops are named in spec/allow_dropped.json (terminal prompts, closing read-only inputs, look-ahead Peeks); " +
			"(R15.2) files are created for writing in cmd/age only by lazyOpener.Write, -o is wrapped by newLazyOpener only, and in decrypt every use of out is dominated by err == nil of age.Decrypt; (R15.3) newLazyOpener(name) is dominated by a loop comparing absPath(name) with every element of inUseFiles, and every flag-derived path later opened for reading was appended through absPath before that loop; " +
			"(R15.4) age-keygen's only file-creating call has flags including O_CREATE|O_EXCL and mode 0600; (R15.5) exit/os.Exit receive non-zero constants and the error helpers never return.",
		NotDecided:  "behaviour of the operating system (short writes, path aliasing through links); that partial output is a prefix of the plaintext (value property).",
		Assumptions: []string{"os.Exit and log.Fatalf terminate the process", "filepath.Abs gives one spelling per path as far as the statement's 'any spelling' goes"},
		Technique:   "static analysis: error-flow classification (E5) with no-return inference, who-may-call on file creation, dominance guards, constant folding of open flags",
		Run:         runC15,
	})
}

func runC15(p *Program, r *Result) {
	r.Rule("R15.1", "every failure reaches a non-zero exit: no error result is dropped in the CLI packages", 120)
	checkNoDroppedErrors(p, r, []string{pkgCmdAge, pkgKeygen})
	r.Rule("R15.6", "deferred closures do not overwrite the error being returned (a failed final flush/close must surface)", 0)
	checkDeferredOverwrite(p, r, []string{pkgCmdAge, pkgKeygen})
	checkCLIFiles(p, r)
	r.Rule("R15.8", "an error that is looked at is looked at on every path to a return: a failure found is not passed over (= R13.8 for the CLI packages)", 1)
	checkErrorsExaminedOnEveryPath(p, r, []string{pkgCmdAge, pkgKeygen})
	r.Rule("R15.7", "the plaintext is taken from the decrypting reader only by copiers for which nothing but io.EOF is a clean end", 1)
	checkPlaintextConsumers(p, r)
}

// checkPlaintextConsumers: in the CLI the reader returned by age.Decrypt is consumed only by
// io.Copy / io.CopyBuffer / io.ReadAll (whose error R15.1 requires to be checked). A hand-written
// read loop has to decide itself which errors end it; one that takes io.ErrUnexpectedEOF — what
// the payload reader reports for a file cut at a chunk boundary — for the end delivers a prefix
// with exit status 0.
func checkPlaintextConsumers(p *Program, r *Result) {
	allowed := map[string]int{"io.Copy": 1, "io.CopyBuffer": 1, "io.ReadAll": 0, "io/ioutil.ReadAll": 0}
	n := 0
	for _, fn := range p.Funcs {
		if !inPkg(fn, pkgCmdAge) || fn.Signature.Recv() != nil {
			continue // the file decryption path; encrypted identity files are read by the key-file scanner (C18)
		}
		for _, c := range callsTo(fn, pkgAge+".Decrypt") {
			cv := c.Value()
			if cv == nil || cv.Referrers() == nil {
				continue
			}
			for _, ref := range *cv.Referrers() {
				ex, ok := ref.(*ssa.Extract)
				if !ok || ex.Index != 0 {
					continue
				}
				n++
				bad := ""
				uses := 0
				flowsToOpt(ex, false, func(call ssa.CallInstruction, arg int) bool {
					name := calleeName(call.Common())
					if idx, ok := allowed[name]; ok && idx == arg {
						uses++
						return false
					}
					bad = "the plaintext reader is consumed by " + short(name) + " at " + r.pos(call.(ssa.Instruction))
					return false
				})
				switch {
				case bad != "":
					r.Bad(fn.String(), "plaintext-consumer", r.pos(c), bad+": which errors end that read is decided by hand (io.ErrUnexpectedEOF must not)")
				case uses == 0:
					r.Unk(fn.String(), "plaintext-consumer", r.pos(c), "the reader returned by age.Decrypt is not consumed")
				default:
					r.OK(fn.String(), "plaintext-consumer", r.pos(c), "consumed by io.Copy/io.CopyBuffer/io.ReadAll only")
				}
			}
		}
	}
	if n == 0 {
		r.Unk(pkgCmdAge, "plaintext-consumer", "", "no call of age.Decrypt found in the CLI")
	}
}
