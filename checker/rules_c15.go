package main

func init() {
	register(&PropertyDef{
		ID: "C15",
		Explanation: "CLI exit-status and output-file discipline decided structurally for cmd/age and cmd/age-keygen: (R15.1) every error-returning call is returned, branched on, or handed to errorf/errorWithHint/log.Fatalf (no-return functions ending in a non-zero exit); the only drops are named in spec/allow_dropped.json (terminal prompts, closing read-only inputs, look-ahead Peeks); " +
			"(R15.2) files are created for writing in cmd/age only by lazyOpener.Write, -o is wrapped by newLazyOpener only, and in decrypt every use of out is dominated by err == nil of age.Decrypt; (R15.3) newLazyOpener(name) is dominated by a loop comparing absPath(name) with every element of inUseFiles, and every flag-derived path later opened for reading was appended through absPath before that loop; " +
			"(R15.4) age-keygen's only file-creating call has flags including O_CREATE|O_EXCL and mode 0600; (R15.5) exit/os.Exit receive non-zero constants and the error helpers never return.",
		NotDecided:  "behaviour of the operating system (short writes, path aliasing through links); that partial output is a prefix of the plaintext (value property).",
		Assumptions: []string{"os.Exit and log.Fatalf terminate the process", "filepath.Abs gives one spelling per path as far as the statement's 'any spelling' goes"},
		Technique:   "static analysis: error-flow classification (E5) with no-return inference, who-may-call on file creation, dominance guards, constant folding of open flags",
		Run:         runC15,
	})
}

func runC15(p *Program, r *Result) {
	r.Rule("R15.1", "every failure reaches a non-zero exit: no error result is dropped in the CLI packages", 120)
	checkNoDroppedErrors(p, r, []string{pkgCmdAge, pkgKeygen})
	r.Rule("R15.6", "deferred closures do not overwrite the error being returned (a failed final flush/close must surface)", 0)
	checkDeferredOverwrite(p, r, []string{pkgCmdAge, pkgKeygen})
	checkCLIFiles(p, r)
}
