package main

// Emission grammar of a serialiser: the sequence of calls that are handed the
// function's writer (or something built from it) on the paths that end in a
// success return, with loops summarised as Star[over]{…} and a loop over a
// list with known leading elements peeled (for x := range append([]T{a}, r...)
// is body(a) followed by the loop over r). Which statement performs a write,
// and whether two consecutive writes sit in one function or in a helper, does
// not matter; the order and the arguments do.

import (
	"fmt"
	"go/constant"
	"go/token"
	"go/types"
	"sort"
	"strconv"
	"strings"

	"golang.org/x/tools/go/ssa"
)

type emitter struct {
	p     *Program
	fn    *ssa.Function
	tb    *TB
	taint map[ssa.Value]bool
	loops map[*ssa.BasicBlock]*natLoop
	rl    map[*ssa.BasicBlock]*RangeLoop
	okRet map[*ssa.BasicBlock]bool // blocks from which a success return is reachable
	paths int
	err   error
	// local accumulators (strings.Builder / bytes.Buffer) whose whole content is handed to the
	// writer by one flush call: writes into them count as writes to the writer
	accFlush map[ssa.CallInstruction]bool // the flush calls (emit nothing themselves)
	accRead  map[ssa.Value]bool           // the String()/Bytes() calls (emit nothing)
}

// emissionGrammar returns the alternatives (one per success path) joined by " | ".
func (p *Program) emissionGrammar(fn *ssa.Function, writerParam int) (string, error) {
	if writerParam >= len(fn.Params) {
		return "", fmt.Errorf("no parameter %d", writerParam)
	}
	e := &emitter{p: p, fn: fn, tb: p.TB(fn), taint: map[ssa.Value]bool{fn.Params[writerParam]: true},
		loops: map[*ssa.BasicBlock]*natLoop{}, rl: map[*ssa.BasicBlock]*RangeLoop{}, okRet: map[*ssa.BasicBlock]bool{}}
	e.accFlush, e.accRead = map[ssa.CallInstruction]bool{}, map[ssa.Value]bool{}
	e.findAccumulators()
	// values built from the writer: conversions and the results of calls that receive it
	for changed := true; changed; {
		changed = false
		for _, b := range fn.Blocks {
			for _, in := range b.Instrs {
				v, isVal := in.(ssa.Value)
				if !isVal || e.taint[v] {
					continue
				}
				switch x := in.(type) {
				case *ssa.MakeInterface:
					if e.taint[x.X] {
						e.taint[v], changed = true, true
					}
				case *ssa.ChangeInterface:
					if e.taint[x.X] {
						e.taint[v], changed = true, true
					}
				case *ssa.ChangeType:
					if e.taint[x.X] {
						e.taint[v], changed = true, true
					}
				case *ssa.Call:
					// a constructor wrapping the writer (NewWrappedBase64Encoder(b64, w)) yields a writer
					if _, isTuple := x.Type().(*types.Tuple); isTuple {
						continue
					}
					for _, a := range x.Call.Args {
						if e.taint[a] && !isErrorType(x.Type()) && !isBasicType(x.Type()) {
							e.taint[v], changed = true, true
						}
					}
				case *ssa.Phi:
					for _, ed := range x.Edges {
						if e.taint[ed] {
							e.taint[v], changed = true, true
						}
					}
				}
			}
		}
	}
	for _, l := range naturalLoops(fn) {
		e.loops[l.Header] = l
	}
	for _, l := range rangeLoops(fn) {
		e.rl[l.Header] = l
	}
	// success reachability
	ei := errorResultIndex(fn.Signature)
	for changed := true; changed; {
		changed = false
		for _, b := range fn.Blocks {
			if e.okRet[b] || len(b.Instrs) == 0 {
				continue
			}
			if ret, ok := b.Instrs[len(b.Instrs)-1].(*ssa.Return); ok {
				rs := resultsOf(ret)
				if ei < 0 || !p.nonNilAt(rs[ei], b) {
					e.okRet[b], changed = true, true
				}
				continue
			}
			for _, s := range p.feasibleSuccs(b) {
				if e.okRet[s] {
					e.okRet[b], changed = true, true
				}
			}
		}
	}
	alts := e.from(fn.Blocks[0], nil, nil, 0, nil, nil)
	if e.err != nil {
		return "", e.err
	}
	set := map[string]bool{}
	for _, a := range alts {
		set[joinPieces(a)] = true
	}
	var out []string
	for s := range set {
		out = append(out, s)
	}
	sort.Strings(out)
	return strings.Join(out, " | "), nil
}

func isBasicType(t types.Type) bool {
	_, ok := t.Underlying().(*types.Basic)
	return ok
}

// item renders one call that receives the writer as the pieces it emits:
// "L:<text>" for literal bytes, "{term}" for the bytes of a value, and the
// call itself for nested serialisers. How the bytes are grouped into calls
// (WriteString(" "+a) or two writes, Fprintf or Write) does not show.
func (e *emitter) item(c ssa.CallInstruction, subst map[string]*Term) ([]string, bool) {
	cc := c.Common()
	all := cc.Args
	if cc.IsInvoke() {
		all = append([]ssa.Value{cc.Value}, cc.Args...)
	}
	hit := false
	for _, a := range all {
		if e.taint[a] {
			hit = true
		}
	}
	if !hit {
		return nil, false
	}
	name := short(e.tb.resolvedCalleeName(cc))
	if e.accFlush[c] {
		return []string{}, true // its content was emitted piece by piece into the accumulator
	}
	if v := c.Value(); v != nil && e.accRead[v] {
		return nil, false
	}
	if len(all) == 2 && e.taint[all[0]] && e.wrapperName(all[0]) == "" && (strings.HasSuffix(name, ").WriteByte") || strings.HasSuffix(name, ").WriteRune")) {
		if k, ok := constInt(all[1]); ok && k >= 0 && k < 128 {
			return []string{"L:" + string(rune(k))}, true
		}
	}
	if strings.HasSuffix(name, "strings.Builder).Grow") || strings.HasSuffix(name, "bytes.Buffer).Grow") {
		return nil, false
	}
	// constructors that only wrap the writer emit nothing themselves
	if v := c.Value(); v != nil && e.taint[v] {
		return nil, false
	}
	term := func(a ssa.Value) *Term {
		t := e.tb.Term(a)
		if subst != nil {
			t = replaceSubterms(t, subst)
		}
		return t
	}
	plain := len(all) > 0 && e.taint[all[0]] && e.wrapperName(all[0]) == ""
	switch {
	case plain && (name == "io.WriteString" || strings.HasSuffix(name, ").Write") || strings.HasSuffix(name, ").WriteString")) && len(all) == 2:
		return bytePieces(term(all[1])), true
	case plain && name == "fmt.Fprint" && len(all) == 2:
		if lst := term(all[1]); lst.Op == "List" {
			var out []string
			okAll := true
			for i, a := range lst.Args {
				if !stringLike(e.variadicElemType(all[1], i)) {
					okAll = false
				}
				out = append(out, bytePieces(a)...)
			}
			if okAll {
				return out, true
			}
		}
	case plain && name == "fmt.Fprintf" && len(all) == 3:
		if f := term(all[1]); f.Op == "Const" && strings.HasPrefix(f.S, "\"") {
			if format, err := strconv.Unquote(f.S); err == nil {
				if out, ok := e.formatPieces(format, term(all[2]), all[2]); ok {
					return out, true
				}
			}
		}
	}
	var parts []string
	for _, a := range all {
		if e.taint[a] {
			parts = append(parts, "·"+e.wrapperName(a))
			continue
		}
		parts = append(parts, short(term(a).String()))
	}
	return []string{name + "(" + strings.Join(parts, ", ") + ")"}, true
}

// bytePieces splits a string/byte-slice term into literal and value pieces.
func bytePieces(t *Term) []string {
	switch {
	case t.Op == "Const" && strings.HasPrefix(t.S, "\""):
		if s, err := strconv.Unquote(t.S); err == nil {
			return []string{"L:" + s}
		}
	case t.Op == "Bin" && t.S == "+" && len(t.Args) == 2:
		return append(bytePieces(t.Args[0]), bytePieces(t.Args[1])...)
	case t.Op == "Call" && t.S == "strings.Join" && len(t.Args) == 2:
		// Join(append([]string{a, b}, rest...), sep) emits a sep b, then sep x for every x of rest
		sep := t.Args[1]
		if !(sep.Op == "Const" && strings.HasPrefix(sep.S, "\"")) {
			break
		}
		var lead []*Term
		var rest *Term
		switch l := t.Args[0]; {
		case l.Op == "List":
			lead = l.Args
		case l.Op == "Concat" && len(l.Args) == 2 && l.Args[0].Op == "List":
			lead, rest = l.Args[0].Args, l.Args[1]
		}
		if len(lead) == 0 {
			break
		}
		var out []string
		for i, x := range lead {
			if i > 0 {
				out = append(out, bytePieces(sep)...)
			}
			out = append(out, bytePieces(x)...)
		}
		if rest != nil {
			over := short(rest.String())
			out = append(out, "Star["+over+"]{"+joinPieces(append(bytePieces(sep), "{Elem("+over+", (RangeIdx#1 + 1))}"))+"}")
		}
		return out
	}
	return []string{"{" + short(t.String()) + "}"}
}

func stringLike(t types.Type) bool {
	if t == nil {
		return false
	}
	switch u := t.Underlying().(type) {
	case *types.Basic:
		return u.Info()&types.IsString != 0
	case *types.Slice:
		b, ok := u.Elem().Underlying().(*types.Basic)
		return ok && b.Kind() == types.Uint8
	}
	return false
}

// variadicElemType: the static type of the i-th element stored into the variadic slice.
func (e *emitter) variadicElemType(v ssa.Value, i int) types.Type {
	sl, ok := v.(*ssa.Slice)
	if !ok {
		return nil
	}
	al, ok := sl.X.(*ssa.Alloc)
	if !ok || al.Referrers() == nil {
		return nil
	}
	for _, r := range *al.Referrers() {
		ia, ok := r.(*ssa.IndexAddr)
		if !ok {
			continue
		}
		if k, ok := constInt(ia.Index); !ok || int(k) != i || ia.Referrers() == nil {
			continue
		}
		for _, rr := range *ia.Referrers() {
			if st, ok := rr.(*ssa.Store); ok && st.Addr == ssa.Value(ia) {
				val := st.Val
				if mi, ok := val.(*ssa.MakeInterface); ok {
					val = mi.X
				}
				return val.Type()
			}
		}
	}
	return nil
}

// formatPieces expands a constant format whose verbs are %s (string-like operands) or %%.
func (e *emitter) formatPieces(format string, args *Term, raw ssa.Value) ([]string, bool) {
	if args.Op != "List" {
		return nil, false
	}
	var out []string
	lit := ""
	n := 0
	for i := 0; i < len(format); i++ {
		ch := format[i]
		if ch != '%' {
			lit += string(ch)
			continue
		}
		if i+1 >= len(format) {
			return nil, false
		}
		i++
		switch format[i] {
		case '%':
			lit += "%"
		case 's':
			if n >= len(args.Args) || !stringLike(e.variadicElemType(raw, n)) {
				return nil, false
			}
			if lit != "" {
				out = append(out, "L:"+lit)
				lit = ""
			}
			out = append(out, bytePieces(args.Args[n])...)
			n++
		default:
			return nil, false
		}
	}
	if lit != "" {
		out = append(out, "L:"+lit)
	}
	if n != len(args.Args) {
		return nil, false
	}
	return out, true
}

// joinPieces renders a sequence, merging adjacent literal pieces.
func joinPieces(seq []string) string {
	var out []string
	for _, s := range seq {
		if strings.HasPrefix(s, "L:") && len(out) > 0 && strings.HasPrefix(out[len(out)-1], "L:") {
			out[len(out)-1] += s[2:]
			continue
		}
		out = append(out, s)
	}
	for i, s := range out {
		if strings.HasPrefix(s, "L:") {
			out[i] = strconv.Quote(s[2:])
		}
	}
	return strings.Join(out, " ; ")
}

// wrapperName tells the plain writer from a wrapper built around it.
func (e *emitter) wrapperName(v ssa.Value) string {
	v = stripConv(v)
	for {
		switch x := v.(type) {
		case *ssa.MakeInterface:
			v = x.X
			continue
		case *ssa.ChangeInterface:
			v = x.X
			continue
		}
		break
	}
	if c, ok := v.(*ssa.Call); ok {
		return "<" + short(calleeName(&c.Call)) + ">"
	}
	return ""
}

// replaceSubterms rewrites every sub-term whose printed form is a key of subst.
func replaceSubterms(t *Term, subst map[string]*Term) *Term {
	if t == nil {
		return nil
	}
	if r, ok := subst[t.String()]; ok {
		return r
	}
	n := &Term{Op: t.Op, S: t.S, V: t.V, Ctx: t.Ctx}
	for _, a := range t.Args {
		n.Args = append(n.Args, replaceSubterms(a, subst))
	}
	return n
}

// from enumerates the emission sequences of the success paths starting at block b.
// stop: blocks that end the walk (the header of the loop being summarised).
func (e *emitter) from(b *ssa.BasicBlock, stop map[*ssa.BasicBlock]bool, subst map[string]*Term, depth int, prev *ssa.BasicBlock, nn map[ssa.Value]bool) [][]string {
	if e.err != nil {
		return nil
	}
	if depth > 200 {
		e.err = fmt.Errorf("emission walk too deep")
		return nil
	}
	if stop[b] {
		return [][]string{{}}
	}
	// a loop header: summarise the loop, continue after it
	if l := e.loops[b]; l != nil && !(stop != nil && stop[b]) {
		return e.loop(b, l, stop, subst, depth, nn)
	}
	return e.block(b, stop, subst, depth, prev, nn)
}

func (e *emitter) block(b *ssa.BasicBlock, stop map[*ssa.BasicBlock]bool, subst map[string]*Term, depth int, prev *ssa.BasicBlock, nn map[ssa.Value]bool) [][]string {
	var here []string
	for _, in := range b.Instrs {
		if e.p.callNoReturnCached(in) {
			return nil
		}
		switch x := in.(type) {
		case ssa.CallInstruction:
			if _, isDefer := in.(*ssa.Defer); isDefer {
				continue
			}
			if s, ok := e.item(x, subst); ok {
				here = append(here, s...)
			}
		case *ssa.Panic:
			return nil
		case *ssa.Return:
			if !e.okRet[b] {
				return nil
			}
			// `err := f(); if err == nil { err = g() }; return err`: on the way that skipped g
			// the returned value is f's error, known to be non-nil: an error exit
			if rs := resultsOf(x); len(rs) > 0 && isErrorType(rs[len(rs)-1].Type()) {
				v := rs[len(rs)-1]
				if ph, isPhi := v.(*ssa.Phi); isPhi && ph.Block() == b && prev != nil {
					for k, pb := range b.Preds {
						if pb == prev {
							v = ph.Edges[k]
						}
					}
				}
				if nn[v] || nn[stripConv(v)] {
					return nil
				}
			}
			return [][]string{here}
		}
	}
	var out [][]string
	succs, learn := e.succsKnowing(b, prev, nn)
	for k, s := range succs {
		if !e.okRet[s] && !(stop != nil && stop[s]) && !e.reachesStop(s, stop) {
			continue // only error returns lie that way
		}
		e.paths++
		if e.paths > 2000 {
			e.err = fmt.Errorf("too many emission paths")
			return nil
		}
		nn2 := nn
		if learn != nil && learn[k] != nil {
			nn2 = map[ssa.Value]bool{}
			for v := range nn {
				nn2[v] = true
			}
			nn2[learn[k]] = true
		}
		for _, rest := range e.from(s, stop, subst, depth+1, b, nn2) {
			seq := append(append([]string{}, here...), rest...)
			out = append(out, seq)
		}
	}
	return out
}

func (e *emitter) reachesStop(from *ssa.BasicBlock, stop map[*ssa.BasicBlock]bool) bool {
	if stop == nil {
		return false
	}
	seen := map[*ssa.BasicBlock]bool{}
	work := []*ssa.BasicBlock{from}
	for len(work) > 0 {
		b := work[len(work)-1]
		work = work[:len(work)-1]
		if seen[b] {
			continue
		}
		seen[b] = true
		if stop[b] {
			return true
		}
		work = append(work, b.Succs...)
	}
	return false
}

// loop summarises the natural loop with header h.
func (e *emitter) loop(h *ssa.BasicBlock, l *natLoop, stop map[*ssa.BasicBlock]bool, subst map[string]*Term, depth int, nn map[ssa.Value]bool) [][]string {
	// exits of the loop towards a success continuation
	type exitEdge struct{ from, to *ssa.BasicBlock }
	var exits []exitEdge
	for b := range l.Blocks {
		for _, s := range b.Succs {
			if !l.Blocks[s] && (e.okRet[s] || e.reachesStop(s, stop)) {
				exits = append(exits, exitEdge{b, s})
			}
		}
	}
	sort.Slice(exits, func(i, j int) bool {
		if exits[i].to.Index != exits[j].to.Index {
			return exits[i].to.Index < exits[j].to.Index
		}
		return exits[i].from.Index < exits[j].from.Index
	})
	// body alternatives: from the header's in-loop successor(s) back to the header
	inner := map[*ssa.BasicBlock]bool{h: true}
	var bodyAlts [][]string
	hdrItems := e.headerItems(h, subst)
	for _, s := range h.Succs {
		if !l.Blocks[s] {
			continue
		}
		for _, a := range e.from(s, inner, subst, depth+1, h, nn) {
			bodyAlts = append(bodyAlts, append(append([]string{}, hdrItems...), a...))
		}
	}
	render := func(alts [][]string) string {
		set := map[string]bool{}
		for _, a := range alts {
			set[joinPieces(a)] = true
		}
		var ss []string
		for s := range set {
			if s != "" {
				ss = append(ss, s)
			}
		}
		sort.Strings(ss)
		return strings.Join(ss, " | ")
	}
	var prefix []string
	over := "while"
	if rl := e.rl[h]; rl != nil {
		ot := e.tb.Term(rl.Over)
		over = short(ot.String())
		// peel known leading elements: range over Concat(List(a, b), rest)
		if ot.Op == "Concat" && len(ot.Args) >= 1 && ot.Args[0].Op == "List" && rl.Index != nil {
			idx := e.tb.Term(rl.Index)
			elemKey := mk("Elem", "", nil, ot, idx).String()
			var restT *Term
			switch len(ot.Args) {
			case 1:
			case 2:
				restT = ot.Args[1]
			default:
				restT = mk("Concat", "", nil, ot.Args[1:]...)
			}
			for _, lead := range ot.Args[0].Args {
				s2 := map[string]*Term{}
				for k, v := range subst {
					s2[k] = v
				}
				s2[elemKey] = lead
				var alts [][]string
				for _, s := range h.Succs {
					if l.Blocks[s] {
						alts = append(alts, e.from(s, inner, s2, depth+1, h, nn)...)
					}
				}
				if len(alts) == 1 {
					prefix = append(prefix, alts[0]...) // raw pieces: literals merge with their neighbours
				} else if r := render(alts); r != "" {
					prefix = append(prefix, r)
				}
			}
			if restT == nil {
				bodyAlts = nil
				over = ""
			} else {
				s3 := map[string]*Term{}
				for k, v := range subst {
					s3[k] = v
				}
				s3[elemKey] = mk("Elem", "", nil, restT, idx)
				bodyAlts = nil
				for _, s := range h.Succs {
					if l.Blocks[s] {
						bodyAlts = append(bodyAlts, e.from(s, inner, s3, depth+1, h, nn)...)
					}
				}
				over = short(restT.String())
			}
		}
	}
	var star []string
	if body := render(bodyAlts); body != "" && over != "" {
		star = []string{"Star[" + over + "]{" + body + "}"}
	}
	var out [][]string
	for _, x := range exits {
		for _, rest := range e.from(x.to, stop, subst, depth+1, x.from, nn) {
			seq := append(append(append([]string{}, prefix...), star...), rest...)
			out = append(out, seq)
		}
	}
	return out
}

// headerItems: emissions performed by the loop header block itself.
func (e *emitter) headerItems(h *ssa.BasicBlock, subst map[string]*Term) []string {
	var out []string
	for _, in := range h.Instrs {
		if c, ok := in.(ssa.CallInstruction); ok {
			if _, isDefer := in.(*ssa.Defer); isDefer {
				continue
			}
			if s, ok := e.item(c, subst); ok {
				out = append(out, s...)
			}
		}
	}
	return out
}

// succsKnowing: the successors of b that are feasible given the block we came from (which
// fixes the Phis of b) and the values already known to be non-nil on this walk; learn[k] is a
// value that is non-nil when successor k is taken.
func (e *emitter) succsKnowing(b, prev *ssa.BasicBlock, nn map[ssa.Value]bool) ([]*ssa.BasicBlock, []ssa.Value) {
	succs := e.p.feasibleSuccs(b)
	if len(succs) != 2 || len(b.Succs) != 2 {
		return succs, nil
	}
	ifi, ok := b.Instrs[len(b.Instrs)-1].(*ssa.If)
	if !ok {
		return succs, nil
	}
	c := ifi.Cond
	neg := false
	for {
		if u, ok := c.(*ssa.UnOp); ok && u.Op == token.NOT {
			c, neg = u.X, !neg
			continue
		}
		break
	}
	resolve := func(v ssa.Value) ssa.Value {
		for i := 0; i < 4; i++ {
			ph, ok := v.(*ssa.Phi)
			if !ok || ph.Block() != b || prev == nil {
				return v
			}
			found := false
			for k, pb := range b.Preds {
				if pb == prev {
					v, found = ph.Edges[k], true
				}
			}
			if !found {
				return v
			}
		}
		return v
	}
	c = resolve(c)
	if k, ok := c.(*ssa.Const); ok && k.Value != nil && k.Value.Kind() == constant.Bool {
		if constant.BoolVal(k.Value) != neg {
			return b.Succs[:1], nil
		}
		return b.Succs[1:], nil
	}
	bo, ok := c.(*ssa.BinOp)
	if !ok || (bo.Op != token.EQL && bo.Op != token.NEQ) {
		return succs, nil
	}
	x, y := bo.X, bo.Y
	if isNilConst(x) {
		x, y = y, x
	}
	if !isNilConst(y) {
		return succs, nil
	}
	x = resolve(x)
	nonNilEdge := 0 // successor index taken when x != nil
	if (bo.Op == token.EQL) != neg {
		nonNilEdge = 1
	}
	switch {
	case isNilConst(x):
		return b.Succs[1-nonNilEdge : 2-nonNilEdge], nil
	case e.p.definitelyNonNil(x, 0) || nn[x] || nn[stripConv(x)] || (prev != nil && e.p.nonNilAt(x, prev)):
		return b.Succs[nonNilEdge : nonNilEdge+1], nil
	}
	learn := make([]ssa.Value, 2)
	learn[nonNilEdge] = x
	return b.Succs, learn
}

// findAccumulators marks local strings.Builder / bytes.Buffer variables that are only written to
// and then handed to the writer whole, once, with nothing written into them afterwards.
func (e *emitter) findAccumulators() {
	for _, b := range e.fn.Blocks {
		for _, in := range b.Instrs {
			al, ok := in.(*ssa.Alloc)
			if !ok {
				continue
			}
			ts := typeString(al.Type())
			if ts != "*strings.Builder" && ts != "*bytes.Buffer" {
				continue
			}
			var writes []ssa.CallInstruction
			var reads []*ssa.Call
			okUse := true
			for _, ref := range *al.Referrers() {
				c, isCall := ref.(*ssa.Call)
				if !isCall {
					if _, dbg := ref.(*ssa.DebugRef); dbg {
						continue
					}
					okUse = false
					break
				}
				if len(c.Call.Args) == 0 || c.Call.Args[0] != ssa.Value(al) {
					okUse = false
					break
				}
				n := calleeName(&c.Call)
				switch {
				case strings.HasSuffix(n, ").Write"), strings.HasSuffix(n, ").WriteString"), strings.HasSuffix(n, ").WriteByte"), strings.HasSuffix(n, ").WriteRune"):
					writes = append(writes, c)
				case strings.HasSuffix(n, ").String"), strings.HasSuffix(n, ").Bytes"):
					reads = append(reads, c)
				case strings.HasSuffix(n, ").Grow"), strings.HasSuffix(n, ").Len"):
				default:
					okUse = false
				}
			}
			if !okUse || len(reads) != 1 || len(writes) == 0 {
				continue
			}
			rd := reads[0]
			// the content goes to the writer in one call
			var flush ssa.CallInstruction
			nUse := 0
			for _, ref := range *rd.Referrers() {
				if _, dbg := ref.(*ssa.DebugRef); dbg {
					continue
				}
				nUse++
				if c, isCall := ref.(ssa.CallInstruction); isCall {
					n := calleeName(c.Common())
					cc := c.Common()
					switch {
					case n == "io.WriteString" && len(cc.Args) == 2 && e.taint[cc.Args[0]] && cc.Args[1] == ssa.Value(rd):
						flush = c
					case cc.IsInvoke() && cc.Method.Name() == "Write" && e.taint[cc.Value] && len(cc.Args) == 1 && cc.Args[0] == ssa.Value(rd):
						flush = c
					}
				}
			}
			if flush == nil || nUse != 1 {
				continue
			}
			// nothing is written into it after the flush, and every write can reach the flush
			after := e.p.Reach([]Loc{locAfter(flush.(ssa.Instruction))}, nil)
			late := false
			for _, w := range writes {
				if after[w.(ssa.Instruction)] {
					late = true
				}
			}
			if late {
				continue
			}
			e.taint[al] = true
			e.accFlush[flush] = true
			e.accRead[rd] = true
		}
	}
}
