package main

// E2 — paths: reachability over the instruction-level CFG with deleted
// instructions (must-pass-through), no-return calls as path ends, and
// enumeration of acyclic paths with per-path Phi resolution.

import (
	"strings"
	"fmt"
	"go/constant"
	"go/token"
	"go/types"

	"golang.org/x/tools/go/ssa"
)

// Loc is a position in the CFG: instruction I of block B.
type Loc struct {
	B *ssa.BasicBlock
	I int
}

func locOf(in ssa.Instruction) Loc     { return Loc{in.Block(), instrIndex(in)} }
func locAfter(in ssa.Instruction) Loc  { return Loc{in.Block(), instrIndex(in) + 1} }
func blockStart(b *ssa.BasicBlock) Loc { return Loc{b, 0} }

// Reach explores forward from the given locations. stop(in) == true means the
// instruction is deleted from the graph: it is neither visited nor passed.
// Calls to no-return functions and panics end a path. Returns the set of
// instructions visited.
func (p *Program) Reach(from []Loc, stop func(ssa.Instruction) bool) map[ssa.Instruction]bool {
	visited := map[ssa.Instruction]bool{}
	var work []Loc
	work = append(work, from...)
	for len(work) > 0 {
		l := work[len(work)-1]
		work = work[:len(work)-1]
		ended := false
		for i := l.I; i < len(l.B.Instrs); i++ {
			in := l.B.Instrs[i]
			if visited[in] {
				ended = true // already explored from here on
				break
			}
			if stop != nil && stop(in) {
				ended = true
				break
			}
			visited[in] = true
			if p.callNoReturnCached(in) {
				ended = true
				break
			}
			if _, ok := in.(*ssa.Panic); ok {
				ended = true
				break
			}
		}
		if ended {
			continue
		}
		for _, s := range p.feasibleSuccs(l.B) {
			work = append(work, Loc{s, 0})
		}
	}
	return visited
}

// ReachAssuming is Reach under assumptions about the nil-ness of some SSA values (true: the value
// is nil): a branch that tests such a value against nil is followed on the consistent side only.
// The assumption is about the dynamic instance that exists at the start locations; it is sound
// for questions of the form "can the defining instruction be reached again".
func (p *Program) ReachAssuming(from []Loc, stop func(ssa.Instruction) bool, isNil map[ssa.Value]bool) map[ssa.Instruction]bool {
	visited := map[ssa.Instruction]bool{}
	var work []Loc
	work = append(work, from...)
	for len(work) > 0 {
		l := work[len(work)-1]
		work = work[:len(work)-1]
		ended := false
		for i := l.I; i < len(l.B.Instrs); i++ {
			in := l.B.Instrs[i]
			if visited[in] {
				ended = true
				break
			}
			if stop != nil && stop(in) {
				ended = true
				break
			}
			visited[in] = true
			if p.callNoReturnCached(in) {
				ended = true
				break
			}
			if _, ok := in.(*ssa.Panic); ok {
				ended = true
				break
			}
		}
		if ended {
			continue
		}
		succs := p.feasibleSuccs(l.B)
		if v, eq, ok := nilTestOf(l.B); ok && len(l.B.Succs) == 2 {
			if n, known := isNil[v]; known {
				// the condition "v == nil" (eq) or "v != nil" is true iff n == eq
				if n == eq {
					succs = l.B.Succs[:1]
				} else {
					succs = l.B.Succs[1:]
				}
			}
		}
		for _, s := range succs {
			work = append(work, Loc{s, 0})
		}
	}
	return visited
}

// nilTestOf: the block ends in `if v == nil` (eq true) or `if v != nil` (eq false), negations folded.
func nilTestOf(b *ssa.BasicBlock) (ssa.Value, bool, bool) {
	if len(b.Instrs) == 0 {
		return nil, false, false
	}
	ifi, ok := b.Instrs[len(b.Instrs)-1].(*ssa.If)
	if !ok {
		return nil, false, false
	}
	v := ifi.Cond
	neg := false
	for {
		if u, ok := v.(*ssa.UnOp); ok && u.Op == token.NOT {
			v, neg = u.X, !neg
			continue
		}
		break
	}
	x, ok := v.(*ssa.BinOp)
	if !ok || (x.Op != token.EQL && x.Op != token.NEQ) {
		return nil, false, false
	}
	a, c := x.X, x.Y
	if isNilConst(a) {
		a, c = c, a
	}
	if !isNilConst(c) || isNilConst(a) {
		return nil, false, false
	}
	return a, (x.Op == token.EQL) != neg, true
}

// NilOnPath: what the branches taken on the path (before block index upto) say about v being
// nil; v and the tested values are resolved through the Phis of the path.
func (pa *Path) NilOnPath(v ssa.Value, upto int) (isNil bool, known bool) {
	if upto > len(pa.Blocks) {
		upto = len(pa.Blocks)
	}
	v = stripConv(pa.ResolveAt(v, upto-1))
	if isNilConst(v) {
		return true, true
	}
	for i := 0; i < upto && i < len(pa.Edge); i++ {
		if pa.Edge[i] < 0 {
			continue
		}
		x, eq, ok := nilTestOf(pa.Blocks[i])
		if !ok {
			continue
		}
		if stripConv(pa.ResolveAt(x, i)) != v {
			continue
		}
		condTrue := pa.Edge[i] == 0
		return condTrue == eq, true
	}
	return false, false
}

// feasibleSuccs: the successors of b, without the branch edge that a constant
// condition rules out (a nil test of a value that is never nil, such as a
// freshly made error; a constant boolean).
func (p *Program) feasibleSuccs(b *ssa.BasicBlock) []*ssa.BasicBlock {
	// control does not continue after a call that never returns (os.Exit behind errorf, ...)
	for _, in := range b.Instrs {
		if p.callNoReturnCached(in) {
			return nil
		}
	}
	return feasibleSuccsWith(b, func(v ssa.Value) bool { return p.definitelyNonNil(v, 0) })
}

// staticFeasibleSuccs: the same without knowledge about the callees (constant conditions and
// tests repeated under a dominating branch only).
func staticFeasibleSuccs(b *ssa.BasicBlock) []*ssa.BasicBlock {
	return feasibleSuccsWith(b, func(ssa.Value) bool { return false })
}

func feasibleSuccsWith(b *ssa.BasicBlock, nonNil func(ssa.Value) bool) []*ssa.BasicBlock {
	if len(b.Instrs) == 0 || len(b.Succs) != 2 {
		return b.Succs
	}
	ifi, ok := b.Instrs[len(b.Instrs)-1].(*ssa.If)
	if !ok {
		return b.Succs
	}
	v := ifi.Cond
	neg := false
	for {
		if u, ok := v.(*ssa.UnOp); ok && u.Op == token.NOT {
			v, neg = u.X, !neg
			continue
		}
		break
	}
	val, known := false, false
	switch x := v.(type) {
	case *ssa.Const:
		if x.Value != nil && x.Value.Kind() == constant.Bool {
			val, known = constant.BoolVal(x.Value), true
		}
	case *ssa.BinOp:
		if x.Op == token.EQL || x.Op == token.NEQ {
			a, c := x.X, x.Y
			if isNilConst(a) {
				a, c = c, a
			}
			if isNilConst(c) {
				if isNilConst(a) {
					val, known = x.Op == token.EQL, true
				} else if nonNil(a) {
					val, known = x.Op == token.NEQ, true
				}
			}
		}
	}
	if !known {
		// the same test was made by a dominating branch whose taken side leads here
		for d := b.Idom(); d != nil && !known; d = d.Idom() {
			di, isIf := d.Instrs[len(d.Instrs)-1].(*ssa.If)
			if !isIf || len(d.Succs) != 2 {
				continue
			}
			dv, dneg := di.Cond, false
			for {
				if u, ok := dv.(*ssa.UnOp); ok && u.Op == token.NOT {
					dv, dneg = u.X, !dneg
					continue
				}
				break
			}
			if !sameTest(dv, v) {
				continue
			}
			for k, su := range d.Succs {
				if len(su.Preds) == 1 && (su == b || su.Dominates(b)) && d.Succs[1-k] != su {
					// dv (after its negations) is true on edge 0
					val, known = (k == 0) != dneg, true
				}
			}
		}
	}
	if !known {
		return b.Succs
	}
	if val != neg {
		return b.Succs[:1]
	}
	return b.Succs[1:]
}

func (p *Program) callNoReturnCached(in ssa.Instruction) bool {
	c, ok := in.(*ssa.Call)
	if !ok {
		return false
	}
	callee := staticCallee(c.Common())
	return callee != nil && p.NoReturn(callee)
}

// MustPass reports whether every path from `from` to any instruction
// satisfying isExit passes an instruction satisfying through. It returns the
// offending exits reachable while avoiding `through`.
func (p *Program) MustPass(from []Loc, isExit, through func(ssa.Instruction) bool) []ssa.Instruction {
	vis := p.Reach(from, through)
	var bad []ssa.Instruction
	for in := range vis {
		if isExit(in) {
			bad = append(bad, in)
		}
	}
	sortInstrs(bad)
	return bad
}

func sortInstrs(ins []ssa.Instruction) {
	for i := 1; i < len(ins); i++ {
		for j := i; j > 0; j-- {
			a, b := ins[j-1], ins[j]
			if a.Block().Index > b.Block().Index || (a.Block() == b.Block() && instrIndex(a) > instrIndex(b)) {
				ins[j-1], ins[j] = ins[j], ins[j-1]
			} else {
				break
			}
		}
	}
}

func isReturn(in ssa.Instruction) bool { _, ok := in.(*ssa.Return); return ok }

// ---------------------------------------------------------------------------
// path enumeration

// Path is one acyclic path through a function.
type Path struct {
	Blocks []*ssa.BasicBlock
	// Edge[i] is the successor index taken from Blocks[i] (0 true / 1 false /
	// n for switches), -1 for the last block.
	Edge []int
	End  string // return | panic | noreturn | backedge
	Last ssa.Instruction
}

func (pa *Path) String() string {
	s := ""
	for i, b := range pa.Blocks {
		if i > 0 {
			s += ">"
		}
		s += fmt.Sprint(b.Index)
	}
	return s + ":" + pa.End
}

// Instrs yields the instructions of the path in order (up to and including
// the ending instruction).
func (pa *Path) Instrs() []ssa.Instruction {
	var out []ssa.Instruction
	for _, b := range pa.Blocks {
		for _, in := range b.Instrs {
			out = append(out, in)
			if in == pa.Last {
				return out
			}
		}
	}
	return out
}

// PhiValue resolves a value along the path: a Phi in a block of the path
// resolves to the operand of the predecessor actually taken.
func (pa *Path) Resolve(v ssa.Value) ssa.Value {
	for depth := 0; depth < 32; depth++ {
		phi, ok := v.(*ssa.Phi)
		if !ok {
			return v
		}
		// find the last occurrence of phi's block in the path
		idx := -1
		for i, b := range pa.Blocks {
			if b == phi.Block() {
				idx = i
			}
		}
		if idx <= 0 {
			return v
		}
		pred := pa.Blocks[idx-1]
		found := false
		for k, pb := range phi.Block().Preds {
			if pb == pred {
				v = phi.Edges[k]
				found = true
				break
			}
		}
		if !found {
			return v
		}
	}
	return v
}

// ResolveAt resolves v as seen from block index at (phis in later blocks are
// not looked through; a phi of block j<=at resolves with predecessor j-1).
func (pa *Path) ResolveAt(v ssa.Value, at int) ssa.Value {
	for depth := 0; depth < 32; depth++ {
		phi, ok := v.(*ssa.Phi)
		if !ok {
			return v
		}
		idx := -1
		for i := 0; i <= at && i < len(pa.Blocks); i++ {
			if pa.Blocks[i] == phi.Block() {
				idx = i
			}
		}
		if idx <= 0 {
			return v
		}
		pred := pa.Blocks[idx-1]
		found := false
		for k, pb := range phi.Block().Preds {
			if pb == pred {
				v = phi.Edges[k]
				found = true
				at = idx - 1
				break
			}
		}
		if !found {
			return v
		}
	}
	return v
}

// boolOnPath evaluates a branch condition to a constant along the path, if it
// is a constant, a Phi of constants, or a negation thereof.
func (pa *Path) boolOnPath(v ssa.Value, at int) (bool, bool) {
	neg := false
	for {
		v = pa.ResolveAt(v, at)
		if u, ok := v.(*ssa.UnOp); ok && u.Op == token.NOT {
			neg = !neg
			v = u.X
			continue
		}
		break
	}
	if c, ok := v.(*ssa.Const); ok && c.Value != nil && c.Value.Kind() == constant.Bool {
		return constant.BoolVal(c.Value) != neg, true
	}
	return false, false
}

const maxPaths = 65536

// EnumPaths enumerates the acyclic paths from the start block. A block is not
// entered twice on one path; an edge to a block already on the path ends the
// path with End "backedge". Branches whose condition is constant on the path
// are pruned. Returns ok=false if the cap was exceeded.
func (p *Program) EnumPaths(start *ssa.BasicBlock) ([]*Path, bool) {
	return p.EnumPathsStop(start, nil)
}

// EnumPathsStop is EnumPaths, but a path also ends (End "stop", the stop
// block appended) when it is about to enter a block of the stop set.
func (p *Program) EnumPathsStop(start *ssa.BasicBlock, stop map[*ssa.BasicBlock]bool) ([]*Path, bool) {
	var out []*Path
	ok := true
	var cur Path
	onPath := map[*ssa.BasicBlock]bool{}
	// nil-ness of error values decided by branches earlier on the path
	var rec func(b *ssa.BasicBlock)
	rec = func(b *ssa.BasicBlock) {
		if len(out) >= maxPaths {
			ok = false
			return
		}
		cur.Blocks = append(cur.Blocks, b)
		cur.Edge = append(cur.Edge, -1)
		onPath[b] = true
		defer func() {
			cur.Blocks = cur.Blocks[:len(cur.Blocks)-1]
			cur.Edge = cur.Edge[:len(cur.Edge)-1]
			delete(onPath, b)
		}()
		emit := func(end string, last ssa.Instruction) {
			pa := &Path{End: end, Last: last}
			pa.Blocks = append(pa.Blocks, cur.Blocks...)
			pa.Edge = append(pa.Edge, cur.Edge...)
			out = append(out, pa)
		}
		for _, in := range b.Instrs {
			if p.callNoReturnCached(in) {
				emit("noreturn", in)
				return
			}
			switch in.(type) {
			case *ssa.Return:
				emit("return", in)
				return
			case *ssa.Panic:
				emit("panic", in)
				return
			}
		}
		at := len(cur.Blocks) - 1
		succs := b.Succs
		var take []int
		if ifi, isIf := b.Instrs[len(b.Instrs)-1].(*ssa.If); isIf {
			tmp := &Path{Blocks: cur.Blocks, Edge: cur.Edge}
			if val, known := tmp.boolOnPath(ifi.Cond, at); known {
				if val {
					take = []int{0}
				} else {
					take = []int{1}
				}
			} else if val, known := tmp.decidedEarlier(p, ifi.Cond, at); known {
				if val {
					take = []int{0}
				} else {
					take = []int{1}
				}
			}
		}
		if take == nil {
			for k := range succs {
				take = append(take, k)
			}
		}
		for _, k := range take {
			s := succs[k]
			cur.Edge[at] = k
			if stop[s] {
				pa := &Path{End: "stop", Last: b.Instrs[len(b.Instrs)-1]}
				pa.Blocks = append(pa.Blocks, cur.Blocks...)
				pa.Blocks = append(pa.Blocks, s)
				pa.Edge = append(pa.Edge, cur.Edge...)
				pa.Edge = append(pa.Edge, -1)
				out = append(out, pa)
				continue
			}
			if onPath[s] {
				pa := &Path{End: "backedge", Last: b.Instrs[len(b.Instrs)-1]}
				pa.Blocks = append(pa.Blocks, cur.Blocks...)
				pa.Blocks = append(pa.Blocks, s)
				pa.Edge = append(pa.Edge, cur.Edge...)
				pa.Edge = append(pa.Edge, -1)
				out = append(out, pa)
				continue
			}
			rec(s)
		}
		cur.Edge[at] = -1
	}
	rec(start)
	return out, ok
}

// decidedEarlier prunes a branch "x == nil" / "x != nil" (after Phi
// resolution along the path) when the same resolved value was already tested
// against nil by an earlier branch of the path, or is a nil constant.
func (pa *Path) decidedEarlier(p *Program, cond ssa.Value, at int) (bool, bool) {
	neg := false
	for {
		cond = pa.ResolveAt(cond, at)
		if u, ok := cond.(*ssa.UnOp); ok && u.Op == token.NOT {
			neg = !neg
			cond = u.X
			continue
		}
		break
	}
	b, ok := cond.(*ssa.BinOp)
	if !ok || (b.Op != token.EQL && b.Op != token.NEQ) {
		return false, false
	}
	x, y := pa.ResolveAt(b.X, at), pa.ResolveAt(b.Y, at)
	if isNilConst(x) {
		x, y = y, x
	}
	if !isNilConst(y) {
		// the same two operands compared by an earlier branch (err == io.EOF, then err != io.EOF)
		sameOperand := func(u, v ssa.Value) bool {
			if u == v {
				return true
			}
			lu, ok1 := u.(*ssa.UnOp)
			lv, ok2 := v.(*ssa.UnOp)
			if ok1 && ok2 && lu.Op == token.MUL && lv.Op == token.MUL {
				gu, ok3 := lu.X.(*ssa.Global)
				gv, ok4 := lv.X.(*ssa.Global)
				// a package variable of another module: sentinels, never assigned by this program
				return ok3 && ok4 && gu == gv && gu.Pkg != nil && !strings.HasPrefix(gu.Pkg.Pkg.Path(), modPath)
			}
			cu, ok1 := u.(*ssa.Const)
			cv, ok2 := v.(*ssa.Const)
			if ok1 && ok2 && cu.Value != nil && cv.Value != nil && types.Identical(cu.Type(), cv.Type()) {
				return constant.Compare(cu.Value, token.EQL, cv.Value)
			}
			return false
		}
		for i := 0; i < at; i++ {
			blk := pa.Blocks[i]
			ifi, ok := blk.Instrs[len(blk.Instrs)-1].(*ssa.If)
			if !ok || i >= len(pa.Edge) || pa.Edge[i] < 0 {
				continue
			}
			c := pa.ResolveAt(ifi.Cond, i)
			n2 := false
			for {
				if u, ok := c.(*ssa.UnOp); ok && u.Op == token.NOT {
					n2 = !n2
					c = pa.ResolveAt(u.X, i)
					continue
				}
				break
			}
			b2, ok := c.(*ssa.BinOp)
			if !ok || (b2.Op != token.EQL && b2.Op != token.NEQ) {
				continue
			}
			x2, y2 := pa.ResolveAt(b2.X, i), pa.ResolveAt(b2.Y, i)
			if !(sameOperand(x, x2) && sameOperand(y, y2)) && !(sameOperand(x, y2) && sameOperand(y, x2)) {
				continue
			}
			condTrue := pa.Edge[i] == 0
			equal := (b2.Op == token.EQL) == (condTrue != n2)
			return ((b.Op == token.EQL) == equal) != neg, true
		}
		return false, false
	}
	if isNilConst(x) {
		return (b.Op == token.EQL) != neg, true
	}
	if p != nil && p.definitelyNonNil(x, 0) {
		return (b.Op == token.NEQ) != neg, true
	}
	// search earlier branches
	for i := 0; i < at; i++ {
		blk := pa.Blocks[i]
		ifi, ok := blk.Instrs[len(blk.Instrs)-1].(*ssa.If)
		if !ok {
			continue
		}
		c := pa.ResolveAt(ifi.Cond, i)
		n2 := false
		for {
			if u, ok := c.(*ssa.UnOp); ok && u.Op == token.NOT {
				n2 = !n2
				c = pa.ResolveAt(u.X, i)
				continue
			}
			break
		}
		b2, ok := c.(*ssa.BinOp)
		if !ok || (b2.Op != token.EQL && b2.Op != token.NEQ) {
			continue
		}
		x2, y2 := pa.ResolveAt(b2.X, i), pa.ResolveAt(b2.Y, i)
		if isNilConst(x2) {
			x2, y2 = y2, x2
		}
		if !isNilConst(y2) || x2 != x {
			continue
		}
		// truth of "x2 == nil" on this path
		condTrue := pa.Edge[i] == 0
		isNil := (b2.Op == token.EQL) == (condTrue != n2)
		return ((b.Op == token.EQL) == isNil) != neg, true
	}
	return false, false
}

// sameTest: two comparison instructions of the same operator over the same operands (go/ssa
// does not share them).
func sameTest(a, b ssa.Value) bool {
	if a == b {
		return true
	}
	x, ok1 := a.(*ssa.BinOp)
	y, ok2 := b.(*ssa.BinOp)
	if !ok1 || !ok2 || x.Op != y.Op {
		return false
	}
	switch x.Op {
	case token.EQL, token.NEQ, token.LSS, token.LEQ, token.GTR, token.GEQ:
	default:
		return false
	}
	same := func(u, v ssa.Value) bool {
		if u == v {
			return true
		}
		cu, ok1 := u.(*ssa.Const)
		cv, ok2 := v.(*ssa.Const)
		if ok1 && ok2 && types.Identical(cu.Type(), cv.Type()) {
			if cu.Value == nil || cv.Value == nil {
				return cu.Value == nil && cv.Value == nil
			}
			return constant.Compare(cu.Value, token.EQL, cv.Value)
		}
		return false
	}
	return same(x.X, y.X) && same(x.Y, y.Y)
}

// feasDominates: every path from the entry to b over feasible edges passes a.
func (p *Program) feasDominates(a, b *ssa.BasicBlock) bool {
	if a == b || a.Dominates(b) {
		return true
	}
	fn := b.Parent()
	seen := map[*ssa.BasicBlock]bool{a: true}
	work := []*ssa.BasicBlock{fn.Blocks[0]}
	if fn.Blocks[0] == a {
		return true
	}
	for len(work) > 0 {
		x := work[len(work)-1]
		work = work[:len(work)-1]
		if seen[x] {
			continue
		}
		seen[x] = true
		if x == b {
			return false
		}
		work = append(work, p.feasibleSuccs(x)...)
	}
	return true
}
