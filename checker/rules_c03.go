package main

import (
	"go/types"
	"strconv"
	"strings"

	"golang.org/x/tools/go/ssa"
)

func init() {
	register(&PropertyDef{
		ID: "C03",
		Explanation: "Structural necessary conditions of C03 decided on all CFG paths: (R03.1) the only return of age.Decrypt with a non-nil reader is dominated by the true edge of a full-length constant-time/byte equality between headerMAC(fileKey, hdr) and hdr.MAC; " +
			"(R03.2) the hdr that is MACed is the value returned by format.Parse and no function reachable from Decrypt stores to a field of format.Header/format.Stanza/age.Stanza outside fresh memory; " +
			"(R03.3) Stanza.Marshal/MarshalWithoutMAC serialise every field of the struct types (field list taken from go/types) over all recipients in order; (R03.4) Header.Marshal reaches the recipients only through MarshalWithoutMAC; " +
			"(R03.5) headerMAC's key-derivation recipe equals the specification table and its HMAC is fed by MarshalWithoutMAC only; (R03.6) every error return of Decrypt and stream.NewReader carries a nil reader. (R03.9) nothing takes the payload reader before the header-MAC comparison; (R03.10 = R07.6) no loop of the header reader takes a line and passes it over.",
		NotDecided:  "collision resistance of HMAC-SHA256; that the MACed bytes equal the received bytes (canonical parsing, see C07).",
		Assumptions: []string{"hmac.Equal/bytes.Equal/subtle.ConstantTimeCompare compare whole slices", "external identities passed by a caller do not mutate the stanzas they are given"},
		Run:         runC03,
	})
}

// equalityCalls are the comparison functions accepted for the MAC check.
var equalityCalls = map[string]bool{"crypto/hmac.Equal": true, "bytes.Equal": true}

func runC03(p *Program, r *Result) {
	dec := r.anchor(pkgAge, "", "Decrypt")
	hmacFn := r.anchor(pkgAge, "", "headerMAC")
	stMarshal := r.anchor(pkgFormat, "Stanza", "Marshal")
	hMarshalNoMAC := r.anchor(pkgFormat, "Header", "MarshalWithoutMAC")
	hMarshal := r.anchor(pkgFormat, "Header", "Marshal")
	newReader := r.anchor(pkgStream, "", "NewReader")
	if dec == nil || hmacFn == nil || stMarshal == nil || hMarshalNoMAC == nil || hMarshal == nil || newReader == nil {
		return
	}
	tb := p.TB(dec)
	sub := dec.String()

	// ---- R03.1
	r.Rule("R03.1", "a reader is returned only behind the full-length MAC comparison over headerMAC(fileKey, hdr) and hdr.MAC", 1)
	nSucc := 0
	for _, ret := range returnsOf(dec) {
		if len(ret.Results) != 2 || isNilConst(ret.Results[0]) {
			continue
		}
		nSucc++
		facts := tb.FactsAt(ret.Block())
		a, ok := findFact(facts, isHeaderMACEquality)
		if ok {
			// the MAC must be computed over the parsed header
			r.OK(sub, "return:reader", r.pos(ret), "", guardWitness(p, a))
		} else {
			r.Bad(sub, "return:reader", r.pos(ret), "a non-nil reader is returned on a path not dominated by equal(headerMAC(fileKey, hdr), hdr.MAC) over the whole slices; facts: "+short(factStrings(facts)))
		}
	}
	if nSucc == 0 {
		r.Unk(sub, "return:reader", "", "no return with a non-nil first result found")
	}

	// ---- R03.2
	r.Rule("R03.2", "the MAC is computed over the header as parsed: same value, and nobody reachable from Decrypt rewrites header or stanza fields", 3)
	for i, c := range callsTo(dec, hmacFn.String()) {
		args := c.Common().Args
		t := short(tb.Term(args[1]).String())
		r.Check(t == "format.Parse(P1).0", sub, callKey("headerMAC", i)+":hdr", r.pos(c),
			"hdr argument is the first result of format.Parse(src)", "headerMAC is given "+t+" instead of the header returned by format.Parse(src)")
	}
	// Decrypt itself must not touch the parsed header before (or after) MACing it
	{
		e := p.EffectsOf(dec)
		nobad := true
		for _, w := range e.Writes {
			for _, rt := range p.rootsOf(writeAddr(w), map[ssa.Value]bool{}, false, map[*ssa.Function]bool{}) {
				if rt.Kind == "callres" && strings.HasSuffix(rt.Name, "format.Parse") {
					nobad = false
					r.Bad(sub, "write:parsed-header:"+w.Field, r.pos(w.Instr), "Decrypt modifies the header returned by format.Parse ("+w.How+"): the MAC would be computed over something other than the header that was received")
				}
			}
		}
		if nobad {
			r.OK(sub, "parsed-header-untouched", "", "Decrypt performs no store, append or copy into memory of the parsed header")
		}
	}
	reach := p.Reachable(dec)
	r.CallSites += len(reach)
	protected := []string{pkgFormat + ".Header.", pkgFormat + ".Stanza.", pkgAge + ".Stanza."}
	nbad := 0
	for _, f := range sortedFuncs(reach) {
		e := p.EffectsOf(f)
		if e == nil {
			continue
		}
		r.Saw(f.String())
		for _, w := range e.Writes {
			hit := false
			for _, pr := range protected {
				if strings.HasPrefix(w.Field, pr) {
					hit = true
				}
			}
			if !hit || allFresh(w.Roots) {
				continue
			}
			nbad++
			r.Bad(f.String(), "write:"+w.Field, r.pos(w.Instr), "reachable from Decrypt and writes a header/stanza field through memory that is not freshly allocated ("+rootsString(w.Roots)+"): the header that is MACed or unwrapped may differ from the one parsed")
		}
	}
	if nbad == 0 {
		r.OK(sub, "reachable-writes", "", "no function reachable from Decrypt writes header/stanza fields of shared values")
	}

	// ---- R03.3
	r.Rule("R03.3", "the serialiser under the MAC covers every field of format.Stanza and every recipient of format.Header", 4)
	{
		sink := func(call ssa.CallInstruction, arg int) bool {
			c := call.Common()
			name := calleeName(c)
			stb := p.TB(stMarshal)
			switch name {
			case "invoke (io.Writer).Write":
				return arg == 1 && stb.Term(c.Value).String() == "P1"
			case "io.WriteString", "fmt.Fprintf", "fmt.Fprint", "fmt.Fprintln":
				return arg >= 1 && stb.Term(c.Args[0]).String() == "P1"
			case "(*" + pkgFormat + ".WrappedBase64Encoder).Write":
				if arg != 1 {
					return false
				}
				enc := short(stb.Term(c.Args[0]).String())
				return strings.HasPrefix(enc, "format.NewWrappedBase64Encoder(") && strings.HasSuffix(enc, ", P1)")
			}
			return false
		}
		st := stanzaStruct(p)
		if st == nil {
			r.Unk(pkgFormat+".Stanza", "struct", "", "type not found")
		} else {
			for i := 0; i < st.NumFields(); i++ {
				fname := st.Field(i).Name()
				found := false
				var where ssa.CallInstruction
				for _, b := range stMarshal.Blocks {
					for _, in := range b.Instrs {
						u, ok := in.(*ssa.UnOp)
						if !ok {
							continue
						}
						if fa, ok := isLoadOfField(u, fname); ok && fa.X == stMarshal.Params[0] {
							if c, ok := flowsToOpt(u, true, sink); ok {
								found, where = true, c
							}
						}
					}
				}
				if found {
					r.OK(stMarshal.String(), "field:"+fname, r.pos(where), "field value flows into a write on w", Witness{Kind: "call", Pos: r.pos(where), Text: calleeName(where.Common())})
				} else {
					r.Bad(stMarshal.String(), "field:"+fname, "", "field "+fname+" of format.Stanza is not written to w by Marshal: a change to it would not alter the MACed bytes")
				}
			}
		}
		// MarshalWithoutMAC: intro, every recipient in order, footer prefix
		loops := loopOver(hMarshalNoMAC, func(v ssa.Value) bool {
			fa, ok := isLoadOfField(v, "Recipients")
			return ok && fa.X == hMarshalNoMAC.Params[0]
		})
		okLoop := false
		if len(loops) == 1 {
			l := loops[0]
			for _, c := range callsTo(hMarshalNoMAC, stMarshal.String()) {
				if c.Block() != l.Body {
					continue
				}
				ht := p.TB(hMarshalNoMAC)
				recv := short(ht.Term(c.Common().Args[0]).String())
				w := ht.Term(c.Common().Args[1]).String()
				if recv == "Elem(Field(Recv.Recipients), (RangeIdx#1 + 1))" && w == "P1" {
					if _, ok := errCheckedWithExit(p, c); ok {
						okLoop = true
						r.OK(hMarshalNoMAC.String(), "loop:Recipients", r.pos(c), "range over all recipients, each marshalled to w in order, error returned")
					}
				}
			}
		}
		if !okLoop {
			r.Bad(hMarshalNoMAC.String(), "loop:Recipients", "", "MarshalWithoutMAC does not marshal every element of h.Recipients, in order, to w with the error checked")
		}
		// every field of Header other than MAC must be read by MarshalWithoutMAC
		if hs := headerStruct(p); hs != nil {
			for i := 0; i < hs.NumFields(); i++ {
				fname := hs.Field(i).Name()
				if fname == "MAC" {
					continue
				}
				read := false
				for _, b := range hMarshalNoMAC.Blocks {
					for _, in := range b.Instrs {
						if u, ok := in.(*ssa.UnOp); ok {
							if fa, ok := isLoadOfField(u, fname); ok && fa.X == hMarshalNoMAC.Params[0] {
								read = true
							}
						}
					}
				}
				r.Check(read, hMarshalNoMAC.String(), "hfield:"+fname, "", "field is read by the MACed serialiser", "field "+fname+" of format.Header is not covered by MarshalWithoutMAC, hence not by the header MAC")
			}
		}
	}

	// ---- R03.4
	r.Rule("R03.4", "what is MACed is what is written: Header.Marshal emits the recipients only through MarshalWithoutMAC", 1)
	{
		calls := callsTo(hMarshal, hMarshalNoMAC.String())
		ht := p.TB(hMarshal)
		ok := len(calls) == 1 && ht.Term(calls[0].Common().Args[0]).String() == "Recv" && ht.Term(calls[0].Common().Args[1]).String() == "P1"
		if ok {
			// no other write precedes it, and Marshal does not touch Recipients itself
			for _, c := range callsIn(hMarshal) {
				if c == calls[0] {
					continue
				}
				n := calleeName(c.Common())
				if n == stMarshal.String() {
					ok = false
				}
				if (strings.HasPrefix(n, "fmt.Fprint") || n == "io.WriteString" || n == "invoke (io.Writer).Write") && !dominatesInstr(calls[0].(ssa.Instruction), c.(ssa.Instruction)) {
					ok = false
				}
			}
			for _, b := range hMarshal.Blocks {
				for _, in := range b.Instrs {
					if u, isU := in.(*ssa.UnOp); isU {
						if _, isR := isLoadOfField(u, "Recipients"); isR {
							ok = false
						}
					}
				}
			}
		}
		pos := ""
		if len(calls) > 0 {
			pos = r.pos(calls[0])
		}
		r.Check(ok, hMarshal.String(), "call:MarshalWithoutMAC", pos, "first output of Marshal is MarshalWithoutMAC(w); recipients not touched otherwise",
			"Header.Marshal does not start with exactly one h.MarshalWithoutMAC(w), or serialises recipients on its own: written bytes may differ from MACed bytes")
	}

	// ---- R03.5
	r.Rule("R03.5", "headerMAC recipe equals the specification table", 2)
	{
		ht := p.TB(hmacFn)
		var got string
		var retPos string
		for _, ret := range returnsOf(hmacFn) {
			if len(ret.Results) == 2 && !isNilConst(ret.Results[0]) {
				got = short(ht.Term(ret.Results[0]).String())
				retPos = r.pos(ret)
			}
		}
		want := specRecipe(r, "headerMAC.result")
		r.Check(got == want, hmacFn.String(), "recipe:result", retPos, "term equals spec", "got  "+got+"\nwant "+want, Witness{Kind: "term", Text: got})
		// the HMAC state must be fed by MarshalWithoutMAC(hdr, hh) exactly, checked, before Sum
		sums := callsTo(hmacFn, "invoke (hash.Hash).Sum")
		feeds := callsTo(hmacFn, hMarshalNoMAC.String())
		ok := len(sums) == 1 && len(feeds) == 1
		if ok {
			hh := sums[0].Common().Value
			f := feeds[0].Common()
			ok = ht.Term(f.Args[0]).String() == "P2" && stripConv(f.Args[1]) == stripConv(hh) && dominatesInstr(feeds[0].(ssa.Instruction), sums[0].(ssa.Instruction))
			if ok {
				_, ok = errCheckedWithExit(p, feeds[0])
			}
			// no other use of the hash state
			if ok {
				for _, ref := range *stripConv(hh).Referrers() {
					switch ref.(type) {
					case *ssa.MakeInterface, *ssa.ChangeInterface, *ssa.DebugRef:
					default:
						if ref != feeds[0].(ssa.Instruction) && ref != sums[0].(ssa.Instruction) {
							ok = false
						}
					}
				}
			}
		}
		r.Check(ok, hmacFn.String(), "recipe:fed-by", "", "hmac state written only by hdr.MarshalWithoutMAC(hh), error checked, before Sum(nil)",
			"the HMAC is not fed by exactly hdr.MarshalWithoutMAC(hh) (checked) before Sum")
	}

	// ---- R03.7
	r.Rule("R03.7", "strict canonical parsing, so that the MACed serialisation equals the received bytes (= R07.1)", 16)
	if pf, rsf, ivf, df := r.anchor(pkgFormat, "", "Parse"), r.anchor(pkgFormat, "StanzaReader", "ReadStanza"), r.anchor(pkgFormat, "", "isValidString"), r.anchor(pkgFormat, "", "DecodeString"); pf != nil && rsf != nil && ivf != nil && df != nil {
		checkCanonicalParse(p, r, pf, rsf, ivf, df)
	}

	// ---- R03.6
	r.Rule("R03.6", "every error return carries a nil reader", 8)
	checkNothingOnError(p, r, dec, map[string]bool{newReader.String(): true})
	checkNothingOnError(p, r, newReader, nil)
	r.Rule("R03.10", "no line of the header is read and passed over (= R07.6)", 1)
	checkNoLineDiscarded(p, r)
	r.Rule("R03.9", "nothing is read from the payload before the header MAC has been compared (= R04.9)", 1)
	checkPayloadAfterMAC(p, r, dec)
	r.Rule("R03.8", "the header MAC is a function of the file key and the header alone: no package-level state in its computation", 1)
	checkNoPackageState(p, r, []*ssa.Function{r.anchor(pkgAge, "", "headerMAC"), r.anchor(pkgAge, "", "Decrypt")}, nil)
}

func rootsString(rs []Root) string {
	var s []string
	for _, r := range rs {
		s = append(s, r.String())
	}
	return strings.Join(s, ",")
}

func stanzaStruct(p *Program) *types.Struct {
	pk := p.ByPath[pkgFormat]
	if pk == nil {
		return nil
	}
	o := pk.Types.Scope().Lookup("Stanza")
	if o == nil {
		return nil
	}
	st, _ := o.Type().Underlying().(*types.Struct)
	return st
}

func headerStruct(p *Program) *types.Struct {
	pk := p.ByPath[pkgFormat]
	if pk == nil {
		return nil
	}
	o := pk.Types.Scope().Lookup("Header")
	if o == nil {
		return nil
	}
	st, _ := o.Type().Underlying().(*types.Struct)
	return st
}

// checkNothingOnError: each return of fn is (nil.., err) or (value.., nil),
// or forwards all results of one call to a function in okTail.
func checkNothingOnError(p *Program, r *Result, fn *ssa.Function, okTail map[string]bool) {
	n := fn.Signature.Results().Len()
	ei := errorResultIndex(fn.Signature)
	if ei < 0 {
		return
	}
	for i, ret := range returnsOf(fn) {
		key := "return#" + itoa(i)
		errv := ret.Results[ei]
		if isNilConst(errv) {
			r.OK(fn.String(), key, r.pos(ret), "success return")
			continue
		}
		allNil := true
		for j := 0; j < n; j++ {
			if j != ei && !isZeroValue(ret.Results[j]) {
				allNil = false
			}
		}
		if allNil {
			r.OK(fn.String(), key, r.pos(ret), "error return with zero results")
			continue
		}
		// tail call forwarding
		if ex, ok := stripConv(errv).(*ssa.Extract); ok {
			if call, ok := ex.Tuple.(*ssa.Call); ok && okTail[calleeName(&call.Call)] {
				fwd := true
				for j := 0; j < n; j++ {
					e2, ok := stripConv(ret.Results[j]).(*ssa.Extract)
					if !ok || e2.Tuple != call || e2.Index != j {
						fwd = false
					}
				}
				if fwd {
					r.OK(fn.String(), key, r.pos(ret), "forwards the results of "+short(calleeName(&call.Call))+", which itself returns nothing on error")
					continue
				}
			}
		}
		r.Bad(fn.String(), key, r.pos(ret), "a return that may carry a non-nil error also carries a non-nil value: "+short(p.TB(fn).Term(ret.Results[0]).String()))
	}
}

func isZeroValue(v ssa.Value) bool {
	c, ok := stripConv(v).(*ssa.Const)
	if !ok {
		return false
	}
	if c.IsNil() || c.Value == nil {
		return true
	}
	s := c.Value.ExactString()
	return s == "0" || s == `""` || s == "false"
}

func itoa(i int) string { return strconv.Itoa(i) }

// isHeaderMACEquality: the fact equal(headerMAC(fileKey, hdr), hdr.MAC) over the whole slices.
func isHeaderMACEquality(a Atom) bool {
	var call *Term
	switch {
	case a.Kind == "call" && a.Pol && equalityCalls[a.Call.S]:
		call = a.Call
	case a.Kind == "cmp" && a.Op == "==" && a.Y.Op == "Const" && a.Y.S == "1" && a.X.Op == "Call" && a.X.S == "crypto/subtle.ConstantTimeCompare":
		call = a.X
	default:
		return false
	}
	if len(call.Args) != 2 {
		return false
	}
	x, y := short(call.Args[0].String()), short(call.Args[1].String())
	isMac := func(s string) bool { return strings.HasPrefix(s, "age.headerMAC(") && strings.HasSuffix(s, ").0") }
	isHdrMAC := func(s string) bool { return s == "Field(format.Parse(P1).0.MAC)" }
	return (isMac(x) && isHdrMAC(y)) || (isMac(y) && isHdrMAC(x))
}

// checkPayloadAfterMAC (R03.9 = R04.9): nothing takes the payload reader that format.Parse hands
// back before the header MAC has been compared. A payload byte consumed earlier makes the outcome
// for a header that is refused (altered header, no matching identity) depend on what follows the
// header: a source that ends or fails there turns the no-match error into a read error.
func checkPayloadAfterMAC(p *Program, r *Result, dec *ssa.Function) {
	tb := p.TB(dec)
	n := 0
	for _, c := range callsIn(dec) {
		uses := false
		for _, a := range c.Common().Args {
			if short(tb.Term(a).String()) == "format.Parse(P1).1" {
				uses = true
			}
		}
		if !uses {
			continue
		}
		n++
		_, ok := findFact(tb.FactsAt(c.Block()), isHeaderMACEquality)
		r.Check(ok, dec.String(), "payload-use:"+short(calleeName(c.Common())), r.pos(c), "the payload is first touched behind the MAC comparison", "the payload reader is used by "+short(calleeName(c.Common()))+" before the header MAC has been compared: what follows the header (a cut-off or failing source) then decides how a header that must be refused is refused; the no-match error and the MAC error no longer depend on header and identities alone")
	}
	if n == 0 {
		r.Unk(dec.String(), "payload-use", "", "no use of the payload reader returned by format.Parse found in Decrypt")
	}
}
