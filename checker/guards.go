package main

// E1 — guards: the facts that hold at a basic block because of dominating
// branch edges, normalised into atoms over E3 terms.

import (
	"go/constant"
	"go/token"
	"go/types"
	"sort"
	"strconv"
	"strings"

	"golang.org/x/tools/go/ssa"
)

// Guard is one dominating branch edge.
type Guard struct {
	If   *ssa.If
	Cond ssa.Value
	Pol  bool // the condition is known to be Pol at the guarded block
}

// guardsAt lists the branch edges that dominate block b: edge D->S counts iff
// S dominates b (or is b) and every other predecessor of S is dominated by S.
func (p *Program) guardsAt(b *ssa.BasicBlock) []Guard {
	return p.guardsAtDepth(b, 0)
}

func (p *Program) guardsAtDepth(b *ssa.BasicBlock, depth int) []Guard {
	out := p.directGuardsAt(b)
	if depth >= 4 {
		return out
	}
	// a guard on a merged value (`err != nil` after a block whose exits assign err) selects
	// the incoming edges that can produce it: what holds on all of them holds here as well
	seen := map[guardKey]bool{}
	for _, g := range out {
		seen[guardKey{g.If, g.Pol, g.Cond}] = true
	}
	// threaded guards are threaded in turn (a && b && c; a spliced predicate inside another)
	for i := 0; i < len(out) && i < 96; i++ {
		for _, g := range p.threadGuard(out[i], depth) {
			if !seen[guardKey{g.If, g.Pol, g.Cond}] {
				seen[guardKey{g.If, g.Pol, g.Cond}] = true
				out = append(out, g)
			}
		}
	}
	return out
}

type guardKey struct {
	If   *ssa.If
	Pol  bool
	Cond ssa.Value
}

// threadGuard: for a guard whose condition tests a Phi against a constant (or
// is a boolean Phi), the guards common to every incoming edge whose value can
// satisfy the condition.
func (p *Program) threadGuard(g Guard, depth int) []Guard {
	merged, can, nilTest := p.mergeTest(g)
	if merged == nil {
		return nil
	}
	out := p.threadMerged(merged, can, nilTest, depth)
	// a boolean merge (`a && b`, a spliced predicate) that is known true/false and has a single
	// incoming edge that can produce that: the value arriving on that edge is the condition
	if phi, ok := merged.(*ssa.Phi); ok && nilTest == 0 {
		if bt, isB := phi.Type().Underlying().(*types.Basic); isB && bt.Kind() == types.Bool {
			pol := g.Pol
			v := g.Cond
			for {
				if u, ok := v.(*ssa.UnOp); ok && u.Op == token.NOT {
					v, pol = u.X, !pol
					continue
				}
				break
			}
			if v == ssa.Value(phi) {
				idx, n := -1, 0
				for i := range phi.Edges {
					if p.edgeCan(phi, i, can, 0) {
						idx = i
						n++
					}
				}
				// (not through a back edge: what held when the previous iteration computed the
				// value is about that iteration's loop variables, not the current ones)
				if n == 1 && !phi.Block().Dominates(phi.Block().Preds[idx]) {
					if _, isConst := phi.Edges[idx].(*ssa.Const); !isConst {
						out = append(out, Guard{If: g.If, Cond: phi.Edges[idx], Pol: pol})
					}
				}
			}
		}
	}
	return out
}

// mergeTest: the merged value (Phi or cell load) a guard tests against a
// constant, and the predicate "this incoming value may satisfy the test".
func (p *Program) mergeTest(g Guard) (ssa.Value, func(ssa.Value) bool, int) {
	v := g.Cond
	pol := g.Pol
	for {
		if u, ok := v.(*ssa.UnOp); ok && u.Op == token.NOT {
			v, pol = u.X, !pol
			continue
		}
		break
	}
	// the merged value: a Phi, or a load from a local cell (a variable captured by a
	// deferred closure, e.g. a named result) with its reaching stores
	var merged ssa.Value
	isNilTest, wantEqOut := false, false
	var can func(in ssa.Value) bool // may the incoming value satisfy the condition?
	isMerge := func(v ssa.Value) bool {
		if _, ok := v.(*ssa.Phi); ok {
			return true
		}
		if u, ok := v.(*ssa.UnOp); ok && u.Op == token.MUL {
			_, isCell := u.X.(*ssa.Alloc)
			return isCell
		}
		return false
	}
	switch x := v.(type) {
	case *ssa.Phi, *ssa.UnOp:
		if !isMerge(v) {
			return nil, nil, 0
		}
		merged = v
		can = func(in ssa.Value) bool {
			if c, ok := in.(*ssa.Const); ok && c.Value != nil && c.Value.Kind() == constant.Bool {
				return constant.BoolVal(c.Value) == pol
			}
			return true
		}
	case *ssa.BinOp:
		if x.Op != token.EQL && x.Op != token.NEQ {
			return nil, nil, 0
		}
		wantEq := (x.Op == token.EQL) == pol
		wantEqOut = wantEq
		ph, c := x.X, x.Y
		if !isMerge(ph) {
			ph, c = x.Y, x.X
		}
		if !isMerge(ph) {
			return nil, nil, 0
		}
		merged = ph
		k, ok := c.(*ssa.Const)
		if !ok {
			return nil, nil, 0
		}
		isNilTest = k.Value == nil
		can = func(in ssa.Value) bool {
			if in == nil { // zero value of the cell
				return k.Value == nil && wantEq || k.Value != nil
			}
			if k.Value == nil { // comparison with nil
				if wantEq {
					return !p.definitelyNonNil(in, 0)
				}
				ic, isConst := in.(*ssa.Const)
				return !(isConst && ic.Value == nil)
			}
			if ic, isConst := in.(*ssa.Const); isConst && ic.Value != nil {
				same := constant.Compare(ic.Value, token.EQL, k.Value)
				return same == wantEq
			}
			return true
		}
	default:
		return nil, nil, 0
	}
	nilTest := 0
	if isNilTest {
		nilTest = -1
		if wantEqOut {
			nilTest = 1
		}
	}
	return p.resolveMerge(merged), can, nilTest
}

// resolveMerge follows a cell load with one reaching store to the stored value.
func (p *Program) resolveMerge(v ssa.Value) ssa.Value {
	for i := 0; i < 4; i++ {
		load, ok := v.(*ssa.UnOp)
		if !ok || load.Op != token.MUL {
			return v
		}
		stores, ok := reachingStores(load)
		if !ok || len(stores) != 1 || stores[0] == nil {
			return v
		}
		st := stores[0]
		def, isInstr := st.Val.(ssa.Instruction)
		if !isInstr {
			return v
		}
		// the stored value must not be recomputed between the store and the load
		if def.Block() != st.Block() && reachesAvoiding(st.Block(), def.Block(), st.Block()) && reachesAvoiding(def.Block(), load.Block(), st.Block()) {
			return v
		}
		if _, isPhi := st.Val.(*ssa.Phi); isPhi {
			return st.Val
		}
		if u, isLoad := st.Val.(*ssa.UnOp); isLoad && u.Op == token.MUL {
			v = st.Val
			continue
		}
		return v
	}
	return v
}

// reachesAvoiding: is `to` reachable from `from` (through at least one edge) without entering `avoid`?
func reachesAvoiding(from, to, avoid *ssa.BasicBlock) bool {
	seen := map[*ssa.BasicBlock]bool{}
	work := append([]*ssa.BasicBlock{}, from.Succs...)
	for len(work) > 0 {
		b := work[len(work)-1]
		work = work[:len(work)-1]
		if seen[b] || b == avoid {
			continue
		}
		seen[b] = true
		if b == to {
			return true
		}
		work = append(work, b.Succs...)
	}
	return false
}

// feasiblePhiEdges: for a guard that tests a Phi, the incoming edges that can satisfy it.
func (p *Program) feasiblePhiEdges(g Guard) (*ssa.Phi, []bool) {
	merged, can, nilTest := p.mergeTest(g)
	phi, ok := merged.(*ssa.Phi)
	if !ok {
		return nil, nil
	}
	out := make([]bool, len(phi.Edges))
	for i := range phi.Edges {
		out[i] = p.edgeCan(phi, i, can, nilTest)
	}
	return phi, out
}

// feasibleEdgesAt: for the guards in force at block b, the merge blocks whose
// incoming edges are restricted (edge index -> feasible).
func (p *Program) feasibleEdgesAt(b *ssa.BasicBlock) map[*ssa.BasicBlock][]bool {
	var out map[*ssa.BasicBlock][]bool
	for _, g := range p.guardsAt(b) {
		phi, fe := p.feasiblePhiEdges(g)
		if phi == nil {
			continue
		}
		// the guard must speak about the latest execution of the merge block
		if !phi.Block().Dominates(b) {
			continue
		}
		if out == nil {
			out = map[*ssa.BasicBlock][]bool{}
		}
		if old, ok := out[phi.Block()]; ok {
			for i := range old {
				old[i] = old[i] && fe[i]
			}
		} else {
			out[phi.Block()] = fe
		}
	}
	return out
}

func (p *Program) threadMerged(merged ssa.Value, can func(ssa.Value) bool, nilTest int, depth int) []Guard {
	var common map[guardKey]Guard
	feasible := 0
	meet := func(gs []Guard) {
		m := map[guardKey]Guard{}
		for _, x := range gs {
			m[guardKey{x.If, x.Pol, x.Cond}] = x
		}
		if common == nil {
			common = m
		} else {
			for key := range common {
				if _, ok := m[key]; !ok {
					delete(common, key)
				}
			}
		}
	}
	if phi, ok := merged.(*ssa.Phi); ok {
		pb := phi.Block()
		for i := range phi.Edges {
			if !p.edgeCan(phi, i, can, nilTest) {
				continue
			}
			pr := pb.Preds[i]
			if pb.Dominates(pr) {
				return nil // a feasible back edge: no refinement
			}
			feasible++
			k := 0
			for j, s := range pr.Succs {
				if s == pb {
					k = j
				}
			}
			gs := append([]Guard{}, p.guardsAtDepth(pr, depth+1)...)
			if ifi, ok := pr.Instrs[len(pr.Instrs)-1].(*ssa.If); ok && pr.Succs[0] != pr.Succs[1] {
				gs = append(gs, Guard{If: ifi, Cond: ifi.Cond, Pol: k == 0})
			}
			meet(gs)
		}
	} else {
		load := merged.(*ssa.UnOp)
		stores, ok := reachingStores(load)
		if !ok {
			return nil
		}
		for _, st := range stores {
			if st == nil {
				if can(nil) {
					return nil // the zero value may satisfy the test: nothing to import
				}
				continue
			}
			if !p.phiCan(st.Val, can, 0) {
				continue
			}
			feasible++
			var gs []Guard
			for _, x := range p.guardsAtDepth(st.Block(), depth+1) {
				// a guard evaluated again between the store and the load would be stale
				if !cfgReaches(st.Block(), x.If.Block()) {
					gs = append(gs, x)
				}
			}
			meet(gs)
		}
	}
	if feasible == 0 {
		return nil
	}
	var out []Guard
	for _, x := range common {
		out = append(out, x)
	}
	sort.Slice(out, func(i, j int) bool {
		if out[i].If.Pos() != out[j].If.Pos() {
			return out[i].If.Pos() < out[j].If.Pos()
		}
		if out[i].If.Block().Index != out[j].If.Block().Index {
			return out[i].If.Block().Index < out[j].If.Block().Index
		}
		return !out[i].Pol && out[j].Pol
	})
	return out
}

// cfgReaches: is `to` reachable from `from` through at least one edge?
func cfgReaches(from, to *ssa.BasicBlock) bool {
	seen := map[*ssa.BasicBlock]bool{}
	work := append([]*ssa.BasicBlock{}, from.Succs...)
	for len(work) > 0 {
		b := work[len(work)-1]
		work = work[:len(work)-1]
		if seen[b] {
			continue
		}
		seen[b] = true
		if b == to {
			return true
		}
		work = append(work, b.Succs...)
	}
	return false
}

// reachingStores: the stores to a local cell that may be the last one before
// the load (nil stands for the zero value at function entry). The cell must
// be used only by stores, loads and closures that run deferred.
func reachingStores(load *ssa.UnOp) ([]*ssa.Store, bool) {
	cell, ok := load.X.(*ssa.Alloc)
	if !ok || cell.Referrers() == nil {
		return nil, false
	}
	for _, r := range *cell.Referrers() {
		switch x := r.(type) {
		case *ssa.Store:
			if x.Addr != cell {
				return nil, false
			}
		case *ssa.UnOp:
			if x.Op != token.MUL {
				return nil, false
			}
		case *ssa.DebugRef:
		case *ssa.MakeClosure:
			if x.Referrers() != nil {
				for _, rr := range *x.Referrers() {
					if _, isDefer := rr.(*ssa.Defer); !isDefer {
						return nil, false
					}
				}
			}
		default:
			return nil, false
		}
	}
	lastStoreIn := func(b *ssa.BasicBlock, before ssa.Instruction) (*ssa.Store, bool) {
		var last *ssa.Store
		for _, in := range b.Instrs {
			if in == before {
				break
			}
			if _, isRD := in.(*ssa.RunDefers); isRD {
				return nil, false
			}
			if st, ok := in.(*ssa.Store); ok && st.Addr == cell {
				last = st
			}
		}
		return last, true
	}
	var out []*ssa.Store
	st, ok := lastStoreIn(load.Block(), load)
	if !ok {
		return nil, false
	}
	if st != nil {
		return []*ssa.Store{st}, true
	}
	seen := map[*ssa.BasicBlock]bool{}
	work := append([]*ssa.BasicBlock{}, load.Block().Preds...)
	if len(load.Block().Preds) == 0 {
		out = append(out, nil)
	}
	for len(work) > 0 {
		b := work[len(work)-1]
		work = work[:len(work)-1]
		if seen[b] {
			continue
		}
		seen[b] = true
		st, ok := lastStoreIn(b, nil)
		if !ok {
			return nil, false
		}
		if st != nil {
			out = append(out, st)
			continue
		}
		if len(b.Preds) == 0 {
			out = append(out, nil)
			continue
		}
		work = append(work, b.Preds...)
	}
	return out, true
}

// edgeCan: can the value arriving on edge i satisfy the test, also given what
// the guards at the predecessor say about its nil-ness?
func (p *Program) edgeCan(phi *ssa.Phi, i int, can func(ssa.Value) bool, nilTest int) bool {
	in := phi.Edges[i]
	if !p.phiCan(in, can, 0) {
		return false
	}
	if nilTest == 0 {
		return true
	}
	pr := phi.Block().Preds[i]
	gs := append([]Guard{}, p.directGuardsAt(pr)...)
	if ifi, ok := pr.Instrs[len(pr.Instrs)-1].(*ssa.If); ok && pr.Succs[0] != pr.Succs[1] {
		for k, sb := range pr.Succs {
			if sb == phi.Block() {
				gs = append(gs, Guard{If: ifi, Cond: ifi.Cond, Pol: k == 0})
			}
		}
	}
	for _, g := range gs {
		v, pol := g.Cond, g.Pol
		for {
			if u, ok := v.(*ssa.UnOp); ok && u.Op == token.NOT {
				v, pol = u.X, !pol
				continue
			}
			break
		}
		b, ok := v.(*ssa.BinOp)
		if !ok || (b.Op != token.EQL && b.Op != token.NEQ) {
			continue
		}
		x, y := b.X, b.Y
		if isNilConst(x) {
			x, y = y, x
		}
		if !isNilConst(y) || x != in {
			continue
		}
		isNil := (b.Op == token.EQL) == pol
		if isNil != (nilTest == 1) {
			return false
		}
	}
	return true
}

// phiCan: can the incoming value (possibly itself a Phi) satisfy the test?
func (p *Program) phiCan(in ssa.Value, can func(ssa.Value) bool, depth int) bool {
	if ph, ok := in.(*ssa.Phi); ok && depth < 4 {
		for _, e := range ph.Edges {
			if p.phiCan(e, can, depth+1) {
				return true
			}
		}
		return false
	}
	return can(in)
}

// definitelyNonNil: the value cannot be a nil interface/pointer.
func (p *Program) definitelyNonNil(v ssa.Value, depth int) bool {
	if depth > 4 {
		return false
	}
	switch x := v.(type) {
	case *ssa.MakeInterface, *ssa.Alloc, *ssa.MakeClosure, *ssa.MakeMap, *ssa.MakeChan, *ssa.MakeSlice, *ssa.Function, *ssa.Global:
		return true
	case *ssa.ChangeInterface:
		return p.definitelyNonNil(x.X, depth+1)
	case *ssa.UnOp:
		// a sentinel error variable: io.EOF, io.ErrUnexpectedEOF, ... and the module's own
		// sentinels, assigned once by the package initialiser
		g, ok := x.X.(*ssa.Global)
		if !ok || x.Op != token.MUL || g.Pkg == nil {
			return false
		}
		if !isErrorType(g.Type().(*types.Pointer).Elem()) {
			return false
		}
		pp := g.Pkg.Pkg.Path()
		if pp != modPath && !strings.HasPrefix(pp, modPath+"/") {
			return g.Name() == "EOF" || strings.HasPrefix(g.Name(), "Err")
		}
		n := 0
		for _, u := range p.globalUses(g) {
			st, isStore := u.(*ssa.Store)
			if !isStore {
				continue // loads
			}
			if st.Addr != ssa.Value(g) || st.Parent().Name() != "init" || !p.definitelyNonNil(st.Val, depth+1) {
				return false
			}
			n++
		}
		return n == 1
	case *ssa.Phi:
		for _, e := range x.Edges {
			if !p.definitelyNonNil(e, depth+1) {
				return false
			}
		}
		return true
	case *ssa.Call:
		switch calleeName(x.Common()) {
		case "fmt.Errorf", "errors.New":
			return true
		}
		if f := x.Common().StaticCallee(); f != nil && p.inModule(f) && f.Blocks != nil && f.Signature.Results().Len() == 1 {
			return p.alwaysNonNil(f, depth+1)
		}
	}
	return false
}

func (p *Program) alwaysNonNil(f *ssa.Function, depth int) bool {
	p.nnMu.Lock()
	if v, ok := p.nonnil[f]; ok {
		p.nnMu.Unlock()
		return v
	}
	if p.nonnil == nil {
		p.nonnil = map[*ssa.Function]bool{}
	}
	p.nonnil[f] = false // recursion guard
	p.nnMu.Unlock()
	res := true
	n := 0
	for _, ret := range returnsOf(f) {
		rs := resultsOf(ret)
		if len(rs) != 1 || !p.definitelyNonNil(rs[0], depth) {
			res = false
		}
		n++
	}
	if n == 0 {
		res = false
	}
	p.nnMu.Lock()
	p.nonnil[f] = res
	p.nnMu.Unlock()
	return res
}

func (p *Program) directGuardsAt(b *ssa.BasicBlock) []Guard {
	var out []Guard
	for d := b.Idom(); d != nil; d = d.Idom() {
		if len(d.Instrs) == 0 {
			continue
		}
		ifi, ok := d.Instrs[len(d.Instrs)-1].(*ssa.If)
		if !ok {
			continue
		}
		if d.Succs[0] == d.Succs[1] {
			continue
		}
		for k, s := range d.Succs {
			if s != b && !s.Dominates(b) {
				continue
			}
			okEdge := true
			for _, pr := range s.Preds {
				if pr == d {
					continue
				}
				if p != nil && p.deadEnd(pr) {
					continue // control never arrives from a block that ends in a no-return call or panic
				}
				if pr != s && !s.Dominates(pr) {
					okEdge = false
					break
				}
			}
			if okEdge {
				out = append(out, Guard{If: ifi, Cond: ifi.Cond, Pol: k == 0})
			}
		}
	}
	return out
}

// edgeGuards returns the guards that hold when control leaves block d through
// successor index k: the guards at d plus the branch itself.
func (p *Program) edgeGuards(d *ssa.BasicBlock, k int) []Guard {
	out := append([]Guard{}, p.guardsAt(d)...)
	if ifi, ok := d.Instrs[len(d.Instrs)-1].(*ssa.If); ok && d.Succs[0] != d.Succs[1] {
		out = append(out, Guard{If: ifi, Cond: ifi.Cond, Pol: k == 0})
	}
	return out
}

// Atom is a normalised fact.
//
//	Kind "cmp":  X Op Y   (Op already reflects the polarity)
//	Kind "call": the boolean call Call is Pol
//	Kind "bool": the boolean value X is Pol
type Atom struct {
	Kind string
	Op   string
	X, Y *Term
	Call *Term
	Pol  bool
	If   *ssa.If
}

func (a Atom) String() string {
	switch a.Kind {
	case "cmp":
		return a.X.String() + " " + a.Op + " " + a.Y.String()
	case "call":
		if a.Pol {
			return a.Call.String()
		}
		return "!" + a.Call.String()
	}
	if a.Pol {
		return a.X.String()
	}
	return "!" + a.X.String()
}

var negOp = map[string]string{"==": "!=", "!=": "==", "<": ">=", ">=": "<", ">": "<=", "<=": ">"}
var swapOp = map[string]string{"==": "==", "!=": "!=", "<": ">", ">": "<", "<=": ">=", ">=": "<="}

func isConstTerm(t *Term) bool { return t != nil && (t.Op == "Const" || t.Op == "Nil") }

func intConst(t *Term) (int64, bool) {
	if t == nil || t.Op != "Const" {
		return 0, false
	}
	n, err := strconv.ParseInt(t.S, 10, 64)
	return n, err == nil
}

func isLenTerm(t *Term) bool { return t != nil && t.Op == "Call" && t.S == "len" }

// atomOf normalises one guard. Comparisons put constants on the right,
// integer bounds are closed (x < c  ==>  x <= c-1), lengths compared with
// zero use == / !=, and s == "" becomes len(s) == 0.
func (tb *TB) atomOf(g Guard) Atom { return tb.atomOfRes(g, nil) }

// atomOfRes is atomOf with the operands of a comparison passed through res
// first (used to resolve Phis along an enumerated path).
func (tb *TB) atomOfRes(g Guard, res func(ssa.Value) ssa.Value) Atom {
	if res == nil {
		res = func(v ssa.Value) ssa.Value { return v }
	}
	v := res(g.Cond)
	pol := g.Pol
	for {
		if u, ok := v.(*ssa.UnOp); ok && u.Op == token.NOT {
			v = res(u.X)
			pol = !pol
			continue
		}
		// b == true, b != false, ... are b (or its negation)
		if bo, ok := v.(*ssa.BinOp); ok && (bo.Op == token.EQL || bo.Op == token.NEQ) {
			other, k := bo.X, bo.Y
			if _, isC := other.(*ssa.Const); isC {
				other, k = k, other
			}
			if kc, isC := k.(*ssa.Const); isC && kc.Value != nil && kc.Value.Kind() == constant.Bool {
				if _, otherConst := other.(*ssa.Const); !otherConst {
					if constant.BoolVal(kc.Value) != (bo.Op == token.EQL) {
						pol = !pol
					}
					v = res(other)
					continue
				}
			}
		}
		// a merge with one incoming value (the result of a spliced single-return helper)
		if ph, ok := v.(*ssa.Phi); ok && len(ph.Edges) > 0 {
			same := true
			for _, e := range ph.Edges[1:] {
				if e != ph.Edges[0] {
					same = false
				}
			}
			if same {
				v = res(ph.Edges[0])
				continue
			}
		}
		break
	}
	switch x := v.(type) {
	case *ssa.BinOp:
		op := x.Op.String()
		if _, ok := negOp[op]; ok {
			X, Y := tb.Term(res(x.X)), tb.Term(res(x.Y))
			if !pol {
				op = negOp[op]
			}
			if isConstTerm(X) && !isConstTerm(Y) {
				X, Y = Y, X
				op = swapOp[op]
			}
			// s == ""  ->  len(s) == 0
			if Y.Op == "Const" && Y.S == `""` && (op == "==" || op == "!=") {
				X = mk("Call", "len", nil, X)
				Y = mk("Const", "0", nil)
			}
			if c, ok := intConst(Y); ok {
				switch op {
				case "<":
					op, c = "<=", c-1
				case ">":
					op, c = ">=", c+1
				}
				if isLenTerm(X) {
					if op == "<=" && c == 0 {
						op = "=="
					}
					if op == ">=" && c == 1 {
						op, c = "!=", 0
					}
				}
				Y = mk("Const", strconv.FormatInt(c, 10), nil)
			}
			return Atom{Kind: "cmp", Op: op, X: X, Y: Y, Pol: true, If: g.If}
		}
	case *ssa.Call:
		// bytes.Equal(a, b) is a == b on the contents (string(a) == string(b))
		if n := tb.resolvedCalleeName(&x.Call); n == "bytes.Equal" && len(x.Call.Args) == 2 {
			X, Y := tb.Term(res(x.Call.Args[0])), tb.Term(res(x.Call.Args[1]))
			if isConstTerm(X) && !isConstTerm(Y) {
				X, Y = Y, X
			}
			op := "=="
			if !pol {
				op = "!="
			}
			return Atom{Kind: "cmp", Op: op, X: X, Y: Y, Pol: true, If: g.If}
		}
		return Atom{Kind: "call", Call: tb.Term(x), Pol: pol, If: g.If}
	case *ssa.Const:
		if x.Value != nil && x.Value.Kind() == constant.Bool {
			return Atom{Kind: "bool", X: tb.Term(x), Pol: pol, If: g.If}
		}
	}
	return Atom{Kind: "bool", X: tb.Term(v), Pol: pol, If: g.If}
}

// FactsAt returns the normalised atoms that hold on entry to block b.
func (tb *TB) FactsAt(b *ssa.BasicBlock) []Atom {
	return tb.importFacts(tb.FactsAtRaw(b), 0)
}

// FactsAtRaw: the facts of this function only (no import from helpers).
func (tb *TB) FactsAtRaw(b *ssa.BasicBlock) []Atom {
	var out []Atom
	for _, g := range tb.p.guardsAt(b) {
		// a constant condition (the copy of a test behind `result = true` in a spliced
		// predicate) says nothing
		if c, isConst := g.Cond.(*ssa.Const); isConst && c.Value != nil && c.Value.Kind() == constant.Bool {
			continue
		}
		a := tb.atomOf(g)
		// so does "a freshly made error is not nil" (the copy of the caller's error test behind
		// `return errors.New(..)` in a spliced helper)
		if a.Kind == "cmp" && a.Op == "!=" && a.Y != nil && a.Y.Op == "Nil" && a.X != nil && a.X.V != nil && a.X.Op != "Phi" && tb.p.definitelyNonNil(a.X.V, 0) {
			continue
		}
		out = append(out, a)
		// `merge == nil` where the merge has exactly one nil way in and nothing but freshly made
		// errors on the others (the error of a spliced checking helper): control came that way,
		// so what holds on it holds here
		if a.Kind == "cmp" && a.Op == "==" && a.Y != nil && a.Y.Op == "Nil" && a.X != nil {
			if ph, isPhi := a.X.V.(*ssa.Phi); isPhi && ph.Block() != b {
				nilIdx, okShape := -1, true
				for i, e := range ph.Edges {
					if isNilConst(e) {
						if nilIdx >= 0 {
							okShape = false
						}
						nilIdx = i
					} else if !tb.p.definitelyNonNil(e, 0) {
						okShape = false
					}
				}
				if okShape && nilIdx >= 0 && tb.phiDepth < 2 {
					tb.phiDepth++
					out = append(out, tb.FactsAtRaw(ph.Block().Preds[nilIdx])...)
					tb.phiDepth--
				}
			}
		}
	}
	return out
}

func (tb *TB) FactsOnEdge(d *ssa.BasicBlock, k int) []Atom {
	var out []Atom
	for _, g := range tb.p.edgeGuards(d, k) {
		out = append(out, tb.atomOf(g))
	}
	return tb.importFacts(out, 0)
}

// hasFact looks for an atom whose printed form equals want.
func hasFact(facts []Atom, want string) (Atom, bool) {
	for _, a := range facts {
		if a.String() == want {
			return a, true
		}
	}
	return Atom{}, false
}

// findFact returns the first atom satisfying pred.
func findFact(facts []Atom, pred func(Atom) bool) (Atom, bool) {
	for _, a := range facts {
		if pred(a) {
			return a, true
		}
	}
	return Atom{}, false
}

func factStrings(facts []Atom) string {
	var s []string
	for _, a := range facts {
		s = append(s, a.String())
	}
	return strings.Join(s, " ; ")
}

// errNilFact: is there a fact "<call>.k == nil" (isNil) or "!= nil" for the
// error result of the given call value?
func errFactFor(facts []Atom, call ssa.Value, wantNil bool) (Atom, bool) {
	return findFact(facts, func(a Atom) bool {
		if a.Kind != "cmp" || a.Y.Op != "Nil" {
			return false
		}
		if (a.Op == "==") != wantNil {
			return false
		}
		x := a.X
		if x.Op == "Ext" {
			// the error result of the call, not one of its other results
			if ex, ok := x.V.(*ssa.Extract); ok && !isErrorType(ex.Type()) {
				return false
			}
			x = x.Args[0]
		}
		return x.V == call
	})
}

// deadEnd: control cannot leave the block through its successors because it
// contains a call to a no-return function (or ends in a panic).
func (p *Program) deadEnd(b *ssa.BasicBlock) bool {
	for _, in := range b.Instrs {
		if p.callNoReturnCached(in) {
			return true
		}
		if _, ok := in.(*ssa.Panic); ok {
			return true
		}
	}
	return false
}

// usedEdges: the incoming edges of a Phi whose value can be observed by some
// use of the Phi, given the tests on sibling merged values that guard each
// use (`v, err := f(); if err != nil { return }; use(v)`); nil = no restriction.
func (p *Program) usedEdges(ph *ssa.Phi) []bool {
	p.ueMu.Lock()
	if v, ok := p.usedEdge[ph]; ok {
		p.ueMu.Unlock()
		return v
	}
	p.ueMu.Unlock()
	var res []bool
	refs := ph.Referrers()
	restricted := false
	if refs != nil && len(*refs) > 0 {
		res = make([]bool, len(ph.Edges))
		n := 0
		for _, r := range *refs {
			if _, isDbg := r.(*ssa.DebugRef); isDbg {
				continue
			}
			n++
			ub := r.Block()
			if rp, isPhi := r.(*ssa.Phi); isPhi {
				// used on the edges that carry it
				all := true
				for i, e := range rp.Edges {
					if e != ssa.Value(ph) {
						continue
					}
					fe := p.feasibleEdgesAt(rp.Block().Preds[i])[ph.Block()]
					if fe == nil {
						all = false
						for j := range res {
							res[j] = true
						}
						continue
					}
					for j := range res {
						res[j] = res[j] || fe[j]
					}
				}
				_ = all
				continue
			}
			fe := p.feasibleEdgesAt(ub)[ph.Block()]
			if fe == nil {
				for j := range res {
					res[j] = true
				}
				continue
			}
			for j := range res {
				res[j] = res[j] || fe[j]
			}
		}
		for _, ok := range res {
			if !ok {
				restricted = true
			}
		}
		if n == 0 {
			restricted = false
		}
	}
	if !restricted {
		res = nil
	}
	p.ueMu.Lock()
	if p.usedEdge == nil {
		p.usedEdge = map[*ssa.Phi][]bool{}
	}
	p.usedEdge[ph] = res
	p.ueMu.Unlock()
	return res
}

// nonNilAt: v cannot be nil when control is in block b: never nil at all, or a
// dominating (threaded) guard has tested it against nil.
func (p *Program) nonNilAt(v ssa.Value, b *ssa.BasicBlock) bool {
	if p.definitelyNonNil(v, 0) {
		return true
	}
	vals := map[ssa.Value]bool{v: true, stripConv(v): true}
	for _, g := range p.guardsAt(b) {
		c, pol := g.Cond, g.Pol
		for {
			if u, ok := c.(*ssa.UnOp); ok && u.Op == token.NOT {
				c, pol = u.X, !pol
				continue
			}
			break
		}
		bo, ok := c.(*ssa.BinOp)
		if !ok || (bo.Op != token.EQL && bo.Op != token.NEQ) {
			continue
		}
		x, y := bo.X, bo.Y
		if isNilConst(x) {
			x, y = y, x
		}
		if !isNilConst(y) || !(vals[x] || vals[stripConv(x)]) {
			continue
		}
		if (bo.Op == token.NEQ) == pol {
			return true
		}
	}
	return false
}
