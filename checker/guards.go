package main

// E1 — guards: the facts that hold at a basic block because of dominating
// branch edges, normalised into atoms over E3 terms.

import (
	"go/constant"
	"go/token"
	"sort"
	"strconv"
	"strings"

	"golang.org/x/tools/go/ssa"
)

// Guard is one dominating branch edge.
type Guard struct {
	If   *ssa.If
	Cond ssa.Value
	Pol  bool // the condition is known to be Pol at the guarded block
}

// guardsAt lists the branch edges that dominate block b: edge D->S counts iff
// S dominates b (or is b) and every other predecessor of S is dominated by S.
func (p *Program) guardsAt(b *ssa.BasicBlock) []Guard {
	return p.guardsAtDepth(b, 0)
}

func (p *Program) guardsAtDepth(b *ssa.BasicBlock, depth int) []Guard {
	out := p.directGuardsAt(b)
	if depth >= 4 {
		return out
	}
	// a guard on a merged value (`err != nil` after a block whose exits assign err) selects
	// the incoming edges that can produce it: what holds on all of them holds here as well
	seen := map[guardKey]bool{}
	for _, g := range out {
		seen[guardKey{g.If, g.Pol}] = true
	}
	n := len(out)
	for i := 0; i < n; i++ {
		for _, g := range p.threadGuard(out[i], depth) {
			if !seen[guardKey{g.If, g.Pol}] {
				seen[guardKey{g.If, g.Pol}] = true
				out = append(out, g)
			}
		}
	}
	return out
}

type guardKey struct {
	If  *ssa.If
	Pol bool
}

// threadGuard: for a guard whose condition tests a Phi against a constant (or
// is a boolean Phi), the guards common to every incoming edge whose value can
// satisfy the condition.
func (p *Program) threadGuard(g Guard, depth int) []Guard {
	v := g.Cond
	pol := g.Pol
	for {
		if u, ok := v.(*ssa.UnOp); ok && u.Op == token.NOT {
			v, pol = u.X, !pol
			continue
		}
		break
	}
	var phi *ssa.Phi
	var can func(in ssa.Value) bool // may the incoming value satisfy the condition?
	switch x := v.(type) {
	case *ssa.Phi:
		phi = x
		can = func(in ssa.Value) bool {
			if c, ok := in.(*ssa.Const); ok && c.Value != nil && c.Value.Kind() == constant.Bool {
				return constant.BoolVal(c.Value) == pol
			}
			return true
		}
	case *ssa.BinOp:
		if x.Op != token.EQL && x.Op != token.NEQ {
			return nil
		}
		wantEq := (x.Op == token.EQL) == pol
		ph, c := x.X, x.Y
		if _, ok := ph.(*ssa.Phi); !ok {
			ph, c = x.Y, x.X
		}
		var ok bool
		if phi, ok = ph.(*ssa.Phi); !ok {
			return nil
		}
		k, ok := c.(*ssa.Const)
		if !ok {
			return nil
		}
		can = func(in ssa.Value) bool {
			if k.Value == nil { // comparison with nil
				if wantEq {
					return !p.definitelyNonNil(in, 0)
				}
				ic, isConst := in.(*ssa.Const)
				return !(isConst && ic.Value == nil)
			}
			if ic, isConst := in.(*ssa.Const); isConst && ic.Value != nil {
				same := constant.Compare(ic.Value, token.EQL, k.Value)
				return same == wantEq
			}
			return true
		}
	default:
		return nil
	}
	pb := phi.Block()
	var common map[guardKey]Guard
	feasible := 0
	for i, in := range phi.Edges {
		if !p.phiCan(in, can, 0) {
			continue
		}
		pr := pb.Preds[i]
		if pb.Dominates(pr) {
			return nil // a feasible back edge: no refinement
		}
		feasible++
		k := 0
		for j, s := range pr.Succs {
			if s == pb {
				k = j
			}
		}
		gs := p.guardsAtDepth(pr, depth+1)
		if ifi, ok := pr.Instrs[len(pr.Instrs)-1].(*ssa.If); ok && pr.Succs[0] != pr.Succs[1] {
			gs = append(gs, Guard{If: ifi, Cond: ifi.Cond, Pol: k == 0})
		}
		m := map[guardKey]Guard{}
		for _, x := range gs {
			m[guardKey{x.If, x.Pol}] = x
		}
		if common == nil {
			common = m
		} else {
			for key := range common {
				if _, ok := m[key]; !ok {
					delete(common, key)
				}
			}
		}
	}
	if feasible == 0 || feasible == len(phi.Edges) {
		// nothing excluded: the dominating guards already say everything
		if feasible == 0 {
			return nil
		}
	}
	var out []Guard
	for _, x := range common {
		out = append(out, x)
	}
	sort.Slice(out, func(i, j int) bool {
		if out[i].If.Pos() != out[j].If.Pos() {
			return out[i].If.Pos() < out[j].If.Pos()
		}
		if out[i].If.Block().Index != out[j].If.Block().Index {
			return out[i].If.Block().Index < out[j].If.Block().Index
		}
		return !out[i].Pol && out[j].Pol
	})
	return out
}

// phiCan: can the incoming value (possibly itself a Phi) satisfy the test?
func (p *Program) phiCan(in ssa.Value, can func(ssa.Value) bool, depth int) bool {
	if ph, ok := in.(*ssa.Phi); ok && depth < 4 {
		for _, e := range ph.Edges {
			if p.phiCan(e, can, depth+1) {
				return true
			}
		}
		return false
	}
	return can(in)
}

// definitelyNonNil: the value cannot be a nil interface/pointer.
func (p *Program) definitelyNonNil(v ssa.Value, depth int) bool {
	if depth > 4 {
		return false
	}
	switch x := v.(type) {
	case *ssa.MakeInterface, *ssa.Alloc, *ssa.MakeClosure, *ssa.MakeMap, *ssa.MakeChan, *ssa.MakeSlice, *ssa.Function, *ssa.Global:
		return true
	case *ssa.ChangeInterface:
		return p.definitelyNonNil(x.X, depth+1)
	case *ssa.Phi:
		for _, e := range x.Edges {
			if !p.definitelyNonNil(e, depth+1) {
				return false
			}
		}
		return true
	case *ssa.Call:
		switch calleeName(x.Common()) {
		case "fmt.Errorf", "errors.New":
			return true
		}
		if f := x.Common().StaticCallee(); f != nil && p.inModule(f) && f.Blocks != nil && f.Signature.Results().Len() == 1 {
			return p.alwaysNonNil(f, depth+1)
		}
	}
	return false
}

func (p *Program) alwaysNonNil(f *ssa.Function, depth int) bool {
	p.nnMu.Lock()
	if v, ok := p.nonnil[f]; ok {
		p.nnMu.Unlock()
		return v
	}
	if p.nonnil == nil {
		p.nonnil = map[*ssa.Function]bool{}
	}
	p.nonnil[f] = false // recursion guard
	p.nnMu.Unlock()
	res := true
	n := 0
	for _, ret := range returnsOf(f) {
		rs := resultsOf(ret)
		if len(rs) != 1 || !p.definitelyNonNil(rs[0], depth) {
			res = false
		}
		n++
	}
	if n == 0 {
		res = false
	}
	p.nnMu.Lock()
	p.nonnil[f] = res
	p.nnMu.Unlock()
	return res
}

func (p *Program) directGuardsAt(b *ssa.BasicBlock) []Guard {
	var out []Guard
	for d := b.Idom(); d != nil; d = d.Idom() {
		if len(d.Instrs) == 0 {
			continue
		}
		ifi, ok := d.Instrs[len(d.Instrs)-1].(*ssa.If)
		if !ok {
			continue
		}
		if d.Succs[0] == d.Succs[1] {
			continue
		}
		for k, s := range d.Succs {
			if s != b && !s.Dominates(b) {
				continue
			}
			okEdge := true
			for _, pr := range s.Preds {
				if pr == d {
					continue
				}
				if p != nil && p.deadEnd(pr) {
					continue // control never arrives from a block that ends in a no-return call or panic
				}
				if pr != s && !s.Dominates(pr) {
					okEdge = false
					break
				}
			}
			if okEdge {
				out = append(out, Guard{If: ifi, Cond: ifi.Cond, Pol: k == 0})
			}
		}
	}
	return out
}

// edgeGuards returns the guards that hold when control leaves block d through
// successor index k: the guards at d plus the branch itself.
func (p *Program) edgeGuards(d *ssa.BasicBlock, k int) []Guard {
	out := append([]Guard{}, p.guardsAt(d)...)
	if ifi, ok := d.Instrs[len(d.Instrs)-1].(*ssa.If); ok && d.Succs[0] != d.Succs[1] {
		out = append(out, Guard{If: ifi, Cond: ifi.Cond, Pol: k == 0})
	}
	return out
}

// Atom is a normalised fact.
//
//	Kind "cmp":  X Op Y   (Op already reflects the polarity)
//	Kind "call": the boolean call Call is Pol
//	Kind "bool": the boolean value X is Pol
type Atom struct {
	Kind string
	Op   string
	X, Y *Term
	Call *Term
	Pol  bool
	If   *ssa.If
}

func (a Atom) String() string {
	switch a.Kind {
	case "cmp":
		return a.X.String() + " " + a.Op + " " + a.Y.String()
	case "call":
		if a.Pol {
			return a.Call.String()
		}
		return "!" + a.Call.String()
	}
	if a.Pol {
		return a.X.String()
	}
	return "!" + a.X.String()
}

var negOp = map[string]string{"==": "!=", "!=": "==", "<": ">=", ">=": "<", ">": "<=", "<=": ">"}
var swapOp = map[string]string{"==": "==", "!=": "!=", "<": ">", ">": "<", "<=": ">=", ">=": "<="}

func isConstTerm(t *Term) bool { return t != nil && (t.Op == "Const" || t.Op == "Nil") }

func intConst(t *Term) (int64, bool) {
	if t == nil || t.Op != "Const" {
		return 0, false
	}
	n, err := strconv.ParseInt(t.S, 10, 64)
	return n, err == nil
}

func isLenTerm(t *Term) bool { return t != nil && t.Op == "Call" && t.S == "len" }

// atomOf normalises one guard. Comparisons put constants on the right,
// integer bounds are closed (x < c  ==>  x <= c-1), lengths compared with
// zero use == / !=, and s == "" becomes len(s) == 0.
func (tb *TB) atomOf(g Guard) Atom { return tb.atomOfRes(g, nil) }

// atomOfRes is atomOf with the operands of a comparison passed through res
// first (used to resolve Phis along an enumerated path).
func (tb *TB) atomOfRes(g Guard, res func(ssa.Value) ssa.Value) Atom {
	if res == nil {
		res = func(v ssa.Value) ssa.Value { return v }
	}
	v := res(g.Cond)
	pol := g.Pol
	for {
		if u, ok := v.(*ssa.UnOp); ok && u.Op == token.NOT {
			v = res(u.X)
			pol = !pol
			continue
		}
		break
	}
	switch x := v.(type) {
	case *ssa.BinOp:
		op := x.Op.String()
		if _, ok := negOp[op]; ok {
			X, Y := tb.Term(res(x.X)), tb.Term(res(x.Y))
			if !pol {
				op = negOp[op]
			}
			if isConstTerm(X) && !isConstTerm(Y) {
				X, Y = Y, X
				op = swapOp[op]
			}
			// s == ""  ->  len(s) == 0
			if Y.Op == "Const" && Y.S == `""` && (op == "==" || op == "!=") {
				X = mk("Call", "len", nil, X)
				Y = mk("Const", "0", nil)
			}
			if c, ok := intConst(Y); ok {
				switch op {
				case "<":
					op, c = "<=", c-1
				case ">":
					op, c = ">=", c+1
				}
				if isLenTerm(X) {
					if op == "<=" && c == 0 {
						op = "=="
					}
					if op == ">=" && c == 1 {
						op, c = "!=", 0
					}
				}
				Y = mk("Const", strconv.FormatInt(c, 10), nil)
			}
			return Atom{Kind: "cmp", Op: op, X: X, Y: Y, Pol: true, If: g.If}
		}
	case *ssa.Call:
		return Atom{Kind: "call", Call: tb.Term(x), Pol: pol, If: g.If}
	case *ssa.Const:
		if x.Value != nil && x.Value.Kind() == constant.Bool {
			return Atom{Kind: "bool", X: tb.Term(x), Pol: pol, If: g.If}
		}
	}
	return Atom{Kind: "bool", X: tb.Term(v), Pol: pol, If: g.If}
}

// FactsAt returns the normalised atoms that hold on entry to block b.
func (tb *TB) FactsAt(b *ssa.BasicBlock) []Atom {
	return tb.importFacts(tb.FactsAtRaw(b), 0)
}

// FactsAtRaw: the facts of this function only (no import from helpers).
func (tb *TB) FactsAtRaw(b *ssa.BasicBlock) []Atom {
	var out []Atom
	for _, g := range tb.p.guardsAt(b) {
		out = append(out, tb.atomOf(g))
	}
	return out
}

func (tb *TB) FactsOnEdge(d *ssa.BasicBlock, k int) []Atom {
	var out []Atom
	for _, g := range tb.p.edgeGuards(d, k) {
		out = append(out, tb.atomOf(g))
	}
	return tb.importFacts(out, 0)
}

// hasFact looks for an atom whose printed form equals want.
func hasFact(facts []Atom, want string) (Atom, bool) {
	for _, a := range facts {
		if a.String() == want {
			return a, true
		}
	}
	return Atom{}, false
}

// findFact returns the first atom satisfying pred.
func findFact(facts []Atom, pred func(Atom) bool) (Atom, bool) {
	for _, a := range facts {
		if pred(a) {
			return a, true
		}
	}
	return Atom{}, false
}

func factStrings(facts []Atom) string {
	var s []string
	for _, a := range facts {
		s = append(s, a.String())
	}
	return strings.Join(s, " ; ")
}

// errNilFact: is there a fact "<call>.k == nil" (isNil) or "!= nil" for the
// error result of the given call value?
func errFactFor(facts []Atom, call ssa.Value, wantNil bool) (Atom, bool) {
	return findFact(facts, func(a Atom) bool {
		if a.Kind != "cmp" || a.Y.Op != "Nil" {
			return false
		}
		if (a.Op == "==") != wantNil {
			return false
		}
		x := a.X
		if x.Op == "Ext" {
			x = x.Args[0]
		}
		return x.V == call
	})
}

// deadEnd: control cannot leave the block through its successors because it
// contains a call to a no-return function (or ends in a panic).
func (p *Program) deadEnd(b *ssa.BasicBlock) bool {
	for _, in := range b.Instrs {
		if p.callNoReturnCached(in) {
			return true
		}
		if _, ok := in.(*ssa.Panic); ok {
			return true
		}
	}
	return false
}
