package main

// E1 — guards: the facts that hold at a basic block because of dominating
// branch edges, normalised into atoms over E3 terms.

import (
	"go/constant"
	"go/token"
	"strconv"
	"strings"

	"golang.org/x/tools/go/ssa"
)

// Guard is one dominating branch edge.
type Guard struct {
	If   *ssa.If
	Cond ssa.Value
	Pol  bool // the condition is known to be Pol at the guarded block
}

// guardsAt lists the branch edges that dominate block b: edge D->S counts iff
// S dominates b (or is b) and every other predecessor of S is dominated by S.
func (p *Program) guardsAt(b *ssa.BasicBlock) []Guard {
	var out []Guard
	for d := b.Idom(); d != nil; d = d.Idom() {
		if len(d.Instrs) == 0 {
			continue
		}
		ifi, ok := d.Instrs[len(d.Instrs)-1].(*ssa.If)
		if !ok {
			continue
		}
		if d.Succs[0] == d.Succs[1] {
			continue
		}
		for k, s := range d.Succs {
			if s != b && !s.Dominates(b) {
				continue
			}
			okEdge := true
			for _, pr := range s.Preds {
				if pr == d {
					continue
				}
				if p != nil && p.deadEnd(pr) {
					continue // control never arrives from a block that ends in a no-return call or panic
				}
				if pr != s && !s.Dominates(pr) {
					okEdge = false
					break
				}
			}
			if okEdge {
				out = append(out, Guard{If: ifi, Cond: ifi.Cond, Pol: k == 0})
			}
		}
	}
	return out
}

// edgeGuards returns the guards that hold when control leaves block d through
// successor index k: the guards at d plus the branch itself.
func (p *Program) edgeGuards(d *ssa.BasicBlock, k int) []Guard {
	out := p.guardsAt(d)
	if ifi, ok := d.Instrs[len(d.Instrs)-1].(*ssa.If); ok && d.Succs[0] != d.Succs[1] {
		out = append(out, Guard{If: ifi, Cond: ifi.Cond, Pol: k == 0})
	}
	return out
}

// Atom is a normalised fact.
//
//	Kind "cmp":  X Op Y   (Op already reflects the polarity)
//	Kind "call": the boolean call Call is Pol
//	Kind "bool": the boolean value X is Pol
type Atom struct {
	Kind string
	Op   string
	X, Y *Term
	Call *Term
	Pol  bool
	If   *ssa.If
}

func (a Atom) String() string {
	switch a.Kind {
	case "cmp":
		return a.X.String() + " " + a.Op + " " + a.Y.String()
	case "call":
		if a.Pol {
			return a.Call.String()
		}
		return "!" + a.Call.String()
	}
	if a.Pol {
		return a.X.String()
	}
	return "!" + a.X.String()
}

var negOp = map[string]string{"==": "!=", "!=": "==", "<": ">=", ">=": "<", ">": "<=", "<=": ">"}
var swapOp = map[string]string{"==": "==", "!=": "!=", "<": ">", ">": "<", "<=": ">=", ">=": "<="}

func isConstTerm(t *Term) bool { return t != nil && (t.Op == "Const" || t.Op == "Nil") }

func intConst(t *Term) (int64, bool) {
	if t == nil || t.Op != "Const" {
		return 0, false
	}
	n, err := strconv.ParseInt(t.S, 10, 64)
	return n, err == nil
}

func isLenTerm(t *Term) bool { return t != nil && t.Op == "Call" && t.S == "len" }

// atomOf normalises one guard. Comparisons put constants on the right,
// integer bounds are closed (x < c  ==>  x <= c-1), lengths compared with
// zero use == / !=, and s == "" becomes len(s) == 0.
func (tb *TB) atomOf(g Guard) Atom { return tb.atomOfRes(g, nil) }

// atomOfRes is atomOf with the operands of a comparison passed through res
// first (used to resolve Phis along an enumerated path).
func (tb *TB) atomOfRes(g Guard, res func(ssa.Value) ssa.Value) Atom {
	if res == nil {
		res = func(v ssa.Value) ssa.Value { return v }
	}
	v := res(g.Cond)
	pol := g.Pol
	for {
		if u, ok := v.(*ssa.UnOp); ok && u.Op == token.NOT {
			v = res(u.X)
			pol = !pol
			continue
		}
		break
	}
	switch x := v.(type) {
	case *ssa.BinOp:
		op := x.Op.String()
		if _, ok := negOp[op]; ok {
			X, Y := tb.Term(res(x.X)), tb.Term(res(x.Y))
			if !pol {
				op = negOp[op]
			}
			if isConstTerm(X) && !isConstTerm(Y) {
				X, Y = Y, X
				op = swapOp[op]
			}
			// s == ""  ->  len(s) == 0
			if Y.Op == "Const" && Y.S == `""` && (op == "==" || op == "!=") {
				X = mk("Call", "len", nil, X)
				Y = mk("Const", "0", nil)
			}
			if c, ok := intConst(Y); ok {
				switch op {
				case "<":
					op, c = "<=", c-1
				case ">":
					op, c = ">=", c+1
				}
				if isLenTerm(X) {
					if op == "<=" && c == 0 {
						op = "=="
					}
					if op == ">=" && c == 1 {
						op, c = "!=", 0
					}
				}
				Y = mk("Const", strconv.FormatInt(c, 10), nil)
			}
			return Atom{Kind: "cmp", Op: op, X: X, Y: Y, Pol: true, If: g.If}
		}
	case *ssa.Call:
		return Atom{Kind: "call", Call: tb.Term(x), Pol: pol, If: g.If}
	case *ssa.Const:
		if x.Value != nil && x.Value.Kind() == constant.Bool {
			return Atom{Kind: "bool", X: tb.Term(x), Pol: pol, If: g.If}
		}
	}
	return Atom{Kind: "bool", X: tb.Term(v), Pol: pol, If: g.If}
}

// FactsAt returns the normalised atoms that hold on entry to block b.
func (tb *TB) FactsAt(b *ssa.BasicBlock) []Atom {
	var out []Atom
	for _, g := range tb.p.guardsAt(b) {
		out = append(out, tb.atomOf(g))
	}
	return out
}

func (tb *TB) FactsOnEdge(d *ssa.BasicBlock, k int) []Atom {
	var out []Atom
	for _, g := range tb.p.edgeGuards(d, k) {
		out = append(out, tb.atomOf(g))
	}
	return out
}

// hasFact looks for an atom whose printed form equals want.
func hasFact(facts []Atom, want string) (Atom, bool) {
	for _, a := range facts {
		if a.String() == want {
			return a, true
		}
	}
	return Atom{}, false
}

// findFact returns the first atom satisfying pred.
func findFact(facts []Atom, pred func(Atom) bool) (Atom, bool) {
	for _, a := range facts {
		if pred(a) {
			return a, true
		}
	}
	return Atom{}, false
}

func factStrings(facts []Atom) string {
	var s []string
	for _, a := range facts {
		s = append(s, a.String())
	}
	return strings.Join(s, " ; ")
}

// errNilFact: is there a fact "<call>.k == nil" (isNil) or "!= nil" for the
// error result of the given call value?
func errFactFor(facts []Atom, call ssa.Value, wantNil bool) (Atom, bool) {
	return findFact(facts, func(a Atom) bool {
		if a.Kind != "cmp" || a.Y.Op != "Nil" {
			return false
		}
		if (a.Op == "==") != wantNil {
			return false
		}
		x := a.X
		if x.Op == "Ext" {
			x = x.Args[0]
		}
		return x.V == call
	})
}

// deadEnd: control cannot leave the block through its successors because it
// contains a call to a no-return function (or ends in a panic).
func (p *Program) deadEnd(b *ssa.BasicBlock) bool {
	for _, in := range b.Instrs {
		if p.callNoReturnCached(in) {
			return true
		}
		if _, ok := in.(*ssa.Panic); ok {
			return true
		}
	}
	return false
}
