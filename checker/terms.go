package main

// E3 — terms: reconstructs, for an SSA value, a canonical expression over
// constants, parameters, receiver fields, package variables, fresh random
// buffers and calls. Anything the builder does not model becomes Unknown(..),
// which a rule must treat as undecided.

import (
	"fmt"
	"go/constant"
	"go/token"
	"go/types"
	"os"
	"reflect"
	"sort"
	"strconv"
	"strings"
	"sync"

	"golang.org/x/tools/go/ssa"
)

type Term struct {
	Op   string // see String
	S    string
	Args []*Term
	V    ssa.Value
	Ctx  string // expansion context: tells apart instances of one SSA value in different inlined calls
}

// renKey identifies an SSA value by its address, not by a reference: the global table of Key
// ids must not keep every analysed variant of the program alive (the collector does not move
// objects, and two live values never share an address).
type renKey struct {
	v   uintptr
	ctx string
}

func valueAddr(v ssa.Value) uintptr {
	if v == nil {
		return 0
	}
	rv := reflect.ValueOf(v)
	if rv.Kind() != reflect.Ptr || rv.IsNil() {
		return 0
	}
	return rv.Pointer()
}

type renamer struct {
	ids map[renKey]int
	n   map[string]int
	key bool // Key mode: impure calls are told apart by call site
}

func newRenamer() *renamer { return &renamer{ids: map[renKey]int{}, n: map[string]int{}} }

var keyMu sync.Mutex

func (r *renamer) id(kind string, v0 ssa.Value, ctx ...string) int {
	if r.key {
		keyMu.Lock()
		defer keyMu.Unlock()
	}
	v := renKey{v: valueAddr(v0)}
	if len(ctx) > 0 {
		v.ctx = ctx[0]
	}
	if id, ok := r.ids[v]; ok {
		return id
	}
	if kind != "RangeIdx" && kind != "call" {
		kind = "buf"
	}
	r.n[kind]++
	r.ids[v] = r.n[kind]
	return r.n[kind]
}

func (t *Term) String() string {
	var sb strings.Builder
	t.print(&sb, newRenamer())
	return sb.String()
}

// keyIDs gives process-wide unique numbers to the values that String numbers
// by first occurrence, so that Key is a sound symbol name across terms.
var keyIDs = &renamer{ids: map[renKey]int{}, n: map[string]int{}, key: true}

// Key prints the term with globally unique ids for fresh buffers and loop
// counters: two Keys are equal only if the terms denote the same value.
func (t *Term) Key() string {
	var sb strings.Builder
	t.print(&sb, keyIDs)
	return sb.String()
}

func (t *Term) print(sb *strings.Builder, ren *renamer) {
	if t == nil {
		sb.WriteString("_")
		return
	}
	args := func(sep string) {
		for i, a := range t.Args {
			if i > 0 {
				sb.WriteString(sep)
			}
			a.print(sb, ren)
		}
	}
	switch t.Op {
	case "Const", "Nil", "Recv", "Param", "Global", "Func", "Type":
		sb.WriteString(t.S)
	case "RangeIdx":
		fmt.Fprintf(sb, "RangeIdx#%d", ren.id("RangeIdx", t.V, t.Ctx))
	case "Rand", "ReadN", "Zero", "Copy":
		// fresh buffers are numbered by first occurrence in the printed term
		fmt.Fprintf(sb, "%s#%d(", t.Op, ren.id(t.Op, t.V, t.Ctx))
		args(",")
		sb.WriteString(")")
	case "Field":
		sb.WriteString("Field(")
		t.Args[0].print(sb, ren)
		sb.WriteString("." + t.S + ")")
	case "Ext":
		t.Args[0].print(sb, ren)
		sb.WriteString("." + t.S)
	case "Bin":
		sb.WriteString("(")
		t.Args[0].print(sb, ren)
		sb.WriteString(" " + t.S + " ")
		t.Args[1].print(sb, ren)
		sb.WriteString(")")
	case "Un":
		sb.WriteString(t.S)
		t.Args[0].print(sb, ren)
	case "Call", "Invoke":
		sb.WriteString(t.S)
		if ren.key && t.V != nil && t.S != "len" && t.S != "cap" {
			fmt.Fprintf(sb, "#%d", ren.id("call", t.V, t.Ctx))
		}
		sb.WriteString("(")
		args(", ")
		sb.WriteString(")")
	case "Phi":
		// the variable's name is not part of the value; in Key mode two merges are never
		// confused, even when they merge the same operands
		sb.WriteString("Phi")
		if ren.key && t.V != nil {
			// the id names the merge; its operands would be printed differently depending on
			// where a cyclic description was entered, and keys must not depend on that
			fmt.Fprintf(sb, "#%d", ren.id("phi", t.V, t.Ctx))
			break
		}
		sb.WriteString("(")
		args(", ")
		sb.WriteString(")")
	case "Struct":
		sb.WriteString(t.S + "{")
		args(", ")
		sb.WriteString("}")
	case "KV":
		sb.WriteString(t.S + ": ")
		t.Args[0].print(sb, ren)
	default:
		sb.WriteString(t.Op)
		if ren.key && t.Op == "CallV" && t.V != nil {
			fmt.Fprintf(sb, "#%d", ren.id("call", t.V, t.Ctx))
		}
		if t.S != "" {
			sb.WriteString("[" + t.S + "]")
		}
		sb.WriteString("(")
		args(", ")
		sb.WriteString(")")
	}
}

// HasUnknown reports whether the term contains an unmodelled part.
func (t *Term) HasUnknown() (string, bool) {
	if t == nil {
		return "", false
	}
	if t.Op == "Unknown" || t.Op == "Phi" || t.Op == "Mem" {
		return t.Op + ":" + t.S, true
	}
	for _, a := range t.Args {
		if s, ok := a.HasUnknown(); ok {
			return s, true
		}
	}
	return "", false
}

// Walk visits every sub-term.
func (t *Term) Walk(f func(*Term)) {
	if t == nil {
		return
	}
	f(t)
	for _, a := range t.Args {
		a.Walk(f)
	}
}

// Find returns sub-terms with the given Op.
func (t *Term) Find(op string) []*Term {
	var out []*Term
	t.Walk(func(x *Term) {
		if x.Op == op {
			out = append(out, x)
		}
	})
	return out
}

func mk(op, s string, v ssa.Value, args ...*Term) *Term {
	return &Term{Op: op, S: s, V: v, Args: args}
}

// TB builds terms for the values of one function.
type TB struct {
	phiDepth int // recursion guard of FactsAtRaw's merge refinement
	p        *Program
	fn       *ssa.Function
	parent   *TB                        // builder of the enclosing function (for closures)
	bind     map[*ssa.FreeVar]ssa.Value // free variable -> value in parent
	memo     map[ssa.Value]*Term
	active   map[ssa.Value]bool
	// activeDepth and cycleTo implement context-free memoisation: a term built while it
	// refers to a value still being described further up is not remembered
	activeDepth map[ssa.Value]int
	cycleTo     int
	loadID      map[ssa.Value]int
	edgeSys     map[any]*dsys // bounds: constraint systems per CFG edge
	inTrim      bool          // guards the fact lookup of trimIdiom/trimMerge against recursion
	nextEpoch   int
	depth       int
	stack       []*ssa.Function
	// NoGlobalInit disables the resolution of package variables to their
	// initialiser.
	NoGlobalInit bool
}

func (p *Program) TB(fn *ssa.Function) *TB {
	tb := &TB{p: p, fn: fn, memo: map[ssa.Value]*Term{}, active: map[ssa.Value]bool{}, loadID: map[ssa.Value]int{}}
	if par := fn.Parent(); par != nil {
		// find the unique MakeClosure of fn in its parent
		var mc *ssa.MakeClosure
		n := 0
		for _, b := range par.Blocks {
			for _, in := range b.Instrs {
				if m, ok := in.(*ssa.MakeClosure); ok && m.Fn == fn {
					mc = m
					n++
				}
			}
		}
		if n == 1 {
			tb.parent = p.TB(par)
			tb.bind = map[*ssa.FreeVar]ssa.Value{}
			for i, fv := range fn.FreeVars {
				tb.bind[fv] = mc.Bindings[i]
			}
		}
	}
	return tb
}

func (tb *TB) Term(v ssa.Value) *Term {
	if v == nil {
		return nil
	}
	if t, ok := tb.memo[v]; ok {
		return t
	}
	if tb.active[v] {
		switch v.(type) {
		case *ssa.Alloc:
			return &Term{Op: "Self", V: v}
		}
		// the value is being described further up: everything built between there and here
		// depends on where the description started and is not remembered
		if d := tb.activeDepth[v]; d < tb.cycleTo {
			tb.cycleTo = d
		}
		return &Term{Op: "Loop", V: v}
	}
	if tb.activeDepth == nil {
		tb.activeDepth = map[ssa.Value]int{}
		tb.cycleTo = 1 << 30
	}
	depth := len(tb.active)
	tb.active[v] = true
	tb.activeDepth[v] = depth
	saved := tb.cycleTo
	tb.cycleTo = 1 << 30
	t := tb.build(v)
	delete(tb.active, v)
	delete(tb.activeDepth, v)
	if t.V == nil {
		t.V = v
	}
	// cycleTo < depth: the term refers (through a Loop marker) to a value that is still
	// being described above v, so it is only valid inside that description
	inner := tb.cycleTo
	if inner == 1<<30 {
		// no marker at all: the description is the same wherever it is asked for. (A term
		// holding a marker for v itself is a valid description of v, but embedded in the
		// description of another value of the same cycle it would show up in place of the
		// marker that value's own description has there, so it is not remembered either.)
		if !tb.inTrim { // terms built for the fact lookup of the trim idioms skip those idioms
			tb.memo[v] = t
		}
	} else if inner < depth && inner < saved {
		saved = inner
	}
	tb.cycleTo = saved
	return t
}

func constString(c *ssa.Const) string {
	if c.IsNil() {
		return "nil"
	}
	if c.Value == nil {
		return "zero(" + typeString(c.Type()) + ")"
	}
	switch c.Value.Kind() {
	case constant.String:
		return strconv.Quote(constant.StringVal(c.Value))
	default:
		return c.Value.ExactString()
	}
}

func (tb *TB) paramTerm(p *ssa.Parameter) *Term {
	fn := p.Parent()
	idx := -1
	for i, q := range fn.Params {
		if q == p {
			idx = i
		}
	}
	suffix := ""
	if fn != tb.fn {
		suffix = "@" + fn.Name()
	}
	if fn.Signature.Recv() != nil {
		if idx == 0 {
			return mk("Recv", "Recv"+suffix, p)
		}
		return mk("Param", fmt.Sprintf("P%d%s", idx, suffix), p)
	}
	return mk("Param", fmt.Sprintf("P%d%s", idx+1, suffix), p)
}

// storesTo lists the Store instructions whose address is exactly addr, in fn
// and in the closures nested in it.
func storesTo(fn *ssa.Function, addr ssa.Value) []*ssa.Store {
	var out []*ssa.Store
	scan := func(f *ssa.Function, a ssa.Value) {
		for _, b := range f.Blocks {
			for _, in := range b.Instrs {
				if s, ok := in.(*ssa.Store); ok && s.Addr == a {
					out = append(out, s)
				}
			}
		}
	}
	scan(fn, addr)
	// closures capturing addr
	if refs := addr.Referrers(); refs != nil {
		for _, r := range *refs {
			if mc, ok := r.(*ssa.MakeClosure); ok {
				cf := mc.Fn.(*ssa.Function)
				for i, b := range mc.Bindings {
					if b == addr {
						var rec func(f *ssa.Function, fv ssa.Value)
						rec = func(f *ssa.Function, fv ssa.Value) {
							scan(f, fv)
							if rr := fv.Referrers(); rr != nil {
								for _, r2 := range *rr {
									if mc2, ok := r2.(*ssa.MakeClosure); ok {
										cf2 := mc2.Fn.(*ssa.Function)
										for j, b2 := range mc2.Bindings {
											if b2 == fv {
												rec(cf2, cf2.FreeVars[j])
											}
										}
									}
								}
							}
						}
						rec(cf, cf.FreeVars[i])
					}
				}
			}
		}
	}
	return out
}

func (tb *TB) build(v ssa.Value) *Term {
	switch x := v.(type) {
	case *ssa.Const:
		if x.IsNil() {
			return mk("Nil", "nil", v)
		}
		return mk("Const", constString(x), v)
	case *ssa.Parameter:
		return tb.paramTerm(x)
	case *ssa.FreeVar:
		if tb.parent != nil {
			if b, ok := tb.bind[x]; ok {
				return tb.parent.Term(b)
			}
		}
		if strings.Contains(tb.fn.Name(), "$bound") {
			return mk("Recv", "BoundRecv", v)
		}
		return mk("Unknown", "freevar "+x.Name(), v)
	case *ssa.Global:
		return mk("Global", "&"+x.Pkg.Pkg.Path()+"."+x.Name(), v)
	case *ssa.Function:
		return mk("Func", x.String(), v)
	case *ssa.Builtin:
		return mk("Func", "builtin "+x.Name(), v)
	case *ssa.Convert:
		return tb.Term(x.X)
	case *ssa.ChangeType:
		return tb.Term(x.X)
	case *ssa.MakeInterface:
		return tb.Term(x.X)
	case *ssa.ChangeInterface:
		return tb.Term(x.X)
	case *ssa.SliceToArrayPointer:
		return tb.Term(x.X)
	case *ssa.Extract:
		if c, ok := x.Tuple.(*ssa.Call); ok {
			if t := tb.expandResult(c, x.Index); t != nil {
				return t
			}
		}
		return mk("Ext", strconv.Itoa(x.Index), v, tb.Term(x.Tuple))
	case *ssa.BinOp:
		return normBin(x.Op.String(), v, tb.Term(x.X), tb.Term(x.Y))
	case *ssa.UnOp:
		if x.Op == token.MUL {
			return tb.load(x)
		}
		return mk("Un", x.Op.String(), v, tb.Term(x.X))
	case *ssa.FieldAddr:
		return mk("Field", fieldName(x.X.Type(), x.Field), v, tb.baseTerm(x.X))
	case *ssa.Field:
		return fieldOfTerm(tb.Term(x.X), fieldName(x.X.Type(), x.Field), v)
	case *ssa.IndexAddr:
		return mk("Elem", "", v, tb.Term(x.X), tb.Term(x.Index))
	case *ssa.Index:
		return mk("Elem", "", v, tb.Term(x.X), tb.Term(x.Index))
	case *ssa.Lookup:
		return mk("Elem", "", v, tb.Term(x.X), tb.Term(x.Index))
	case *ssa.Slice:
		return tb.slice(x)
	case *ssa.Call:
		return tb.call(x)
	case *ssa.MakeClosure:
		fn := x.Fn.(*ssa.Function)
		t := mk("Closure", fn.String(), v)
		for _, b := range x.Bindings {
			t.Args = append(t.Args, tb.Term(b))
		}
		return t
	case *ssa.TypeAssert:
		return mk("Assert", typeString(x.AssertedType), v, tb.Term(x.X))
	case *ssa.Alloc:
		return tb.alloc(x)
	case *ssa.MakeSlice:
		return tb.makeSlice(x)
	case *ssa.Phi:
		if x.Comment == "rangeindex" {
			return mk("RangeIdx", "", v)
		}
		if l := indexLoop(x); l != nil {
			// for i := 0; i < len(X); i++ is the range loop over X: i is (counter + 1) of a
			// counter that starts at -1, exactly as go/ssa writes `for i := range X`
			return mk("Bin", "+", nil, mk("RangeIdx", "", v), mk("Const", "1", nil))
		}
		if tr := tb.trimMerge(x); tr != nil {
			return tr
		}
		t := mk("Phi", x.Comment, v)
		seenPhi := map[*ssa.Phi]bool{x: true}
		seenStr := map[string]bool{}
		var collect func(ph *ssa.Phi)
		collect = func(ph *ssa.Phi) {
			allowed := tb.p.usedEdges(ph)
			for i, e := range ph.Edges {
				if allowed != nil && !allowed[i] {
					continue // no use of this Phi is reachable with the value of this edge
				}
				if p2, ok := e.(*ssa.Phi); ok && p2.Comment == ph.Comment && p2.Comment != "" {
					if !seenPhi[p2] {
						seenPhi[p2] = true
						collect(p2)
					}
					continue
				}
				a := tb.Term(e)
				if a.Op == "Make0" && len(a.Args) == 0 && ph.Comment != "" {
					// the start value of an append chain: an empty slice with a capacity hint
					// holds the same elements as the nil slice
					a = mk("Nil", "nil", a.V)
				}
				k := fmt.Sprintf("%p", e)
				if _, isConst := e.(*ssa.Const); isConst {
					k = a.String()
				}
				if !seenStr[k] {
					seenStr[k] = true
					t.Args = append(t.Args, a)
				}
			}
		}
		collect(x)
		if len(t.Args) == 1 && tb.p.usedEdges(x) != nil {
			return t.Args[0] // every use sits behind a test that leaves one incoming value
		}
		sort.Slice(t.Args, func(i, j int) bool { return t.Args[i].String() < t.Args[j].String() })
		return t
	case *ssa.Range:
		return mk("Range", "", v, tb.Term(x.X))
	case *ssa.Next:
		return mk("Next", "", v, tb.Term(x.Iter))
	case *ssa.MakeMap, *ssa.MakeChan, *ssa.Select:
		return mk("Unknown", fmt.Sprintf("%T", v), v)
	}
	return mk("Unknown", fmt.Sprintf("%T", v), v)
}

// unstableFields returns the set of "type.field" names stored by fn itself
// or by any in-module function it can reach.
func (tb *TB) fieldUnstable(fa *ssa.FieldAddr) bool {
	if al, ok := fa.X.(*ssa.Alloc); ok && allocEscapes(al) {
		return true
	}
	key := structTypeName(fa.X.Type()) + "." + fieldName(fa.X.Type(), fa.Field)
	eff := tb.p.EffectsOf(tb.fn)
	if eff == nil {
		return true
	}
	return eff.AllFields[key]
}

func (tb *TB) load(x *ssa.UnOp) *Term {
	switch a := x.X.(type) {
	case *ssa.FieldAddr:
		// a field of a struct allocated here with a single store to that field
		// is the stored value (constructors).
		if al, ok := a.X.(*ssa.Alloc); ok {
			var sts []*ssa.Store
			for _, r := range *al.Referrers() {
				if fa, ok := r.(*ssa.FieldAddr); ok && fa.Field == a.Field {
					for _, rr := range *fa.Referrers() {
						if s, ok := rr.(*ssa.Store); ok && s.Addr == fa {
							sts = append(sts, s)
						}
					}
				}
			}
			if len(sts) == 1 && dominatesInstr(sts[0], x) && !escapesBefore(al, x) {
				return tb.Term(sts[0].Val)
			}
			// a local struct variable assigned as a whole exactly once (v := f() spliced,
			// v := T{..}): its field is the field of the assigned value
			if len(sts) == 0 && !allocEscapes(al) {
				if whole := storesTo(al.Parent(), al); len(whole) == 1 && whole[0].Parent() == x.Parent() && dominatesInstr(whole[0], x) {
					return fieldOfTerm(tb.Term(whole[0].Val), fieldName(a.X.Type(), a.Field), x)
				}
			}
		}
		if st := tb.dominatingFieldStore(x, a); st != nil {
			return tb.Term(st.Val)
		}
		if g, ok := a.X.(*ssa.Global); ok && !tb.NoGlobalInit {
			if init := tb.p.globalFieldInit(g, a.Field); init != nil {
				return init
			}
		}
		base := tb.baseTerm(a.X)
		if base.Op == "Struct" {
			// a struct built here (each field stored once): the field is the stored value
			if ft := fieldOfTerm(base, fieldName(a.X.Type(), a.Field), x); ft.Op != "Zero" && ft.Op != "Unknown" {
				return ft
			}
		}
		if d := tb.p.derivedField(structTypeName(a.X.Type()), fieldName(a.X.Type(), a.Field)); d != nil {
			return instantiateDerived(d, base)
		}
		t := mk("Field", fieldName(a.X.Type(), a.Field), x, base)
		if tb.fieldUnstable(a) {
			id, ok := tb.loadID[x]
			if !ok {
				id = tb.sharedEpoch(x, a)
				if id == 0 {
					tb.nextEpoch++
					id = tb.nextEpoch
				}
				tb.loadID[x] = id
			}
			t.S += "@" + strconv.Itoa(id)
		}
		return t
	case *ssa.Global:
		if !tb.NoGlobalInit && !isErrorType(a.Type().(*types.Pointer).Elem()) {
			if init := tb.p.globalInit(a); init != nil {
				return init
			}
			// a struct variable built field by field by the package initialiser
			if st, isStruct := a.Type().(*types.Pointer).Elem().Underlying().(*types.Struct); isStruct {
				t := mk("Struct", typeString(a.Type().(*types.Pointer).Elem()), x)
				for i := 0; i < st.NumFields(); i++ {
					if fv := tb.p.globalFieldInit(a, i); fv != nil {
						t.Args = append(t.Args, mk("KV", st.Field(i).Name(), nil, fv))
					}
				}
				if len(t.Args) > 0 {
					sort.SliceStable(t.Args, func(i, j int) bool { return t.Args[i].S < t.Args[j].S })
					return t
				}
			}
		}
		return mk("Global", a.Pkg.Pkg.Path()+"."+a.Name(), x)
	case *ssa.Alloc:
		sts := storesTo(a.Parent(), a)
		switch len(sts) {
		case 0:
			// a struct built field by field (composite literal) and read as a whole
			if _, isStruct := a.Type().(*types.Pointer).Elem().Underlying().(*types.Struct); isStruct && !allocEscapes(a) {
				if t := tb.alloc(a); t.Op == "Struct" && len(t.Args) > 0 {
					return t
				}
			}
			return mk("Zero", "", a, mk("Type", typeString(a.Type().(*types.Pointer).Elem()), nil))
		case 1:
			if sts[0].Parent() == x.Parent() && !dominatesInstr(sts[0], x) {
				return mk("Mem", "load-before-store", x)
			}
			return tb.termIn(sts[0].Parent(), sts[0].Val)
		}
		return mk("Mem", a.Name(), x)
	case *ssa.FreeVar:
		// captured variable: resolve through the parent's alloc
		if tb.parent != nil {
			if b, ok := tb.bind[a]; ok {
				if al, ok := b.(*ssa.Alloc); ok {
					sts := storesTo(al.Parent(), al)
					if len(sts) == 1 {
						return tb.termIn(sts[0].Parent(), sts[0].Val)
					}
					return mk("Mem", al.Name(), x)
				}
				if fv2, ok := b.(*ssa.FreeVar); ok {
					// nested closure
					_ = fv2
					return mk("Deref", "", x, tb.parent.Term(b))
				}
			}
		}
		return mk("Mem", a.Name(), x)
	case *ssa.IndexAddr:
		return mk("Elem", "", x, tb.Term(a.X), tb.Term(a.Index))
	}
	return mk("Deref", "", x, tb.Term(x.X))
}

// dominatingFieldStore finds a store to the same field of the same base that
// dominates the load with no other possible write to the field in between:
// the load then yields the stored value.
func (tb *TB) dominatingFieldStore(x *ssa.UnOp, a *ssa.FieldAddr) *ssa.Store {
	if al, ok := a.X.(*ssa.Alloc); ok && allocEscapes(al) {
		return nil // code we do not see may write the struct
	}
	key := fieldKey(a)
	baseKey := tb.baseTerm(a.X).Key()
	var best *ssa.Store
	for _, b := range x.Parent().Blocks {
		for _, in := range b.Instrs {
			st, ok := in.(*ssa.Store)
			if !ok {
				continue
			}
			fa, ok := st.Addr.(*ssa.FieldAddr)
			if !ok || fieldKey(fa) != key || tb.baseTerm(fa.X).Key() != baseKey {
				continue
			}
			if !dominatesInstr(st, x) {
				continue
			}
			if tb.fieldWrittenBetween(st, x, key) {
				continue
			}
			if best == nil || dominatesInstr(best, st) {
				best = st
			}
		}
	}
	return best
}

// sharedEpoch returns the epoch of the earliest load of the same field of the
// same base that dominates x with no possible store to that field in
// between (the loads then denote the same value); 0 if x is its own
// representative and has no epoch yet. Independent of the order in which
// terms are requested.
func (tb *TB) sharedEpoch(x *ssa.UnOp, a *ssa.FieldAddr) int {
	if al, ok := a.X.(*ssa.Alloc); ok && allocEscapes(al) {
		return 0
	}
	key := fieldKey(a)
	baseKey := tb.baseTerm(a.X).Key()
	rep := x
	for _, b := range x.Parent().Blocks {
		for _, in := range b.Instrs {
			ly, ok := in.(*ssa.UnOp)
			if !ok || ly == x || ly.Op != token.MUL {
				continue
			}
			fy, ok := ly.X.(*ssa.FieldAddr)
			if !ok || fieldKey(fy) != key || tb.baseTerm(fy.X).Key() != baseKey {
				continue
			}
			if !dominatesInstr(ly, x) || tb.fieldWrittenBetween(ly, x, key) {
				continue
			}
			if dominatesInstr(ly, rep) {
				rep = ly
			}
		}
	}
	if rep == x {
		return 0
	}
	if id, ok := tb.loadID[rep]; ok {
		return id
	}
	tb.nextEpoch++
	tb.loadID[rep] = tb.nextEpoch
	return tb.nextEpoch
}

// fieldWrittenBetween: may a store to the field key happen on a path from
// instruction from (exclusive) to instruction to?
func (tb *TB) fieldWrittenBetween(from, to ssa.Instruction, key string) bool {
	interferes := func(in ssa.Instruction) bool {
		switch c := in.(type) {
		case *ssa.Store:
			if fa, ok := c.Addr.(*ssa.FieldAddr); ok && fieldKey(fa) == key {
				return true
			}
		case ssa.CallInstruction:
			for _, e := range tb.p.CG().Out[in.Parent()] {
				if e.Site != in {
					continue
				}
				if eff := tb.p.EffectsOf(e.Callee); eff != nil && eff.AllFields[key] {
					return true
				}
			}
		}
		return false
	}
	vis := tb.p.Reach([]Loc{locAfter(from)}, func(in ssa.Instruction) bool { return in == to || in == from })
	for in := range vis {
		if !interferes(in) {
			continue
		}
		// the write matters only if `to` can be reached from it without
		// passing `from` again (a later evaluation of `from` re-reads the field)
		hit := false
		tb.p.Reach([]Loc{locAfter(in)}, func(x ssa.Instruction) bool {
			if x == to {
				hit = true
			}
			return x == to || x == from
		})
		if hit {
			return true
		}
	}
	return false
}

// allocEscapes: a pointer to the local struct is handed to a call, stored,
// captured or returned, so that code outside this function body may write it.
func allocEscapes(al *ssa.Alloc) bool {
	for _, r := range *al.Referrers() {
		switch u := r.(type) {
		case *ssa.FieldAddr, *ssa.DebugRef:
		case *ssa.Store:
			if u.Val == ssa.Value(al) {
				return true
			}
		case *ssa.UnOp:
		default:
			return true
		}
	}
	return false
}

// baseTerm is Term for the base of a field access: a struct allocated in this
// function is named by its type instead of being expanded.
func (tb *TB) baseTerm(v ssa.Value) *Term {
	if al, ok := v.(*ssa.Alloc); ok {
		if _, isStruct := al.Type().(*types.Pointer).Elem().Underlying().(*types.Struct); isStruct {
			return mk("New", typeString(al.Type().(*types.Pointer).Elem()), al)
		}
	}
	return tb.Term(v)
}

// termIn builds the term of v, which lives in function f (f is tb.fn, its
// parent chain, or one of its closures).
func (tb *TB) termIn(f *ssa.Function, v ssa.Value) *Term {
	if f == tb.fn {
		return tb.Term(v)
	}
	for b := tb.parent; b != nil; b = b.parent {
		if b.fn == f {
			return b.Term(v)
		}
	}
	return tb.p.TB(f).Term(v)
}

// escapesBefore is a cheap check that a local struct is not passed to a call
// before instruction at (so that a single store really is the only writer).
func escapesBefore(al *ssa.Alloc, at ssa.Instruction) bool {
	for _, r := range *al.Referrers() {
		switch u := r.(type) {
		case *ssa.FieldAddr, *ssa.DebugRef, *ssa.UnOp:
			continue
		case *ssa.Store:
			if u.Val != ssa.Value(al) {
				continue
			}
		}
		// any other use (call argument, interface conversion, store of the
		// pointer, closure capture, return) that can execute before `at`
		if r.Block() == at.Block() {
			if instrIndex(r) < instrIndex(at) {
				return true
			}
			continue
		}
		if r.Block().Dominates(at.Block()) || blockCanReach(r.Block(), at.Block()) {
			return true
		}
	}
	return false
}

func (tb *TB) slice(x *ssa.Slice) *Term {
	lo, hi := x.Low, x.High
	isZero := func(v ssa.Value) bool {
		if v == nil {
			return true
		}
		c, ok := v.(*ssa.Const)
		return ok && c.Value != nil && c.Value.Kind() == constant.Int && constant.Sign(c.Value) == 0
	}
	// make([]T, n) with constant n: new [n]T followed by a slice
	if al, ok := x.X.(*ssa.Alloc); ok && al.Comment == "makeslice" {
		return tb.makeSliceAlloc(al, x)
	}
	// var buf [N]T; buf[:] — a local zero array whose only use is one full slice is the
	// same buffer as make([]T, N)
	if al, ok := x.X.(*ssa.Alloc); ok && lo == nil && hi == nil && x.Max == nil && al.Comment != "complit" && al.Comment != "slicelit" {
		if _, isArr := al.Type().(*types.Pointer).Elem().Underlying().(*types.Array); isArr {
			n := 0
			for _, r := range *al.Referrers() {
				if _, ok := r.(*ssa.DebugRef); !ok {
					n++
				}
			}
			if n == 1 {
				return tb.makeSliceAlloc(al, x)
			}
			// sliced in full more than once (filled through one slice, read through another):
			// one buffer seen through several views
			allFull := n > 1
			for _, r := range *al.Referrers() {
				switch y := r.(type) {
				case *ssa.DebugRef:
				case *ssa.Slice:
					if y.Low != nil || y.High != nil || y.Max != nil {
						allFull = false
					}
				default:
					allFull = false
				}
			}
			if allFull {
				arr := al.Type().(*types.Pointer).Elem().Underlying().(*types.Array)
				t := tb.makeSliceFrom(x, ssa.NewConst(constant.MakeInt64(arr.Len()), types.Typ[types.Int]))
				// all views are the one array: the buffer's identity is the array, not the view
				if t != nil && (t.Op == "Rand" || t.Op == "ReadN" || t.Op == "Zero" || t.Op == "Copy") && t.V == ssa.Value(x) {
					n := *t
					n.V = al
					return &n
				}
				return t
			}
		}
	}
	// slice literal: &[N]T{...}[:]
	if al, ok := x.X.(*ssa.Alloc); ok && lo == nil && hi == nil {
		if arr, ok := al.Type().(*types.Pointer).Elem().Underlying().(*types.Array); ok {
			if lst := tb.sliceLit(al, int(arr.Len())); lst != nil {
				return lst
			}
		}
	}
	if al, ok := x.X.(*ssa.Alloc); ok {
		// local array holding a single stored value (h := sha256.Sum256(..); h[:4])
		sts := storesTo(al.Parent(), al)
		onlySlicedOrStored := true
		for _, r := range *al.Referrers() {
			switch r.(type) {
			case *ssa.Slice, *ssa.Store, *ssa.DebugRef:
			default:
				onlySlicedOrStored = false
			}
		}
		if len(sts) == 1 && onlySlicedOrStored && dominatesInstr(sts[0], x) {
			var l, h *Term
			if !isZero(lo) {
				l = tb.Term(lo)
			}
			if hi != nil {
				h = tb.Term(hi)
			}
			return mk("Slice", "", x, tb.Term(sts[0].Val), l, h)
		}
	}
	base := tb.Term(x.X)
	if _, isSlice := x.X.Type().Underlying().(*types.Slice); isSlice && isZero(lo) && hi == nil && x.Max == nil {
		return base // x[:] of a slice is x
	}
	var l, h *Term
	if !isZero(lo) {
		l = tb.Term(lo)
	}
	if hi != nil {
		h = tb.Term(hi)
	}
	// x[:][lo:hi] is x[lo:hi]
	if base.Op == "Slice" && len(base.Args) == 3 && base.Args[1] == nil && base.Args[2] == nil && x.Max == nil {
		base = base.Args[0]
	}
	t := mk("Slice", "", x, base, l, h)
	if x.Max != nil {
		t.Args = append(t.Args, tb.Term(x.Max))
	}
	if tr := tb.trimIdiom(x, base, l, h); tr != nil {
		return tr
	}
	return t
}

// trimIdiom: s[len(K):] behind strings.HasPrefix(s, K) is strings.TrimPrefix(s, K), and
// s[:len(s)-len(K)] behind strings.HasSuffix(s, K) is strings.TrimSuffix(s, K).
func (tb *TB) trimIdiom(x *ssa.Slice, base, l, h *Term) *Term {
	if tb.inTrim || x.Max != nil {
		return nil
	}
	if bt, ok := x.X.Type().Underlying().(*types.Basic); !ok || bt.Info()&types.IsString == 0 {
		return nil
	}
	var fn string
	var n int64
	switch {
	case l != nil && h == nil:
		k, ok := intConst(l)
		if !ok || k <= 0 {
			return nil
		}
		fn, n = "strings.HasPrefix", k
	case l == nil && h != nil:
		sym, off := linear(h)
		if sym != "len("+base.Key()+")" || off >= 0 {
			return nil
		}
		fn, n = "strings.HasSuffix", -off
	default:
		return nil
	}
	tb.inTrim = true
	facts := tb.FactsAt(x.Block())
	tb.inTrim = false
	for _, a := range facts {
		if a.Kind != "call" || !a.Pol || a.Call == nil || a.Call.S != fn || len(a.Call.Args) != 2 || a.Call.Args[0].Key() != base.Key() {
			continue
		}
		k := a.Call.Args[1]
		if k.Op != "Const" {
			continue
		}
		lit, err := strconv.Unquote(k.S)
		if err != nil || int64(len(lit)) != n {
			continue
		}
		name := "strings.TrimPrefix"
		if fn == "strings.HasSuffix" {
			name = "strings.TrimSuffix"
		}
		return mk("Call", name, x, base, k)
	}
	return nil
}

// trimMerge: Phi(strings.TrimSuffix(s, K), s) where the untrimmed value arrives only when s
// does not end in K (`if strings.HasSuffix(s, K) { s = s[:len(s)-len(K)] }`) is
// strings.TrimSuffix(s, K); likewise for prefixes.
func (tb *TB) trimMerge(ph *ssa.Phi) *Term {
	if len(ph.Edges) != 2 || tb.inTrim {
		return nil
	}
	if bt, ok := ph.Type().Underlying().(*types.Basic); !ok || bt.Info()&types.IsString == 0 {
		return nil
	}
	for i := 0; i < 2; i++ {
		tr := tb.Term(ph.Edges[i])
		if tr.Op != "Call" || (tr.S != "strings.TrimSuffix" && tr.S != "strings.TrimPrefix") || len(tr.Args) != 2 {
			continue
		}
		other := tb.Term(ph.Edges[1-i])
		if other.Key() != tr.Args[0].Key() {
			continue
		}
		has := "strings.HasSuffix"
		if tr.S == "strings.TrimPrefix" {
			has = "strings.HasPrefix"
		}
		// the untrimmed edge must come from where the test failed
		pred := ph.Block().Preds[1-i]
		k := 0
		for j, su := range pred.Succs {
			if su == ph.Block() {
				k = j
			}
		}
		tb.inTrim = true
		var facts []Atom
		if _, isIf := pred.Instrs[len(pred.Instrs)-1].(*ssa.If); isIf {
			facts = tb.FactsOnEdge(pred, k)
		} else {
			facts = tb.FactsAt(pred)
		}
		tb.inTrim = false
		for _, a := range facts {
			if a.Kind == "call" && !a.Pol && a.Call != nil && a.Call.S == has && len(a.Call.Args) == 2 &&
				a.Call.Args[0].Key() == tr.Args[0].Key() && a.Call.Args[1].Key() == tr.Args[1].Key() {
				return tr
			}
		}
	}
	return nil
}

// sliceLit recognises an array alloc all of whose uses are constant-index
// element stores followed by one full slice: []T{a, b, c}.
func (tb *TB) sliceLit(al *ssa.Alloc, n int) *Term {
	elems := make([]*Term, n)
	for _, r := range *al.Referrers() {
		switch u := r.(type) {
		case *ssa.IndexAddr:
			c, ok := u.Index.(*ssa.Const)
			if !ok {
				return nil
			}
			i, _ := constant.Int64Val(c.Value)
			for _, rr := range *u.Referrers() {
				s, ok := rr.(*ssa.Store)
				if !ok || s.Addr != u {
					return nil
				}
				if i < 0 || int(i) >= n || elems[i] != nil {
					return nil
				}
				elems[i] = tb.Term(s.Val)
			}
		case *ssa.Slice:
		case *ssa.DebugRef:
		default:
			return nil
		}
	}
	// a literal of zeros is the same buffer as make([]T, n)
	allZero := n > 1
	for _, e := range elems {
		if e != nil && !(e.Op == "Const" && e.S == "0") {
			allZero = false
		}
	}
	if allZero {
		if arr, ok := al.Type().(*types.Pointer).Elem().Underlying().(*types.Array); ok {
			if bt, ok := arr.Elem().Underlying().(*types.Basic); ok && bt.Info()&types.IsInteger != 0 {
				return mk("Zero", "", al, mk("Const", strconv.Itoa(n), nil))
			}
		}
	}
	t := mk("List", "", al)
	for _, e := range elems {
		if e == nil {
			e = mk("Zero", "", nil)
		}
		t.Args = append(t.Args, e)
	}
	return t
}

// fieldOfTerm: the field of a struct value given as a term.
func fieldOfTerm(t *Term, name string, v ssa.Value) *Term {
	switch t.Op {
	case "Struct":
		for _, kv := range t.Args {
			if kv.Op == "KV" && kv.S == name && len(kv.Args) == 1 {
				return kv.Args[0]
			}
		}
		return mk("Zero", "", nil)
	case "Phi":
		n := mk("Phi", t.S, nil)
		for _, a := range t.Args {
			n.Args = append(n.Args, fieldOfTerm(a, name, nil))
		}
		return n
	}
	return mk("Field", name, v, t)
}

func (tb *TB) alloc(al *ssa.Alloc) *Term {
	et := al.Type().(*types.Pointer).Elem()
	if st, ok := et.Underlying().(*types.Struct); ok {
		t := mk("Struct", typeString(et), al)
		fields := map[int][]*ssa.Store{}
		other := false
		for _, r := range *al.Referrers() {
			switch u := r.(type) {
			case *ssa.FieldAddr:
				for _, rr := range *u.Referrers() {
					if s, ok := rr.(*ssa.Store); ok && s.Addr == u {
						fields[u.Field] = append(fields[u.Field], s)
					}
				}
			case *ssa.Store:
				if u.Addr == al {
					other = true
				}
			}
		}
		if other {
			return mk("Unknown", "struct overwritten", al)
		}
		for i := 0; i < st.NumFields(); i++ {
			sts := fields[i]
			if len(sts) == 0 {
				continue
			}
			if tb.p.derivedField(typeString(al.Type().(*types.Pointer).Elem()), st.Field(i).Name()) != nil {
				continue // a cache of the other fields: not part of the value's definition
			}
			var val *Term
			if len(sts) == 1 {
				val = tb.Term(sts[0].Val)
			} else {
				val = mk("Unknown", "field stored more than once", nil)
			}
			t.Args = append(t.Args, mk("KV", st.Field(i).Name(), nil, val))
		}
		// the order in which a struct type declares its fields is not part of the value
		sort.SliceStable(t.Args, func(i, j int) bool { return t.Args[i].S < t.Args[j].S })
		return t
	}
	return mk("Local", al.Name(), al)
}

// ---------------------------------------------------------------------------
// fresh buffers

// FillInfo describes how a freshly allocated byte slice is filled.
type FillInfo struct {
	Kind     string // Rand | ReadN | Zero | Copy | Append0 | Unknown
	Reason   string
	Filler   ssa.CallInstruction
	Source   ssa.Value // reader for ReadN, src for Copy
	ErrCheck *ssa.If
	Views    map[ssa.Value]bool
	Sorted   bool // the buffer is sorted in place (sort.Strings, slices.Sort) after it was filled
}

// external callees known not to write through their slice arguments
var nonWritingExt = map[string]bool{
	"golang.org/x/crypto/curve25519.X25519":                    true,
	"golang.org/x/crypto/hkdf.New":                             true,
	"golang.org/x/crypto/scrypt.Key":                           true,
	"golang.org/x/crypto/chacha20poly1305.New":                 true,
	"crypto/hmac.New":                                          true,
	"crypto/hmac.Equal":                                        true,
	"crypto/sha256.Sum256":                                     true,
	"crypto/rsa.EncryptOAEP":                                   true,
	"crypto/rsa.DecryptOAEP":                                   true,
	"encoding/hex.EncodeToString":                              true,
	"(*encoding/base64.Encoding).EncodeToString":               true,
	"(*encoding/base64.Encoding).DecodeString":                 true,
	"encoding/binary.bigEndian.Uint16":                         true,
	"(encoding/binary.bigEndian).Uint16":                       true,
	"bytes.NewReader":                                          true,
	"bytes.Equal":                                              true,
	"bytes.HasPrefix":                                          true,
	"bytes.TrimSpace":                                          true,
	"bytes.TrimSuffix":                                         true,
	"bytes.Contains":                                           true,
	"bytes.ContainsAny":                                        true,
	"fmt.Errorf":                                               true,
	"fmt.Sprintf":                                              true,
	"fmt.Fprintf":                                              true,
	"invoke (io.Writer).Write":                                 true,
	"invoke (hash.Hash).Write":                                 true,
	"invoke (hash.Hash).Sum":                                   true,
	"invoke (crypto/cipher.AEAD).Seal":                         true, // writes dst (arg 0) only; handled specially
	"invoke (crypto/cipher.AEAD).Open":                         true,
	"(*filippo.io/edwards25519.Point).SetBytes":                true,
	"golang.org/x/crypto/ssh.ParseRawPrivateKeyWithPassphrase": true,
	"golang.org/x/crypto/ssh.ParseRawPrivateKey":               true,
	"golang.org/x/crypto/ssh.ParseAuthorizedKey":               true,
}

func (tb *TB) fillInfo(ms ssa.Value, length ssa.Value) *FillInfo {
	fi := &FillInfo{Views: map[ssa.Value]bool{ms: true}}
	// collect views (full reslices); partial slices are views too but make
	// a fill through them partial.
	partial := map[ssa.Value]bool{}
	work := []ssa.Value{ms}
	// a local array sliced more than once (`var b [16]byte; rand.Read(b[:]); use(b[:])`): every
	// slice of the array is a view of the same buffer
	if sl, ok := ms.(*ssa.Slice); ok && sl.Low == nil && sl.High == nil {
		if al, ok := sl.X.(*ssa.Alloc); ok && al.Referrers() != nil {
			if _, isArr := al.Type().(*types.Pointer).Elem().Underlying().(*types.Array); isArr {
				onlySlices := true
				var sibs []*ssa.Slice
				for _, r := range *al.Referrers() {
					switch x := r.(type) {
					case *ssa.Slice:
						sibs = append(sibs, x)
					case *ssa.DebugRef:
					default:
						onlySlices = false
					}
				}
				if onlySlices {
					for _, s2 := range sibs {
						if s2 != sl && !fi.Views[s2] {
							fi.Views[s2] = true
							if s2.Low != nil || s2.High != nil {
								partial[s2] = true
							}
							work = append(work, s2)
						}
					}
				}
			}
		}
	}
	for len(work) > 0 {
		v := work[0]
		work = work[1:]
		refs := v.Referrers()
		if refs == nil {
			continue
		}
		for _, r := range *refs {
			if s, ok := r.(*ssa.Slice); ok && s.X == v {
				if !fi.Views[s] {
					fi.Views[s] = true
					if s.Low != nil || s.High != nil {
						partial[s] = true
					} else if partial[v] {
						partial[s] = true
					}
					work = append(work, s)
				}
			}
		}
	}
	// a view stored into a field of a struct allocated here: loads of that
	// field are views too (constructors: i.secretKey = make(..); copy(i.secretKey, ..))
	for changed := true; changed; {
		changed = false
		for v := range fi.Views {
			refs := v.Referrers()
			if refs == nil {
				continue
			}
			for _, r := range *refs {
				st, ok := r.(*ssa.Store)
				if !ok || st.Val != v {
					continue
				}
				fa, ok := st.Addr.(*ssa.FieldAddr)
				if !ok {
					continue
				}
				al, ok := fa.X.(*ssa.Alloc)
				if !ok {
					continue
				}
				nst := 0
				var loads []ssa.Value
				for _, ar := range *al.Referrers() {
					fa2, ok := ar.(*ssa.FieldAddr)
					if !ok || fa2.Field != fa.Field {
						continue
					}
					for _, rr := range *fa2.Referrers() {
						switch y := rr.(type) {
						case *ssa.Store:
							if y.Addr == fa2 {
								nst++
							}
						case *ssa.UnOp:
							loads = append(loads, y)
						}
					}
				}
				if nst != 1 {
					continue
				}
				for _, l := range loads {
					if !fi.Views[l] {
						fi.Views[l] = true
						changed = true
					}
				}
			}
		}
	}
	lenZero := false
	if c, ok := length.(*ssa.Const); ok && c.Value != nil && constant.Sign(c.Value) == 0 {
		lenZero = true
	}
	var fillers []ssa.CallInstruction
	var fillKinds []string
	var sources []ssa.Value
	writes := 0
	for v := range fi.Views {
		for _, r := range *v.Referrers() {
			switch u := r.(type) {
			case *ssa.Slice, *ssa.DebugRef:
			case *ssa.IndexAddr:
				for _, rr := range *u.Referrers() {
					if s, ok := rr.(*ssa.Store); ok && s.Addr == u {
						writes++
						fi.Reason = "element store"
					}
				}
			case ssa.CallInstruction:
				c := u.Common()
				name := tb.resolvedCalleeName(c)
				argIdx := -1
				for i, a := range c.Args {
					if a == v {
						argIdx = i
					}
				}
				switch {
				case name == "crypto/rand.Read" && argIdx == 0:
					fillers = append(fillers, u)
					fillKinds = append(fillKinds, "Rand")
					sources = append(sources, nil)
					if partial[v] {
						fi.Reason = "partial fill"
						writes++
					}
				case name == "io.ReadFull" && argIdx == 1:
					src := c.Args[0]
					kind := "ReadN"
					if isRandReader(src) {
						kind = "Rand"
					}
					fillers = append(fillers, u)
					fillKinds = append(fillKinds, kind)
					sources = append(sources, src)
					if partial[v] {
						fi.Reason = "partial fill"
						writes++
					}
				case name == "builtin copy" && argIdx == 0:
					fillers = append(fillers, u)
					fillKinds = append(fillKinds, "Copy")
					sources = append(sources, c.Args[1])
				case name == "builtin copy" && argIdx == 1:
				case name == "builtin append" && argIdx == 0:
					if !lenZero {
						// append to a non-empty fresh buffer allocates or
						// writes past len: not a write into the first len bytes
					}
				case name == "builtin append" && argIdx == 1:
				case name == "builtin len" || name == "builtin cap":
				case name == "invoke (crypto/cipher.AEAD).Seal" || name == "invoke (crypto/cipher.AEAD).Open":
					if argIdx == 0 && !lenZero {
						writes++
						fi.Reason = "used as AEAD dst"
					}
				case nonWritingExt[name]:
				case (name == "sort.Strings" || name == "slices.Sort" || strings.HasPrefix(name, "slices.Sort[")) && argIdx == 0:
					// a permutation of what the buffer holds: the multiset of elements is unchanged
					fi.Sorted = true
				default:
					if callee := staticCallee(c); callee != nil && callee.Blocks != nil && tb.p.inModule(callee) {
						eff := tb.p.EffectsOf(callee)
						pi := argIdx
						if eff != nil && pi >= 0 && !eff.WritesParam[pi] {
							continue
						}
					}
					if c.IsInvoke() && argIdx >= 0 {
						// an interface method of the module: none of its implementations in the
						// module writes through this parameter (the receiver is parameter 0)
						n, all := 0, true
						for _, e := range tb.p.CG().Out[u.Parent()] {
							if e.Site != ssa.Instruction(u) || e.Callee == nil {
								continue
							}
							n++
							if e.Callee.Blocks == nil || !tb.p.inModule(e.Callee) {
								all = false
								continue
							}
							eff := tb.p.EffectsOf(e.Callee)
							if eff == nil || eff.WritesParam[argIdx+1] {
								all = false
							}
						}
						if n > 0 && all && tb.p.inModuleType(c.Value.Type()) {
							continue
						}
					}
					writes++
					fi.Reason = "passed to " + name
				}
			case *ssa.Store:
				// storing the slice value somewhere (field, captured var)
				if u.Val == v {
					// allowed: it is an alias; writes through the alias are
					// not tracked, except for fields of local structs whose
					// loads we follow in load().
				}
			}
		}
	}
	switch {
	case writes > 0:
		fi.Kind = "Unknown"
	case len(fillers) == 0 && lenZero:
		fi.Kind = "Append0"
	case len(fillers) == 0:
		fi.Kind = "Zero"
	case len(fillers) > 1:
		fi.Kind, fi.Reason = "Unknown", "more than one filler"
	default:
		fi.Kind = fillKinds[0]
		fi.Filler = fillers[0]
		fi.Source = sources[0]
		if fi.Kind == "Rand" || fi.Kind == "ReadN" {
			// the filler's error must be checked with an exit on failure
			ifi, ok := errCheckedWithExit(tb.p, fillers[0])
			if !ok {
				fi.Kind, fi.Reason = "Unknown", "filler error not checked"
				break
			}
			fi.ErrCheck = ifi
			// every other use must come after the filler
			for v := range fi.Views {
				for _, r := range *v.Referrers() {
					if r == fillers[0].(ssa.Instruction) {
						continue
					}
					if _, ok := r.(*ssa.Slice); ok {
						continue
					}
					if _, ok := r.(*ssa.DebugRef); ok {
						continue
					}
					if ph, isPhi := r.(*ssa.Phi); isPhi {
						// a merge uses the buffer at the end of the predecessor it comes from
						for i, e := range ph.Edges {
							if e != v {
								continue
							}
							pr := ph.Block().Preds[i]
							fb := fillers[0].Block()
							if !(fb == pr || fb.Dominates(pr)) {
								fi.Kind, fi.Reason = "Unknown", "used before it is filled"
							}
						}
						continue
					}
					if r.Parent() == fillers[0].Parent() && !dominatesInstr(fillers[0].(ssa.Instruction), r) {
						fi.Kind, fi.Reason = "Unknown", "used before it is filled"
					}
				}
			}
		}
	}
	return fi
}

func isRandReader(v ssa.Value) bool {
	u, ok := stripConv(v).(*ssa.UnOp)
	if !ok || u.Op != token.MUL {
		return false
	}
	g, ok := u.X.(*ssa.Global)
	return ok && g.Pkg.Pkg.Path() == "crypto/rand" && g.Name() == "Reader"
}

// errCheckedWithExit: the call's error result is compared with nil and the
// non-nil edge cannot reach a normal continuation that uses the buffer: it
// must end in return or panic without passing through the nil edge's block.
func errCheckedWithExit(p *Program, call ssa.CallInstruction) (*ssa.If, bool) {
	v := call.Value()
	if v == nil {
		return nil, false
	}
	var errv ssa.Value
	if tup, ok := v.Type().(*types.Tuple); ok {
		for _, r := range *v.Referrers() {
			if e, ok := r.(*ssa.Extract); ok && isErrorType(tup.At(e.Index).Type()) {
				errv = e
			}
		}
	} else if isErrorType(v.Type()) {
		errv = v
	}
	if errv == nil {
		return nil, false
	}
	for _, r := range *errv.Referrers() {
		b, ok := r.(*ssa.BinOp)
		if !ok || (b.Op != token.NEQ && b.Op != token.EQL) {
			continue
		}
		if !(isNilConst(b.X) || isNilConst(b.Y)) {
			continue
		}
		for _, rr := range *b.Referrers() {
			ifi, ok := rr.(*ssa.If)
			if !ok {
				continue
			}
			blk := ifi.Block()
			nonNil := blk.Succs[0]
			okSucc := blk.Succs[1]
			if b.Op == token.EQL {
				nonNil, okSucc = okSucc, nonNil
			}
			// the non-nil edge must not reach the ok successor
			if !blockReaches(p, nonNil, okSucc, errv) {
				return ifi, true
			}
		}
	}
	return nil, false
}

// blockReaches: can control get from `from` to `to`? Calls that do not return end a
// path, and a branch that tests knownNonNil against nil again is followed on its
// non-nil edge only.
func blockReaches(p *Program, from, to *ssa.BasicBlock, knownNonNil ssa.Value) bool {
	seen := map[*ssa.BasicBlock]bool{}
	var rec func(b *ssa.BasicBlock) bool
	rec = func(b *ssa.BasicBlock) bool {
		if b == to {
			return true
		}
		if seen[b] {
			return false
		}
		seen[b] = true
		for _, in := range b.Instrs {
			if c, ok := in.(*ssa.Call); ok {
				if cal := staticCallee(c.Common()); cal != nil && p.NoReturn(cal) {
					return false
				}
			}
		}
		succs := p.feasibleSuccs(b)
		if ifi, ok := b.Instrs[len(b.Instrs)-1].(*ssa.If); ok && knownNonNil != nil && len(b.Succs) == 2 {
			if bo, ok := ifi.Cond.(*ssa.BinOp); ok && (bo.Op == token.NEQ || bo.Op == token.EQL) {
				x, y := bo.X, bo.Y
				if isNilConst(x) {
					x, y = y, x
				}
				if isNilConst(y) && x == knownNonNil {
					if bo.Op == token.NEQ {
						succs = b.Succs[:1]
					} else {
						succs = b.Succs[1:]
					}
				}
			}
		}
		for _, s := range succs {
			if rec(s) {
				return true
			}
		}
		return false
	}
	return rec(from)
}

// makeSliceAlloc handles the constant-size form of make: the array alloc has
// exactly one referrer, the slice instruction, which is the buffer.
func (tb *TB) makeSliceAlloc(al *ssa.Alloc, sl *ssa.Slice) *Term {
	n := 0
	for _, r := range *al.Referrers() {
		if _, ok := r.(*ssa.DebugRef); ok {
			continue
		}
		n++
	}
	if n != 1 {
		return mk("Unknown", "makeslice alloc with several uses", sl)
	}
	var length ssa.Value = sl.High
	if length == nil {
		arr := al.Type().(*types.Pointer).Elem().Underlying().(*types.Array)
		length = ssa.NewConst(constant.MakeInt64(arr.Len()), types.Typ[types.Int])
	}
	return tb.makeSliceFrom(sl, length)
}

func (tb *TB) makeSlice(ms *ssa.MakeSlice) *Term {
	return tb.makeSliceFrom(ms, ms.Len)
}

// mapLoopTerm: make([]T, len(X)) filled by `for i := range X { buf[i] = f(X[i]) }` and used
// only after the loop is the slice that `buf = append(buf, f(X[i]))` builds from nil.
func (tb *TB) mapLoopTerm(ms ssa.Value, length ssa.Value) *Term {
	over, ok := lenOf(length)
	if !ok {
		return nil
	}
	var store *ssa.Store
	var loop *RangeLoop
	refs := ms.Referrers()
	if refs == nil {
		return nil
	}
	var others []ssa.Instruction
	for _, r := range *refs {
		switch u := r.(type) {
		case *ssa.DebugRef:
		case *ssa.IndexAddr:
			if u.Referrers() == nil {
				return nil
			}
			for _, rr := range *u.Referrers() {
				st, isSt := rr.(*ssa.Store)
				if !isSt || st.Addr != ssa.Value(u) || store != nil {
					return nil
				}
				store = st
				for _, l := range rangeLoops(tb.fn) {
					if l.Index == u.Index && (stripConv(l.Over) == stripConv(over) || tb.Term(l.Over).Key() == tb.Term(over).Key()) && l.inLoop(st.Block()) {
						loop = l
					}
				}
			}
		default:
			others = append(others, r)
		}
	}
	if store == nil || loop == nil {
		return nil
	}
	for _, in := range others {
		b := in.Block()
		if ph, isPhi := in.(*ssa.Phi); isPhi {
			for i, e := range ph.Edges {
				if e == ms && !tb.p.completedAt(loop, ph.Block().Preds[i]) {
					return nil
				}
			}
			continue
		}
		if !tb.p.completedAt(loop, b) {
			return nil
		}
	}
	return mk("Phi", "", ms, mk("Concat", "", nil, &Term{Op: "Loop"}, mk("List", "", nil, tb.Term(store.Val))), mk("Nil", "nil", nil))
}

func (tb *TB) makeSliceFrom(ms ssa.Value, length ssa.Value) *Term {
	if t := tb.mapLoopTerm(ms, length); t != nil {
		return t
	}
	fi := tb.fillInfo(ms, length)
	n := tb.Term(length)
	switch fi.Kind {
	case "Rand":
		return mk("Rand", "", ms, n)
	case "ReadN":
		return mk("ReadN", "", ms, tb.Term(fi.Source), n)
	case "Zero":
		return mk("Zero", "", ms, n)
	case "Copy":
		if fi.Sorted {
			return mk("Call", "sort.Sorted", ms, mk("Copy", "", ms, tb.Term(fi.Source), n))
		}
		return mk("Copy", "", ms, tb.Term(fi.Source), n)
	case "Append0":
		var capT *Term
		switch m := ms.(type) {
		case *ssa.MakeSlice:
			capT = tb.Term(m.Cap)
		case *ssa.Slice:
			if al, ok := m.X.(*ssa.Alloc); ok {
				if arr, ok := al.Type().(*types.Pointer).Elem().Underlying().(*types.Array); ok {
					capT = mk("Const", strconv.FormatInt(arr.Len(), 10), nil)
				}
			}
		}
		if capT == nil || capT.Op != "Const" {
			return mk("Make0", "", ms) // a non-constant capacity is only a hint
		}
		return mk("Make0", "", ms, capT)
	}
	return mk("Unknown", "buffer: "+fi.Reason, ms)
}

// ---------------------------------------------------------------------------
// calls

// resolvedCalleeName is calleeName, with calls through package-level function
// variables initialised once (format.EncodeToString) resolved to the method
// or function they hold.
func (tb *TB) resolvedCalleeName(c *ssa.CallCommon) string {
	name := calleeName(c)
	if name != "dynamic" {
		return name
	}
	ft := tb.Term(c.Value)
	switch {
	case ft.Op == "Func":
		return ft.S
	case ft.Op == "Closure" && strings.Contains(ft.S, "$bound"):
		return strings.TrimSuffix(ft.S, "$bound")
	}
	return name
}

func (tb *TB) call(c *ssa.Call) *Term {
	if _, isTuple := c.Type().(*types.Tuple); !isTuple {
		if t := tb.expandResult(c, 0); t != nil {
			return t
		}
	}
	cc := &c.Call
	name := calleeName(cc)
	var args []*Term
	if cc.IsInvoke() {
		args = append(args, tb.Term(cc.Value))
	}
	for _, a := range cc.Args {
		args = append(args, tb.baseTerm(a))
	}
	switch name {
	case "builtin append":
		return tb.appendTerm(c, args)
	case "bytes.Join", "strings.Join":
		// joining a literal list with an empty separator is the concatenation of its parts
		if len(args) == 2 && args[0].Op == "List" && len(args[0].Args) > 0 && (args[1].Op == "Nil" || (args[1].Op == "Const" && (args[1].S == `""` || args[1].S == ""))) {
			return mk("Concat", "", c, args[0].Args...)
		}
	case "slices.Concat", "bytes.Concat":
		if len(args) == 1 && args[0].Op == "List" && len(args[0].Args) > 0 {
			return mk("Concat", "", c, args[0].Args...)
		}
	case "strings.TrimSuffix", "strings.TrimPrefix":
		// trimming the empty string leaves the string
		if len(args) == 2 && emptyStringTerm(args[1]) {
			return args[0]
		}
	case "builtin len":
		return mk("Call", "len", c, args...)
	case "builtin cap":
		return mk("Call", "cap", c, args...)
	case "builtin copy":
		return mk("Call", "copy", c, args...)
	case "dynamic":
		ft := tb.Term(cc.Value)
		if ft.Op == "Func" {
			return mk("Call", ft.S, c, args...)
		}
		if ft.Op == "Closure" && strings.Contains(ft.S, "$bound") && len(ft.Args) == 1 {
			// bound method value: call of the method on the bound receiver
			m := strings.TrimSuffix(ft.S, "$bound")
			return mk("Call", m, c, append([]*Term{ft.Args[0]}, args...)...)
		}
		return mk("CallV", "", c, append([]*Term{ft}, args...)...)
	}
	if ctor, ok := oneShotHash[name]; ok && len(args) == 1 {
		// sha512.Sum512(x) is sha512.New() fed x and summed
		fed := mk("Fed", "", nil, mk("Call", ctor, nil), mk("Call", "invoke (io.Writer).Write", nil, mk("Const", "·", nil), args[0]))
		return mk("Invoke", "invoke (hash.Hash).Sum", c, fed, mk("Nil", "nil", nil))
	}
	if cc.IsInvoke() {
		if name == "invoke (hash.Hash).Sum" {
			args[0] = tb.fedState(cc.Value, c)
		}
		return mk("Invoke", name, c, args...)
	}
	return mk("Call", name, c, args...)
}

// normBin builds a binary term, folding chains of additions and subtractions of
// integer constants: (x + 1) + 6 and x + 7 are the same term.
func normBin(op string, v ssa.Value, x, y *Term) *Term {
	// s + "" is s (an empty suffix constant of a table of encodings)
	if op == "+" && v != nil && isStringType(v.Type()) {
		if emptyStringTerm(y) {
			return x
		}
		if emptyStringTerm(x) {
			return y
		}
	}
	if op != "+" && op != "-" {
		return mk("Bin", op, v, x, y)
	}
	ky, yConst := intConst(y)
	kx, xConst := intConst(x)
	if xConst && yConst {
		return mk("Bin", op, v, x, y)
	}
	if op == "+" && xConst && !yConst {
		x, y, kx, ky, xConst, yConst = y, x, ky, kx, yConst, xConst
	}
	if !yConst {
		return mk("Bin", op, v, x, y)
	}
	k := ky
	if op == "-" {
		k = -ky
	}
	base := x
	if x.Op == "Bin" && (x.S == "+" || x.S == "-") && len(x.Args) == 2 {
		if k2, ok := intConst(x.Args[1]); ok {
			if x.S == "-" {
				k2 = -k2
			}
			base, k = x.Args[0], k+k2
		} else if k2, ok := intConst(x.Args[0]); ok && x.S == "+" {
			base, k = x.Args[1], k+k2
		}
	}
	if base == x {
		return mk("Bin", op, v, x, y) // nothing folded: keep the written form
	}
	switch {
	case k == 0:
		return base
	case k > 0:
		return mk("Bin", "+", v, base, mk("Const", strconv.FormatInt(k, 10), nil))
	default:
		return mk("Bin", "-", v, base, mk("Const", strconv.FormatInt(-k, 10), nil))
	}
}

// oneShotHash maps the one-call digest functions to the constructor of the
// streaming hash they abbreviate.
var oneShotHash = map[string]string{
	"crypto/sha512.Sum512":     "crypto/sha512.New",
	"crypto/sha512.Sum384":     "crypto/sha512.New384",
	"crypto/sha512.Sum512_224": "crypto/sha512.New512_224",
	"crypto/sha512.Sum512_256": "crypto/sha512.New512_256",
	"crypto/sha256.Sum256":     "crypto/sha256.New",
	"crypto/sha256.Sum224":     "crypto/sha256.New224",
	"crypto/sha1.Sum":          "crypto/sha1.New",
	"crypto/md5.Sum":           "crypto/md5.New",
}

// fedState describes a stateful writer (a hash) at the point where its
// result is taken: the base constructor plus, in order, every earlier call
// that was handed the state (Write calls, serialisers writing into it).
func (tb *TB) fedState(recv ssa.Value, at ssa.Instruction) *Term {
	base := tb.Term(recv)
	root := stripConv(recv)
	aliases := map[ssa.Value]bool{root: true}
	work := []ssa.Value{root}
	for len(work) > 0 {
		v := work[0]
		work = work[1:]
		if refs := v.Referrers(); refs != nil {
			for _, r := range *refs {
				switch x := r.(type) {
				case *ssa.MakeInterface:
					if !aliases[x] {
						aliases[x] = true
						work = append(work, x)
					}
				case *ssa.ChangeInterface:
					if !aliases[x] {
						aliases[x] = true
						work = append(work, x)
					}
				}
			}
		}
	}
	var feeds []ssa.CallInstruction
	for v := range aliases {
		if refs := v.Referrers(); refs != nil {
			for _, r := range *refs {
				ci, ok := r.(ssa.CallInstruction)
				if !ok || r == at {
					continue
				}
				dup := false
				for _, f := range feeds {
					if f == ci {
						dup = true
					}
				}
				if !dup && dominatesInstr(r, at) {
					feeds = append(feeds, ci)
				}
			}
		}
	}
	sort.Slice(feeds, func(i, j int) bool {
		return dominatesInstr(feeds[i].(ssa.Instruction), feeds[j].(ssa.Instruction))
	})
	t := mk("Fed", "", nil, base)
	for _, f := range feeds {
		fc := f.Common()
		ft := mk("Call", tb.resolvedCalleeName(fc), nil)
		all := fc.Args
		if fc.IsInvoke() {
			all = append([]ssa.Value{fc.Value}, fc.Args...)
		}
		for _, a := range all {
			if aliases[stripConv(a)] || aliases[a] {
				ft.Args = append(ft.Args, mk("Const", "·", nil))
			} else {
				ft.Args = append(ft.Args, tb.Term(a))
			}
		}
		t.Args = append(t.Args, ft)
	}
	if len(t.Args) == 1 {
		return base
	}
	return t
}

func (tb *TB) appendTerm(c *ssa.Call, args []*Term) *Term {
	if len(args) != 2 {
		return mk("Unknown", "append arity", c)
	}
	t := mk("Concat", "", c)
	a := args[0]
	switch a.Op {
	case "Concat":
		t.Args = append(t.Args, a.Args...)
	case "Make0", "Nil":
	default:
		t.Args = append(t.Args, a)
	}
	b := args[1]
	if b.Op == "Nil" {
		return t
	}
	t.Args = append(t.Args, b)
	return t
}

// ---------------------------------------------------------------------------
// package variables initialised once

func (p *Program) globalInit(g *ssa.Global) *Term {
	if !strings.HasPrefix(g.Pkg.Pkg.Path(), modPath) {
		return nil
	}
	var stores []*ssa.Store
	for _, fn := range p.Funcs {
		for _, b := range fn.Blocks {
			for _, in := range b.Instrs {
				if s, ok := in.(*ssa.Store); ok && s.Addr == g {
					stores = append(stores, s)
				}
			}
		}
	}
	initFn := g.Pkg.Func("init")
	if initFn != nil {
		for _, b := range initFn.Blocks {
			for _, in := range b.Instrs {
				if s, ok := in.(*ssa.Store); ok && s.Addr == g {
					dup := false
					for _, e := range stores {
						if e == s {
							dup = true
						}
					}
					if !dup {
						stores = append(stores, s)
					}
				}
			}
		}
	}
	if len(stores) == 0 && initFn != nil {
		if t := p.globalArrayInit(g, initFn); t != nil {
			return t
		}
	}
	if len(stores) != 1 || stores[0].Parent() != initFn {
		if os.Getenv("AGECHECK_DEBUG_GLOBAL") != "" {
			fmt.Fprintf(os.Stderr, "globalInit %s: %d stores; init=%v blocks=%d\n", g.Name(), len(stores), initFn != nil, func() int {
				if initFn == nil {
					return -1
				}
				return len(initFn.Blocks)
			}())
			for _, u := range p.globalUses(g) {
				fmt.Fprintf(os.Stderr, "   use in %s: %T %s\n", u.Parent(), u, u)
			}
		}
		return nil
	}
	// address taken elsewhere?
	for _, r := range p.globalUses(g) {
		switch u := r.(type) {
		case *ssa.UnOp, *ssa.DebugRef:
		case *ssa.Store:
			if u.Addr != g {
				return nil
			}
		default:
			if os.Getenv("AGECHECK_DEBUG_GLOBAL") != "" {
				fmt.Fprintf(os.Stderr, "globalInit %s: use %T %s\n", g.Name(), r, r)
			}
			return nil
		}
	}
	tb := p.TB(initFn)
	tb.NoGlobalInit = false
	return tb.Term(stores[0].Val)
}

// globalFieldInit: the value of field f of a package-level struct variable that is built once,
// field by field, by the package initialiser (var enc = keyEncoding{hrp: "age", ..}) and never
// written or exposed afterwards.
func (p *Program) globalFieldInit(g *ssa.Global, f int) *Term {
	if !strings.HasPrefix(g.Pkg.Pkg.Path(), modPath) {
		return nil
	}
	initFn := g.Pkg.Func("init")
	if initFn == nil {
		return nil
	}
	var st *ssa.Store
	for _, u := range p.globalUses(g) {
		switch x := u.(type) {
		case *ssa.UnOp, *ssa.DebugRef:
		case *ssa.FieldAddr:
			if x.X != ssa.Value(g) {
				return nil
			}
			for _, r := range *x.Referrers() {
				switch y := r.(type) {
				case *ssa.UnOp, *ssa.DebugRef:
				case *ssa.Store:
					if y.Addr != ssa.Value(x) || y.Parent() != initFn {
						return nil
					}
					if x.Field == f {
						if st != nil {
							return nil
						}
						st = y
					}
				default:
					return nil // the field's address goes somewhere
				}
			}
		default:
			return nil
		}
	}
	if st == nil {
		return nil
	}
	tb := p.TB(initFn)
	tb.NoGlobalInit = false
	return tb.Term(st.Val)
}

// globalUses lists the module instructions that have g as an operand
// (ssa.Global keeps no referrer list).
func (p *Program) globalUses(g *ssa.Global) []ssa.Instruction {
	if p.guses == nil {
		p.guses = map[*ssa.Global][]ssa.Instruction{}
		fns := append([]*ssa.Function(nil), p.Funcs...)
		for _, sp := range p.SSAPkg {
			if f := sp.Func("init"); f != nil {
				fns = append(fns, f)
			}
		}
		seen := map[*ssa.Function]bool{}
		for _, fn := range fns {
			if seen[fn] {
				continue
			}
			seen[fn] = true
			for _, b := range fn.Blocks {
				for _, in := range b.Instrs {
					var rands [16]*ssa.Value
					for _, op := range in.Operands(rands[:0]) {
						if op == nil || *op == nil {
							continue
						}
						if gg, ok := (*op).(*ssa.Global); ok {
							p.guses[gg] = append(p.guses[gg], in)
						}
					}
				}
			}
		}
	}
	return p.guses[g]
}

// inModuleType: the (interface) type is declared in the analysed module.
func (p *Program) inModuleType(t types.Type) bool {
	n := namedOf(t)
	if n == nil || n.Obj().Pkg() == nil {
		return false
	}
	pp := n.Obj().Pkg().Path()
	return pp == modPath || strings.HasPrefix(pp, modPath+"/")
}

// globalArrayInit: a package-level array (var generator = [...]uint32{..}) filled element by
// element by the package initialiser, each index once with a constant, and only read elsewhere:
// the list of its elements, like the slice literal it replaces.
func (p *Program) globalArrayInit(g *ssa.Global, initFn *ssa.Function) *Term {
	arr, ok := g.Type().(*types.Pointer).Elem().Underlying().(*types.Array)
	if !ok {
		return nil
	}
	vals := make([]*Term, arr.Len())
	for _, u := range p.globalUses(g) {
		switch x := u.(type) {
		case *ssa.DebugRef:
		case *ssa.UnOp: // whole-array load (range over a copy)
		case *ssa.IndexAddr:
			if x.Referrers() == nil {
				continue
			}
			for _, rr := range *x.Referrers() {
				switch y := rr.(type) {
				case *ssa.UnOp, *ssa.DebugRef:
				case *ssa.Store:
					if y.Addr != ssa.Value(x) || y.Parent() != initFn {
						return nil
					}
					i, isK := constInt(x.Index)
					k, isC := y.Val.(*ssa.Const)
					if !isK || !isC || i < 0 || i >= arr.Len() || vals[i] != nil {
						return nil
					}
					vals[i] = mk("Const", constString(k), k)
				default:
					return nil
				}
			}
		default:
			return nil
		}
	}
	for _, v := range vals {
		if v == nil {
			return nil
		}
	}
	return mk("List", "", g, vals...)
}

// emptyStringTerm: the constant "" or the zero value of a string.
func emptyStringTerm(t *Term) bool {
	if t == nil {
		return false
	}
	if t.Op == "Const" && (t.S == `""` || t.S == "") {
		return t.V != nil && isStringType(t.V.Type())
	}
	if t.Op == "Zero" && t.V != nil {
		return isStringType(t.V.Type())
	}
	return false
}
