package main

// Developer tool (`-mutall DIR`): classic expression-level mutants of the
// module's non-test sources (relational, logical and arithmetic operator
// replacement, integer literals off by one, negation removal, slice bounds
// dropped, string literals changed, break/continue swapped, nil-error returns).
// Every mutant that type-checks is analysed by all twenty properties; the
// mutants no property reports are written to DIR so that tools/mut_survivors.sh
// can run the pinned suite on them. What survives both is the reviewable list
// of changes the machinery does not see. Not part of any registered check.

import (
	"bytes"
	"fmt"
	"go/ast"
	"go/format"
	"go/parser"
	"go/token"
	"os"
	"path/filepath"
	"sort"
	"strconv"
	"strings"
	"sync"
)

type mutant struct {
	file string
	line int
	desc string
	src  []byte
}

var relSwap = map[token.Token][]token.Token{
	token.EQL:  {token.NEQ},
	token.NEQ:  {token.EQL},
	token.LSS:  {token.LEQ, token.GTR},
	token.LEQ:  {token.LSS},
	token.GTR:  {token.GEQ, token.LSS},
	token.GEQ:  {token.GTR},
	token.LAND: {token.LOR},
	token.LOR:  {token.LAND},
	token.ADD:  {token.SUB},
	token.SUB:  {token.ADD},
	token.SHL:  {token.SHR},
	token.AND:  {token.OR},
	token.OR:   {token.AND},
	token.REM:  {token.QUO},
}

// mutateFile returns every mutant of one file. Each mutant re-parses the file
// so that the edits are independent of each other.
func mutateFile(path string) []mutant {
	var out []mutant
	count := func() int {
		fset := token.NewFileSet()
		f, err := parser.ParseFile(fset, path, nil, parser.ParseComments)
		if err != nil {
			return 0
		}
		n := 0
		for _, d := range f.Decls {
			ast.Inspect(d, func(ast.Node) bool { n++; return true })
		}
		return n
	}()
	// apply(k, variant) mutates the k-th visited node with the given variant;
	// it reports the description, or "" if that variant does not exist.
	apply := func(k, variant int) (string, []byte, int) {
		fset := token.NewFileSet()
		f, err := parser.ParseFile(fset, path, nil, parser.ParseComments)
		if err != nil {
			return "", nil, 0
		}
		i := 0
		desc := ""
		line := 0
		inFunc := false
		for _, d := range f.Decls {
			_, inFunc = d.(*ast.FuncDecl)
			var parents []ast.Node
			ast.Inspect(d, func(n ast.Node) bool {
				if n == nil {
					parents = parents[:len(parents)-1]
					i++ // keep numbering identical to the counting pass (nil visits counted there too)
					return true
				}
				me := i
				i++
				parents = append(parents, n)
				if me != k {
					return true
				}
				line = fset.Position(n.Pos()).Line
				switch x := n.(type) {
				case *ast.BinaryExpr:
					alts := relSwap[x.Op]
					if variant < len(alts) {
						desc = fmt.Sprintf("op %s -> %s", x.Op, alts[variant])
						x.Op = alts[variant]
					}
				case *ast.UnaryExpr:
					if x.Op == token.NOT && variant == 0 && len(parents) >= 2 {
						desc = "drop !"
						x.Op = token.ADD // placeholder, replaced below
						// replace by parenthesised operand: `+x` does not type-check for bool, so rewrite in parent
						replaceChild(parents[len(parents)-2], x, &ast.ParenExpr{X: x.X})
					}
				case *ast.BasicLit:
					if x.Kind == token.INT && inFunc || x.Kind == token.INT && isConstDecl(d) {
						v, err := strconv.ParseInt(x.Value, 0, 64)
						if err == nil {
							switch variant {
							case 0:
								desc = fmt.Sprintf("int %s -> %d", x.Value, v+1)
								x.Value = strconv.FormatInt(v+1, 10)
							case 1:
								if v > 0 {
									desc = fmt.Sprintf("int %s -> %d", x.Value, v-1)
									x.Value = strconv.FormatInt(v-1, 10)
								}
							}
						}
					}
					if x.Kind == token.STRING && variant == 0 && len(x.Value) >= 2 && x.Value[0] == '"' {
						if _, isImport := parents[len(parents)-2].(*ast.ImportSpec); !isImport {
							if _, isTag := parents[len(parents)-2].(*ast.Field); !isTag {
								desc = fmt.Sprintf("string %s + \"~\"", trunc(x.Value, 30))
								x.Value = x.Value[:len(x.Value)-1] + `~"`
							}
						}
					}
				case *ast.SliceExpr:
					switch variant {
					case 0:
						if x.Low != nil {
							desc = "slice: low bound dropped"
							x.Low = nil
						}
					case 1:
						if x.High != nil && !x.Slice3 {
							desc = "slice: high bound dropped"
							x.High = nil
						}
					}
				case *ast.BranchStmt:
					if variant == 0 && x.Label == nil {
						if x.Tok == token.BREAK {
							if insideLoopNotSwitch(parents) {
								desc = "break -> continue"
								x.Tok = token.CONTINUE
							}
						} else if x.Tok == token.CONTINUE {
							desc = "continue -> break"
							x.Tok = token.BREAK
						}
					}
				case *ast.IfStmt:
					switch variant {
					case 0:
						desc = "if cond -> true"
						x.Cond = &ast.BinaryExpr{X: &ast.ParenExpr{X: x.Cond}, Op: token.LOR, Y: ast.NewIdent("true")}
					case 1:
						desc = "if cond -> false"
						x.Cond = &ast.BinaryExpr{X: &ast.ParenExpr{X: x.Cond}, Op: token.LAND, Y: ast.NewIdent("false")}
					}
				case *ast.ReturnStmt:
					// `return …, err` inside `if err != nil`-like bodies: swallow the error
					if variant == 0 && len(x.Results) >= 1 {
						last := x.Results[len(x.Results)-1]
						if id, ok := last.(*ast.Ident); ok && (id.Name == "err") {
							desc = "return …, err -> return …, nil"
							x.Results[len(x.Results)-1] = ast.NewIdent("nil")
						}
					}
				case *ast.CallExpr:
					// swap the first two arguments when there are exactly two plain arguments
					if variant == 0 && len(x.Args) == 2 && !x.Ellipsis.IsValid() {
						desc = "call: arguments swapped"
						x.Args[0], x.Args[1] = x.Args[1], x.Args[0]
					}
				case *ast.AssignStmt:
					if variant == 0 && len(x.Lhs) == 1 && len(x.Rhs) == 1 {
						switch x.Tok {
						case token.ADD_ASSIGN:
							desc = "+= -> -="
							x.Tok = token.SUB_ASSIGN
						case token.SUB_ASSIGN:
							desc = "-= -> +="
							x.Tok = token.ADD_ASSIGN
						case token.OR_ASSIGN:
							desc = "|= -> &="
							x.Tok = token.AND_ASSIGN
						}
					}
				}
				return true
			})
		}
		if desc == "" {
			return "", nil, 0
		}
		var buf bytes.Buffer
		if err := format.Node(&buf, fset, f); err != nil {
			return "", nil, 0
		}
		return desc, buf.Bytes(), line
	}
	for k := 0; k < count; k++ {
		for v := 0; v < 2; v++ {
			desc, src, line := apply(k, v)
			if desc == "" {
				continue
			}
			out = append(out, mutant{file: path, line: line, desc: desc, src: src})
		}
	}
	return out
}

func trunc(s string, n int) string {
	if len(s) > n {
		return s[:n] + "…"
	}
	return s
}

func isConstDecl(d ast.Decl) bool {
	g, ok := d.(*ast.GenDecl)
	return ok && g.Tok == token.CONST
}

func insideLoopNotSwitch(parents []ast.Node) bool {
	for i := len(parents) - 2; i >= 0; i-- {
		switch parents[i].(type) {
		case *ast.ForStmt, *ast.RangeStmt:
			return true
		case *ast.SwitchStmt, *ast.TypeSwitchStmt, *ast.SelectStmt, *ast.FuncLit:
			return false
		}
	}
	return false
}

// replaceChild replaces old by repl among the expression children of parent.
func replaceChild(parent ast.Node, old, repl ast.Expr) {
	switch p := parent.(type) {
	case *ast.IfStmt:
		if p.Cond == old {
			p.Cond = repl
		}
	case *ast.ForStmt:
		if p.Cond == old {
			p.Cond = repl
		}
	case *ast.BinaryExpr:
		if p.X == old {
			p.X = repl
		}
		if p.Y == old {
			p.Y = repl
		}
	case *ast.ParenExpr:
		if p.X == old {
			p.X = repl
		}
	case *ast.ReturnStmt:
		for i := range p.Results {
			if p.Results[i] == old {
				p.Results[i] = repl
			}
		}
	case *ast.AssignStmt:
		for i := range p.Rhs {
			if p.Rhs[i] == old {
				p.Rhs[i] = repl
			}
		}
	case *ast.CallExpr:
		for i := range p.Args {
			if p.Args[i] == old {
				p.Args[i] = repl
			}
		}
	case *ast.UnaryExpr:
		if p.X == old {
			p.X = repl
		}
	}
}

func mutAll(repo, outDir string, only string) {
	base, err := Load(repo, quickConfigs[0], nil)
	if err != nil {
		fmt.Println(err)
		return
	}
	raw := base
	if r, err := load(repo, quickConfigs[0], nil, 0, nil); err == nil {
		raw = r
	}
	var files []string
	for _, pk := range raw.Pkgs {
		for _, f := range pk.Syntax {
			fname := raw.Fset.Position(f.Pos()).Filename
			if isTestFile(fname) || strings.HasSuffix(fname, "wordlist.go") || strings.HasSuffix(fname, "tui.go") {
				continue
			}
			if only != "" && !strings.Contains(fname, only) {
				continue
			}
			files = append(files, fname)
		}
	}
	sort.Strings(files)
	var ids []string
	for id := range properties {
		ids = append(ids, id)
	}
	sort.Strings(ids)
	baseStatus := map[string]map[string]string{}
	for _, id := range ids {
		res := NewResult(id, base)
		func() {
			defer func() { recover() }()
			properties[id].Run(base, res)
			res.applyFloors()
		}()
		m := map[string]string{}
		for _, o := range res.Obs {
			m[o.Key()] = o.Status
		}
		baseStatus[id] = m
	}
	var muts []mutant
	for _, f := range files {
		muts = append(muts, mutateFile(f)...)
	}
	fmt.Fprintf(os.Stderr, "%d mutants over %d files\n", len(muts), len(files))
	os.MkdirAll(outDir, 0o755)
	var mu sync.Mutex
	var wg sync.WaitGroup
	par := 12
	fmt.Sscanf(os.Getenv("MUT_PAR"), "%d", &par)
	sem := make(chan struct{}, par)
	lo, hi := 0, len(muts)
	fmt.Sscanf(os.Getenv("MUT_RANGE"), "%d:%d", &lo, &hi)
	for i, m := range muts {
		if i < lo || i >= hi {
			continue
		}
		wg.Add(1)
		go func(i int, m mutant) {
			defer wg.Done()
			sem <- struct{}{}
			defer func() { <-sem }()
			rel, _ := filepath.Rel(repo, m.file)
			desc := fmt.Sprintf("%s:%d %s", rel, m.line, m.desc)
			p, err := Load(repo, quickConfigs[0], map[string][]byte{m.file: m.src})
			if err != nil {
				mu.Lock()
				fmt.Printf("%04d\tUNBUILDABLE\t%s\n", i, desc)
				mu.Unlock()
				return
			}
			var hit []string
			for _, id := range ids {
				res := NewResult(id, p)
				func() {
					defer func() {
						if e := recover(); e != nil {
							res.cur = "machinery"
							res.add(Machinery, "agecheck", "panic", "", fmt.Sprint(e))
						}
					}()
					properties[id].Run(p, res)
					res.applyFloors()
				}()
				for _, o := range res.Obs {
					if o.Status != Discharged && baseStatus[id][o.Key()] != o.Status {
						hit = append(hit, id)
						break
					}
				}
			}
			if len(hit) == 0 {
				d := filepath.Join(outDir, fmt.Sprintf("%04d", i))
				os.MkdirAll(filepath.Join(d, filepath.Dir(rel)), 0o755)
				os.WriteFile(filepath.Join(d, rel), m.src, 0o644)
				os.WriteFile(filepath.Join(d, "desc.txt"), []byte(desc+"\n"+rel+"\n"), 0o644)
			}
			mu.Lock()
			fmt.Printf("%04d\t%d\t%s\t%s\n", i, len(hit), desc, strings.Join(hit, ","))
			mu.Unlock()
		}(i, m)
	}
	wg.Wait()
}
