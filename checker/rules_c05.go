package main

import (
	"encoding/json"
	"fmt"
	"go/types"
	"os"
	"strings"
)

func init() {
	register(&PropertyDef{
		ID: "C05",
		Explanation: "The static content of 'byte-exact age v1' decided against hand-transcribed specification tables: every label, size, parameter, KDF/AEAD/OAEP call-site recipe, stanza layout and guard on both the wrapping and the unwrapping side (terms reconstructed from SSA by E3), " +
			"plus the format constants of STREAM, the header grammar, armor and Bech32, equal /verif/spec/recipes.json and constants.json. Both directions are covered because both the Wrap and the unwrap site of each recipient type are rows of the table. Also: the emitted byte sequence of the serialisers as a grammar (emits), the parser's acceptance conditions (R05.parse = R07.1), the nonce layout (R05.stream-nonce), the chunking rule (R05.chunking = R12.4) and the header listing exactly the recipients' stanzas in order (R05.header-stanzas = R01.9).",
		NotDecided:  "the arithmetic that applies the constants (polymod, convertBits, writeWrapped, buffer offsets, incNonce as arithmetic) and the primitives themselves: the check decides constants and call-site recipes, not the byte stream.",
		Assumptions: []string{"the tables in /verif/spec are a correct transcription of the age v1 specification", "external primitives implement what their names say"},
		Technique:   "static analysis: SSA term reconstruction (E3) of call-site recipes and constant folding compared with specification tables (E9)",
		Run:         runC05,
	})
}

// recipeSites is the table of DESIGN.md section 4 / Appendix A.
var recipeSites = []Site{
	// primitives
	{"age.aeadEncrypt.result", pkgAge, "", "aeadEncrypt", "ret:0", []string{"C05", "C06"}},
	{"age.aeadDecrypt.result", pkgAge, "", "aeadDecrypt", "ret:0", []string{"C05"}},
	{"age.aeadDecrypt.guards", pkgAge, "", "aeadDecrypt", "facts:invoke (cipher.AEAD).Open", []string{"C05"}},
	{"agessh.aeadEncrypt.result", pkgSSH, "", "aeadEncrypt", "ret:0", []string{"C05", "C06"}},
	{"agessh.aeadDecrypt.result", pkgSSH, "", "aeadDecrypt", "ret:0", []string{"C05"}},
	{"headerMAC.result", pkgAge, "", "headerMAC", "ret:0", []string{"C05", "C03"}},
	{"streamKey.result", pkgAge, "", "streamKey", "ret:0", []string{"C05", "C01", "C02"}},
	// X25519
	{"X25519Recipient.Wrap.stanzas", pkgAge, "X25519Recipient", "Wrap", "ret:0", []string{"C04", "C05", "C01", "C06"}},
	{"X25519Identity.unwrap.result", pkgAge, "X25519Identity", "unwrap", "ret:0", []string{"C04", "C05", "C01"}},
	{"X25519Identity.unwrap.guards", pkgAge, "X25519Identity", "unwrap", "facts:age.aeadDecrypt", []string{"C05", "C01"}},
	{"newX25519IdentityFromScalar.result", pkgAge, "", "newX25519IdentityFromScalar", "ret:0", []string{"C04", "C05", "C01", "C09"}},
	{"newX25519IdentityFromScalar.guards", pkgAge, "", "newX25519IdentityFromScalar", "facts:ret", []string{"C05", "C09"}},
	{"X25519Identity.Recipient.result", pkgAge, "X25519Identity", "Recipient", "ret:0", []string{"C04", "C05", "C01"}},
	// newX25519RecipientFromPoint is spliced into its callers by the normal form
	{"ParseX25519Recipient.result", pkgAge, "", "ParseX25519Recipient", "ret:0", []string{"C04", "C05", "C01", "C09"}},
	{"X25519Identity.Recipient.result", pkgAge, "X25519Identity", "Recipient", "ret:0", []string{"C04", "C05", "C01"}},
	{"ParseX25519Recipient.hrp", pkgAge, "", "ParseX25519Recipient", "facts:ret", []string{"C05", "C09"}},
	{"ParseX25519Identity.hrp", pkgAge, "", "ParseX25519Identity", "facts:ret", []string{"C05", "C09"}},
	{"X25519Recipient.String.encode", pkgAge, "X25519Recipient", "String", "ret:0", []string{"C05", "C09"}},
	{"X25519Identity.String.encode", pkgAge, "X25519Identity", "String", "ret:0", []string{"C05", "C09"}},
	// scrypt
	{"ScryptRecipient.Wrap.stanzas", pkgAge, "ScryptRecipient", "Wrap", "ret:0", []string{"C04", "C05", "C01", "C06"}},
	{"ScryptIdentity.unwrap.result", pkgAge, "ScryptIdentity", "unwrap", "ret:0", []string{"C04", "C05", "C01"}},
	{"ScryptIdentity.unwrap.guards", pkgAge, "ScryptIdentity", "unwrap", "facts:scrypt.Key", []string{"C05", "C01"}},
	{"NewScryptRecipient.result", pkgAge, "", "NewScryptRecipient", "ret:0", []string{"C05"}},
	{"NewScryptIdentity.result", pkgAge, "", "NewScryptIdentity", "ret:0", []string{"C05"}},
	// ssh-rsa
	{"sshFingerprint.result", pkgSSH, "", "sshFingerprint", "ret:0", []string{"C05", "C01"}},
	{"RSARecipient.Wrap.stanzas", pkgSSH, "RSARecipient", "Wrap", "ret:0", []string{"C05", "C01", "C06"}},
	{"RSAIdentity.unwrap.result", pkgSSH, "RSAIdentity", "unwrap", "ret:0", []string{"C05", "C01"}},
	{"RSAIdentity.unwrap.guards", pkgSSH, "RSAIdentity", "unwrap", "facts:rsa.DecryptOAEP", []string{"C05", "C01"}},
	{"NewRSARecipient.guards", pkgSSH, "", "NewRSARecipient", "facts:ret", []string{"C05"}},
	{"RSAIdentity.Recipient.result", pkgSSH, "RSAIdentity", "Recipient", "ret:0", []string{"C04", "C05", "C01"}},
	{"NewRSAIdentity.result", pkgSSH, "", "NewRSAIdentity", "ret:0", []string{"C04", "C05", "C01"}},
	// ssh-ed25519
	{"Ed25519Recipient.Wrap.stanzas", pkgSSH, "Ed25519Recipient", "Wrap", "ret:0", []string{"C05", "C01", "C06"}},
	{"Ed25519Identity.unwrap.result", pkgSSH, "Ed25519Identity", "unwrap", "ret:0", []string{"C05", "C01"}},
	{"Ed25519Identity.unwrap.guards", pkgSSH, "Ed25519Identity", "unwrap", "facts:agessh.aeadDecrypt", []string{"C05", "C01"}},
	{"NewEd25519Recipient.result", pkgSSH, "", "NewEd25519Recipient", "ret:0", []string{"C04", "C05", "C01"}},
	{"NewEd25519Recipient.guards", pkgSSH, "", "NewEd25519Recipient", "facts:ret", []string{"C05"}},
	{"ed25519PublicKeyToCurve25519.result", pkgSSH, "", "ed25519PublicKeyToCurve25519", "ret:0", []string{"C05", "C01"}},
	{"NewEd25519Identity.result", pkgSSH, "", "NewEd25519Identity", "ret:0", []string{"C04", "C05", "C01"}},
	{"ed25519PrivateKeyToCurve25519.result", pkgSSH, "", "ed25519PrivateKeyToCurve25519", "ret:0", []string{"C05", "C01"}},
	{"Ed25519Identity.Recipient.result", pkgSSH, "Ed25519Identity", "Recipient", "ret:0", []string{"C04", "C05", "C01"}},
	// payload key agreement
	{"Encrypt.NewWriter.key", pkgAge, "", "Encrypt", "arg:stream.NewWriter:0", []string{"C05", "C01", "C06"}},
	{"Encrypt.NewWriter.dst", pkgAge, "", "Encrypt", "arg:stream.NewWriter:1", []string{"C05", "C01"}},
	{"Encrypt.nonce.write", pkgAge, "", "Encrypt", "arg:invoke (io.Writer).Write:1", []string{"C05", "C01", "C06"}},
	{"Encrypt.headerMAC.key", pkgAge, "", "Encrypt", "arg:age.headerMAC:0", []string{"C05", "C06"}},
	{"Decrypt.NewReader.key", pkgAge, "", "Decrypt", "arg:stream.NewReader:0", []string{"C05", "C01", "C02"}},
	{"Decrypt.NewReader.src", pkgAge, "", "Decrypt", "arg:stream.NewReader:1", []string{"C05", "C01"}},
	// STREAM
	{"stream.NewWriter.result", pkgStream, "", "NewWriter", "ret:0", []string{"C05", "C01"}},
	{"stream.NewReader.result", pkgStream, "", "NewReader", "ret:0", []string{"C05", "C01"}},
	{"stream.flushChunk.Seal.dst", pkgStream, "Writer", "flushChunk", "arg:invoke (cipher.AEAD).Seal:1", []string{"C05", "C01"}},
	{"stream.flushChunk.Seal.nonce", pkgStream, "Writer", "flushChunk", "arg:invoke (cipher.AEAD).Seal:2", []string{"C05", "C01", "C06"}},
	{"stream.flushChunk.Seal.plaintext", pkgStream, "Writer", "flushChunk", "arg:invoke (cipher.AEAD).Seal:3", []string{"C05", "C01"}},
	{"stream.flushChunk.Seal.ad", pkgStream, "Writer", "flushChunk", "arg:invoke (cipher.AEAD).Seal:4", []string{"C05", "C01"}},
	{"stream.readChunk.Open.nonce", pkgStream, "Reader", "readChunk", "arg:invoke (cipher.AEAD).Open:2", []string{"C05", "C01", "C02"}},
	{"stream.readChunk.Open.ad", pkgStream, "Reader", "readChunk", "arg:invoke (cipher.AEAD).Open:4", []string{"C05", "C01", "C02"}},
	{"stream.readChunk.Open#2.nonce", pkgStream, "Reader", "readChunk", "arg:invoke (cipher.AEAD).Open#2:2", []string{"C05", "C01", "C02"}},
	{"stream.readChunk.Open#2.ad", pkgStream, "Reader", "readChunk", "arg:invoke (cipher.AEAD).Open#2:4", []string{"C05", "C01", "C02"}},
	{"stream.readChunk.Open.dst", pkgStream, "Reader", "readChunk", "arg:invoke (cipher.AEAD).Open:1", []string{"C05", "C01", "C12"}},
	{"stream.readChunk.Open.in", pkgStream, "Reader", "readChunk", "arg:invoke (cipher.AEAD).Open:3", []string{"C05", "C01"}},
	{"stream.Write.copy.dst", pkgStream, "Writer", "Write", "arg:builtin copy:0", []string{"C05", "C01", "C12"}},
	{"stream.readChunk.ReadFull.buf", pkgStream, "Reader", "readChunk", "arg:io.ReadFull:1", []string{"C05", "C12"}},
	{"stream.readChunk.ReadFull.src", pkgStream, "Reader", "readChunk", "arg:io.ReadFull:0", []string{"C05", "C12"}},
	// header
	{"format.Stanza.Marshal.emits", pkgFormat, "Stanza", "Marshal", "emits:1", []string{"C05", "C07", "C01"}},
	{"format.Header.MarshalWithoutMAC.emits", pkgFormat, "Header", "MarshalWithoutMAC", "emits:1", []string{"C05", "C07", "C03"}},
	{"format.Header.Marshal.emits", pkgFormat, "Header", "Marshal", "emits:1", []string{"C05", "C07"}},
	{"plugin.ParseRecipient.name", pkgPlugin, "", "ParseRecipient", "ret:0", []string{"C17", "C09"}},
	{"plugin.ParseIdentity.name", pkgPlugin, "", "ParseIdentity", "ret:0", []string{"C17", "C09"}},
	{"plugin.writeStanza.emits", pkgPlugin, "", "writeStanza", "emits:0", []string{"C16"}},
	{"plugin.writeStanzaWithBody.emits", pkgPlugin, "", "writeStanzaWithBody", "emits:0", []string{"C16"}},
	{"format.Stanza.Marshal.encoder", pkgFormat, "Stanza", "Marshal", "arg:(*format.WrappedBase64Encoder).Write:0", []string{"C05", "C07"}},
	{"format.DecodeString.result", pkgFormat, "", "DecodeString", "ret:0", []string{"C05", "C07"}},
	// armor
	{"armor.NewWriter.result", pkgArmor, "", "NewWriter", "ret:0", []string{"C05", "C08"}},
	{"armor.Write.header", pkgArmor, "armoredWriter", "Write", "arg:io.WriteString:1", []string{"C05", "C08"}},
	{"armor.Read.decoder", pkgArmor, "armoredReader", "Read", "arg:(*base64.Encoding).Decode:0", []string{"C05", "C08"}},
	// bech32 regrouping
	{"bech32.convertBits.range-error", pkgBech32, "", "convertBits", "facts:errret#1", []string{"C05", "C09"}},
	{"bech32.convertBits.surplus-padding", pkgBech32, "", "convertBits", "facts:errret#2", []string{"C05", "C09"}},
	{"bech32.convertBits.nonzero-padding", pkgBech32, "", "convertBits", "facts:errret#3", []string{"C05", "C09"}},
	// plugin strings
	{"plugin.EncodeIdentity.result", pkgPlugin, "", "EncodeIdentity", "arg:bech32.Encode:0", []string{"C05", "C09"}},
	{"plugin.EncodeRecipient.result", pkgPlugin, "", "EncodeRecipient", "arg:bech32.Encode:0", []string{"C05", "C09"}},
}

// constSites: package-level constants and initialised variables.
type ConstSite struct {
	Key       string
	Pkg, Name string
	Kind      string // const | var | arraylen:<Type>.<field>
}

var constSites = []ConstSite{
	{"age.x25519Label", pkgAge, "x25519Label", "const"},
	{"age.scryptLabel", pkgAge, "scryptLabel", "const"},
	{"agessh.oaepLabel", pkgSSH, "oaepLabel", "const"},
	{"agessh.ed25519Label", pkgSSH, "ed25519Label", "const"},
	{"age.fileKeySize", pkgAge, "fileKeySize", "const"},
	{"age.streamNonceSize", pkgAge, "streamNonceSize", "const"},
	{"age.scryptSaltSize", pkgAge, "scryptSaltSize", "const"},
	{"stream.ChunkSize", pkgStream, "ChunkSize", "const"},
	{"stream.encChunkSize", pkgStream, "encChunkSize", "const"},
	{"stream.lastChunkFlag", pkgStream, "lastChunkFlag", "const"},
	{"stream.Reader.nonce", pkgStream, "Reader.nonce", "fieldtype"},
	{"stream.Writer.nonce", pkgStream, "Writer.nonce", "fieldtype"},
	{"stream.Reader.buf", pkgStream, "Reader.buf", "fieldtype"},
	{"stream.Writer.buf", pkgStream, "Writer.buf", "fieldtype"},
	{"format.intro", pkgFormat, "intro", "const"},
	{"format.stanzaPrefix", pkgFormat, "stanzaPrefix", "var"},
	{"format.footerPrefix", pkgFormat, "footerPrefix", "var"},
	{"format.b64", pkgFormat, "b64", "var"},
	{"format.EncodeToString", pkgFormat, "EncodeToString", "var"},
	{"format.ColumnsPerLine", pkgFormat, "ColumnsPerLine", "const"},
	{"format.BytesPerLine", pkgFormat, "BytesPerLine", "const"},
	{"armor.Header", pkgArmor, "Header", "const"},
	{"armor.Footer", pkgArmor, "Footer", "const"},
	{"armor.armoredReader.buf", pkgArmor, "armoredReader.buf", "fieldtype"},
	{"bech32.charset", pkgBech32, "charset", "var"},
	{"bech32.generator", pkgBech32, "generator", "var"},
}

func (p *Program) extractConst(cs ConstSite) (string, error) {
	switch cs.Kind {
	case "const":
		v, ok := p.ConstValue(cs.Pkg, cs.Name)
		if !ok {
			return "", fmt.Errorf("constant not found")
		}
		return v, nil
	case "var":
		g := p.Global(cs.Pkg, cs.Name)
		if g == nil {
			// declared as a constant instead of a variable: the same value
			if v, ok := p.ConstValue(cs.Pkg, cs.Name); ok {
				return v, nil
			}
			return "", fmt.Errorf("variable not found")
		}
		init := p.globalInit(g)
		if init == nil {
			return "", fmt.Errorf("variable is not initialised exactly once at package level (or is assigned elsewhere)")
		}
		return short(init.String()), nil
	case "fieldtype":
		parts := strings.SplitN(cs.Name, ".", 2)
		pk := p.ByPath[cs.Pkg]
		if pk == nil {
			return "", fmt.Errorf("package not found")
		}
		o := pk.Types.Scope().Lookup(parts[0])
		if o == nil {
			return "", fmt.Errorf("type not found")
		}
		st, ok := structUnder(o.Type())
		if !ok {
			return "", fmt.Errorf("not a struct")
		}
		for i := 0; i < st.NumFields(); i++ {
			if st.Field(i).Name() == parts[1] {
				ft := st.Field(i).Type()
				// a named type of the module that the table does not know stands for its
				// underlying type (nonce chunkNonce, with type chunkNonce [12]byte)
				if nt, isNamed := ft.(*types.Named); isNamed && nt.Obj().Pkg() != nil && nt.Obj().Pkg().Path() == cs.Pkg {
					if _, pinned := loadShapes().Fields[typeString(nt)]; !pinned {
						if _, isStruct := nt.Underlying().(*types.Struct); !isStruct {
							ft = nt.Underlying()
						}
					}
				}
				return short(typeString(ft)), nil
			}
		}
		return "", fmt.Errorf("field not found")
	}
	return "", fmt.Errorf("bad kind")
}

// renamedConst looks for a package-level constant or variable of cs.Pkg whose name is not one
// of the table's and whose value is want.
func (p *Program) renamedConst(cs ConstSite, want string, sites []ConstSite) (string, bool) {
	pk := p.ByPath[cs.Pkg]
	if pk == nil {
		return "", false
	}
	pinned := map[string]bool{}
	for _, o := range sites {
		if o.Pkg == cs.Pkg {
			pinned[o.Name] = true
		}
	}
	var names []string
	scope := pk.Types.Scope()
	for _, name := range scope.Names() {
		if pinned[name] {
			continue
		}
		// (a variable may have become a constant or the reverse: the value is what counts)
		switch scope.Lookup(name).(type) {
		case *types.Const:
			if v, ok := p.ConstValue(cs.Pkg, name); ok && v == want {
				names = append(names, name)
			}
		case *types.Var:
			if g := p.Global(cs.Pkg, name); g != nil {
				if init := p.globalInit(g); init != nil && short(init.String()) == want {
					names = append(names, name)
				}
			}
		}
	}
	if len(names) == 0 {
		return "", false
	}
	return strings.Join(names, "/"), true
}

func checkConsts(p *Program, r *Result, sites []ConstSite) {
	for _, cs := range sites {
		sub := cs.Pkg + "." + cs.Name
		got, err := p.extractConst(cs)
		want := specConst(r, cs.Key)
		if err != nil && (cs.Kind == "const" || cs.Kind == "var") {
			// renamed? a package-level constant/variable the table does not know, with the
			// table's value (every use of the value is checked by the recipes anyway)
			if name, ok := p.renamedConst(cs, want, sites); ok {
				r.OK(sub, "const:"+cs.Key, "", "found under the name "+name, Witness{Kind: "table", Text: want})
				continue
			}
		}
		if err != nil {
			r.Unk(sub, "const:"+cs.Key, "", err.Error())
			continue
		}
		if got == want {
			r.OK(sub, "const:"+cs.Key, "", "", Witness{Kind: "table", Text: got})
		} else {
			r.Bad(sub, "const:"+cs.Key, "", "value "+got+" differs from the specification table's "+want)
		}
	}
}

func runC05(p *Program, r *Result) {
	// the armor typestate and reader rules and the STREAM writer discipline are part of what makes
	// the written bytes the specified ones (a footer without header, a second final chunk)
	defer func() {
		r.Rule("R05.armor", "the armor rules of C08 (header before footer, canonical reader)", 0)
		runC08(p, r)
		r.Rule("R05.stream-writer", "STREAM writer: one nonce per sealed chunk, the final flag on the last chunk only, nothing sealed after it (= R06.6)", 9)
		checkStreamWriter(p, r)
	}()
	r.Rule("R05.ssh-tag", "a file addressed to several SSH keys opens with each of them: an SSH stanza for another key is passed over whatever its size (= R04.3)", 2)
	for _, spec := range [][2]string{{"RSAIdentity", "unwrap"}, {"Ed25519Identity", "unwrap"}} {
		if fn := p.Func(pkgSSH, spec[0], spec[1]); fn != nil {
			checkFatalBeforeTag(p, r, fn)
		}
	}
	r.Rule("R05.recipes", "call-site recipes, stanza layouts and guards equal the specification table", 60)
	checkSites(p, r, recipeSites, "C05")
	r.Rule("R05.constants", "labels, sizes and format constants equal the specification table", 24)
	checkConsts(p, r, constSites)
	r.Rule("R05.armor-close", "armor: the line break before the footer is decided after the encoder flushed its final group", 1)
	if cl := r.anchor(pkgArmor, "armoredWriter", "Close"); cl != nil {
		checkFooterAfterClose(p, r, cl)
	}
	r.Rule("R05.stream-nonce", "STREAM nonce layout: 11-byte big-endian counter (carry from index len-2 down to 0), flag value at the last byte", 3)
	checkNonceLayout(p, r)
	r.Rule("R05.parse", "every header the format allows is read: the parser's acceptance conditions are the specified ones (= R07.1)", 16)
	if pf, rsf, ivf, df := r.anchor(pkgFormat, "", "Parse"), r.anchor(pkgFormat, "StanzaReader", "ReadStanza"), r.anchor(pkgFormat, "", "isValidString"), r.anchor(pkgFormat, "", "DecodeString"); pf != nil && rsf != nil && ivf != nil && df != nil {
		checkCanonicalParse(p, r, pf, rsf, ivf, df)
	}
	r.Rule("R05.header-stanzas", "the header lists exactly the stanzas the recipients returned, each once, in order (= R01.9)", 1)
	if enc := r.anchor(pkgAge, "", "Encrypt"); enc != nil {
		checkHeaderStanzas(p, r, enc)
	}
	r.Rule("R05.chunking", "a full buffer is flushed as a non-final chunk only when more data is pending (= R12.4): the chunking is the specified one", 1)
	checkChunkFlushGuard(p, r)
}

// dumpRecipes prints everything the tables are compared with (developer aid
// for transcribing and reviewing the spec tables).
func dumpRecipes(p *Program) {
	out := map[string]string{}
	for _, s := range recipeSites {
		got, _, _, err := p.Extract(s)
		if err != nil {
			got = "ERROR: " + err.Error()
		}
		out[s.Key] = got
	}
	cs := map[string]string{}
	for _, c := range constSites {
		got, err := p.extractConst(c)
		if err != nil {
			got = "ERROR: " + err.Error()
		}
		cs[c.Key] = got
	}
	enc := json.NewEncoder(os.Stdout)
	enc.SetEscapeHTML(false)
	enc.SetIndent("", " ")
	enc.Encode(map[string]interface{}{"recipes": out, "constants": cs})
}
