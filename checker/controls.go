package main

// Witness-removal controls (thorough tier) — see controls_impl.go once built.

func (c *controlsEvidence) isNil() bool { return c == nil }

type controlsState struct{}

var _ = controlsState{}

func runControls(repo, verif, id string, base *Result) *controlsEvidence {
	return nil
}
