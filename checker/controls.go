package main

// Witness-removal controls (thorough tier): for every discharged obligation
// whose witness is a guard (`if` statement or switch case), the checker
// builds an in-memory variant of /repo (packages.Config.Overlay) in which
// that guard's body is emptied, requires it to type-check, re-runs the
// property's rules and requires the obligations that cited the guard to stop
// being discharged. This shows on every thorough run that each verdict
// depends on the code it cites; a rule none of whose controls flips is
// vacuous and fails the check.

import (
	"bytes"
	"fmt"
	"go/ast"
	"go/format"
	"go/parser"
	"go/token"
	"go/types"
	"math/rand"
	"os"
	"path/filepath"
	"sort"
	"strings"
	"sync"
)

type controlSite struct {
	file string // absolute path
	line int
	keys map[string]bool // obligation keys citing this guard
	rule map[string]bool
}

// neutralise parses the file and empties the body of the innermost
// if-statement / case clause whose condition lies on the given line.
func neutralise(path string, line int) ([]byte, string, error) {
	return neutraliseMode(path, line, "body")
}

// neutraliseMode: mode "body" empties the guard's body (an early exit no longer happens); mode
// "false" makes the condition false (`(cond) && false`), for guards whose *other* side provides
// the fact — an else branch, or the code after an if/else-if chain — and for bodies whose
// removal leaves an import unused.
func neutraliseMode(path string, line int, mode string) ([]byte, string, error) {
	fset := token.NewFileSet()
	f, err := parser.ParseFile(fset, path, nil, parser.ParseComments)
	if err != nil {
		return nil, "", err
	}
	var target ast.Node
	ast.Inspect(f, func(n ast.Node) bool {
		switch x := n.(type) {
		case *ast.IfStmt:
			if x.Cond != nil {
				s, e := fset.Position(x.Cond.Pos()).Line, fset.Position(x.Cond.End()).Line
				if s <= line && line <= e {
					target = x // innermost wins (visited later)
				}
			}
		case *ast.CaseClause:
			for _, c := range x.List {
				s, e := fset.Position(c.Pos()).Line, fset.Position(c.End()).Line
				if s <= line && line <= e {
					target = x
				}
			}
		}
		return true
	})
	if target == nil {
		// the witness may point into the guard's body (its return statement):
		// take the innermost if/case whose body contains the line
		ast.Inspect(f, func(n ast.Node) bool {
			switch x := n.(type) {
			case *ast.IfStmt:
				s, e := fset.Position(x.Body.Pos()).Line, fset.Position(x.Body.End()).Line
				if s <= line && line <= e {
					target = x
				}
			case *ast.CaseClause:
				if len(x.Body) > 0 {
					s, e := fset.Position(x.Body[0].Pos()).Line, fset.Position(x.Body[len(x.Body)-1].End()).Line
					if s <= line && line <= e {
						target = x
					}
				}
			}
			return true
		})
	}
	if target == nil {
		return nil, "", fmt.Errorf("no if/case at %s:%d", path, line)
	}
	desc := ""
	if ifs, isIf := target.(*ast.IfStmt); isIf && mode == "false" {
		ifs.Cond = &ast.BinaryExpr{X: &ast.ParenExpr{X: ifs.Cond}, Op: token.LAND, Y: ast.NewIdent("false")}
		var buf bytes.Buffer
		if err := format.Node(&buf, fset, f); err != nil {
			return nil, "", err
		}
		return buf.Bytes(), "condition made false", nil
	} else if mode == "false" {
		return nil, "", fmt.Errorf("not an if statement")
	}
	switch x := target.(type) {
	case *ast.IfStmt:
		if len(x.Body.List) == 0 {
			return nil, "", fmt.Errorf("guard body already empty")
		}
		x.Body.List = nil
		desc = "if-body emptied"
	case *ast.CaseClause:
		if len(x.Body) == 0 {
			return nil, "", fmt.Errorf("case body already empty")
		}
		x.Body = nil
		desc = "case body emptied"
	}
	var buf bytes.Buffer
	if err := format.Node(&buf, fset, f); err != nil {
		return nil, "", err
	}
	return buf.Bytes(), desc, nil
}

func runControls(repo, verif, id string, base *Result) *controlsEvidence {
	ev := &controlsEvidence{}
	if base == nil || base.prog == nil {
		return ev
	}
	sites := map[string]*controlSite{}
	for _, o := range base.Obs {
		if o.Status != Discharged {
			continue
		}
		for _, w := range o.Witness {
			if w.Kind != "guard" || w.Pos == "" || w.Pos == "-" {
				continue
			}
			i := strings.LastIndex(w.Pos, ":")
			if i < 0 {
				continue
			}
			var line int
			fmt.Sscanf(w.Pos[i+1:], "%d", &line)
			file := filepath.Join(repo, w.Pos[:i])
			k := fmt.Sprintf("%s:%d", file, line)
			s := sites[k]
			if s == nil {
				s = &controlSite{file: file, line: line, keys: map[string]bool{}, rule: map[string]bool{}}
				sites[k] = s
			}
			s.keys[o.Key()] = true
			s.rule[o.Rule] = true
		}
	}
	var list []*controlSite
	for _, s := range sites {
		list = append(list, s)
	}
	sort.Slice(list, func(i, j int) bool {
		if list[i].file != list[j].file {
			return list[i].file < list[j].file
		}
		return list[i].line < list[j].line
	})
	type outcome struct {
		site   *controlSite
		status string // flipped | redundant | unbuildable
		detail string
	}
	outs := make([]outcome, len(list))
	var wg sync.WaitGroup
	sem := make(chan struct{}, 10)
	for i, s := range list {
		wg.Add(1)
		go func(i int, s *controlSite) {
			defer wg.Done()
			sem <- struct{}{}
			defer func() { <-sem }()
			rel, _ := filepath.Rel(repo, s.file)
			var last outcome
			for _, mode := range []string{"body", "false"} {
				src, desc, err := neutraliseMode(s.file, s.line, mode)
				if err != nil {
					if last.status == "" {
						last = outcome{s, "unbuildable", fmt.Sprintf("%s:%d: %v", rel, s.line, err)}
					}
					continue
				}
				res := runOne(repo, base.prog.Config, map[string][]byte{s.file: src}, id)
				built := true
				for _, o := range res.Obs {
					if o.Rule == "machinery" && o.Subject == "loader" {
						built = false
					}
				}
				if !built {
					if last.status == "" || last.status == "unbuildable" {
						last = outcome{s, "unbuildable", fmt.Sprintf("%s:%d (%s): variant does not type-check", rel, s.line, desc)}
					}
					continue
				}
				status := map[string]string{}
				for _, o := range res.Obs {
					status[o.Key()] = o.Status
				}
				flipped := false
				for k := range s.keys {
					if st, ok := status[k]; !ok || st != Discharged {
						flipped = true
					}
				}
				if flipped {
					last = outcome{s, "flipped", fmt.Sprintf("%s:%d (%s)", rel, s.line, desc)}
					break
				}
				last = outcome{s, "redundant", fmt.Sprintf("%s:%d (%s): obligations stay discharged (another guard implies the same fact)", rel, s.line, desc)}
			}
			outs[i] = last
		}(i, s)
	}
	wg.Wait()
	ruleFlipped := map[string]bool{}
	ruleBuilt := map[string]bool{}
	for _, o := range outs {
		switch o.status {
		case "unbuildable":
			ev.Unbuildable++
			ev.UnbuildableList = append(ev.UnbuildableList, o.detail)
		case "flipped":
			ev.Built++
			ev.Flipped++
			for ru := range o.site.rule {
				ruleFlipped[ru] = true
				ruleBuilt[ru] = true
			}
			if len(ev.Samples) < 6 {
				ev.Samples = append(ev.Samples, "flipped: "+o.detail)
			}
		case "redundant":
			ev.Built++
			ev.Redundant = append(ev.Redundant, o.detail)
			for ru := range o.site.rule {
				ruleBuilt[ru] = true
			}
		}
	}
	var vacuous []string
	for ru := range ruleBuilt {
		if !ruleFlipped[ru] {
			vacuous = append(vacuous, ru)
		}
	}
	sort.Strings(vacuous)
	if len(vacuous) > 0 {
		ev.failed = "rule(s) " + strings.Join(vacuous, ", ") + " cite guards whose removal never changes a verdict: the rule does not depend on the code it cites"
	}
	_ = os.Stat
	return ev
}

// ---------------------------------------------------------------------------
// neutralisation sweep: every guard / call statement / field assignment /
// defer in the functions a property analysed is removed in turn (in memory),
// and the rules are re-run. The evidence records how many removals each rule
// detects; removals no rule of the property detects are listed as samples so
// that coverage gaps are visible. Undetected removals do not fail the check:
// many statements are irrelevant to a given property.

type sweepSite struct {
	file string
	pos  token.Pos
	line int
	kind string
	fn   string
}

const sweepCap = 400

type SweepEvidence struct {
	Candidates  int            `json:"candidates"`
	Sampled     int            `json:"sampled,omitempty"`
	Built       int            `json:"built"`
	Unbuildable int            `json:"unbuildable"`
	Detected    int            `json:"detected"`
	PerRule     map[string]int `json:"detected_per_rule"`
	Undetected  []string       `json:"undetected,omitempty"`
}

// sweepCandidates lists the statements to neutralise in the functions whose
// names are in want.
func sweepCandidates(p *Program, want map[string]bool) []sweepSite {
	var out []sweepSite
	for _, pk := range p.Pkgs {
		for _, f := range pk.Syntax {
			fname := p.Fset.Position(f.Pos()).Filename
			if isTestFile(fname) {
				continue
			}
			for _, d := range f.Decls {
				fd, ok := d.(*ast.FuncDecl)
				if !ok || fd.Body == nil {
					continue
				}
				obj, _ := pk.TypesInfo.Defs[fd.Name].(*types.Func)
				if obj == nil {
					continue
				}
				fn := p.SSA.FuncValue(obj)
				if fn == nil {
					continue
				}
				name := fn.String()
				hit := want[name]
				if !hit {
					for _, a := range AnonFuncs(fn) {
						if want[a.String()] {
							hit = true
						}
					}
				}
				if !hit {
					continue
				}
				ast.Inspect(fd.Body, func(n ast.Node) bool {
					add := func(kind string) {
						out = append(out, sweepSite{file: fname, pos: n.Pos(), line: p.Fset.Position(n.Pos()).Line, kind: kind, fn: name})
					}
					switch x := n.(type) {
					case *ast.IfStmt:
						if len(x.Body.List) > 0 {
							add("if-body")
						}
					case *ast.CaseClause:
						if len(x.Body) > 0 && len(x.List) > 0 {
							add("case-body")
						}
					case *ast.ExprStmt:
						if _, isCall := x.X.(*ast.CallExpr); isCall {
							add("call-stmt")
						}
					case *ast.AssignStmt:
						if x.Tok == token.ASSIGN {
							sel := true
							for _, l := range x.Lhs {
								if _, ok := l.(*ast.SelectorExpr); !ok {
									sel = false
								}
							}
							if sel {
								add("field-assign")
							}
						}
					case *ast.IncDecStmt:
						add("incdec")
					case *ast.DeferStmt:
						add("defer")
					}
					return true
				})
			}
		}
	}
	return out
}

// neutraliseAt rewrites the file with the statement at pos removed/emptied.
func neutraliseAt(path string, line int, col int, kind string) ([]byte, error) {
	fset := token.NewFileSet()
	f, err := parser.ParseFile(fset, path, nil, parser.ParseComments)
	if err != nil {
		return nil, err
	}
	done := false
	match := func(n ast.Node) bool {
		ps := fset.Position(n.Pos())
		return ps.Line == line && ps.Column == col
	}
	// statement lists
	var fix func(list []ast.Stmt) []ast.Stmt
	fix = func(list []ast.Stmt) []ast.Stmt {
		var out []ast.Stmt
		for _, s := range list {
			if !done && match(s) {
				switch x := s.(type) {
				case *ast.ExprStmt:
					if kind == "call-stmt" {
						done = true
						continue
					}
				case *ast.AssignStmt:
					if kind == "field-assign" {
						done = true
						continue
					}
				case *ast.IncDecStmt:
					if kind == "incdec" {
						done = true
						continue
					}
				case *ast.DeferStmt:
					if kind == "defer" {
						done = true
						continue
					}
				case *ast.IfStmt:
					if kind == "if-body" {
						x.Body.List = nil
						done = true
					}
				}
			}
			out = append(out, s)
		}
		return out
	}
	ast.Inspect(f, func(n ast.Node) bool {
		switch x := n.(type) {
		case *ast.BlockStmt:
			x.List = fix(x.List)
		case *ast.CaseClause:
			if !done && kind == "case-body" && match(x) {
				x.Body = nil
				done = true
			} else {
				x.Body = fix(x.Body)
			}
		case *ast.CommClause:
			x.Body = fix(x.Body)
		case *ast.IfStmt:
			// else-if chains: the nested IfStmt is not in a statement list
			if !done && kind == "if-body" && match(x) {
				x.Body.List = nil
				done = true
			}
		}
		return true
	})
	if !done {
		return nil, fmt.Errorf("statement not found")
	}
	var buf bytes.Buffer
	if err := format.Node(&buf, fset, f); err != nil {
		return nil, err
	}
	return buf.Bytes(), nil
}

func runSweep(repo, id string, base *Result) *SweepEvidence {
	ev := &SweepEvidence{PerRule: map[string]int{}}
	if base == nil || base.prog == nil {
		return ev
	}
	p := base.prog
	if len(p.lineMaps) > 0 || p.normalised {
		// statements are located in the files as written, not in the normalised program
		if raw, err := load(repo, p.Config, nil, 0, nil); err == nil {
			p = raw
		}
	}
	cands := sweepCandidates(p, base.FuncsAnalysed)
	ev.Candidates = len(cands)
	// bound the cost: at most sweepCap removals per run, chosen by VERIF_SEED
	if len(cands) > sweepCap {
		seed := 1
		fmt.Sscanf(os.Getenv("VERIF_SEED"), "%d", &seed)
		rng := rand.New(rand.NewSource(int64(seed)))
		rng.Shuffle(len(cands), func(i, j int) { cands[i], cands[j] = cands[j], cands[i] })
		cands = cands[:sweepCap]
		ev.Sampled = sweepCap
	}
	baseStatus := map[string]string{}
	baseRule := map[string]string{}
	for _, o := range base.Obs {
		baseStatus[o.Key()] = o.Status
		baseRule[o.Key()] = o.Rule
	}
	type outc struct {
		built bool
		rules map[string]bool
		desc  string
	}
	outs := make([]outc, len(cands))
	var wg sync.WaitGroup
	sem := make(chan struct{}, 10)
	for i, c := range cands {
		wg.Add(1)
		go func(i int, c sweepSite) {
			defer wg.Done()
			sem <- struct{}{}
			defer func() { <-sem }()
			rel, _ := filepath.Rel(repo, c.file)
			col := p.Fset.Position(c.pos).Column
			outs[i].desc = fmt.Sprintf("%s:%d %s in %s", rel, c.line, c.kind, c.fn)
			src, err := neutraliseAt(c.file, c.line, col, c.kind)
			if err != nil {
				return
			}
			res := runOne(repo, p.Config, map[string][]byte{c.file: src}, id)
			for _, o := range res.Obs {
				if o.Rule == "machinery" && o.Subject == "loader" {
					return
				}
			}
			outs[i].built = true
			outs[i].rules = map[string]bool{}
			seen := map[string]bool{}
			for _, o := range res.Obs {
				seen[o.Key()] = true
				if o.Status != Discharged && baseStatus[o.Key()] == Discharged {
					outs[i].rules[o.Rule] = true
				}
				if o.Status != Discharged && baseStatus[o.Key()] == "" {
					outs[i].rules[o.Rule] = true
				}
			}
			for k, st := range baseStatus {
				if st == Discharged && !seen[k] {
					// obligation vanished: counts only if the rule now fails its floor
				}
			}
		}(i, c)
	}
	wg.Wait()
	for _, o := range outs {
		if !o.built {
			ev.Unbuildable++
			continue
		}
		ev.Built++
		if len(o.rules) > 0 {
			ev.Detected++
			for ru := range o.rules {
				ev.PerRule[ru]++
			}
		} else if len(ev.Undetected) < 400 {
			ev.Undetected = append(ev.Undetected, o.desc)
		}
	}
	return ev
}

// sweepAll (developer tool, `-sweepall`): neutralises every candidate
// statement of the module once and runs all properties on each variant,
// printing which properties detect it. Used to look for coverage gaps.
func sweepAll(repo string) {
	base, err := Load(repo, quickConfigs[0], nil)
	if err != nil {
		fmt.Println(err)
		return
	}
	want := map[string]bool{}
	for _, f := range base.Funcs {
		want[f.String()] = true
	}
	if raw, err := load(repo, quickConfigs[0], nil, 0, nil); err == nil {
		base = raw
	}
	cands := sweepCandidates(base, want)
	var ids []string
	for id := range properties {
		ids = append(ids, id)
	}
	sort.Strings(ids)
	baseStatus := map[string]map[string]string{}
	for _, id := range ids {
		res := NewResult(id, base)
		func() {
			defer func() { recover() }()
			properties[id].Run(base, res)
			res.applyFloors()
		}()
		m := map[string]string{}
		for _, o := range res.Obs {
			m[o.Key()] = o.Status
		}
		baseStatus[id] = m
	}
	var mu sync.Mutex
	var wg sync.WaitGroup
	sem := make(chan struct{}, 10)
	for _, c := range cands {
		wg.Add(1)
		go func(c sweepSite) {
			defer wg.Done()
			sem <- struct{}{}
			defer func() { <-sem }()
			rel, _ := filepath.Rel(repo, c.file)
			col := base.Fset.Position(c.pos).Column
			desc := fmt.Sprintf("%s:%d %s in %s", rel, c.line, c.kind, c.fn)
			src, err := neutraliseAt(c.file, c.line, col, c.kind)
			if err != nil {
				return
			}
			p, err := Load(repo, quickConfigs[0], map[string][]byte{c.file: src})
			if err != nil {
				mu.Lock()
				fmt.Printf("UNBUILDABLE\t%s\n", desc)
				mu.Unlock()
				return
			}
			var hit []string
			for _, id := range ids {
				res := NewResult(id, p)
				func() {
					defer func() {
						if e := recover(); e != nil {
							res.cur = "machinery"
							res.add(Machinery, "agecheck", "panic", "", fmt.Sprint(e))
						}
					}()
					properties[id].Run(p, res)
					res.applyFloors()
				}()
				for _, o := range res.Obs {
					if o.Status != Discharged && baseStatus[id][o.Key()] != o.Status {
						hit = append(hit, id)
						break
					}
				}
			}
			mu.Lock()
			fmt.Printf("%d\t%s\t%s\n", len(hit), desc, strings.Join(hit, ","))
			mu.Unlock()
		}(c)
	}
	wg.Wait()
}
