package main

import (
	"fmt"
	"go/constant"
	"go/token"
	"go/types"
	"os"
	"regexp"
	"sort"
	"strings"

	"golang.org/x/tools/go/ssa"
)

// osConst reads a constant of package os as seen by the analysed build
// configuration (the O_* flags differ between platforms).
func osConst(p *Program, name string) (int64, bool) {
	for _, pk := range p.Pkgs {
		if imp, ok := pk.Imports["os"]; ok && imp.Types != nil {
			if c, ok := imp.Types.Scope().Lookup(name).(*types.Const); ok {
				v, exact := constant.Int64Val(c.Val())
				return v, exact
			}
		}
	}
	return 0, false
}

// creatingCalls lists calls that may create or truncate a file.
func creatingCalls(p *Program, fn *ssa.Function) (out []ssa.CallInstruction, undecided []ssa.CallInstruction) {
	oCreate, ok1 := osConst(p, "O_CREATE")
	oTrunc, ok2 := osConst(p, "O_TRUNC")
	for _, c := range callsIn(fn) {
		switch calleeName(c.Common()) {
		case "os.Create", "os.WriteFile", "os.CreateTemp", "io/ioutil.WriteFile":
			out = append(out, c)
		case "os.OpenFile":
			fl, isConst := constInt(c.Common().Args[1])
			if !isConst || !ok1 || !ok2 {
				undecided = append(undecided, c)
			} else if fl&(oCreate|oTrunc) != 0 {
				out = append(out, c)
			}
		}
	}
	return
}

func checkCLIFiles(p *Program, r *Result) {
	// ---- R15.2
	r.Rule("R15.2", "the output file is created lazily, at a single place, and in decrypt only after the header was accepted", 4)
	lazyW := r.anchor(pkgCmdAge, "lazyOpener", "Write")
	newLazy := r.anchor(pkgCmdAge, "", "newLazyOpener")
	mainFn := r.anchor(pkgCmdAge, "", "main")
	decrypt := r.anchor(pkgCmdAge, "", "decrypt")
	if lazyW == nil || newLazy == nil || mainFn == nil || decrypt == nil {
		return
	}
	n := 0
	for _, fn := range p.Funcs {
		if !inPkg(fn, pkgCmdAge) {
			continue
		}
		cr, und := creatingCalls(p, fn)
		for _, c := range und {
			r.Unk(fn.String(), "create:"+short(calleeName(c.Common())), r.pos(c), "os.OpenFile with non-constant flags")
		}
		for _, c := range cr {
			n++
			r.Check(fn == lazyW, fn.String(), "create:"+short(calleeName(c.Common())), r.pos(c), "the only file-creating call, inside lazyOpener.Write", "a file is created or truncated outside lazyOpener.Write: the output could appear before the operation is known to succeed")
		}
	}
	if n == 0 {
		r.Bad(lazyW.String(), "create", "", "no file-creating call found in cmd/age")
	}
	// within lazyOpener.Write the creation happens only when nothing was opened yet
	{
		tb := p.TB(lazyW)
		// the field that holds the path: the one newLazyOpener stores its parameter in
		pathField := "name"
		if ret, err := successReturn(newLazy); err == nil && len(ret.Results) > 0 {
			if m := regexp.MustCompile(`(\w+): P1\b`).FindStringSubmatch(short(p.TB(newLazy).Term(ret.Results[0]).String())); m != nil {
				pathField = m[1]
			}
		}
		creates, _ := creatingCalls(p, lazyW)
		for _, c := range creates {
			// the output replaces whatever the path held: os.Create, or OpenFile with O_TRUNC (a file
			// opened without it keeps the tail of an older, longer output: not the complete result)
			if calleeName(c.Common()) == "os.OpenFile" {
				fl, _ := constInt(c.Common().Args[1])
				oTrunc, _ := osConst(p, "O_TRUNC")
				oAppend, _ := osConst(p, "O_APPEND")
				r.Check(fl&oTrunc != 0 && fl&oAppend == 0, lazyW.String(), "create:truncates", r.pos(c), "opened with O_TRUNC", "the output file is opened without O_TRUNC (or with O_APPEND): an existing longer file keeps its old tail, so what is left is not the result")
			}
			if len(c.Common().Args) == 0 {
				continue
			}
			facts := tb.FactsAt(c.Block())
			_, f1 := hasFactShort(facts, "Field(Recv.f) == nil")
			_, f2 := hasFactShort(facts, "Field(Recv.err) == nil")
			name := short(tb.Term(c.Common().Args[0]).String())
			r.Check(f1 && f2 && name == "Field(Recv."+pathField+")", lazyW.String(), "create:once", r.pos(c), "os.Create(l.name) only while l.f == nil && l.err == nil", "the file is (re)created on a path where it may already be open (truncating earlier output) or under another name: "+name)
		}
	}
	// a Write that reports success has a file behind it: every return with a nil error lies behind
	// a test that the (latest) creation did not fail, or that the file is open. Otherwise a
	// zero-length result "written" to a path that cannot be created would count as delivered.
	{
		isFieldLoad := func(v ssa.Value, name string) (*ssa.UnOp, bool) {
			ld, ok := stripConv(v).(*ssa.UnOp)
			if !ok || ld.Op != token.MUL {
				return nil, false
			}
			fa, ok := ld.X.(*ssa.FieldAddr)
			if !ok || fieldName(fa.X.Type(), fa.Field) != name || structTypeName(fa.X.Type()) != pkgCmdAge+".lazyOpener" {
				return nil, false
			}
			return ld, true
		}
		paths, okp := p.EnumPaths(lazyW.Blocks[0])
		bad := ""
		n := 0
		if !okp {
			bad = "too many paths"
		}
		for _, pa := range paths {
			if pa.End != "return" {
				continue
			}
			ret := pa.Last.(*ssa.Return)
			ei := errorResultIndex(lazyW.Signature)
			if ei < 0 || !isNilConst(stripConv(pa.Resolve(ret.Results[ei]))) {
				continue // an error, or whatever the file's own Write reported
			}
			n++
			// position of the last store to l.err on the path
			lastStore := -1
			var lastStoreIn ssa.Instruction
			for i, b := range pa.Blocks {
				for _, in := range b.Instrs {
					if st, ok := in.(*ssa.Store); ok {
						if fa, ok := st.Addr.(*ssa.FieldAddr); ok && fieldName(fa.X.Type(), fa.Field) == "err" && structTypeName(fa.X.Type()) == pkgCmdAge+".lazyOpener" {
							lastStore, lastStoreIn = i, in
						}
					}
				}
			}
			okPath := false
			for i := 0; i < len(pa.Blocks)-1 && i < len(pa.Edge); i++ {
				x, eq, isTest := nilTestOf(pa.Blocks[i])
				if !isTest || pa.Edge[i] < 0 {
					continue
				}
				isNil := (pa.Edge[i] == 0) == eq
				if ld, ok := isFieldLoad(x, "err"); ok && isNil {
					after := i > lastStore || lastStore < 0 || (i == lastStore && ld.Block() == lastStoreIn.Block() && instrIndex(ld) > instrIndex(lastStoreIn))
					if after {
						okPath = true
					}
				}
				if _, ok := isFieldLoad(x, "f"); ok && !isNil && (lastStore < 0 || i > lastStore) {
					okPath = true
				}
			}
			if !okPath {
				bad = "path " + pa.String() + " returns a nil error without the outcome of the file creation having been looked at"
			}
		}
		if n > 0 || bad != "" {
			r.Check(bad == "", lazyW.String(), "write:success-has-file", "", itoa(n)+" success path(s), each behind l.err == nil", "lazyOpener.Write reports success although the output file may not exist: "+bad)
		} else {
			r.OK(lazyW.String(), "write:success-has-file", "", "no explicit success return: the result is the file's own")
		}
	}
	// lazyOpener values are built only by newLazyOpener; -o is wrapped by it in main
	for _, fn := range p.Funcs {
		if !inPkg(fn, pkgCmdAge) || fn == newLazy {
			continue
		}
		for _, b := range fn.Blocks {
			for _, in := range b.Instrs {
				if al, ok := in.(*ssa.Alloc); ok && typeString(al.Type()) == "*"+pkgCmdAge+".lazyOpener" {
					r.Bad(fn.String(), "alloc:lazyOpener", r.pos(al), "a lazyOpener is constructed outside newLazyOpener")
				}
			}
		}
	}
	callers := p.Callers(newLazy)
	okCallers := len(callers) == 1 && callers[0].Caller == mainFn
	r.Check(okCallers, newLazy.String(), "callers", "", "called once, from main", "newLazyOpener is called from "+itoa(len(callers))+" sites; expected exactly one, in main")
	// decrypt: every use of out after age.Decrypt succeeded
	{
		tb := p.TB(decrypt)
		decCalls := callsTo(decrypt, pkgAge+".Decrypt")
		if len(decCalls) != 1 || len(decrypt.Params) != 3 {
			r.Unk(decrypt.String(), "out:uses", "", "expected one age.Decrypt call and the (identities, in, out) signature")
		} else {
			out := decrypt.Params[2]
			bad := ""
			nUses := 0
			for _, ref := range *out.Referrers() {
				in, ok := ref.(ssa.Instruction)
				if !ok {
					continue
				}
				if _, isDbg := in.(*ssa.DebugRef); isDbg {
					continue
				}
				nUses++
				facts := tb.FactsAt(in.Block())
				if _, ok := errFactFor(facts, decCalls[0].Value(), true); !ok {
					bad = "out is used at " + r.pos(in) + " on a path where age.Decrypt is not known to have succeeded: a refused header could create or modify the -o file"
				}
			}
			r.Check(bad == "" && nUses > 0, decrypt.String(), "out:uses", "", itoa(nUses)+" uses of out, all dominated by err == nil of age.Decrypt", bad)
		}
	}

	// ---- R15.3
	r.Rule("R15.3", "the output is refused if it names the input, an identity file or a recipients file", 4)
	{
		tb := p.TB(mainFn)
		lc := callsTo(mainFn, newLazy.String())
		if len(lc) != 1 {
			r.Unk(mainFn.String(), "same-file", "", "newLazyOpener call not found in main")
		} else {
			call := lc[0]
			nameT := short(tb.Term(call.Common().Args[0]).String())
			// the compare loop
			var cmpLoop *RangeLoop
			for _, l := range rangeLoops(mainFn) {
				if !p.feasDominates(l.Exit, call.Block()) && !completedOrEmpty(p, mainFn, l, call.Block()) {
					continue
				}
				// body contains a comparison elem == absPath(name) guarding a no-return call
				for _, b := range mainFn.Blocks {
					if !l.inLoop(b) {
						continue
					}
					for _, in := range b.Instrs {
						c, ok := in.(*ssa.Call)
						if !ok || !p.callNoReturnCached(c) {
							continue
						}
						facts := tb.FactsAt(b)
						if _, ok := findFact(facts, func(a Atom) bool {
							if a.Kind != "cmp" || a.Op != "==" {
								return false
							}
							x, y := short(a.X.String()), short(a.Y.String())
							want := "age.absPath(" + nameT + ")"
							if strings.HasPrefix(x, "main.absPath(") {
								want = "main.absPath(" + nameT + ")"
							}
							isElem := func(s string) bool {
								return strings.HasPrefix(s, "Elem(Phi(") || strings.HasPrefix(s, "Elem(")
							}
							return (isElem(x) && strings.HasSuffix(y, "absPath("+nameT+")")) || (isElem(y) && strings.HasSuffix(x, "absPath("+nameT+")")) || x == want || y == want
						}); ok {
							cmpLoop = l
						}
					}
				}
			}
			if cmpLoop == nil {
				r.Bad(mainFn.String(), "same-file:loop", r.pos(call), "newLazyOpener(name) is not dominated by a completed loop that aborts when an element of inUseFiles equals absPath(name)")
			} else if len(p.loopEarlyExits(cmpLoop)) != 0 {
				r.Bad(mainFn.String(), "same-file:loop", r.pos(call), "the comparison loop can be left before all files in use were compared")
			} else {
				over := short(tb.Term(cmpLoop.Over).String())
				r.OK(mainFn.String(), "same-file:loop", r.pos(call), "full-range loop over "+over+" comparing with absPath(name) before the output is wrapped")
				// the three sources appended through absPath before the loop
				type src struct{ key, want string }
				srcs := []src{
					{"identity-files", ".identityFlag]().Value))"},
					{"recipients-files", "absPath(Elem("},
					{"input", "absPath(flag.Arg(0))"},
				}
				var appended []string
				var appBlocks []*ssa.BasicBlock
				for _, c := range callsIn(mainFn) {
					if !isBuiltin(c.Common(), "append") {
						continue
					}
					t := short(tb.Term(c.Value()).String())
					if !strings.Contains(t, "absPath(") {
						continue
					}
					// value flows into the ranged slice?
					appended = append(appended, t)
					if os.Getenv("AGECHECK_DEBUG_C15") != "" {
						fmt.Fprintf(os.Stderr, "C15 appended: %s\n", t)
					}
					appBlocks = append(appBlocks, c.Block())
				}
				for _, s := range srcs {
					found := false
					for i, t := range appended {
						if s.key == "identity-files" {
							// absPath(f.Value) for f ranging over the -i/-j flags
							if !(strings.Contains(t, "absPath(Field(") && strings.Contains(t, ".Value))") && strings.Contains(t, "identityFlag")) {
								continue
							}
						} else if !strings.Contains(t, s.want) {
							continue
						}
						if s.key == "input" {
							if appBlocks[i].Dominates(cmpLoop.Header) || blockCanReach(appBlocks[i], cmpLoop.Header) {
								found = true
							}
							continue
						}
						// files given by flags: collected by a loop over the flag values that has run to
						// completion whenever the comparison starts, in every mode of operation
						for _, l := range rangeLoops(mainFn) {
							if l != cmpLoop && l.inLoop(appBlocks[i]) && p.completedAt(l, cmpLoop.Header) {
								if os.Getenv("AGECHECK_DEBUG_C15") != "" {
									fmt.Fprintf(os.Stderr, "C15 %s: append b%d in loop hdr b%d (exit b%d) completed at b%d; set=%v\n", s.key, appBlocks[i].Index, l.Header.Index, l.Exit.Index, cmpLoop.Header.Index, l.blocks()[appBlocks[i]])
								}
								found = true
							}
						}
					}
					r.Check(found, mainFn.String(), "same-file:source:"+s.key, "", "appended to inUseFiles through absPath before the comparison", "paths of "+s.key+" are not added to inUseFiles (through absPath) before the output is compared: -o could name such a file")
				}
				// the loops feeding identity and recipient files are complete
				for _, l := range rangeLoops(mainFn) {
					if l == cmpLoop || !l.Exit.Dominates(cmpLoop.Header) {
						continue
					}
					if len(p.loopEarlyExits(l)) != 0 {
						r.Bad(mainFn.String(), "same-file:feeder", r.pos(l.Header.Instrs[0]), "a loop collecting files in use can be left early")
					}
				}
			}
		}
	}

	// absPath itself: filepath.Abs(name) when it succeeds, else the name unchanged
	if ap := r.anchor(pkgCmdAge, "", "absPath"); ap != nil {
		atb := p.TB(ap)
		var got []string
		for _, ret := range returnsOf(ap) {
			got = append(got, "["+sortedFacts(atb.FactsAt(ret.Block()))+"] -> "+short(atb.Term(ret.Results[0]).String()))
		}
		sort.Strings(got)
		g := strings.Join(got, " | ")
		want := specRecipe(r, "cmd/age.absPath")
		r.Check(g == want, ap.String(), "same-file:absPath", "", g, "absPath no longer normalises every spelling through filepath.Abs\n   got  "+g+"\n   want "+want)
	}

	// ---- R15.4
	r.Rule("R15.4", "age-keygen creates its key file exclusively and owner-only", 1)
	{
		n := 0
		for _, fn := range p.Funcs {
			if !inPkg(fn, pkgKeygen) {
				continue
			}
			cr, und := creatingCalls(p, fn)
			for _, c := range und {
				r.Unk(fn.String(), "create", r.pos(c), "os.OpenFile with non-constant flags")
			}
			for _, c := range cr {
				n++
				if calleeName(c.Common()) != "os.OpenFile" {
					r.Bad(fn.String(), "create", r.pos(c), "the key file is created with "+calleeName(c.Common())+", which overwrites existing files")
					continue
				}
				fl, _ := constInt(c.Common().Args[1])
				mode, isC := constInt(c.Common().Args[2])
				oc, _ := osConst(p, "O_CREATE")
				oe, _ := osConst(p, "O_EXCL")
				ot, _ := osConst(p, "O_TRUNC")
				ok := fl&oc != 0 && fl&oe != 0 && fl&ot == 0 && isC && mode == 0o600
				r.Check(ok, fn.String(), "create", r.pos(c), "O_CREATE|O_EXCL, mode 0600", "the key file is opened with flags/mode that allow overwriting an existing file or make it readable by others")
			}
		}
		if n == 0 {
			r.Bad(pkgKeygen, "create", "", "no file-creating call found")
		}
	}

	// ---- R15.5
	r.Rule("R15.5", "failure exits are non-zero and the error helpers never return", 5)
	for _, pk := range []string{pkgCmdAge, pkgKeygen} {
		for _, fn := range p.Funcs {
			if !inPkg(fn, pk) {
				continue
			}
			for _, c := range callsIn(fn) {
				n := calleeName(c.Common())
				if n != "os.Exit" && n != pkgCmdAge+".exit" {
					continue
				}
				code, isC := constInt(c.Common().Args[0])
				if fn.String() == pkgCmdAge+".exit" && n == "os.Exit" {
					// forwards its parameter
					r.Check(short(p.TB(fn).Term(c.Common().Args[0]).String()) == "P1", fn.String(), "exit:forward", r.pos(c), "os.Exit(code)", "exit does not forward its code")
					continue
				}
				r.Check(isC && code != 0, fn.String(), "exit:code", r.pos(c), "non-zero constant", "a failure path exits with status 0 or a non-constant status")
			}
		}
	}
	for _, h := range [][2]string{{pkgCmdAge, "errorf"}, {pkgCmdAge, "errorWithHint"}, {pkgCmdAge, "exit"}, {pkgKeygen, "errorf"}} {
		if fn := r.anchor(h[0], "", h[1]); fn != nil {
			r.Check(p.NoReturn(fn), fn.String(), "noreturn", "", "every path ends in os.Exit / log.Fatalf / panic", "the helper can return normally: code after a reported failure keeps running and may exit 0")
		}
	}
}

// completedOrEmpty: every path from the entry to block b either leaves the loop l through its
// header (it ran to completion) or takes a branch on which the ranged value is known to be empty
// (nothing to compare: `if len(inUse) == 0 { return false }` in front of the loop).
func completedOrEmpty(p *Program, fn *ssa.Function, l *RangeLoop, b *ssa.BasicBlock) bool {
	tb := p.TB(fn)
	over := short(tb.Term(l.Over).String())
	seen := map[*ssa.BasicBlock]bool{}
	work := []*ssa.BasicBlock{fn.Blocks[0]}
	for len(work) > 0 {
		x := work[len(work)-1]
		work = work[:len(work)-1]
		if seen[x] {
			continue
		}
		seen[x] = true
		if x == b {
			return false
		}
		_, isIf := x.Instrs[len(x.Instrs)-1].(*ssa.If)
		feas := map[*ssa.BasicBlock]bool{}
		for _, su := range p.feasibleSuccs(x) {
			feas[su] = true
		}
		for k, su := range x.Succs {
			if !feas[su] || x == l.Header && su == l.Exit {
				continue
			}
			if isIf {
				fe := tb.FactsOnEdge(x, k)
				if len(fe) > 0 {
					if s := short(fe[len(fe)-1].String()); s == "len("+over+") == 0" || s == "len("+over+") <= 0" || s == "len("+over+") < 1" {
						continue
					}
				}
			}
			work = append(work, su)
		}
	}
	return true
}
