package main

import (
	"strings"

	"golang.org/x/tools/go/ssa"
)

func init() {
	register(&PropertyDef{
		ID: "C08",
		Explanation: "Armor writer typestate and reader rejections decided on all paths of armor/armor.go: (R08.1) every base64 Decode/DecodeString call of the library is dominated by a rejection of CR and LF in its operand (encoding/base64 skips them silently); " +
			"(R08.2) header-before-footer: on every path through armoredWriter.Close to the footer write, either a header write succeeded earlier on the path or the started flag is known true, and `started` is set only after a successful header write or when already set; " +
			"(R08.3) reader rejections dominate acceptance of a body line: at most ColumnsPerLine columns, at least one, a short line must be followed by exactly the footer, the first non-blank line must equal the header, trailing data must be whitespace shorter than the bound; " +
			"(R08.4) every non-nil error returned by Read is produced by setErr or is the remembered r.err, and setErr wraps everything but io.EOF in *armor.Error; (R08.5) the clean end is produced only by drainTrailing behind a footer line; plus the armor constants and encoder/decoder recipes of both halves. (R08.7) no package-level state behind the armor reader/writer and the wrapping encoder; (R08.8) the wrapping encoder has no block-wise encoding path next to the streaming encoder.",
		NotDecided:  "that text and bytes are in bijection on the accepted set (value property); WrappedBase64Encoder's column arithmetic.",
		Assumptions: []string{"base64.StdEncoding.Strict() rejects non-canonical padding bits", "encoding/base64 ignores \\r and \\n in its input"},
		Technique:   "static analysis: typestate by acyclic path enumeration over go/ssa, dominance guards, who-may-produce lists",
		Run:         runC08,
	})
}

func runC08(p *Program, r *Result) {
	wr := r.anchor(pkgArmor, "armoredWriter", "Write")
	cl := r.anchor(pkgArmor, "armoredWriter", "Close")
	rd := r.anchor(pkgArmor, "armoredReader", "Read")
	se := r.anchor(pkgArmor, "armoredReader", "setErr")
	if wr == nil || cl == nil || rd == nil || se == nil {
		return
	}
	rtb := p.TB(rd)

	// ---- R08.1 (repository-wide sibling rule)
	r.Rule("R08.1", "base64 input is checked for CR/LF before decoding", 2)
	{
		var fns []*ssa.Function
		for _, fn := range p.Funcs {
			if inPkg(fn, libPkgs...) {
				fns = append(fns, fn)
			}
		}
		checkBase64Guards(p, r, fns)
	}

	// ---- R08.2 writer typestate
	r.Rule("R08.2", "the footer is never written without the header before it", 3)
	headerConst := specConst(r, "armor.Header")
	isHeaderWrite := func(tb *TB, c ssa.CallInstruction) bool {
		if calleeName(c.Common()) != "io.WriteString" {
			return false
		}
		t := tb.Term(c.Common().Args[1]).String()
		return t == strings.TrimSuffix(headerConst, `"`)+`\n"`
	}
	isFooterWrite := func(tb *TB, c ssa.CallInstruction) bool {
		if calleeName(c.Common()) != "io.WriteString" {
			return false
		}
		t := tb.Term(c.Common().Args[1]).String()
		footer := strings.Trim(specConst(r, "armor.Footer"), `"`)
		if strings.Contains(t, footer) {
			return true
		}
		// assembled in a local strings.Builder / bytes.Buffer and written in one piece
		if rd, ok := stripConv(c.Common().Args[1]).(*ssa.Call); ok && len(rd.Call.Args) == 1 {
			if n := calleeName(&rd.Call); n == "(*strings.Builder).String" || n == "(*bytes.Buffer).String" {
				if al, ok := rd.Call.Args[0].(*ssa.Alloc); ok && al.Referrers() != nil {
					for _, ref := range *al.Referrers() {
						if w, ok := ref.(*ssa.Call); ok && len(w.Call.Args) == 2 && strings.HasSuffix(calleeName(&w.Call), ").WriteString") {
							if strings.Contains(tb.Term(w.Call.Args[1]).String(), footer) {
								return true
							}
						}
					}
				}
			}
		}
		return false
	}
	startedTrue := func(a Atom) bool {
		return a.Kind == "bool" && a.Pol && short(a.X.String()) == "Field(Recv.started)"
	}
	{
		ctb := p.TB(cl)
		paths, ok := p.EnumPaths(cl.Blocks[0])
		bad := ""
		n := 0
		if !ok {
			bad = "too many paths"
		}
		for _, pa := range paths {
			var footer ssa.CallInstruction
			for _, in := range pa.Instrs() {
				if c, isC := in.(ssa.CallInstruction); isC && isFooterWrite(ctb, c) {
					footer = c
				}
			}
			if footer == nil {
				continue
			}
			n++
			atoms := ctb.pathAtoms(pa)
			_, st := findFact(atoms, startedTrue)
			hdr := false
			for _, in := range pa.Instrs() {
				if in == footer.(ssa.Instruction) {
					break
				}
				if c, isC := in.(ssa.CallInstruction); isC && isHeaderWrite(ctb, c) {
					if _, okE := errFactFor(atoms, c.Value(), true); okE {
						hdr = true
					}
				}
			}
			if !st && !hdr {
				bad = "path " + pa.String() + " writes the footer although neither a header write succeeded on the path nor `started` is known to be true (Close without any Write emits a footer-only file that does not de-armor)"
			}
		}
		if n == 0 && bad == "" {
			bad = "no path writes the footer"
		}
		r.Check(bad == "", cl.String(), "footer-after-header", "", itoa(n)+" paths to the footer write, each behind a header", bad)
	}
	{
		// started = true only behind a header write or started already
		bad := ""
		n := 0
		for _, fs := range p.fieldStores(pkgArmor+".armoredWriter", "started") {
			if c, isC := fs.Store.Val.(*ssa.Const); !isC || c.Value.ExactString() != "true" {
				continue
			}
			n++
			ftb := p.TB(fs.Fn)
			paths, _ := p.EnumPaths(fs.Fn.Blocks[0])
			for _, pa := range paths {
				if !pathHas(pa, fs.Store) {
					continue
				}
				atoms := ftb.pathAtoms(pa)
				_, st := findFact(atoms, startedTrue)
				hdr := false
				for _, in := range pa.Instrs() {
					if in == ssa.Instruction(fs.Store) {
						break
					}
					if c, isC := in.(ssa.CallInstruction); isC && isHeaderWrite(ftb, c) {
						if _, okE := errFactFor(atoms, c.Value(), true); okE {
							hdr = true
						}
					}
				}
				if !st && !hdr {
					bad = fs.Fn.String() + ": path " + pa.String() + " sets started without a successful header write"
				}
			}
		}
		if n == 0 {
			bad = "started is never set"
		}
		r.Check(bad == "", pkgArmor+".armoredWriter", "started-invariant", "", "started => header written", bad)
	}

	checkFooterAfterClose(p, r, cl)

	// ---- R08.3 reader rejections: facts at the Decode call (acceptance of a body line)
	r.Rule("R08.3", "reader rejections dominate the acceptance of a body line", 6)
	{
		decs := callsTo(rd, "(*encoding/base64.Encoding).Decode")
		if len(decs) != 1 {
			r.Unk(rd.String(), "decode", "", "expected one base64 Decode call")
		} else {
			d := decs[0]
			line := d.Common().Args[2]
			lk := rtb.Term(line).Key()
			facts := rtb.FactsAt(d.Block())
			has := func(pred func(a Atom) bool) (Atom, bool) { return findFact(facts, pred) }
			a1, ok1 := has(func(a Atom) bool {
				k, isK := intConst(a.Y)
				return a.Kind == "cmp" && a.Op == "<=" && isK && k == 64 && isLenTerm(a.X) && a.X.Args[0].Key() == lk
			})
			if ok1 {
				r.OK(rd.String(), "line:max-columns", r.pos(d), "", guardWitness(p, a1))
			} else {
				r.Bad(rd.String(), "line:max-columns", r.pos(d), "a body line longer than ColumnsPerLine is not rejected")
			}
			a2, ok2 := has(func(a Atom) bool {
				return a.Kind == "cmp" && a.Op == "!=" && a.Y.S == "0" && isLenTerm(a.X) && a.X.Args[0].Key() == lk
			})
			if ok2 {
				r.OK(rd.String(), "line:non-empty", r.pos(d), "", guardWitness(p, a2))
			} else {
				r.Bad(rd.String(), "line:non-empty", r.pos(d), "an empty body line is not rejected: `BEGIN\\n<64 columns>\\n\\nEND\\n` and `BEGIN\\n\\nEND\\n` are accepted although the writer never produces them")
			}
			a3, ok3 := has(func(a Atom) bool {
				return a.Kind == "bool" && a.Pol && short(a.X.String()) == "Field(Recv.started)"
			})
			if ok3 {
				r.OK(rd.String(), "line:after-header", r.pos(d), "", guardWitness(p, a3))
			} else if n, cut := startedCut(p, rd, d); cut {
				// no single guard: every path to the decoder either saw `started` true or set it
				r.OK(rd.String(), "line:after-header", r.pos(d), "every path to the decoder passes a true test of `started` or a store of true to it ("+itoa(n)+" cut points)")
			} else {
				r.Bad(rd.String(), "line:after-header", r.pos(d), "body lines are decoded before the header line was seen")
			}
			// decoder is strict std encoding
			enc := short(rtb.Term(d.Common().Args[0]).String())
			r.Check(enc == "(base64.Encoding).Strict(Deref(base64.StdEncoding))", rd.String(), "line:strict", r.pos(d), enc, "decoder is "+enc+", not StdEncoding.Strict()")
		}
		// started is set only under line == Header
		for _, fs := range p.fieldStores(pkgArmor+".armoredReader", "started") {
			facts := p.TB(fs.Fn).FactsAt(fs.Store.Block())
			_, ok := findFact(facts, func(a Atom) bool {
				if !(a.Kind == "cmp" && a.Op == "==" && a.Y.S == specConst(r, "armor.Header")) {
					return false
				}
				// the line as it was read (end-of-line marker removed), not a trimmed or otherwise
				// normalised copy: blanks around the marker are not among the tolerances
				x := a.X.String()
				return !strings.Contains(x, "TrimSpace") && !strings.Contains(x, "Trim(") && !strings.Contains(x, "TrimLeft") && !strings.Contains(x, "TrimRight") && !strings.Contains(x, "Fields") && !strings.Contains(x, "ToLower") && !strings.Contains(x, "ToUpper")
			})
			r.Check(ok, fs.Fn.String(), "header:exact", r.pos(fs.Store), "started only when the line equals the header constant", "the reader starts on a line that is not compared, as read, with the exact header (a trimmed or case-folded copy admits other spellings of the BEGIN line)")
		}
		// a short line must be followed by exactly the footer
		okShort := false
		for _, c := range callsIn(rd) {
			if calleeName(c.Common()) != se.String() {
				continue
			}
			if !p.mayBeEOFAt(rtb, c.Common().Args[1], rtb.FactsAt(c.Block()), 0) {
				continue // only the end-of-armor drain can yield io.EOF
			}
			facts := rtb.FactsAt(c.Block())
			_, short47 := findFact(facts, func(a Atom) bool {
				k, isK := intConst(a.Y)
				return a.Kind == "cmp" && a.Op == "<=" && isK && k == 47 && isDecodeCount(a.X)
			})
			_, isFooter := findFact(facts, func(a Atom) bool {
				return a.Kind == "cmp" && a.Op == "==" && a.Y.S == specConst(r, "armor.Footer")
			})
			if short47 && isFooter {
				okShort = true
			}
		}
		r.Check(okShort, rd.String(), "short-line:footer", "", "after a short line the next line must be the footer", "a short body line is not required to be followed by exactly the footer line")
		// and the other way round: a Read that accepts a line without looking for the footer knows
		// that the line decoded to a full BytesPerLine (the decoded count, not the line length:
		// padding makes a 64-column line short)
		{
			var dec ssa.CallInstruction
			for _, c := range callsIn(rd) {
				if strings.HasSuffix(calleeName(c.Common()), "base64.Encoding).Decode") {
					dec = c
				}
			}
			if dec == nil {
				r.Unk(rd.String(), "short-line:only-last", "", "no base64 Decode call in the armor reader")
			} else {
				paths, okp := p.EnumPaths(dec.Block())
				bad := ""
				n := 0
				if !okp {
					bad = "too many paths"
				}
				for _, pa := range paths {
					if pa.End != "return" {
						continue
					}
					ret := pa.Last.(*ssa.Return)
					if len(ret.Results) != 2 || !isNilConst(stripConv(pa.Resolve(ret.Results[1]))) {
						continue
					}
					atoms := rtb.pathAtoms(pa)
					if _, ok := findFact(atoms, func(a Atom) bool {
						return a.Kind == "cmp" && a.Op == "==" && a.Y != nil && a.Y.S == specConst(r, "armor.Footer")
					}); ok {
						continue // the footer followed
					}
					n++
					if _, ok := findFact(atoms, func(a Atom) bool {
						k, isK := intConst(a.Y)
						return a.Kind == "cmp" && isK && (a.Op == ">=" && k == 48 || a.Op == ">" && k == 47) && isDecodeCount(a.X)
					}); !ok {
						bad = "path " + pa.String() + " accepts a body line and carries on without the footer although the decoded count is not known to be a full line"
					}
				}
				r.Check(bad == "" && n > 0, rd.String(), "short-line:only-last", r.pos(dec), itoa(n)+" carry-on path(s), each under decoded count >= BytesPerLine", "a short body line need not be the last one: "+bad)
			}
		}
		// trailing data: EOF only under all-whitespace and below the bound
		okTrail := false
		nEOF := 0
		for _, pr := range p.producersOf(rd, isEOFValue) {
			if pr.Kind == "store" {
				continue
			}
			nEOF++
			_, ws := findFact(pr.Facts, func(x Atom) bool {
				return x.Kind == "cmp" && x.Op == "==" && x.Y.S == "0" && strings.HasPrefix(short(x.X.String()), "len(bytes.TrimSpace(")
			})
			_, bound := findFact(pr.Facts, func(x Atom) bool {
				return x.Kind == "cmp" && x.Op == "!=" && x.Y.S == "1024"
			})
			if nEOF == 1 {
				okTrail = ws && bound
			} else {
				okTrail = okTrail && ws && bound
			}
		}
		r.Check(okTrail, rd.String(), "trailing", "", "clean end only if the rest is whitespace and shorter than the bound", "trailing data after the footer is not restricted to bounded whitespace")
	}

	// ---- R08.4 typed failures
	r.Rule("R08.4", "every failure of the armor reader has the armor error type", 10)
	for i, ret := range returnsOf(rd) {
		ev := ret.Results[1]
		t := short(rtb.Term(ev).String())
		ok := isNilConst(ev) || strings.HasPrefix(t, "(*armor.armoredReader).setErr(") || t == "Field(Recv.err)"
		r.Check(ok, rd.String(), "return#"+itoa(i), r.pos(ret), "nil, setErr(..) or the remembered r.err", "Read returns the raw error "+t+" instead of going through setErr (*armor.Error)")
	}
	{
		stb := p.TB(se)
		// r.err stores: only in setErr
		for _, fs := range p.fieldStores(pkgArmor+".armoredReader", "err") {
			r.Check(fs.Fn == se, fs.Fn.String(), "store:err", r.pos(fs.Store), "r.err is written by setErr only", "r.err is written outside setErr: an untyped error could be remembered")
		}
		// setErr: value stored/returned is err under err == io.EOF, else &Error{err}
		// every value setErr can return, with the facts under which it does: a merge is taken
		// apart into its incoming edges
		type retCase struct {
			val   ssa.Value
			facts []Atom
		}
		var cases []retCase
		for _, ret := range returnsOf(se) {
			v := ret.Results[0]
			if ph, isPhi := v.(*ssa.Phi); isPhi {
				for k, e := range ph.Edges {
					pred := ph.Block().Preds[k]
					facts := stb.FactsAt(pred)
					for j, sb := range pred.Succs {
						if sb == ph.Block() {
							if _, isIf := pred.Instrs[len(pred.Instrs)-1].(*ssa.If); isIf {
								facts = stb.FactsOnEdge(pred, j)
							}
						}
					}
					cases = append(cases, retCase{e, facts})
				}
			} else {
				cases = append(cases, retCase{v, stb.FactsAt(ret.Block())})
			}
		}
		nEOF, nWrap := 0, 0
		ok := len(cases) > 0
		for _, c := range cases {
			_, isEOF := hasFactShort(c.facts, "P1 == io.EOF")
			_, notEOF := hasFactShort(c.facts, "P1 != io.EOF")
			et := short(stb.Term(c.val).String())
			switch {
			case et == "P1" && isEOF:
				nEOF++
			case et == "armor.Error{err: P1}" && (notEOF || len(c.facts) > 0):
				// (under P1 != io.EOF, or in one arm of a chain of tests whose io.EOF arm is P1)
				nWrap++
			case et == "P1" && hasTypedFact(c.facts):
				// already an *armor.Error: handed on as it is
			default:
				ok = false
			}
		}
		ok = ok && nWrap > 0
		_ = nEOF
		r.Check(ok, se.String(), "wrap", "", "everything but io.EOF becomes &Error{err}", "setErr does not wrap every non-EOF error in *armor.Error")
	}

	// a failed de-armoring reader hands out nothing afterwards
	checkNoPendingDataOnError(p, r, rd, 0)

	// ---- R08.5
	r.Rule("R08.5", "the clean end is produced only behind the footer line", 2)
	for _, c := range callsIn(rd) {
		if calleeName(c.Common()) != se.String() {
			continue
		}
		if !p.mayBeEOFAt(rtb, c.Common().Args[1], rtb.FactsAt(c.Block()), 0) {
			continue
		}
		// every way on which the value may be io.EOF stands behind the footer comparison: for a
		// merged error (the drain's result returned through a helper together with other
		// failures) each incoming way is judged under its own facts
		footerConst := specConst(r, "armor.Footer")
		isFooter := p.eofOnlyBehind(rtb, c.Common().Args[1], rtb.FactsAt(c.Block()), func(a Atom) bool {
			return a.Kind == "cmp" && a.Op == "==" && a.Y.S == footerConst
		}, 0)
		r.Check(isFooter, rd.String(), "drainTrailing", r.pos(c), "drainTrailing (the only producer of io.EOF) runs only after a line equal to the footer", "the end-of-armor drain runs on a path where no footer line was seen")
	}

	// ---- R08.7
	r.Rule("R08.7", "armoring and de-armoring depend on the stream alone: no package-level state (pools, caches, counters) behind the armor reader, the armor writer and the wrapping encoder", 1)
	checkNoPackageState(p, r, []*ssa.Function{r.anchor(pkgArmor, "", "NewReader"), r.anchor(pkgArmor, "", "NewWriter"), r.anchor(pkgArmor, "armoredReader", "Read"),
		r.anchor(pkgArmor, "armoredWriter", "Write"), r.anchor(pkgArmor, "armoredWriter", "Close"),
		r.anchor(pkgFormat, "", "NewWrappedBase64Encoder"), r.anchor(pkgFormat, "WrappedBase64Encoder", "Write"), r.anchor(pkgFormat, "WrappedBase64Encoder", "Close")}, nil)

	// ---- R08.8
	r.Rule("R08.8", "every byte armored goes through the one streaming base64 encoder: the wrapping encoder has no second, block-wise encoding path (input still pending inside the streaming encoder would be overtaken)", 1)
	{
		n := 0
		for _, fn := range p.Funcs {
			if fn.Pkg == nil || fn.Pkg.Pkg.Path() != pkgFormat || fn.Signature.Recv() == nil || structTypeName(fn.Signature.Recv().Type()) != pkgFormat+".WrappedBase64Encoder" {
				continue
			}
			r.Saw(fn.String())
			for _, c := range callsIn(fn) {
				switch calleeName(c.Common()) {
				case "(*encoding/base64.Encoding).Encode", "(*encoding/base64.Encoding).EncodeToString", "(*encoding/base64.Encoding).AppendEncode":
					n++
					r.Bad(fn.String(), "second-encoder:"+short(calleeName(c.Common())), r.pos(c), "input is encoded block-wise next to the streaming encoder: one or two input bytes the streaming encoder still holds back would come out after bytes written later, so the armor de-armors to reordered data")
				}
			}
		}
		if n == 0 {
			r.OK(pkgFormat+".WrappedBase64Encoder", "second-encoder:none", "", "the methods of the wrapping encoder call no block encoder")
		}
	}

	// ---- recipes
	r.Rule("R08.6", "armor constants and encoder/decoder recipes", 5)
	checkSites(p, r, recipeSites, "C08")
	checkConsts(p, r, []ConstSite{
		{"armor.Header", pkgArmor, "Header", "const"},
		{"armor.Footer", pkgArmor, "Footer", "const"},
	})
}

// checkFooterAfterClose (shared with C05): the footer separator is chosen
// after the encoder has flushed its last group.
func checkFooterAfterClose(p *Program, r *Result, cl *ssa.Function) {
	ctb := p.TB(cl)
	lle := callsTo(cl, "(*"+pkgFormat+".WrappedBase64Encoder).LastLineIsEmpty")
	ok := len(lle) > 0
	for _, c := range lle {
		facts := ctb.FactsAt(c.Block())
		_, closed := findFact(facts, func(a Atom) bool {
			return a.Kind == "cmp" && a.Op == "==" && a.Y.Op == "Nil" && a.X.Op == "Call" && a.X.S == "(*"+pkgFormat+".WrappedBase64Encoder).Close"
		})
		if !closed {
			ok = false
		}
	}
	r.Check(ok, cl.String(), "footer-separator-after-close", "", "LastLineIsEmpty is consulted only after encoder.Close() succeeded", "LastLineIsEmpty is called before the encoder is closed (its documentation calls that meaningless): the final padded group is not yet counted, so the footer is glued to or separated from the last line wrongly for some lengths")
}

// startedCut: with the true edges of tests of the reader's `started` field and the blocks that
// store true to it removed, the decoder call is unreachable from the entry.
func startedCut(p *Program, rd *ssa.Function, d ssa.CallInstruction) (int, bool) {
	tb := p.TB(rd)
	isStartedTrueEdge := func(b *ssa.BasicBlock, k int) bool {
		if _, isIf := b.Instrs[len(b.Instrs)-1].(*ssa.If); !isIf {
			return false
		}
		fe := tb.FactsOnEdge(b, k)
		if len(fe) == 0 {
			return false
		}
		a := fe[len(fe)-1]
		return a.Kind == "bool" && a.Pol && short(a.X.String()) == "Field(Recv.started)"
	}
	storesTrue := func(b *ssa.BasicBlock, before ssa.Instruction) bool {
		for _, in := range b.Instrs {
			if in == before {
				return false
			}
			if s, ok := in.(*ssa.Store); ok {
				if fa, ok := s.Addr.(*ssa.FieldAddr); ok && fieldName(fa.X.Type(), fa.Field) == "started" && structTypeName(fa.X.Type()) == pkgArmor+".armoredReader" {
					if c, isC := s.Val.(*ssa.Const); isC && c.Value != nil && c.Value.ExactString() == "true" {
						return true
					}
				}
			}
		}
		return false
	}
	cuts := 0
	seen := map[*ssa.BasicBlock]bool{}
	work := []*ssa.BasicBlock{rd.Blocks[0]}
	for len(work) > 0 {
		b := work[len(work)-1]
		work = work[:len(work)-1]
		if seen[b] {
			continue
		}
		seen[b] = true
		if b == d.Block() {
			if storesTrue(b, d.(ssa.Instruction)) {
				cuts++
				continue
			}
			return cuts, false
		}
		if storesTrue(b, nil) {
			cuts++
			continue
		}
		feas := map[*ssa.BasicBlock]bool{}
		for _, s := range p.feasibleSuccs(b) {
			feas[s] = true
		}
		for k, s := range b.Succs {
			if !feas[s] {
				continue
			}
			if isStartedTrueEdge(b, k) {
				cuts++
				continue
			}
			work = append(work, s)
		}
	}
	return cuts, cuts > 0
}

// isDecodeCount: the byte count returned by (*base64.Encoding).Decode.
func isDecodeCount(t *Term) bool {
	if t == nil {
		return false
	}
	s := t.String()
	return strings.Contains(s, "base64.Encoding).Decode(") && strings.HasSuffix(s, ".0") && t.Op == "Ext"
}

// hasTypedFact: the facts say that the parameter already is an *armor.Error (a successful
// comma-ok assertion).
func hasTypedFact(facts []Atom) bool {
	for _, a := range facts {
		if a.Kind == "bool" && a.Pol && a.X != nil && strings.HasPrefix(short(a.X.String()), "Assert[*armor.Error](P1).1") {
			return true
		}
	}
	return false
}
