package main

import (
	"regexp"
	"go/token"
	"go/types"
	"strings"

	"golang.org/x/tools/go/ssa"
)

func init() {
	register(&PropertyDef{
		ID: "C12",
		Explanation: "The structural clauses of schedule independence and streaming: (R12.1) every successful return of stream.Writer.Write reports len(p) of the parameter (or 0 for an empty p), and the armor writer returns its encoder's count for the same p; (R12.2) stream.Writer, stream.Reader and the armor reader hold data only in fixed-size arrays: every store to their slice fields is a reslice of that array or of the field itself, never an append; " +
			"(R12.3) in the library a source is read only through io.ReadFull / bufio.Reader / io.ReadAll; the single direct Read on an io.Reader is the 1-byte EOF probe, and the chunk read fills exactly r.buf (one chunk); (R12.4) a full buffer is flushed only when more input is pending: flushChunk(false) is guarded by len(unwritten) == ChunkSize and len(remaining p) > 0; (R07.3) the bufio over-read is handed back. (R12.7) neither reader returns (0, nil) for a non-empty buffer.",
		NotDecided:  "that produced bytes and released plaintext are identical under every segmentation (value property over buffer arithmetic).",
		Assumptions: []string{"io.ReadFull loops over short reads; bufio.Reader tolerates arbitrary delivery"},
		Technique:   "static analysis: return-value terms, type-level buffer shape plus store provenance, who-may-call on io.Reader.Read, dominance guards",
		Run:         runC12,
	})
}

func runC12(p *Program, r *Result) {
	write := r.anchor(pkgStream, "Writer", "Write")
	flush := r.anchor(pkgStream, "Writer", "flushChunk")
	aw := r.anchor(pkgArmor, "armoredWriter", "Write")
	if write == nil || flush == nil || aw == nil {
		return
	}
	wtb := p.TB(write)

	// ---- R12.1
	r.Rule("R12.1", "a successful write reports the full count", 3)
	for i, ret := range returnsOf(write) {
		if !isNilConst(ret.Results[1]) {
			// error returns report 0
			n := wtb.Term(ret.Results[0]).String()
			r.Check(n == "0", write.String(), "return#"+itoa(i)+":error", r.pos(ret), "error returns report 0", "an error return reports "+n+" bytes")
			continue
		}
		n := short(wtb.Term(ret.Results[0]).String())
		facts := wtb.FactsAt(ret.Block())
		_, empty := hasFact(facts, "len(P1) == 0")
		ok := n == "len(P1)" || (n == "0" && empty)
		r.Check(ok, write.String(), "return#"+itoa(i)+":count", r.pos(ret), "n == len(p)", "a successful Write returns "+n+" instead of len(p): callers such as io.Copy treat that as a short write or lose data")
	}
	{
		atb := p.TB(aw)
		ok := false
		for _, ret := range returnsOf(aw) {
			t0 := short(atb.Term(ret.Results[0]).String())
			t1 := short(atb.Term(ret.Results[1]).String())
			if t0 == "(*format.WrappedBase64Encoder).Write(Field(Recv.encoder), P1).0" && t1 == "(*format.WrappedBase64Encoder).Write(Field(Recv.encoder), P1).1" {
				ok = true
			}
		}
		r.Check(ok, aw.String(), "return:count", "", "returns the encoder's (n, err) for the same p", "the armor writer does not forward the encoder's count for p")
	}

	// ---- R12.2
	r.Rule("R12.2", "buffering is bounded by fixed-size arrays", 6)
	for _, spec := range []struct{ pkg, typ string }{{pkgStream, "Writer"}, {pkgStream, "Reader"}, {pkgArmor, "armoredReader"}} {
		pk := p.ByPath[spec.pkg]
		o := pk.Types.Scope().Lookup(spec.typ)
		if o == nil {
			r.Unk(spec.pkg+"."+spec.typ, "type", "", "not found")
			continue
		}
		st := o.Type().Underlying().(*types.Struct)
		var arrays, slices []string
		for i := 0; i < st.NumFields(); i++ {
			f := st.Field(i)
			switch u := f.Type().Underlying().(type) {
			case *types.Array:
				arrays = append(arrays, f.Name())
			case *types.Slice:
				if b, ok := u.Elem().Underlying().(*types.Basic); ok && b.Kind() == types.Byte {
					slices = append(slices, f.Name())
				}
			case *types.Map, *types.Chan:
				r.Bad(spec.pkg+"."+spec.typ, "field:"+f.Name(), "", "unbounded container field")
			}
		}
		for _, sl := range slices {
			for _, fs := range p.fieldStores(spec.pkg+"."+spec.typ, sl) {
				tb := p.TB(fs.Fn)
				tt := tb.Term(fs.Store.Val)
				t := short(tt.String())
				// peel nested reslices down to the base
				base := tt
				for base.Op == "Slice" && len(base.Args) > 0 {
					base = base.Args[0]
				}
				ok := false
				if base.Op == "Field" && len(base.Args) == 1 && (base.Args[0].Op == "Recv" || base.Args[0].Op == "New") {
					fname := strings.SplitN(base.S, "@", 2)[0]
					for _, a := range arrays {
						if fname == a {
							ok = true
						}
					}
					if fname == sl {
						ok = true
					}
				}
				if tt.Op != "Slice" {
					ok = false
				}
				// the output of AEAD.Open / Seal appended to an empty view of a fixed array of the
				// same object (decrypting into a buffer of its own): still a view of that array
				// as long as it fits, and it cannot hold more than the input it was given
				if !ok {
					vals := []ssa.Value{stripConv(fs.Store.Val)}
					if ph, isPhi := vals[0].(*ssa.Phi); isPhi {
						vals = nil
						for _, e := range ph.Edges {
							vals = append(vals, stripConv(e))
						}
					}
					all := len(vals) > 0
					for _, v := range vals {
						ex, isEx := v.(*ssa.Extract)
						var oc *ssa.Call
						if isEx {
							oc, _ = ex.Tuple.(*ssa.Call)
						}
						if oc == nil || !strings.HasPrefix(calleeName(&oc.Call), "invoke (crypto/cipher.AEAD).") || len(oc.Call.Args) != 4 {
							all = false
							break
						}
						d := tb.Term(oc.Call.Args[0])
						isView := d.Op == "Slice" && len(d.Args) > 0 && d.Args[0].Op == "Field" && len(d.Args[0].Args) == 1 && d.Args[0].Args[0].Op == "Recv"
						if isView {
							fname := strings.SplitN(d.Args[0].S, "@", 2)[0]
							found := false
							for _, a := range arrays {
								if fname == a {
									found = true
								}
							}
							isView = found
						}
						if !isView {
							all = false
						}
					}
					if all {
						ok = true
					}
				}
				// a buffer of constant size made for the object itself is as bounded as an array field
				if !ok && (t == "nil" || constMakeRe.MatchString(t)) {
					ok = true
				}
				r.Check(ok, fs.Fn.String(), "store:"+spec.typ+"."+sl, r.pos(fs.Store), "reslice of the fixed array / of itself", "slice field "+sl+" is set to "+t+": not a view of the fixed-size buffer (unbounded growth or aliasing of caller memory)")
			}
		}
	}

	// ---- R12.3
	r.Rule("R12.3", "sources are read through short-read tolerant helpers; the only direct Read is the EOF probe", 3)
	{
		n := 0
		for _, fn := range p.Funcs {
			if !inPkg(fn, libPkgs...) {
				continue
			}
			tb := p.TB(fn)
			// bufio's ReadSlice and ReadLine fail or split a line at the size of whatever buffer the
			// reader happens to have (the caller's, when the source already is a bufio.Reader)
			for _, c := range callsToAny(fn, "(*bufio.Reader).ReadSlice", "(*bufio.Reader).ReadLine") {
				// a ReadSlice whose bufio.ErrBufferFull is told apart (mapped to the rule's own
				// refusal of an over-long line, or followed by reading on) does not let the
				// buffer decide; what happens then is judged by the rules of the reader
				if calleeName(c.Common()) == "(*bufio.Reader).ReadSlice" && comparesWithBufferFull(tb, c) {
					n++
					r.OK(fn.String(), "buffer-bound-read:handled", r.pos(c), "bufio.ErrBufferFull of this ReadSlice is told apart")
					continue
				}
				r.Bad(fn.String(), "buffer-bound-read", r.pos(c), "a line is read with "+short(calleeName(c.Common()))+": how long a line may be then depends on the buffer of the reader the caller supplied")
			}
			for _, c := range callsTo(fn, "invoke (io.Reader).Read") {
				n++
				buf := short(tb.Term(c.Common().Args[0]).String())
				oneByte := false
				if sl, isSl := c.Common().Args[0].(*ssa.Slice); isSl {
					if al, isAl := sl.X.(*ssa.Alloc); isAl {
						if arr, isArr := al.Type().(*types.Pointer).Elem().Underlying().(*types.Array); isArr && arr.Len() == 1 {
							oneByte = true
						}
					}
				}
				// any buffer of constant length 1 will do for the probe (a corner of a field array)
				if ls, lc, known := tb.lenSym(c.Common().Args[0]); !oneByte && known && ls == "0" && lc == 1 {
					oneByte = true
				}
				if sl, isSl := c.Common().Args[0].(*ssa.Slice); !oneByte && isSl {
					lo, hi := int64(0), int64(-1)
					if sl.Low != nil {
						lo, _ = constInt(sl.Low)
					}
					if sl.High != nil {
						if k, isK := constInt(sl.High); isK {
							hi = k
						}
					}
					if hi-lo == 1 {
						oneByte = true
					}
				}
				isProbe := fn.String() == "(*"+pkgStream+".Reader).Read" && oneByte
				r.Check(isProbe, fn.String(), "direct-read", r.pos(c), "the 1-byte EOF probe after the final chunk", "a source is read with a bare Read into "+buf+": a short read would be taken for the end of a chunk/line")
			}
		}
		if n == 0 {
			r.Bad(pkgStream, "direct-read", "", "the EOF probe is gone")
		}
		// a single bufio.Reader.Read / os.File.Read returns whatever happens to be available
		for _, fn := range p.Funcs {
			if !inPkg(fn, libPkgs...) {
				continue
			}
			for _, c := range callsToAny(fn, "(*bufio.Reader).Read", "(*os.File).Read", "(*bytes.Reader).Read") {
				r.Bad(fn.String(), "direct-read:"+short(calleeName(c.Common())), r.pos(c), "a source is read with a single Read call: what it returns depends on how the bytes are delivered")
			}
		}
		checkSites(p, r, recipeSites, "C12")
	}

	// ---- R12.4
	// ---- R12.6: the payload is what follows the header whatever reader the caller supplied
	r.Rule("R12.7", "a Read of the decrypting and de-armoring readers never reports `0, nil` for a non-empty buffer: callers (the STREAM end-of-file probe among them) take a nil error for data, so an empty success in between changes the outcome with the read schedule", 2)
	for _, rm := range [][2]string{{pkgStream, "Reader"}, {pkgArmor, "armoredReader"}} {
		fn := p.Func(rm[0], rm[1], "Read")
		if fn == nil {
			continue
		}
		r.Saw(fn.String())
		ftb := p.TB(fn)
		bad := ""
		for _, vr := range virtualReturns(fn) {
			if len(vr.Results) != 2 || !isNilConst(vr.Results[1]) {
				continue
			}
			if k, isK := constInt(vr.Results[0]); isK && k == 0 {
				_, emptyBuf := findFact(ftb.FactsAt(vr.Block), func(a Atom) bool { return short(a.String()) == "len(P1) == 0" })
				if !emptyBuf {
					bad = r.pos(vr.Ret)
				}
			}
		}
		r.Check(bad == "", fn.String(), "empty-success", bad, "no return of (0, nil) outside the empty-buffer case", "Read can return 0 bytes with a nil error although the caller's buffer is not empty")
	}
	r.Rule("R12.6", "the bytes the header parser read ahead are handed back in front of the payload, for buffered and unbuffered sources alike (= R07.3)", 2)
	if pf := r.anchor(pkgFormat, "", "Parse"); pf != nil {
		var succ []*ssa.Return
		for _, ret := range returnsOf(pf) {
			if isNilConst(resultsOf(ret)[2]) {
				succ = append(succ, ret)
			}
		}
		checkPayloadHandBack(p, r, pf, succ, p.TB(pf))
	}

	// ---- R12.5: decryption is incremental
	r.Rule("R12.5", "a Read call decrypts at most one chunk: what has been authenticated is released before more input is consumed", 1)
	if rd, rc := r.anchor(pkgStream, "Reader", "Read"), r.anchor(pkgStream, "Reader", "readChunk"); rd != nil && rc != nil {
		calls := callsTo(rd, rc.String())
		if len(calls) == 0 {
			r.Unk(rd.String(), "call:readChunk", "", "Read does not call readChunk")
		}
		for i, c := range calls {
			vis := p.Reach([]Loc{locAfter(c.(ssa.Instruction))}, nil)
			again := false
			for _, c2 := range calls {
				if vis[c2.(ssa.Instruction)] {
					again = true
				}
			}
			r.Check(!again, rd.String(), callKey("readChunk", i)+":once", r.pos(c), "no readChunk is reachable after this one within the same Read", "after reading a chunk Read can read another one before returning: a caller with a large buffer gets nothing until several chunks (up to its buffer size) were consumed, so decryption is no longer incremental")
		}
	}

	r.Rule("R12.4", "a full buffer is flushed only when more data is pending (or on Close)", 1)
	checkChunkFlushGuard(p, r)
}

// checkChunkFlushGuard is rule R12.4 (shared with C05 and C01): every call of flushChunk with
// last == false, in whatever function of the package, is guarded by a full buffer and by
// pending input of the caller's loop.
func checkChunkFlushGuard(p *Program, r *Result) {
	flush := r.anchor(pkgStream, "Writer", "flushChunk")
	if flush == nil {
		return
	}
	n := 0
	for _, e := range p.Callers(flush) {
		c, ok := e.Site.(ssa.CallInstruction)
		if !ok || len(c.Common().Args) < 2 {
			continue
		}
		if k, isC := c.Common().Args[1].(*ssa.Const); !isC || k.Value == nil || k.Value.ExactString() != "false" {
			continue
		}
		write := e.Caller
		wtb := p.TB(write)
		i := n
		n++
		okFull := false
		okMore := false
		for _, at := range wtb.FactsAt(c.Block()) {
			// the normalised atom carries the polarity; the branch condition gives the operands
			if at.Kind != "cmp" || at.If == nil {
				continue
			}
			cond := at.If.Cond
			for {
				if u, isNot := cond.(*ssa.UnOp); isNot && u.Op == token.NOT {
					cond = u.X
					continue
				}
				break
			}
			bo, ok := cond.(*ssa.BinOp)
			if !ok {
				continue
			}
			lc, isL := bo.X.(*ssa.Call)
			if !isL || !isBuiltin(&lc.Call, "len") {
				continue
			}
			k, isK := intConst(at.Y)
			if !isK {
				continue
			}
			arg := lc.Call.Args[0]
			if ld, isLd := arg.(*ssa.UnOp); isLd {
				if fa, isFA := ld.X.(*ssa.FieldAddr); isFA && fieldName(fa.X.Type(), fa.Field) == "unwritten" && at.Op == "==" && k == 65536 {
					if !wtb.fieldWrittenBetween(ld, c.(ssa.Instruction), fieldKey(fa)) {
						okFull = true
					}
				}
			}
			// remaining input, flush before the copy: the loop-carried p itself (the loop condition),
			// as long as nothing has been taken from it yet in this iteration
			if ph, isPhi := arg.(*ssa.Phi); isPhi && (at.Op == "!=" && k == 0 || at.Op == ">" && k == 0 || at.Op == ">=" && k == 1) {
				fromParam := false
				for _, e := range ph.Edges {
					if len(write.Params) > 1 && stripConv(e) == ssa.Value(write.Params[1]) {
						fromParam = true
					}
				}
				consumed := false
				for _, ref := range *ph.Referrers() {
					if sl, isSl := ref.(*ssa.Slice); isSl && sl.X == ssa.Value(ph) && sl.Low != nil && dominatesInstr(sl, c.(ssa.Instruction)) {
						consumed = true
					}
				}
				if fromParam && !consumed {
					okMore = true
				}
			}
			// remaining input: a slice p[n:] of the loop-carried p with n the copy count
			if sl, isSl := arg.(*ssa.Slice); isSl && at.Op == "!=" && k == 0 {
				if cp, isCp := sl.Low.(*ssa.Call); isCp && isBuiltin(&cp.Call, "copy") && cp.Call.Args[1] == sl.X {
					okMore = true
				}
			}
		}
		if !(okFull && okMore) {
			// not as two explicit tests: let the arithmetic decide (a copy that left input over
			// has filled its destination)
			okFull, okMore = flushGuardByArithmetic(p, write, c)
		}
		r.Check(okFull && okMore, write.String(), callKey("flushChunk", i), r.pos(c), "under len(w.unwritten) == ChunkSize && len(p[n:]) > 0", "flushChunk(notLast) is not guarded by a full buffer AND pending input: a full final chunk would be emitted as non-final (changing the chunking of 64 KiB-multiple files depending on how writes are split)")
	}
	if n == 0 {
		r.Bad(pkgStream, "call:flushChunk", "", "no non-final flush found: a stream longer than one chunk could not be written")
	}
	checkNoPlaintextDropped(p, r)
}

// checkNoPlaintextDropped: the writer's buffered plaintext (w.unwritten) only ever grows, except
// where what it held has just been sealed (or it is known to be empty, or the writer is being
// built). A store that shortens it anywhere else throws plaintext away: the bytes written so far
// would not all be in the file.
func checkNoPlaintextDropped(p *Program, r *Result) {
	for _, fs := range p.fieldStores(pkgStream+".Writer", "unwritten") {
		fn := fs.Fn
		tb := p.TB(fn)
		st := fs.Store
		key := "store:unwritten"
		if al, ok := fs.FA.X.(*ssa.Alloc); ok && al.Heap {
			continue // the constructor
		}
		fkey := fieldKey(fs.FA)
		// (a) it grows: the new length is at least the length it had
		grows := false
		var lastLoad *ssa.UnOp
		for _, b := range fn.Blocks {
			for _, in := range b.Instrs {
				ld, ok := in.(*ssa.UnOp)
				if !ok || ld.Op != token.MUL {
					continue
				}
				fa, ok := ld.X.(*ssa.FieldAddr)
				if !ok || fieldKey(fa) != fkey {
					continue
				}
				if dominatesInstr(ld, st) && !tb.fieldWrittenBetween(ld, st, fkey) {
					lastLoad = ld
				}
			}
		}
		if lastLoad != nil {
			s := tb.system(st)
			os, oc, _ := tb.lenSym(lastLoad)
			ns, nc, _ := tb.lenSym(st.Val)
			// old + oc <= new + nc
			if s.implied(os, ns, nc-oc) || s.linImplied(os, ns, nc-oc) {
				grows = true
			}
		}
		// (b) what it held was sealed just before, (c) or it is known to be empty
		sealed := false
		for _, c := range callsTo(fn, "invoke (crypto/cipher.AEAD).Seal") {
			if len(c.Common().Args) < 3 || !dominatesInstr(c.(ssa.Instruction), st) {
				continue
			}
			ld, isLd := stripConv(c.Common().Args[2]).(*ssa.UnOp)
			if !isLd || ld.Op != token.MUL {
				continue
			}
			if fa, isFA := ld.X.(*ssa.FieldAddr); !isFA || fieldKey(fa) != fkey || tb.fieldWrittenBetween(ld, c.(ssa.Instruction), fkey) {
				continue
			}
			// nothing of the writer's own code stores to the field in between (the destination's
			// Write is an interface call: another object, whatever its type)
			clean := true
			vis := p.Reach([]Loc{locAfter(c.(ssa.Instruction))}, func(in ssa.Instruction) bool { return in == ssa.Instruction(st) })
			for in := range vis {
				switch x := in.(type) {
				case *ssa.Store:
					if fa, ok := x.Addr.(*ssa.FieldAddr); ok && fieldKey(fa) == fkey && dominatesInstr(c.(ssa.Instruction), x) && x != st {
						if cfgReachesInstr(p, x, st) {
							clean = false
						}
					}
				case ssa.CallInstruction:
					if callee := staticCallee(x.Common()); callee != nil && p.inModule(callee) {
						if eff := p.EffectsOf(callee); eff != nil && eff.AllFields[fkey] && cfgReachesInstr(p, in, st) {
							clean = false
						}
					}
				}
			}
			if clean {
				sealed = true
			}
		}
		_, empty := hasFactShort(tb.FactsAt(st.Block()), "len(Field(Recv.unwritten)) == 0")
		switch {
		case grows:
			r.OK(fn.String(), key, r.pos(st), "the buffered plaintext grows")
		case sealed:
			r.OK(fn.String(), key, r.pos(st), "reset after the buffered plaintext was sealed")
		case empty:
			r.OK(fn.String(), key, r.pos(st), "reset of an empty buffer")
		default:
			r.Bad(fn.String(), key, r.pos(st), "w.unwritten is replaced by "+short(tb.Term(st.Val).String())+" on a path where what it held has not been sealed and is not known to be empty: buffered plaintext is dropped (the file would not hold every byte written)")
		}
	}
}

// flushGuardByArithmetic: at the call c (a non-final flush in write), the facts in force imply
// that the buffered data is exactly one chunk and that input remains.
func flushGuardByArithmetic(p *Program, write *ssa.Function, c ssa.CallInstruction) (full, more bool) {
	tb := p.TB(write)
	in := c.(ssa.Instruction)
	s := tb.system(in)
	// the buffered data: the last store to the receiver's unwritten field before the call
	var st *ssa.Store
	for _, b := range write.Blocks {
		for _, x := range b.Instrs {
			y, ok := x.(*ssa.Store)
			if !ok {
				continue
			}
			fa, ok := y.Addr.(*ssa.FieldAddr)
			if !ok || fieldName(fa.X.Type(), fa.Field) != "unwritten" || structTypeName(fa.X.Type()) != pkgStream+".Writer" {
				continue
			}
			if dominatesInstr(y, in) && !tb.fieldWrittenBetween(y, in, fieldKey(fa)) && (st == nil || dominatesInstr(st, y)) {
				st = y
			}
		}
	}
	if st != nil {
		ls, lc, _ := tb.lenSym(st.Val)
		full = (s.implied(ls, "0", 65536-lc) || s.linImplied(ls, "0", 65536-lc)) && (s.implied("0", ls, lc-65536) || s.linImplied("0", ls, lc-65536))
	}
	// the remaining input: what the loop carries on with from here
	for _, l := range naturalLoops(write) {
		if !l.Blocks[c.Block()] {
			continue
		}
		for _, hi := range l.Header.Instrs {
			ph, ok := hi.(*ssa.Phi)
			if !ok {
				break
			}
			fromParam := false
			for _, e := range ph.Edges {
				if len(write.Params) > 1 && stripConv(e) == ssa.Value(write.Params[1]) {
					fromParam = true
				}
			}
			if !fromParam {
				continue
			}
			for k, pr := range l.Header.Preds {
				if !l.Blocks[pr] || !(pr == c.Block() || c.Block().Dominates(pr)) {
					continue
				}
				ls, lc, _ := tb.lenSym(ph.Edges[k])
				if s.implied("0", ls, lc-1) || s.linImplied("0", ls, lc-1) {
					more = true
				}
			}
		}
	}
	return full, more
}

// cfgReachesInstr: to can be reached from the point after from.
func cfgReachesInstr(p *Program, from, to ssa.Instruction) bool {
	hit := false
	p.Reach([]Loc{locAfter(from)}, func(x ssa.Instruction) bool {
		if x == to {
			hit = true
		}
		return x == to
	})
	return hit
}

// constMakeRe: make([]byte, K) / make([]byte, 0, K) with constant K, as printed by the term builder.
var constMakeRe = regexp.MustCompile(`^Make0?\([0-9]+\)$`)

// comparesWithBufferFull: the error result of the call is compared with bufio.ErrBufferFull
// (== / != or errors.Is) somewhere in its function.
func comparesWithBufferFull(tb *TB, c ssa.CallInstruction) bool {
	v := c.Value()
	if v == nil || v.Referrers() == nil {
		return false
	}
	isFull := func(x ssa.Value) bool {
		return strings.Contains(short(tb.Term(x).String()), "bufio.ErrBufferFull")
	}
	var errv []ssa.Value
	for _, ref := range *v.Referrers() {
		if ex, ok := ref.(*ssa.Extract); ok && isErrorType(ex.Type()) {
			errv = append(errv, ex)
		}
	}
	seen := map[ssa.Value]bool{}
	for len(errv) > 0 {
		cur := errv[len(errv)-1]
		errv = errv[:len(errv)-1]
		if seen[cur] || cur.Referrers() == nil {
			continue
		}
		seen[cur] = true
		for _, ref := range *cur.Referrers() {
			switch u := ref.(type) {
			case *ssa.BinOp:
				if (u.X == cur && isFull(u.Y)) || (u.Y == cur && isFull(u.X)) {
					return true
				}
			case *ssa.Phi:
				errv = append(errv, u)
			case *ssa.Call:
				if calleeName(&u.Call) == "errors.Is" && len(u.Call.Args) == 2 && isFull(u.Call.Args[1]) {
					return true
				}
			case *ssa.MakeInterface:
				errv = append(errv, u)
			}
		}
	}
	return false
}
