// agecheck decides structural necessary conditions of the properties in
// /verif/properties.jsonl from the current source of /repo (static analysis:
// type-checked ASTs, go/ssa, CFG dominance and paths, call graph, effects).
package main

import (
	"encoding/json"
	"flag"
	"fmt"
	"os"
	"path/filepath"
	"runtime/debug"
	"sort"
	"strconv"
	"strings"
	"sync"
	"time"
)

type PropertyDef struct {
	ID          string
	Explanation string
	NotDecided  string
	Assumptions []string
	Technique   string
	Run         func(p *Program, r *Result)
}

var properties = map[string]*PropertyDef{}

// verifDir is where spec tables, evidence and replay files live.
var verifDir = "/verif"

func register(d *PropertyDef) { properties[d.ID] = d }

var quickConfigs = []BuildConfig{{"linux", "amd64"}}
var thoroughConfigs = []BuildConfig{
	{"linux", "amd64"}, {"linux", "386"}, {"linux", "arm64"},
	{"darwin", "amd64"}, {"darwin", "arm64"},
	{"windows", "amd64"}, {"windows", "386"}, {"windows", "arm64"},
}

func main() {
	// the thorough tier type-checks and builds many variants of the program; keep the heap in
	// check (a soft limit: the collector works harder near it) unless the caller chose one
	if os.Getenv("GOMEMLIMIT") == "" {
		debug.SetMemoryLimit(8 << 30)
	}
	prop := flag.String("prop", "", "property id (C01..C20) or 'all'")
	tier := flag.String("tier", "", "quick | thorough (default: $VERIF_TIER or quick)")
	repo := flag.String("repo", "/repo", "repository to analyse")
	verif := flag.String("verif", "", "verif directory (default: parent of the binary's directory)")
	replay := flag.String("replay", "", "replay file written by an earlier run")
	dump := flag.String("dump", "", "debug: dump terms/guards of the named function (pkg|recv|name)")
	noControls := flag.Bool("no-controls", false, "thorough tier without witness-removal controls")
	overlayFlag := flag.String("overlay", "", "internal: JSON file {path: contents} with in-memory replacements")
	onlyRule := flag.String("rule", "", "internal: restrict output to one rule")
	jsonOut := flag.Bool("json", false, "internal: print obligations as JSON")
	manifest := flag.Bool("manifest", false, "print MANIFEST.json for the registered properties")
	knownShapes := flag.Bool("known-shapes", false, "developer tool: print function signatures and struct fields (for spec/known_shapes.json)")
	knownFuncs := flag.Bool("known-funcs", false, "developer tool: print the list of module functions (for spec/known_funcs.json)")
	mutall := flag.String("mutall", "", "developer tool: directory receiving the expression-level mutants that no property reports")
	mutonly := flag.String("mutonly", "", "with -mutall: only files whose path contains this string")
	sweepall := flag.Bool("sweepall", false, "developer tool: neutralise every statement once and list which properties detect it")
	recipes := flag.Bool("recipes", false, "debug: print everything the spec tables are compared with")
	flag.Parse()
	if *manifest {
		printManifest()
		return
	}

	if *verif == "" {
		exe, err := os.Executable()
		if err == nil {
			*verif = filepath.Dir(filepath.Dir(exe))
		} else {
			*verif = "/verif"
		}
	}
	if *tier == "" {
		*tier = os.Getenv("VERIF_TIER")
		if *tier == "" {
			*tier = "quick"
		}
	}
	verifDir = *verif
	seed := 0
	if s := os.Getenv("VERIF_SEED"); s != "" {
		seed, _ = strconv.Atoi(s)
	}

	if *knownFuncs {
		p, err := Load(*repo, quickConfigs[0], nil)
		if err != nil {
			fmt.Fprintln(os.Stderr, err)
			os.Exit(2)
		}
		var names []string
		for _, f := range p.Funcs {
			names = append(names, f.String())
		}
		sort.Strings(names)
		b, _ := json.MarshalIndent(names, "", " ")
		fmt.Println(string(b))
		return
	}
	if *knownShapes {
		p, err := load(*repo, quickConfigs[0], nil, 0, nil)
		if err != nil {
			fmt.Fprintln(os.Stderr, err)
			os.Exit(2)
		}
		b, _ := json.MarshalIndent(collectShapes(p.Pkgs), "", " ")
		fmt.Println(string(b))
		return
	}
	if *sweepall {
		sweepAll(*repo)
		return
	}
	if *mutall != "" {
		mutAll(*repo, *mutall, *mutonly)
		return
	}
	if *recipes {
		p, err := Load(*repo, quickConfigs[0], nil)
		if err != nil {
			fmt.Fprintln(os.Stderr, err)
			os.Exit(2)
		}
		dumpRecipes(p)
		return
	}
	if *dump != "" {
		p, err := Load(*repo, quickConfigs[0], nil)
		if err != nil {
			fmt.Fprintln(os.Stderr, err)
			os.Exit(2)
		}
		dumpFunc(p, *dump)
		return
	}

	if *replay != "" {
		b, err := os.ReadFile(*replay)
		if err != nil {
			fmt.Fprintln(os.Stderr, err)
			os.Exit(2)
		}
		var rf struct {
			Obligation Obligation `json:"obligation"`
		}
		if err := json.Unmarshal(b, &rf); err != nil {
			fmt.Fprintln(os.Stderr, err)
			os.Exit(2)
		}
		os.Exit(runReplay(*repo, *verif, &rf.Obligation))
	}

	if *jsonOut {
		// internal mode used by the witness-removal controls
		var overlay map[string][]byte
		if *overlayFlag != "" {
			b, err := os.ReadFile(*overlayFlag)
			if err == nil {
				var m map[string]string
				if json.Unmarshal(b, &m) == nil {
					overlay = map[string][]byte{}
					for k, v := range m {
						overlay[k] = []byte(v)
					}
				}
			}
		}
		res := runOne(*repo, quickConfigs[0], overlay, *prop)
		var obs []*Obligation
		for _, o := range res.Obs {
			if *onlyRule == "" || o.Rule == *onlyRule {
				obs = append(obs, o)
			}
		}
		json.NewEncoder(os.Stdout).Encode(obs)
		return
	}

	ids := []string{*prop}
	if *prop == "all" {
		ids = nil
		for id := range properties {
			ids = append(ids, id)
		}
		sort.Strings(ids)
	}
	code := 0
	for _, id := range ids {
		if c := runProperty(*repo, *verif, id, *tier, seed, !*noControls); c != 0 {
			code = 1
		}
	}
	os.Exit(code)
}

// runOne loads one configuration and runs one property's rules; load errors
// and checker panics become machinery obligations (which fail the check).
func runOne(repo string, cfg BuildConfig, overlay map[string][]byte, id string) (res *Result) {
	res = NewResult(id, nil)
	defer func() {
		if e := recover(); e != nil {
			res.cur = "machinery"
			res.add(Machinery, "agecheck", "panic", "", fmt.Sprintf("checker panic under %s: %v\n%s", cfg, e, debug.Stack()))
		}
	}()
	p, err := Load(repo, cfg, overlay)
	if err != nil {
		res.cur = "machinery"
		o := res.add(Machinery, "loader", "load:"+cfg.String(), "", err.Error())
		o.Config = cfg.String()
		return res
	}
	res.prog = p
	def := properties[id]
	def.Run(p, res)
	res.applyFloors()
	return res
}

func runProperty(repo, verif, id, tier string, seed int, controls bool) int {
	start := time.Now()
	def := properties[id]
	if def == nil {
		fmt.Printf("VIOLATION property=%s replay=%s\n", id, "unknown-property")
		return 1
	}
	cfgs := quickConfigs
	if tier == "thorough" {
		cfgs = thoroughConfigs
	}
	results := make([]*Result, len(cfgs))
	var wg sync.WaitGroup
	sem := make(chan struct{}, 3)
	for i, cfg := range cfgs {
		wg.Add(1)
		go func(i int, cfg BuildConfig) {
			defer wg.Done()
			sem <- struct{}{}
			defer func() { <-sem }()
			results[i] = runOne(repo, cfg, nil, id)
			if i > 0 {
				// only the first configuration's program is needed later (controls, sweep)
				results[i].prog = nil
			}
		}(i, cfg)
	}
	wg.Wait()

	findings, err := loadFindings(filepath.Join(verif, "known_findings.json"))
	if err != nil {
		fmt.Printf("VIOLATION property=%s replay=%s\n", id, "known_findings.json-unreadable")
		return 1
	}

	var ctl *controlsEvidence
	var sweep *SweepEvidence
	if tier == "thorough" && controls {
		ctl = runControls(repo, verif, id, results[0])
		if os.Getenv("AGECHECK_NO_SWEEP") == "" {
			sweep = runSweep(repo, id, results[0])
		}
	}

	violations := 0
	known := 0
	printedKnown := map[string]bool{}
	printedViol := map[string]bool{}
	var cfgNames []string
	for i, r := range results {
		cfgNames = append(cfgNames, cfgs[i].String())
		for _, o := range r.Obs {
			if o.Status == Discharged {
				continue
			}
			if k := findings.known(o); k != nil && o.Status == Violated {
				if !printedKnown[o.Key()] {
					printedKnown[o.Key()] = true
					known++
					fmt.Printf("KNOWN-FINDING: property=%s %s %s %s: %s\n", id, o.Rule, o.Subject, o.Construct, k.What)
				}
				continue
			}
			if printedViol[o.Key()] {
				continue
			}
			printedViol[o.Key()] = true
			violations++
			path := writeReplay(verif, o)
			fmt.Printf("VIOLATION property=%s replay=%s\n", id, path)
			fmt.Printf("  %s %s [%s] %s %s at %s (%s): %s\n", o.Status, o.Rule, o.Config, o.Subject, o.Construct, o.Pos, ruleText(r, o.Rule), o.Detail)
		}
	}
	if ctl != nil && ctl.failed != "" {
		violations++
		o := &Obligation{Property: id, Rule: "controls", Subject: "agecheck", Construct: "vacuous-rule", Status: Machinery, Detail: ctl.failed}
		path := writeReplay(verif, o)
		fmt.Printf("VIOLATION property=%s replay=%s\n  machinery: %s\n", id, path, ctl.failed)
	}

	wall := time.Since(start).Seconds()
	expl := def.Explanation
	if def.NotDecided != "" {
		expl += " NOT DECIDED (left to the tests): " + def.NotDecided
	}
	var extra map[string]interface{}
	if sweep != nil {
		extra = map[string]interface{}{"neutralisation_sweep": sweep}
	}
	evDir := verif
	if filepath.Clean(repo) != "/repo" {
		// a scratch copy is being analysed (seeded change, refactoring): the evidence of the
		// registered checks, which are about /repo, is left alone
		evDir = filepath.Join(verif, "out", "scratch")
	}
	if err := writeEvidence(evDir, id, tier, seed, wall, results, cfgNames, violations, known, expl, def.Assumptions, ctl, extra); err != nil {
		fmt.Printf("VIOLATION property=%s replay=%s\n", id, "evidence-write-failed")
		return 1
	}
	total, disch := 0, 0
	for _, r := range results {
		for _, o := range r.Obs {
			total++
			if o.Status == Discharged {
				disch++
			}
		}
	}
	fmt.Printf("%s %s: %d obligations over %d config(s), %d discharged, %d known finding(s), %d violation(s), %.1fs\n",
		id, tier, total, len(cfgs), disch, known, violations, wall)
	if violations > 0 {
		return 1
	}
	return 0
}

func ruleText(r *Result, id string) string {
	for _, ri := range r.Rules {
		if ri.ID == id {
			return ri.Text
		}
	}
	return ""
}

func runReplay(repo, verif string, want *Obligation) int {
	cfg := quickConfigs[0]
	if want.Config != "" {
		if i := strings.IndexByte(want.Config, '/'); i > 0 {
			cfg = BuildConfig{want.Config[:i], want.Config[i+1:]}
		}
	}
	if properties[want.Property] == nil {
		fmt.Println("replay: unknown property", want.Property)
		return 2
	}
	res := runOne(repo, cfg, nil, want.Property)
	for _, o := range res.Obs {
		if o.Key() == want.Key() {
			b, _ := json.MarshalIndent(o, "", " ")
			fmt.Println(string(b))
			if o.Status != Discharged {
				fmt.Printf("VIOLATION property=%s replay=%s\n", o.Property, "(replayed)")
				return 1
			}
			return 0
		}
	}
	fmt.Printf("replay: obligation %s no longer exists on this tree\n", want.Key())
	for _, o := range res.Obs {
		if o.Status != Discharged && o.Rule == want.Rule {
			b, _ := json.MarshalIndent(o, "", " ")
			fmt.Println(string(b))
		}
	}
	return 0
}

func printManifest() {
	var ids []string
	for id := range properties {
		ids = append(ids, id)
	}
	sort.Strings(ids)
	var checks []map[string]interface{}
	for _, id := range ids {
		d := properties[id]
		tech := d.Technique
		if tech == "" {
			tech = "static analysis: CFG dominance/path rules over go/ssa, call-graph and effect summaries"
		}
		note := "trusted: go/types + go/ssa (x/tools v0.29.0), contracts of modelled external functions, spec tables in /verif/spec; " + strings.Join(d.Assumptions, "; ")
		text := d.Explanation
		if d.NotDecided != "" {
			text += " Not decided statically (stays with the test suite): " + d.NotDecided
		}
		checks = append(checks, map[string]interface{}{
			"property_id":         id,
			"quick_cmd":           "./bin/agecheck -prop " + id + " -tier quick",
			"thorough_cmd":        "./bin/agecheck -prop " + id + " -tier thorough",
			"evidence_file":       "/verif/evidence/" + id + ".json",
			"replay_cmd_template": "./bin/agecheck -replay {path}",
			"engine":              "agecheck",
			"level_claimed": map[string]string{
				"category":   "other",
				"text":       text,
				"design_ref": "DESIGN.md section 4, " + id,
			},
			"level_note": note,
			"technique":  tech,
		})
	}
	json.NewEncoder(os.Stdout).Encode(checks)
}
