package main

import (
	"go/types"
	"strings"

	"golang.org/x/tools/go/ssa"
)

// Latching writers (the errWriter idiom): a module struct type T with one error field E and a
// method (*T).Write that (1) hands the bytes on to an underlying io.Writer only where E is known
// to be nil, and (2) stores the error of that write in E, nowhere else. Once a write has failed
// nothing more reaches the destination and E keeps the first error. Errors returned by writes
// INTO such a value may be dropped by the writer's clients, provided the function that made the
// value returns E (checkLatchReturned).

type latchInfo struct {
	field int
	name  string
	write *ssa.Function
}

func (p *Program) latchingWriter(t types.Type) *latchInfo {
	pt, ok := t.Underlying().(*types.Pointer)
	if !ok {
		return nil
	}
	named, ok := pt.Elem().(*types.Named)
	if !ok || named.Obj() == nil || named.Obj().Pkg() == nil || !strings.HasPrefix(named.Obj().Pkg().Path(), modPath) {
		return nil
	}
	st, ok := named.Underlying().(*types.Struct)
	if !ok {
		return nil
	}
	field := -1
	for i := 0; i < st.NumFields(); i++ {
		if isErrorType(st.Field(i).Type()) {
			if field >= 0 {
				return nil
			}
			field = i
		}
	}
	if field < 0 {
		return nil
	}
	var write *ssa.Function
	for _, f := range p.Funcs {
		if f.Name() == "Write" && f.Signature.Recv() != nil && types.Identical(f.Signature.Recv().Type(), t) && f.Blocks != nil {
			write = f
		}
	}
	if write == nil || len(write.Params) != 2 {
		return nil
	}
	tb := p.TB(write)
	recv := write.Params[0]
	isLatchAddr := func(v ssa.Value) bool {
		fa, ok := v.(*ssa.FieldAddr)
		return ok && fa.X == ssa.Value(recv) && fa.Field == field
	}
	n := 0
	var errs []ssa.Value
	for _, c := range callsIn(write) {
		if calleeName(c.Common()) != "invoke (io.Writer).Write" {
			if callee := staticCallee(c.Common()); callee != nil && p.inModule(callee) {
				return nil // keeps it simple: the method does the write itself
			}
			continue
		}
		n++
		// (1) only while no error is latched
		_, clean := findFact(tb.FactsAt(c.Block()), func(a Atom) bool {
			if a.Kind != "cmp" || a.Op != "==" || a.Y == nil || a.Y.Op != "Nil" || a.X == nil {
				return false
			}
			ld, ok := a.X.V.(*ssa.UnOp)
			return ok && isLatchAddr(ld.X)
		})
		if !clean {
			return nil
		}
		call, ok := c.(*ssa.Call)
		if !ok || call.Referrers() == nil {
			return nil
		}
		for _, r := range *call.Referrers() {
			if ex, ok := r.(*ssa.Extract); ok && isErrorType(ex.Type()) {
				errs = append(errs, ex)
			}
		}
	}
	if n == 0 || len(errs) != n {
		return nil
	}
	// (2) the error of each write is stored in E, in the block of the write or on the non-nil
	// side of its own nil test; E is stored nowhere else
	stored := map[ssa.Value]bool{}
	for _, b := range write.Blocks {
		for _, in := range b.Instrs {
			st, ok := in.(*ssa.Store)
			if !ok || !isLatchAddr(st.Addr) {
				continue
			}
			okStore := false
			for _, e := range errs {
				if st.Val != e {
					continue
				}
				eb := e.(*ssa.Extract).Block()
				if b == eb {
					okStore = true
				} else if len(b.Preds) == 1 && b.Preds[0] == eb {
					if x, eq, isTest := nilTestOf(eb); isTest && x == e {
						// the side on which e is non-nil
						nonNilSucc := 0
						if eq {
							nonNilSucc = 1
						}
						if eb.Succs[nonNilSucc] == b {
							okStore = true
						}
					}
				}
				if okStore {
					stored[e] = true
				}
			}
			if !okStore {
				return nil
			}
		}
	}
	for _, e := range errs {
		if !stored[e] {
			return nil
		}
	}
	return &latchInfo{field: field, name: st.Field(field).Name(), write: write}
}

// writesIntoLatch: the call's destination is a latching writer: the writer argument of
// io.WriteString/fmt.Fprint*/(*T).Write itself, or an encoder of the module built on one.
func (p *Program) writesIntoLatch(c ssa.CallInstruction) *latchInfo {
	cc := c.Common()
	var dst ssa.Value
	switch name := calleeName(cc); {
	case name == "io.WriteString" || name == "fmt.Fprintf" || name == "fmt.Fprint" || name == "fmt.Fprintln":
		if len(cc.Args) > 0 {
			dst = cc.Args[0]
		}
	case strings.HasSuffix(name, ").Write") || strings.HasSuffix(name, ").Close") || strings.HasSuffix(name, ").WriteString"):
		if len(cc.Args) > 0 && !cc.IsInvoke() {
			dst = cc.Args[0]
		} else if cc.IsInvoke() {
			dst = cc.Value
		}
	}
	for d := 0; dst != nil && d < 4; d++ {
		switch x := dst.(type) {
		case *ssa.MakeInterface:
			dst = x.X
			continue
		case *ssa.ChangeInterface:
			dst = x.X
			continue
		case *ssa.Call:
			// an encoder of the module constructed over the writer: its errors are the writer's
			if n := calleeName(&x.Call); n == pkgFormat+".NewWrappedBase64Encoder" && len(x.Call.Args) == 2 {
				dst = x.Call.Args[1]
				continue
			}
		}
		break
	}
	if dst == nil {
		return nil
	}
	return p.latchingWriter(dst.Type())
}

// checkLatchReturned: a function that makes a latching writer value returns the latched error on
// every return whose error is not already known to be non-nil.
func checkLatchReturned(p *Program, r *Result, pkgs []string) {
	n := 0
	for _, fn := range p.Funcs {
		if !inPkg(fn, pkgs...) {
			continue
		}
		for _, b := range fn.Blocks {
			for _, in := range b.Instrs {
				al, ok := in.(*ssa.Alloc)
				if !ok {
					continue
				}
				li := p.latchingWriter(al.Type())
				if li == nil {
					continue
				}
				n++
				ei := errorResultIndex(fn.Signature)
				bad := ""
				if ei < 0 {
					bad = "the function that makes the latching writer has no error result"
				}
				for _, ret := range returnsOf(fn) {
					if bad != "" {
						break
					}
					rv := resultsOf(ret)[ei]
					if p.definitelyNonNil(rv, 0) {
						continue
					}
					ld, isLd := stripConv(rv).(*ssa.UnOp)
					fa, isFA := ssa.Value(nil).(*ssa.FieldAddr), false
					if isLd {
						fa, isFA = ld.X.(*ssa.FieldAddr)
					}
					if !isLd || !isFA || fa.X != ssa.Value(al) || fa.Field != li.field {
						bad = "the return at " + r.pos(ret) + " does not hand back the latched error " + li.name
					}
				}
				r.Check(bad == "", fn.String(), "latch-returned:"+short(typeString(al.Type())), r.pos(al), "every return hands back the writer's latched error", bad)
			}
		}
	}
	_ = n
}
