package main

import (
	"sort"
	"go/types"
	"regexp/syntax"
	"strconv"
	"strings"

	"golang.org/x/tools/go/ssa"
)

func init() {
	register(&PropertyDef{
		ID: "C10",
		Explanation: "Structural necessary conditions of C10: (R10.1) *ScryptRecipient implements RecipientWithLabels and its labels result is [hex(Rand(16))] drawn from crypto/rand in that call; " +
			"(R10.2) in ScryptIdentity.Unwrap and cmd/age LazyScryptIdentity.Unwrap every call that does work is dominated by the exit of a loop over all stanzas whose only early exit is a non-sentinel error under exactly (Type==\"scrypt\" and len(stanzas)!=1); " +
			"(R10.3) scrypt.Key in ScryptIdentity.unwrap is dominated by digitsRe.MatchString(arg), Atoi error nil and logN <= i.maxWorkFactor, and its N is 1<<logN of that same value; " +
			"(R10.4) maxWorkFactor is stored only by the constructor (spec default) and SetMaxWorkFactor under 1<=logN<=30; (R10.5) digitsRe is equivalent to ^[1-9][0-9]*$ after regexp/syntax simplification. Encryption-side refusal rests on R10.1 plus C11's label comparison. (R10.6) Unwrap/unwrap of the passphrase identity write nothing reachable from the receiver.",
		NotDecided:  "that crypto/rand labels never collide; the cost of scrypt.Key as a quantity.",
		Assumptions: []string{"regexp.MatchString, strconv.Atoi behave as documented"},
		Run:         runC10,
	})
}

func runC10(p *Program, r *Result) {
	// a passphrase recipient stands alone because its random label set equals nobody else's: the
	// label mechanism of Encrypt (C11's rules) is part of this property
	defer func() {
		r.Rule("R10.6", "the label mechanism that keeps a passphrase recipient alone (= C11 R11.1-R11.5)", 0)
		runC11(p, r)
	}()
	wwl := r.anchor(pkgAge, "ScryptRecipient", "WrapWithLabels")
	idUnwrap := r.anchor(pkgAge, "ScryptIdentity", "Unwrap")
	idunwrap := r.anchor(pkgAge, "ScryptIdentity", "unwrap")
	lazy := r.anchor(pkgCmdAge, "LazyScryptIdentity", "Unwrap")
	newID := r.anchor(pkgAge, "", "NewScryptIdentity")
	setMax := r.anchor(pkgAge, "ScryptIdentity", "SetMaxWorkFactor")
	if wwl == nil || idUnwrap == nil || idunwrap == nil || lazy == nil || newID == nil || setMax == nil {
		return
	}

	// ---- R10.1
	r.Rule("R10.1", "the passphrase recipient declares a fresh random label on every wrap", 2)
	{
		pk := p.ByPath[pkgAge]
		rt := pk.Types.Scope().Lookup("ScryptRecipient")
		it := pk.Types.Scope().Lookup("RecipientWithLabels")
		ok := false
		if rt != nil && it != nil {
			if iface, isI := it.Type().Underlying().(*types.Interface); isI {
				ok = types.Implements(types.NewPointer(rt.Type()), iface)
			}
		}
		r.Check(ok, pkgAge+".ScryptRecipient", "implements:RecipientWithLabels", "", "method set of *ScryptRecipient satisfies RecipientWithLabels",
			"*ScryptRecipient no longer implements RecipientWithLabels: Encrypt would fall back to Wrap and treat its label set as empty, so it could be mixed with other recipients")
		tb := p.TB(wwl)
		n := 0
		for _, ret := range returnsOf(wwl) {
			if len(ret.Results) != 3 {
				continue
			}
			// returns that can carry stanzas must carry the random label
			if isNilConst(ret.Results[0]) {
				continue
			}
			n++
			got := short(tb.Term(ret.Results[1]).String())
			want := specRecipe(r, "ScryptRecipient.WrapWithLabels.labels")
			r.Check(got == want, wwl.String(), "recipe:labels", r.pos(ret), "labels = "+got, "labels result is\n  "+got+"\nwant\n  "+want, Witness{Kind: "term", Text: got})
		}
		if n == 0 {
			r.Unk(wwl.String(), "recipe:labels", "", "no return carrying stanzas found")
		}
	}

	// ---- R10.2
	r.Rule("R10.2", "all stanzas are scanned for a non-lone scrypt stanza before any work", 2)
	for _, fn := range []*ssa.Function{idUnwrap, lazy} {
		checkLoneScan(p, r, fn)
	}

	// ---- R10.7: the only-stanza check sees the whole header
	r.Rule("R10.7", "Decrypt hands every stanza of the header to the identity, so that the only-stanza check sees company wherever it stands (= R01.1b)", 1)
	if dec := r.anchor(pkgAge, "", "Decrypt"); dec != nil {
		if uws := callsTo(dec, "invoke (filippo.io/age.Identity).Unwrap"); len(uws) == 1 {
			checkAllStanzasOffered(p, r, dec, uws[0])
		} else {
			r.Unk(dec.String(), "call:Unwrap:stanzas", "", "expected exactly one Identity.Unwrap invoke in Decrypt")
		}
	}

	// ---- R10.3
	r.Rule("R10.3", "work factor validated against the configured maximum before scrypt.Key", 1)
	workFactorPattern := checkScryptWorkBound(p, r, idunwrap)

	// ---- R10.4
	r.Rule("R10.6", "a passphrase identity decides every header afresh: Unwrap and unwrap store into no field of ScryptIdentity (a remembered stanza or key would let a later header past the only-stanza and work-factor checks)", 1)
	for _, name := range []string{"Unwrap", "unwrap"} {
		fn := p.Func(pkgAge, "ScryptIdentity", name)
		if fn == nil {
			continue
		}
		r.Saw(fn.String())
		var hit []string
		if e := p.EffectsOf(fn); e != nil {
			for f := range e.AllFields {
				if strings.HasPrefix(f, pkgAge+".ScryptIdentity.") {
					hit = append(hit, short(f))
				}
			}
		}
		if e := p.EffectsOf(fn); e != nil && e.WritesParam[0] && len(hit) == 0 {
			hit = append(hit, "memory reachable from the receiver")
		}
		sort.Strings(hit)
		r.Check(len(hit) == 0, fn.String(), "receiver-state", "", "no field of the identity is written while unwrapping", "unwrapping stores into "+strings.Join(hit, ", ")+": what the identity accepts then depends on the headers it has seen before")
	}
	r.Rule("R10.4", "the configured maximum is set only by the constructor default and the guarded setter", 2)
	for _, fs := range p.fieldStores(pkgAge+".ScryptIdentity", "maxWorkFactor") {
		tb := p.TB(fs.Fn)
		val := tb.Term(fs.Store.Val).String()
		switch fs.Fn {
		case newID:
			want := specConst(r, "scrypt.defaultMaxWorkFactor")
			r.Check(val == want, fs.Fn.String(), "store:maxWorkFactor", r.pos(fs.Store), "default "+val, "default maximum work factor is "+val+", specification table says "+want)
		case setMax:
			facts := tb.FactsAt(fs.Store.Block())
			_, lo := hasFact(facts, "P1 >= 1")
			_, hi := hasFact(facts, "P1 <= 30")
			r.Check(val == "P1" && lo && hi, fs.Fn.String(), "store:maxWorkFactor", r.pos(fs.Store), "stored under 1 <= logN <= 30",
				"setter stores "+val+" without the guards 1 <= logN <= 30; facts: "+factStrings(facts))
		default:
			r.Bad(fs.Fn.String(), "store:maxWorkFactor", r.pos(fs.Store), "the work-factor bound is written outside NewScryptIdentity/SetMaxWorkFactor")
		}
	}

	// ---- R10.5
	r.Rule("R10.5", "the work-factor pattern accepts exactly canonical positive decimals", 1)
	{
		pat := specRecipe(r, "digitsRe")
		const pre, suf = `regexp.MustCompile(`, `)`
		got := workFactorPattern
		if got == "" {
			// no match in front of the key derivation (R10.3 reports that): the pinned name
			if g := p.Global(pkgAge, "digitsRe"); g != nil {
				if init := p.globalInit(g); init != nil {
					got = short(init.String())
				}
			}
		}
		if strings.HasPrefix(got, "predicate:") {
			r.OK(strings.TrimPrefix(got, "predicate:"), "pattern", "", "a predicate of the module decided by evaluation: non-empty, every byte '0'..'9', first byte not '0'")
		} else if got == "" {
			r.Unk(pkgAge+".digitsRe", "pattern", "", "no compiled pattern guards the work factor and the package variable digitsRe was not found")
		} else {
			ok := false
			if strings.HasPrefix(got, pre) && strings.HasSuffix(got, suf) && strings.HasPrefix(pat, pre) {
				gs, err1 := strconv.Unquote(got[len(pre) : len(got)-len(suf)])
				ws, err2 := strconv.Unquote(pat[len(pre) : len(pat)-len(suf)])
				if err1 == nil && err2 == nil {
					a, e1 := syntax.Parse(gs, syntax.Perl)
					b, e2 := syntax.Parse(ws, syntax.Perl)
					if e1 == nil && e2 == nil {
						ok = a.Simplify().String() == b.Simplify().String()
					}
				}
			}
			r.Check(ok, pkgAge+".digitsRe", "pattern", "", "pattern "+got, "digitsRe is "+got+", not equivalent to the canonical-decimal pattern "+pat)
		}
	}
}

// checkLoneScan implements R10.2 on one Unwrap function.
func checkLoneScan(p *Program, r *Result, fn *ssa.Function) {
	tb := p.TB(fn)
	sub := fn.String()
	if len(fn.Params) < 2 {
		r.Unk(sub, "scan", "", "unexpected signature")
		return
	}
	stanzas := fn.Params[1]
	loops := loopOver(fn, func(v ssa.Value) bool { return v == stanzas })
	var scan *RangeLoop
	var scanRet *ssa.Return
	for _, l := range loops {
		for _, ret := range returnsOf(fn) {
			if !l.inLoop(ret.Block()) {
				continue
			}
			facts := tb.FactsAt(ret.Block())
			var rest []string
			typ, ln := false, false
			for _, a := range facts {
				s := short(a.String())
				switch {
				case s == `Field(Elem(P1, (RangeIdx#1 + 1)).Type) == "scrypt"`:
					typ = true
				case s == "len(P1) != 1" || s == "len(P1) > 1" || s == "len(P1) >= 2":
					// (with no stanza at all the loop does not run: > 1 and != 1 refuse the same headers)
					ln = true
				case s == "(RangeIdx#1 + 1) <= (len(P1) + -1)" || s == "(RangeIdx#1 + 1) < len(P1)":
				case !strings.Contains(s, "Field(Elem(P1") && !strings.Contains(s, "RangeIdx") || s == "Elem(P1, (RangeIdx#1 + 1)) != nil":
					// a condition that says nothing about which stanza is looked at or what it holds
					// (the list is not empty, the element is not nil, the identity is initialised):
					// it lets no position through
				default:
					rest = append(rest, s)
				}
			}
			refusal := isFreshNonSentinelError(ret.Results[1]) || (p.definitelyNonNil(stripConv(ret.Results[1]), 0) && !isSentinel(tb, ret.Results[1]))
			if typ && ln && len(rest) == 0 && len(ret.Results) == 2 && isNilConst(ret.Results[0]) && refusal {
				scan, scanRet = l, ret
			}
		}
	}
	if scan == nil {
		r.Bad(sub, "scan", "", "no loop over all stanzas returns a non-sentinel error under exactly Type==\"scrypt\" && len(stanzas)!=1 (extra conditions would let some positions through)")
		return
	}
	// the loop must be left only through its header (no break) or by returns; a second way out is
	// harmless where there is nothing left to examine (len(stanzas) == 1 on that path) or where
	// it refuses (a non-nil error)
	single := func(b *ssa.BasicBlock) bool {
		_, ok := hasFactShort(tb.FactsAt(b), "len(P1) == 1")
		return ok
	}
	for _, b := range p.loopEarlyExits(scan) {
		if !single(b) {
			r.Bad(sub, "scan", r.pos(scanRet), "the scan loop can be left early (break): later stanzas would not be examined")
			return
		}
	}
	for _, ret := range returnsOf(fn) {
		if ret != scanRet && scan.inLoop(ret.Block()) {
			if single(ret.Block()) || len(ret.Results) == 2 && isNilConst(ret.Results[0]) && p.definitelyNonNil(stripConv(ret.Results[1]), 0) {
				continue
			}
			r.Bad(sub, "scan", r.pos(ret), "the scan loop has a second exit")
			return
		}
	}
	// every call that does work comes after the loop
	for _, c := range callsIn(fn) {
		n := calleeName(c.Common())
		if n == "builtin len" || n == "errors.New" || n == "fmt.Errorf" {
			continue
		}
		if !p.completedAt(scan, c.Block()) && !scanOrSingle(p, fn, scan, c.Block()) {
			r.Bad(sub, "scan", r.pos(c), "call to "+short(n)+" is not dominated by the completed scan of all stanzas")
			return
		}
	}
	r.OK(sub, "scan", r.pos(scanRet), "full-range loop; single early exit with a non-sentinel error; all work dominated by the loop exit",
		Witness{Kind: "guard", Pos: r.pos(scanRet), Text: `s.Type == "scrypt" && len(stanzas) != 1 -> return error`})
}

// isFreshNonSentinelError: errors.New(...) or fmt.Errorf without %w.
func isFreshNonSentinelError(v ssa.Value) bool {
	c, ok := stripConv(v).(*ssa.Call)
	if !ok {
		return false
	}
	switch calleeName(&c.Call) {
	case "errors.New":
		return true
	case "fmt.Errorf":
		if k, ok := c.Call.Args[0].(*ssa.Const); ok {
			return !strings.Contains(k.Value.ExactString(), "%w")
		}
	}
	return false
}

// scanOrSingle: every path from the entry to block b either leaves the scan loop through its
// header (the scan ran to completion) or takes a branch on which len(stanzas) == 1 (a lone
// stanza needs no scan: the rejection is for a scrypt stanza in company).
func scanOrSingle(p *Program, fn *ssa.Function, scan *RangeLoop, b *ssa.BasicBlock) bool {
	tb := p.TB(fn)
	seen := map[*ssa.BasicBlock]bool{}
	work := []*ssa.BasicBlock{fn.Blocks[0]}
	for len(work) > 0 {
		x := work[len(work)-1]
		work = work[:len(work)-1]
		if seen[x] {
			continue
		}
		seen[x] = true
		if x == b {
			return false
		}
		_, isIf := x.Instrs[len(x.Instrs)-1].(*ssa.If)
		feas := map[*ssa.BasicBlock]bool{}
		for _, su := range p.feasibleSuccs(x) {
			feas[su] = true
		}
		for k, su := range x.Succs {
			if !feas[su] || x == scan.Header && su == scan.Exit {
				continue
			}
			if isIf {
				fe := tb.FactsOnEdge(x, k)
				if len(fe) > 0 {
					// a lone stanza (or none at all) needs no scan
					switch short(fe[len(fe)-1].String()) {
					case "len(P1) == 1", "len(P1) <= 1", "len(P1) < 2", "len(P1) == 0":
						continue
					}
				}
			}
			work = append(work, su)
		}
	}
	return true
}

// checkScryptWorkBound is rule R10.3 (shared with C14: a passphrase identity never does more
// key-derivation work than its configured maximum allows). It returns the compiled pattern the
// work-factor argument is matched against.
func checkScryptWorkBound(p *Program, r *Result, idunwrap *ssa.Function) string {
	workFactorPattern := ""
	tb := p.TB(idunwrap)
	calls := callsTo(idunwrap, "golang.org/x/crypto/scrypt.Key")
	if len(calls) == 0 {
		r.Unk(idunwrap.String(), "call:scrypt.Key", "", "no scrypt.Key call found")
	}
	for i, c := range calls {
		facts := tb.FactsAt(c.Block())
		nArg := short(tb.Term(c.Common().Args[2]).String())
		// N must be 1 << Atoi(X).0
		const pre, suf = "(1 << strconv.Atoi(", ").0)"
		if !strings.HasPrefix(nArg, pre) || !strings.HasSuffix(nArg, suf) {
			r.Bad(idunwrap.String(), callKey("scrypt.Key", i), r.pos(c), "N argument is "+nArg+", expected 1 << logN with logN the result of strconv.Atoi on the work-factor argument")
			continue
		}
		x := nArg[len(pre) : len(nArg)-len(suf)]
		// the argument must have matched a package-level compiled pattern (R10.5 decides
		// whether the pattern is the right one, whatever the variable is called)
		_, reOK := findFact(facts, func(a Atom) bool {
			if a.Kind != "call" || !a.Pol || a.Call.S != "(*regexp.Regexp).MatchString" || len(a.Call.Args) != 2 {
				return false
			}
			re := short(a.Call.Args[0].String())
			if !strings.HasPrefix(re, "regexp.MustCompile(") || short(a.Call.Args[1].String()) != x {
				return false
			}
			workFactorPattern = re
			return true
		})
		if !reOK {
			// the same set decided by a hand-written predicate of the module
			for _, a := range facts {
				if name, ok := p.canonicalDecimalGuard(a, x); ok {
					reOK = true
					workFactorPattern = "predicate:" + name
				}
			}
		}
		want := []string{
			"strconv.Atoi(" + x + ").1 == nil",
			"strconv.Atoi(" + x + ").0 <= Field(Recv.maxWorkFactor)",
		}
		var ws []Witness
		missing := ""
		for _, w := range want {
			a, ok := findFact(facts, func(a Atom) bool { return short(a.String()) == w })
			if !ok {
				missing = w
				break
			}
			ws = append(ws, guardWitness(p, a))
		}
		if !reOK && missing == "" {
			missing = "<package-level pattern>.MatchString(" + x + ")"
		}
		if x != "Elem(Field(P1.Args), 1)" {
			missing = "work factor taken from " + x + " instead of the stanza's second argument"
		}
		if missing != "" {
			r.Bad(idunwrap.String(), callKey("scrypt.Key", i), r.pos(c), "key derivation is not dominated by: "+missing+"; facts: "+short(factStrings(facts)))
		} else {
			r.OK(idunwrap.String(), callKey("scrypt.Key", i), r.pos(c), "", ws...)
		}
	}
	return workFactorPattern
}

// canonicalDecimalPredicate: fn is a module predicate func(string) bool that accepts exactly the
// canonical positive decimals (^[1-9][0-9]*$), decided on its code: every `return true` stands
// behind a non-empty test, a loop over all bytes of the parameter that carries on for '0'..'9'
// only (E10 evaluates the loop body at its critical points), and a first byte other than '0'.
func (p *Program) canonicalDecimalPredicate(fn *ssa.Function) bool {
	if fn == nil || fn.Blocks == nil || len(fn.Params) != 1 || fn.Signature.Results().Len() != 1 {
		return false
	}
	if bt, ok := fn.Signature.Results().At(0).Type().Underlying().(*types.Basic); !ok || bt.Kind() != types.Bool {
		return false
	}
	if bt, ok := fn.Params[0].Type().Underlying().(*types.Basic); !ok || bt.Kind() != types.String {
		return false
	}
	tb := p.TB(fn)
	ep, _ := p.elemPredicate(fn, func(v ssa.Value) bool { return v == ssa.Value(fn.Params[0]) })
	if ep == nil {
		return false
	}
	eq, ok, _ := ep.Equals(func(c int64) bool { return c >= '0' && c <= '9' }, []int64{'0', '9'})
	if !ok || !eq {
		return false
	}
	nTrue := 0
	for _, ret := range returnsOf(fn) {
		c, isC := ret.Results[0].(*ssa.Const)
		if !isC || c.Value == nil {
			return false
		}
		if c.Value.ExactString() != "true" {
			continue
		}
		nTrue++
		if !p.completedAt(ep.Loop, ret.Block()) {
			return false
		}
		facts := tb.FactsAt(ret.Block())
		has := func(alts ...string) bool {
			for _, a := range alts {
				if _, ok := hasFact(facts, a); ok {
					return true
				}
			}
			return false
		}
		if !has("len(P1) != 0", "len(P1) >= 1", `P1 != ""`) {
			return false
		}
		if !(has("Elem(P1, 0) != 48") || (has("Elem(P1, 0) >= 49") && has("Elem(P1, 0) <= 57"))) {
			return false
		}
	}
	return nTrue > 0
}

// canonicalDecimalGuard: the atom is a call `f(x)` taken on its true side with f such a predicate.
func (p *Program) canonicalDecimalGuard(a Atom, x string) (string, bool) {
	if a.Kind != "call" || !a.Pol || a.Call == nil || len(a.Call.Args) != 1 || short(a.Call.Args[0].String()) != x {
		return "", false
	}
	for _, fn := range p.Funcs {
		if fn.Parent() == nil && fn.String() == a.Call.S && p.canonicalDecimalPredicate(fn) {
			return fn.String(), true
		}
	}
	return "", false
}
