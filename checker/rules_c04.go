package main

import (
	"regexp"
	"strings"

	"golang.org/x/tools/go/ssa"
)

func init() {
	register(&PropertyDef{
		ID: "C04",
		Explanation: "Structural necessary conditions of C04 on all CFG paths (R04.10: the sentinel is only ever wrapped with %w, never formatted into a message): (R04.1) each native unwrap returns a file key only as the output of the AEAD open / OAEP decrypt whose error is nil on that path; " +
			"(R04.2) in the X25519 and scrypt unwrap, every return on the AEAD-failure edge other than the size error is the ErrIncorrectIdentity sentinel (or wraps it with %w); " +
			"(R04.3) in the two SSH unwraps the private-key operation is dominated by Args[0] == sshFingerprint(i.sshKey) and the other edge returns the sentinel; " +
			"(R04.4) Decrypt returns *NoIdentityMatchError exactly under fileKey == nil after the loop and appends each identity's error once, on the sentinel edge; (R03.6) no reader on error. (R04.9) the payload reader is untouched until identities were consulted and the MAC compared, so the no-match error depends on header and identities alone.",
		NotDecided:  "that a near-miss key or passphrase actually fails the AEAD (cryptographic fact).",
		Assumptions: []string{"errors.Is semantics", "AEAD.Open / rsa.DecryptOAEP return a non-nil error on authentication failure"},
		Run:         runC04,
	})
}

type nativeUnwrap struct {
	pkg, recv string
	typeConst string
	opener    string // call whose first result is the file key
	keyOp     string // private key operation (SSH types) guarded by the tag
}

var nativeUnwraps = []nativeUnwrap{
	{pkgAge, "X25519Identity", "X25519", pkgAge + ".aeadDecrypt", ""},
	{pkgAge, "ScryptIdentity", "scrypt", pkgAge + ".aeadDecrypt", ""},
	{pkgSSH, "RSAIdentity", "ssh-rsa", "crypto/rsa.DecryptOAEP", "crypto/rsa.DecryptOAEP"},
	{pkgSSH, "Ed25519Identity", "ssh-ed25519", pkgSSH + ".aeadDecrypt", "golang.org/x/crypto/curve25519.X25519"},
}

func isSentinel(tb *TB, v ssa.Value) bool {
	t := short(tb.Term(v).String())
	if t == "age.ErrIncorrectIdentity" {
		return true
	}
	// fmt.Errorf("...%w...", ..., ErrIncorrectIdentity, ...)
	if c, ok := stripConv(v).(*ssa.Call); ok && calleeName(&c.Call) == "fmt.Errorf" {
		if k, ok := c.Call.Args[0].(*ssa.Const); ok && strings.Contains(k.Value.ExactString(), "%w") {
			return strings.Contains(t, "age.ErrIncorrectIdentity")
		}
	}
	return false
}

func runC04(p *Program, r *Result) {
	dec := r.anchor(pkgAge, "", "Decrypt")
	newReader := r.anchor(pkgStream, "", "NewReader")

	r.Rule("R04.1", "a file key is returned only as the output of a successful open", 4)
	fns := map[string]*ssa.Function{}
	for _, nu := range nativeUnwraps {
		fn := r.anchor(nu.pkg, nu.recv, "unwrap")
		if fn == nil {
			continue
		}
		fns[nu.recv] = fn
		tb := p.TB(fn)
		n := 0
		for _, ret := range returnsOf(fn) {
			if len(ret.Results) != 2 || isNilConst(ret.Results[0]) {
				continue
			}
			n++
			key := "return:fileKey"
			ex, ok := stripConv(ret.Results[0]).(*ssa.Extract)
			var call *ssa.Call
			if ok {
				call, _ = ex.Tuple.(*ssa.Call)
			}
			if call == nil || calleeName(&call.Call) != nu.opener || ex.Index != 0 {
				r.Bad(fn.String(), key, r.pos(ret), "the returned key is "+short(tb.Term(ret.Results[0]).String())+", not the first result of "+short(nu.opener))
				continue
			}
			facts := tb.FactsAt(ret.Block())
			a, ok := errFactFor(facts, call, true)
			if !ok {
				r.Bad(fn.String(), key, r.pos(ret), "the key is returned on a path where the error of "+short(nu.opener)+" is not known to be nil")
				continue
			}
			if !isNilConst(ret.Results[1]) {
				r.Bad(fn.String(), key, r.pos(ret), "a key is returned together with a possibly non-nil error")
				continue
			}
			r.OK(fn.String(), key, r.pos(ret), "", guardWitness(p, a))
		}
		if n == 0 {
			r.Unk(fn.String(), "return:fileKey", "", "no return carrying a key")
		}
	}

	r.Rule("R04.2", "AEAD failure under the derived key is reported as the incorrect-identity sentinel", 2)
	for _, recv := range []string{"X25519Identity", "ScryptIdentity"} {
		fn := fns[recv]
		if fn == nil {
			continue
		}
		tb := p.TB(fn)
		calls := callsTo(fn, pkgAge+".aeadDecrypt")
		if len(calls) != 1 {
			r.Unk(fn.String(), "aead-failure", "", "expected exactly one aeadDecrypt call")
			continue
		}
		call := calls[0].Value()
		n := 0
		for _, ret := range returnsOf(fn) {
			facts := tb.FactsAt(ret.Block())
			_, nonNil := errFactFor(facts, call, false)
			if !nonNil {
				continue
			}
			// the size error is the documented exception
			_, isSize := findFact(facts, func(a Atom) bool {
				return a.Kind == "cmp" && a.Op == "==" && a.X.Op == "Ext" && a.X.Args[0].V == call && short(a.Y.String()) == "age.errIncorrectCiphertextSize"
			})
			if isSize {
				continue
			}
			n++
			if isSentinel(tb, ret.Results[1]) && isNilConst(ret.Results[0]) {
				r.OK(fn.String(), "aead-failure", r.pos(ret), "returns the sentinel")
			} else {
				r.Bad(fn.String(), "aead-failure", r.pos(ret), "open failure under the derived key returns "+short(tb.Term(ret.Results[1]).String())+" instead of ErrIncorrectIdentity: Decrypt would abort instead of trying other identities and reporting NoIdentityMatchError")
			}
		}
		if n == 0 {
			// maybe the size error is not distinguished by a dominating fact; look for returns
			// reachable on the failure edge
			r.Bad(fn.String(), "aead-failure", "", "no return is dominated by the failure of aeadDecrypt: its error is dropped or handled in an unrecognised way")
		}
	}

	r.Rule("R04.3", "SSH stanzas are selected by public-key tag before the private key is used", 2)
	for _, nu := range nativeUnwraps {
		if nu.keyOp == "" {
			continue
		}
		fn := fns[nu.recv]
		if fn == nil {
			continue
		}
		tb := p.TB(fn)
		isTag := func(op string) func(a Atom) bool {
			return func(a Atom) bool {
				if a.Kind != "cmp" || a.Op != op {
					return false
				}
				x, y := short(a.X.String()), short(a.Y.String())
				return (x == "Elem(Field(P1.Args), 0)" && y == "agessh.sshFingerprint(Field(Recv.sshKey))") ||
					(y == "Elem(Field(P1.Args), 0)" && x == "agessh.sshFingerprint(Field(Recv.sshKey))")
			}
		}
		n := 0
		for i, c := range callsTo(fn, nu.keyOp) {
			// only operations that involve the private key
			usesKey := false
			for _, a := range c.Common().Args {
				t := short(tb.Term(a).String())
				if t == "Field(Recv.secretKey)" || t == "Field(Recv.k)" {
					usesKey = true
				}
			}
			if !usesKey {
				continue
			}
			n++
			facts := tb.FactsAt(c.Block())
			a, ok := findFact(facts, isTag("=="))
			if ok {
				r.OK(fn.String(), callKey(nu.keyOp, i), r.pos(c), "", guardWitness(p, a))
			} else {
				r.Bad(fn.String(), callKey(nu.keyOp, i), r.pos(c), "the private-key operation is not dominated by Args[0] == sshFingerprint(i.sshKey): a stanza for another key would be processed (and its failure reported as a fatal error)")
			}
		}
		if n == 0 {
			r.Unk(fn.String(), "keyop", "", "no private-key operation found")
		}
		// the mismatch edge returns the sentinel
		found := false
		for _, ret := range returnsOf(fn) {
			facts := tb.FactsAt(ret.Block())
			if _, ok := findFact(facts, isTag("!=")); ok {
				found = true
				r.Check(isSentinel(tb, ret.Results[1]) && isNilConst(ret.Results[0]), fn.String(), "tag-mismatch", r.pos(ret), "returns the sentinel",
					"a stanza with another key's tag yields "+short(tb.Term(ret.Results[1]).String())+" instead of ErrIncorrectIdentity")
			}
		}
		if !found {
			r.Bad(fn.String(), "tag-mismatch", "", "no return on the tag-mismatch edge")
		}
		checkFatalBeforeTag(p, r, fn)
	}

	if dec == nil || newReader == nil {
		return
	}
	r.Rule("R04.4", "no-match bookkeeping in Decrypt", 3)
	{
		tb := p.TB(dec)
		sub := dec.String()
		// Both directions are decided on the paths of Decrypt (from the entry and from every loop
		// header, Phis resolved along each path, repeated nil tests pruned), so that the shape of
		// the bookkeeping — a `fileKey == nil` test after the loop, or a helper that returns the
		// key from inside the loop and the no-match error after it — does not matter.
		starts := []*ssa.BasicBlock{dec.Blocks[0]}
		for _, b := range dec.Blocks {
			for _, pr := range b.Preds {
				if b != dec.Blocks[0] && b.Dominates(pr) {
					starts = append(starts, b)
					break
				}
			}
		}
		var paths []*Path
		complete := true
		for _, st := range starts {
			ps, ok := p.EnumPaths(st)
			complete = complete && ok
			paths = append(paths, ps...)
		}
		unwrapCalls := callsTo(dec, "invoke (filippo.io/age.Identity).Unwrap")
		extracts := func(c ssa.CallInstruction, wantErr bool) []ssa.Value {
			var out []ssa.Value
			for _, b := range dec.Blocks {
				for _, in := range b.Instrs {
					if ex, ok := in.(*ssa.Extract); ok && ex.Tuple == c.Value() && isErrorType(ex.Type()) == wantErr {
						out = append(out, ex)
					}
				}
			}
			return out
		}
		isNoMatch := func(v ssa.Value) bool {
			v = stripConv(v)
			if mi, ok := v.(*ssa.MakeInterface); ok {
				v = stripConv(mi.X)
			}
			return strings.HasSuffix(strings.TrimPrefix(typeString(v.Type()), "*"), pkgAge+".NoIdentityMatchError")
		}
		if !complete {
			r.Unk(sub, "return:no-match", "", "too many paths through Decrypt")
		}
		// the NoIdentityMatchError return: never on a path on which an identity returned a nil
		// error, unless the key it returned is known to be nil there
		n := 0
		for _, ret := range returnsOf(dec) {
			onRet, bad := 0, ""
			for _, pa := range paths {
				if pa.End != "return" || pa.Last != ssa.Instruction(ret) || !isNoMatch(pa.Resolve(ret.Results[1])) {
					continue
				}
				onRet++
				if !isNilConst(stripConv(pa.Resolve(ret.Results[0]))) {
					bad = "path " + pa.String() + " returns the no-match error together with a reader"
				}
				for _, c := range unwrapCalls {
					if !pathHas(pa, c.(ssa.Instruction)) {
						continue
					}
					succeeded := false
					for _, e := range extracts(c, true) {
						if isNil, known := pa.NilOnPath(e, len(pa.Blocks)); known && isNil {
							succeeded = true
						}
					}
					if !succeeded {
						continue
					}
					keyNil := false
					for _, k := range extracts(c, false) {
						if isNil, known := pa.NilOnPath(k, len(pa.Blocks)); known && isNil {
							keyNil = true
						}
					}
					if !keyNil {
						bad = "path " + pa.String() + " returns the no-match error although an identity returned a nil error and its key is not known to be nil"
					}
				}
			}
			if onRet == 0 {
				continue
			}
			key := "return:no-match"
			if n > 0 {
				key += "#" + itoa(n+1)
			}
			n++
			if bad == "" {
				r.OK(sub, key, r.pos(ret), "on "+itoa(onRet)+" path(s): no identity had returned a key")
			} else {
				r.Bad(sub, key, r.pos(ret), "the no-match error is returned on a path on which an identity succeeded: "+bad)
			}
		}
		if n == 0 {
			r.Bad(sub, "return:no-match", "", "Decrypt has no return carrying *NoIdentityMatchError")
		}
		// conversely the header MAC (hence any reader) is computed only with the key of an
		// identity that returned a nil error, or with a key known to be non-nil
		for i, c := range callsTo(dec, pkgAge+".headerMAC") {
			on, bad := 0, ""
			for _, pa := range paths {
				if !pathHas(pa, c.(ssa.Instruction)) {
					continue
				}
				idx := -1
				for j, b := range pa.Blocks {
					if b == c.Block() {
						idx = j
					}
				}
				on++
				key := stripConv(pa.ResolveAt(c.Common().Args[0], idx))
				ok := false
				if isNil, known := pa.NilOnPath(key, idx); known && !isNil {
					ok = true
				}
				if ex, isEx := key.(*ssa.Extract); isEx && !ok {
					for _, uc := range unwrapCalls {
						if ex.Tuple != uc.Value() || !pathHas(pa, uc.(ssa.Instruction)) {
							continue
						}
						for _, e := range extracts(uc, true) {
							if isNil, known := pa.NilOnPath(e, idx); known && isNil {
								ok = true
							}
						}
					}
				}
				if !ok {
					bad = "path " + pa.String()
				}
			}
			switch {
			case on == 0:
				r.Unk(sub, callKey("headerMAC", i)+":fileKey!=nil", r.pos(c), "no path of Decrypt reaches the header MAC computation")
			case bad == "":
				r.OK(sub, callKey("headerMAC", i)+":fileKey!=nil", r.pos(c), "on "+itoa(on)+" path(s): the key comes from an identity that returned a nil error, or is known to be non-nil")
			default:
				r.Bad(sub, callKey("headerMAC", i)+":fileKey!=nil", r.pos(c), "decryption proceeds on a path where the file key is not known to be non-nil: the no-match error is not returned in every case in which no identity produced a key ("+bad+")")
			}
		}
		// the append to Errors
		stores := p.fieldStores(pkgAge+".NoIdentityMatchError", "Errors")
		var inDec []fieldStore
		for _, fs := range stores {
			if fs.Fn == dec {
				// an empty slice stored up front (pre-sizing) records nothing
				if ms, isMake := stripConv(fs.Store.Val).(*ssa.MakeSlice); isMake {
					if k, isK := constInt(ms.Len); isK && k == 0 {
						continue
					}
				}
				inDec = append(inDec, fs)
			}
		}
		if len(inDec) != 1 {
			r.Bad(sub, "store:Errors", "", "expected exactly one append to NoIdentityMatchError.Errors in Decrypt, found "+itoa(len(inDec)))
		} else {
			s := inDec[0].Store
			// the causes may be appended to the field in place, or collected in a local slice
			// that becomes the field when the error is built: the site is the append
			var site ssa.Instruction = s
			siteVal := s.Val
			if app := accumulatingAppend(s.Val); app != nil {
				site, siteVal = app, app
			}
			facts := tb.FactsAt(site.Block())
			a, ok := findFact(facts, func(a Atom) bool {
				return a.Kind == "call" && a.Pol && a.Call.S == "errors.Is" && len(a.Call.Args) == 2 &&
					short(a.Call.Args[1].String()) == "age.ErrIncorrectIdentity" && strings.HasPrefix(a.Call.Args[0].String(), "invoke (filippo.io/age.Identity).Unwrap(")
			})
			val := short(tb.Term(siteVal).String())
			// the appended element is that iteration's error, as it is or wrapped by a formatting call
			okVal := (strings.HasPrefix(val, "Concat(Field(") && strings.Contains(val, ".Errors") || site != ssa.Instruction(s) && strings.HasPrefix(val, "Concat(")) && strings.Contains(val, "invoke (age.Identity).Unwrap(") && strings.Contains(val, ").1")
			if okVal && !(strings.Contains(val, "List(invoke (age.Identity).Unwrap(") && strings.HasSuffix(val, ".1))")) {
				// wrapped: only a %w wrapper keeps errors.Is(cause, ErrIncorrectIdentity) true
				okVal = strings.Contains(val, "fmt.Errorf(") && strings.Contains(val, "%w")
				for _, pa := range regexp.MustCompile(`fmt\.Errorf\("((?:[^"\\]|\\.)*)"`).FindAllStringSubmatch(val, -1) {
					if !strings.Contains(pa[1], "%w") {
						okVal = false
					}
				}
			}
			if ok && okVal {
				// and the sentinel edge always passes the store before continuing
				ifi := a.If
				from := []Loc{blockStart(ifi.Block().Succs[0])}
				bad := p.MustPass(from, func(in ssa.Instruction) bool {
					// leaving the sentinel block towards the loop header or a return
					if isReturn(in) {
						return true
					}
					ph, isPhi := in.(*ssa.Phi)
					return isPhi && ph.Comment == "rangeindex"
				}, func(in ssa.Instruction) bool { return in == site })
				if len(bad) > 0 {
					r.Bad(sub, "store:Errors", r.pos(s), "a path from the sentinel edge reaches "+r.pos(bad[0])+" without recording the identity's error")
				} else {
					r.OK(sub, "store:Errors", r.pos(s), "appends this iteration's Unwrap error, once, on the errors.Is(err, ErrIncorrectIdentity) edge", guardWitness(p, a))
				}
			} else {
				r.Bad(sub, "store:Errors", r.pos(s), "the append to Errors is not on the errors.Is(err, ErrIncorrectIdentity) edge or does not append that iteration's error: "+val)
			}
		}
		// every return of NoIdentityMatchError-free paths: the non-sentinel, non-nil error aborts
		okAbort := false
		for _, ret := range returnsOf(dec) {
			t := tb.Term(ret.Results[1]).String()
			if strings.HasPrefix(t, "invoke (filippo.io/age.Identity).Unwrap(") && strings.HasSuffix(t, ".1") && isNilConst(ret.Results[0]) {
				okAbort = true
			}
		}
		r.Check(okAbort, sub, "return:fatal", "", "other Unwrap errors are returned as they are, with no reader", "no return forwards a fatal Unwrap error")
	}

	r.Rule("R04.7", "identity and stanza loops pass over an element only on the incorrect-identity sentinel, and return that sentinel when nothing matched (= R01.3): each cause in the no-match error indicates an incorrect identity", 6)
	for _, il := range idLoops {
		if fn := r.anchor(il.pkg, il.recv, il.fn); fn != nil {
			checkSentinelLoop(p, r, fn, il.callee)
		}
	}
	r.Rule("R04.8", "the passphrase identity refuses (with a fatal error) only a header in which an scrypt stanza has company; any other header it does not match yields the sentinel (= R10.2)", 1)
	if idu := r.anchor(pkgAge, "ScryptIdentity", "Unwrap"); idu != nil {
		checkLoneScan(p, r, idu)
	}
	r.Rule("R04.5", "a stanza of another type yields the sentinel, so every non-matching identity is counted instead of aborting Decrypt (= R01.4)", 4)
	checkTypeGate(p, r)
	r.Rule("R04.6", "keys are stored and used verbatim: constructor and wrap/unwrap recipes equal the specification table", 10)
	checkSites(p, r, recipeSites, "C04")
	r.Rule("R03.6", "every error return carries a nil reader", 8)
	checkNothingOnError(p, r, dec, map[string]bool{newReader.String(): true})
	checkNothingOnError(p, r, newReader, nil)
	r.Rule("R04.10", "the incorrect-identity sentinel is never flattened into a message: where it is an operand of fmt.Errorf the format wraps it with %w, so every cause collected in the no-match error still indicates an incorrect identity", 1)
	{
		n := 0
		for _, fn := range p.Funcs {
			if fn.Pkg == nil || !(isLibPkg(fn.Pkg.Pkg.Path()) || fn.Pkg.Pkg.Path() == pkgCmdAge) {
				continue
			}
			ftb := p.TB(fn)
			for _, c := range callsTo(fn, "fmt.Errorf") {
				t := short(ftb.Term(c.Value()).String())
				if !strings.Contains(t, "age.ErrIncorrectIdentity") {
					continue
				}
				n++
				k, isK := c.Common().Args[0].(*ssa.Const)
				okw := isK && k.Value != nil && strings.Contains(k.Value.ExactString(), "%w")
				r.Check(okw, fn.String(), "sentinel-wrapped#"+itoa(n), r.pos(c), "the sentinel is an operand of a %w format", "ErrIncorrectIdentity is formatted into an error without %w ("+t+"): errors.Is no longer sees it, so Decrypt aborts with this error instead of collecting it and trying the next identity")
			}
		}
		if n == 0 {
			r.OK(pkgAge, "sentinel-wrapped:none", "", "the sentinel is nowhere an operand of fmt.Errorf")
		}
	}
	r.Rule("R04.9", "identities are consulted, and the no-match error decided, before anything is read from the payload (= R03.9)", 1)
	checkPayloadAfterMAC(p, r, dec)
}

// accumulatingAppend: v is a slice collected by a loop — a merge (possibly nested) one of whose
// incoming values is append(<the merge>, ...). It returns that append.
func accumulatingAppend(v ssa.Value) *ssa.Call {
	seen := map[ssa.Value]bool{}
	var phis []*ssa.Phi
	var apps []*ssa.Call
	var walk func(x ssa.Value)
	walk = func(x ssa.Value) {
		x = stripConv(x)
		if seen[x] {
			return
		}
		seen[x] = true
		switch y := x.(type) {
		case *ssa.Phi:
			phis = append(phis, y)
			for _, e := range y.Edges {
				walk(e)
			}
		case *ssa.Call:
			if isBuiltin(&y.Call, "append") {
				apps = append(apps, y)
				walk(y.Call.Args[0])
			}
		}
	}
	if _, isPhi := stripConv(v).(*ssa.Phi); !isPhi {
		return nil
	}
	walk(v)
	if len(apps) != 1 {
		return nil
	}
	// the append extends the accumulator itself
	for _, ph := range phis {
		if stripConv(apps[0].Call.Args[0]) == ssa.Value(ph) {
			return apps[0]
		}
	}
	return nil
}

// checkFatalBeforeTag (R04.3, shared with C01): in an SSH unwrap a fatal error in front of the tag
// comparison may depend on the shape of the stanza only (its type, the number of arguments),
// never on this identity's key: a well-formed stanza addressed to another SSH key of the same type
// (another modulus size, say) has to be passed over with the sentinel, not abort the decryption.
func checkFatalBeforeTag(p *Program, r *Result, fn *ssa.Function) {
	tb := p.TB(fn)
	isTagEq := func(a Atom) bool {
		if a.Kind != "cmp" || a.Op != "==" {
			return false
		}
		x, y := short(a.X.String()), short(a.Y.String())
		return (x == "Elem(Field(P1.Args), 0)" && y == "agessh.sshFingerprint(Field(Recv.sshKey))") ||
			(y == "Elem(Field(P1.Args), 0)" && x == "agessh.sshFingerprint(Field(Recv.sshKey))")
	}
	bad := ""
	for _, ret := range returnsOf(fn) {
		if len(ret.Results) != 2 || isNilConst(ret.Results[1]) || isSentinel(tb, ret.Results[1]) {
			continue
		}
		facts := tb.FactsAt(ret.Block())
		if _, tagged := findFact(facts, isTagEq); tagged {
			continue
		}
		for _, a := range facts {
			if strings.Contains(a.String(), "Recv") {
				bad = "the fatal error returned at " + r.pos(ret) + " stands in front of the tag comparison and depends on this identity (" + short(a.String()) + "): a stanza addressed to another key of the same type aborts decryption instead of being passed over"
			}
		}
	}
	r.Check(bad == "", fn.String(), "fatal-before-tag", "", "errors in front of the tag comparison depend on the stanza's shape only", bad)
}
