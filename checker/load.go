package main

import (
	"fmt"
	"go/ast"
	"go/token"
	"go/types"
	"os"
	"path/filepath"
	"sort"
	"strings"
	"sync"

	"golang.org/x/tools/go/packages"
	"golang.org/x/tools/go/ssa"
	"golang.org/x/tools/go/ssa/ssautil"
)

// Module path of the analysed repository.
const modPath = "filippo.io/age"

// BuildConfig names one GOOS/GOARCH pair under which /repo is type-checked.
type BuildConfig struct{ GOOS, GOARCH string }

func (b BuildConfig) String() string { return b.GOOS + "/" + b.GOARCH }

// Program is the resolved program the engines work on.
type Program struct {
	Repo   string
	Config BuildConfig
	Fset   *token.FileSet
	Pkgs   []*packages.Package          // module packages, sorted by path
	ByPath map[string]*packages.Package // module packages by import path
	SSA    *ssa.Program
	SSAPkg map[string]*ssa.Package
	// Funcs is every function with a body that belongs to the module,
	// including anonymous functions and bound-method wrappers seen.
	Funcs []*ssa.Function
	// normalised: the program was rewritten by the helper/closure normalisation
	normalised bool
	// Inlined lists the functions unknown to the rules whose calls were spliced.
	Inlined []string
	// TestPkgs is filled by LoadTests (syntax and types of _test.go files).
	TestPkgs []*packages.Package

	noret    map[*ssa.Function]bool
	nonnil   map[*ssa.Function]bool
	nnMu     sync.Mutex
	lineMaps []map[string][]int // per earlier normalisation round: file -> text line -> line of that round's input
	usedEdge map[*ssa.Phi][]bool
	ueMu     sync.Mutex
	eff      map[*ssa.Function]*Effects
	cg       *CallGraph
	guses    map[*ssa.Global][]ssa.Instruction
}

func loadEnv(cfg BuildConfig) []string {
	env := os.Environ()
	out := env[:0:0]
	for _, e := range env {
		k := e
		if i := strings.IndexByte(e, '='); i >= 0 {
			k = e[:i]
		}
		switch k {
		case "GOFLAGS", "GOPROXY", "GOSUMDB", "GOWORK", "GOTOOLCHAIN", "GOOS", "GOARCH", "CGO_ENABLED":
			continue
		}
		out = append(out, e)
	}
	out = append(out, "GOFLAGS=-mod=readonly", "GOPROXY=off", "GOSUMDB=off", "GOWORK=off",
		"GOTOOLCHAIN=local", "CGO_ENABLED=0")
	if cfg.GOOS != "" {
		out = append(out, "GOOS="+cfg.GOOS, "GOARCH="+cfg.GOARCH)
	}
	return out
}

const loadMode = packages.NeedName | packages.NeedFiles | packages.NeedCompiledGoFiles |
	packages.NeedImports | packages.NeedTypes | packages.NeedTypesSizes |
	packages.NeedSyntax | packages.NeedTypesInfo | packages.NeedModule

// Load type-checks /repo's current working tree (plus an optional overlay of
// in-memory file replacements) and builds SSA for the module's packages.
func Load(repo string, cfg BuildConfig, overlay map[string][]byte) (*Program, error) {
	rounds := 3
	if os.Getenv("AGECHECK_NO_INLINE") != "" {
		rounds = 0
	}
	return load(repo, cfg, overlay, rounds, nil)
}

func load(repo string, cfg BuildConfig, overlay map[string][]byte, rounds int, lineMaps []map[string][]int) (*Program, error) {
	fset := token.NewFileSet()
	pc := &packages.Config{
		Mode:    loadMode,
		Dir:     repo,
		Env:     loadEnv(cfg),
		Fset:    fset,
		Tests:   false,
		Overlay: overlay,
	}
	pkgs, err := packages.Load(pc, "./...")
	if err != nil {
		return nil, fmt.Errorf("go/packages: %v", err)
	}
	if len(pkgs) == 0 {
		return nil, fmt.Errorf("no packages loaded from %s", repo)
	}
	var errs []string
	packages.Visit(pkgs, nil, func(p *packages.Package) {
		for _, e := range p.Errors {
			errs = append(errs, e.Error())
		}
	})
	if len(errs) > 0 {
		sort.Strings(errs)
		if len(errs) > 10 {
			errs = errs[:10]
		}
		return nil, fmt.Errorf("type-check/load errors: %s", strings.Join(errs, "; "))
	}
	p := &Program{Repo: repo, Config: cfg, Fset: fset, lineMaps: lineMaps, ByPath: map[string]*packages.Package{}, SSAPkg: map[string]*ssa.Package{}}
	for _, pk := range pkgs {
		if pk.PkgPath == modPath || strings.HasPrefix(pk.PkgPath, modPath+"/") {
			p.Pkgs = append(p.Pkgs, pk)
			p.ByPath[pk.PkgPath] = pk
		}
	}
	sort.Slice(p.Pkgs, func(i, j int) bool { return p.Pkgs[i].PkgPath < p.Pkgs[j].PkgPath })
	if len(p.Pkgs) < 9 {
		return nil, fmt.Errorf("only %d module packages loaded, expected at least 9", len(p.Pkgs))
	}
	if rounds > 0 {
		// helpers the rules do not know are spliced into their callers (astinline.go);
		// the normalised program must type-check, otherwise the original is analysed.
		if ov, names := inlineUnknownHelpers(p.Pkgs, fset, rounds); ov != nil {
			// positions of the next program refer to the lines of this round's input text
			nextMaps := lineMaps
			if len(overlay) > 0 {
				nextMaps = append(append([]map[string][]int{}, lineMaps...), buildLineMaps(overlay))
			}
			merged := map[string][]byte{}
			for k, v := range overlay {
				merged[k] = v
			}
			for k, v := range ov {
				merged[k] = v
			}
			if os.Getenv("AGECHECK_DUMP_INLINE") != "" {
				for k, v := range ov {
					fmt.Fprintf(os.Stderr, "=== inlined %s\n%s\n", k, v)
				}
			}
			np, err := load(repo, cfg, merged, rounds-1, nextMaps)
			if err == nil {
				np.Inlined = append(np.Inlined, names...)
				np.normalised = true
				return np, nil
			}
			fmt.Fprintf(os.Stderr, "agecheck: helper normalisation rejected (%v); keeping the previous round\n", err)
			return load(repo, cfg, overlay, 0, lineMaps)
		}
	}
	prog, spkgs := ssautil.Packages(p.Pkgs, ssa.InstantiateGenerics)
	p.SSA = prog
	for i, sp := range spkgs {
		if sp == nil {
			return nil, fmt.Errorf("no SSA package for %s", p.Pkgs[i].PkgPath)
		}
		p.SSAPkg[p.Pkgs[i].PkgPath] = sp
	}
	prog.Build()
	for fn := range ssautil.AllFunctions(prog) {
		if fn.Blocks == nil {
			continue
		}
		if p.inModule(fn) {
			p.Funcs = append(p.Funcs, fn)
		}
	}
	// an unexported helper the rules do not know, all of whose call sites were spliced into
	// their callers, is dead code of the normalised program
	if len(overlay) > 0 {
		used := map[*ssa.Function]bool{}
		for _, fn := range p.Funcs {
			for _, b := range fn.Blocks {
				for _, in := range b.Instrs {
					for _, op := range in.Operands(nil) {
						if f, ok := (*op).(*ssa.Function); ok && f != fn {
							used[f] = true
						}
					}
				}
			}
		}
		keep := p.Funcs[:0]
		for _, fn := range p.Funcs {
			root := fn
			for root.Parent() != nil {
				root = root.Parent()
			}
			if !used[root] && root.Object() != nil && !root.Object().Exported() && !isKnownFunc(root.String()) && root.Name() != "init" && root.Name() != "main" {
				continue
			}
			keep = append(keep, fn)
		}
		p.Funcs = keep
	}
	sort.Slice(p.Funcs, func(i, j int) bool { return funcName(p.Funcs[i]) < funcName(p.Funcs[j]) })
	return p, nil
}

// LoadTests loads the test variants of the module packages (syntax + types),
// used only to see which files assign the testOnly* hooks.
func (p *Program) LoadTests() error {
	pc := &packages.Config{
		Mode:  loadMode,
		Dir:   p.Repo,
		Env:   loadEnv(p.Config),
		Fset:  token.NewFileSet(),
		Tests: true,
	}
	pkgs, err := packages.Load(pc, "./...")
	if err != nil {
		return err
	}
	for _, pk := range pkgs {
		for _, e := range pk.Errors {
			return fmt.Errorf("test load: %v", e)
		}
		if strings.HasPrefix(pk.PkgPath, modPath) {
			p.TestPkgs = append(p.TestPkgs, pk)
		}
	}
	if len(p.TestPkgs) == 0 {
		return fmt.Errorf("test load: no packages")
	}
	return nil
}

func (p *Program) inModule(fn *ssa.Function) bool {
	for fn.Parent() != nil {
		fn = fn.Parent()
	}
	if fn.Pkg != nil {
		pp := fn.Pkg.Pkg.Path()
		return pp == modPath || strings.HasPrefix(pp, modPath+"/")
	}
	// bound method wrappers and thunks have no Pkg; attribute them to the
	// package of the method they wrap.
	if o := fn.Object(); o != nil && o.Pkg() != nil {
		pp := o.Pkg().Path()
		return pp == modPath || strings.HasPrefix(pp, modPath+"/")
	}
	if fn.Synthetic != "" && fn.Signature.Recv() == nil && len(fn.FreeVars) == 1 {
		// bound method closure: name is like (*T).m$bound
		if strings.Contains(fn.Name(), "$bound") {
			t := fn.FreeVars[0].Type()
			if n := namedOf(t); n != nil && n.Obj().Pkg() != nil {
				pp := n.Obj().Pkg().Path()
				return pp == modPath || strings.HasPrefix(pp, modPath+"/")
			}
		}
	}
	return false
}

func namedOf(t types.Type) *types.Named {
	for {
		switch tt := t.(type) {
		case *types.Pointer:
			t = tt.Elem()
		case *types.Named:
			return tt
		case *types.Alias:
			t = types.Unalias(tt)
		default:
			return nil
		}
	}
}

// funcName is the stable symbol path used in obligation keys.
func funcName(fn *ssa.Function) string {
	if fn == nil {
		return "<nil>"
	}
	return fn.String()
}

// short position "file:line" relative to the repo.
func (p *Program) pos(pos token.Pos) string {
	if !pos.IsValid() {
		return "-"
	}
	ps := p.Fset.Position(pos)
	for i := len(p.lineMaps) - 1; i >= 0; i-- {
		if m := p.lineMaps[i][ps.Filename]; m != nil && ps.Line < len(m) && m[ps.Line] > 0 {
			ps.Line = m[ps.Line]
		}
	}
	rel, err := filepath.Rel(p.Repo, ps.Filename)
	if err != nil {
		rel = ps.Filename
	}
	return fmt.Sprintf("%s:%d", rel, ps.Line)
}

// Func resolves a function or method of the module by package path, receiver
// type name ("" for functions) and name. Returns nil if it does not resolve.
func (p *Program) Func(pkg, recv, name string) *ssa.Function {
	sp := p.SSAPkg[pkg]
	if sp == nil {
		return nil
	}
	if recv == "" {
		if f := sp.Func(name); f != nil {
			return f
		}
		// a function of another shape that took over the job of the pinned one (roles)
		roleMu.Lock()
		cur := roleAlias[pkg+"."+name]
		roleMu.Unlock()
		if cur != "" {
			for _, f := range p.Funcs {
				if f.String() == cur && f.Blocks != nil {
					return f
				}
			}
		}
		return nil
	}
	tn, ok := sp.Pkg.Scope().Lookup(recv).(*types.TypeName)
	if !ok {
		return nil
	}
	for _, t := range []types.Type{types.NewPointer(tn.Type()), tn.Type()} {
		ms := p.SSA.MethodSets.MethodSet(t)
		for i := 0; i < ms.Len(); i++ {
			sel := ms.At(i)
			if sel.Obj().Name() == name && sel.Obj().Pkg() == sp.Pkg {
				if f, ok := sel.Obj().(*types.Func); ok {
					if fn := p.SSA.FuncValue(f); fn != nil && fn.Blocks != nil {
						return fn
					}
				}
			}
		}
	}
	return nil
}

// AnonFuncs returns the anonymous functions nested (transitively) in fn.
func AnonFuncs(fn *ssa.Function) []*ssa.Function {
	var out []*ssa.Function
	var rec func(f *ssa.Function)
	rec = func(f *ssa.Function) {
		for _, a := range f.AnonFuncs {
			out = append(out, a)
			rec(a)
		}
	}
	rec(fn)
	return out
}

// Global resolves a package-level variable.
func (p *Program) Global(pkg, name string) *ssa.Global {
	sp := p.SSAPkg[pkg]
	if sp == nil {
		return nil
	}
	g, _ := sp.Members[name].(*ssa.Global)
	return g
}

// ConstValue returns the folded constant value of a package-level constant as
// a string (exact representation), or ok=false.
func (p *Program) ConstValue(pkg, name string) (string, bool) {
	pk := p.ByPath[pkg]
	if pk == nil {
		return "", false
	}
	c, ok := pk.Types.Scope().Lookup(name).(*types.Const)
	if !ok {
		return "", false
	}
	return c.Val().ExactString(), true
}

// LocalConst finds a constant declared inside a function body by name.
func (p *Program) LocalConst(pkg string, fn *ssa.Function, name string) (string, bool) {
	pk := p.ByPath[pkg]
	if pk == nil || fn.Syntax() == nil {
		return "", false
	}
	var val string
	found := false
	ast.Inspect(fn.Syntax(), func(n ast.Node) bool {
		id, ok := n.(*ast.Ident)
		if !ok || id.Name != name {
			return true
		}
		if c, ok := pk.TypesInfo.Defs[id].(*types.Const); ok {
			val, found = c.Val().ExactString(), true
		}
		return true
	})
	return val, found
}

// buildLineMaps reads the //line directives of generated files: for every
// text line, the line of the input it was generated from.
func buildLineMaps(overlay map[string][]byte) map[string][]int {
	out := map[string][]int{}
	for file, src := range overlay {
		lines := strings.Split(string(src), "\n")
		m := make([]int, len(lines)+2)
		cur, have := 0, false
		for i, l := range lines {
			t := strings.TrimSpace(l)
			if strings.HasPrefix(t, "//line ") {
				if k := strings.LastIndexByte(t, ':'); k > 0 {
					n := 0
					fmt.Sscanf(t[k+1:], "%d", &n)
					if n > 0 {
						cur, have = n, true
						continue
					}
				}
			}
			if have {
				m[i+1] = cur
				cur++
			} else {
				m[i+1] = i + 1
			}
		}
		out[file] = m
	}
	return out
}
