package main

import (
	"go/constant"
	"go/token"
	"go/types"

	"golang.org/x/tools/go/ssa"
)

// RangeLoop is a `for i, x := range X` loop over a slice/array/string, or an
// index loop `for i := 0; i < len(X); i++`.
type RangeLoop struct {
	Kind   string // rangeindex | rangeiter | indexloop
	Phi    *ssa.Phi
	Over   ssa.Value // the ranged value
	Header *ssa.BasicBlock
	Body   *ssa.BasicBlock
	Exit   *ssa.BasicBlock
	Index  ssa.Value // value used as the element index inside the body
	Iter   *ssa.Next
	set    map[*ssa.BasicBlock]bool
}

// rangeLoops finds the loops of fn that visit every element of a value from
// index 0 upwards in steps of one.
func rangeLoops(fn *ssa.Function) []*RangeLoop {
	var out []*RangeLoop
	for _, b := range fn.Blocks {
		for _, in := range b.Instrs {
			switch x := in.(type) {
			case *ssa.Phi:
				if x.Comment == "rangeindex" {
					if l := rangeIndexLoop(x); l != nil {
						out = append(out, l)
					}
				} else if l := indexLoop(x); l != nil {
					out = append(out, l)
				}
			case *ssa.Next:
				// string / map iteration: header block holds the Next, then
				// an extract of ok and a branch
				rg, ok := x.Iter.(*ssa.Range)
				if !ok {
					continue
				}
				blk := x.Block()
				ifi, ok := blk.Instrs[len(blk.Instrs)-1].(*ssa.If)
				if !ok {
					continue
				}
				ex, ok := ifi.Cond.(*ssa.Extract)
				if !ok || ex.Tuple != x || ex.Index != 0 {
					continue
				}
				out = append(out, &RangeLoop{Kind: "rangeiter", Over: rg.X, Header: blk, Body: blk.Succs[0], Exit: blk.Succs[1], Iter: x})
			}
		}
	}
	return out
}

func constInt(v ssa.Value) (int64, bool) {
	// an integer conversion of a constant is that constant
	for {
		cv, isConv := v.(*ssa.Convert)
		if !isConv {
			break
		}
		if _, isK := cv.X.(*ssa.Const); !isK {
			if _, isConv2 := cv.X.(*ssa.Convert); !isConv2 {
				break
			}
		}
		bt, isBasic := cv.Type().Underlying().(*types.Basic)
		if !isBasic || bt.Info()&types.IsInteger == 0 {
			break
		}
		v = cv.X
	}
	c, ok := v.(*ssa.Const)
	if !ok || c.Value == nil || c.Value.Kind() != constant.Int {
		return 0, false
	}
	n, ok := constant.Int64Val(c.Value)
	return n, ok
}

func lenOf(v ssa.Value) (ssa.Value, bool) {
	c, ok := v.(*ssa.Call)
	if !ok || !isBuiltin(&c.Call, "len") {
		return nil, false
	}
	return c.Call.Args[0], true
}

func rangeIndexLoop(phi *ssa.Phi) *RangeLoop {
	// phi [-1, next]; next = phi + 1; cmp = next < len(X); if cmp body else exit
	if len(phi.Edges) < 2 {
		return nil
	}
	var next *ssa.BinOp
	inits := 0
	for _, e := range phi.Edges {
		if n, ok := constInt(e); ok && n == -1 {
			inits++
			continue
		}
		b, ok := e.(*ssa.BinOp)
		if !ok || b.Op != token.ADD || b.X != phi || (next != nil && b != next) {
			return nil
		}
		if one, ok := constInt(b.Y); !ok || one != 1 {
			return nil
		}
		next = b
	}
	if inits != 1 || next == nil {
		return nil
	}
	blk := phi.Block()
	ifi, ok := blk.Instrs[len(blk.Instrs)-1].(*ssa.If)
	if !ok {
		return nil
	}
	cmp, ok := ifi.Cond.(*ssa.BinOp)
	if !ok || cmp.Op != token.LSS || cmp.X != next {
		return nil
	}
	over, ok := lenOf(cmp.Y)
	if !ok {
		// range over an array (or pointer to array): the bound is the constant length
		n, isConst := constInt(cmp.Y)
		if !isConst || next.Referrers() == nil {
			return nil
		}
		for _, r := range *next.Referrers() {
			var x ssa.Value
			switch u := r.(type) {
			case *ssa.IndexAddr:
				if u.Index == ssa.Value(next) {
					x = u.X
				}
			case *ssa.Index:
				if u.Index == ssa.Value(next) {
					x = u.X
				}
			}
			if x == nil {
				continue
			}
			t := x.Type().Underlying()
			if pt, isPtr := t.(*types.Pointer); isPtr {
				t = pt.Elem().Underlying()
			}
			if arr, isArr := t.(*types.Array); isArr && arr.Len() == n {
				over = x
			}
		}
		if over == nil {
			return nil
		}
	}
	return &RangeLoop{Kind: "rangeindex", Phi: phi, Over: over, Header: blk, Body: blk.Succs[0], Exit: blk.Succs[1], Index: next}
}

func indexLoop(phi *ssa.Phi) *RangeLoop {
	// i = phi [0, i+1]; header: if i < len(X) body else exit
	if len(phi.Edges) < 2 {
		return nil
	}
	inits, steps := 0, 0
	for _, e := range phi.Edges {
		if n, ok := constInt(e); ok && n == 0 {
			inits++
			continue
		}
		b, ok := e.(*ssa.BinOp)
		if !ok || b.Op != token.ADD || b.X != phi {
			return nil
		}
		if one, ok := constInt(b.Y); !ok || one != 1 {
			return nil
		}
		steps++
	}
	if inits != 1 || steps == 0 {
		return nil
	}
	blk := phi.Block()
	ifi, ok := blk.Instrs[len(blk.Instrs)-1].(*ssa.If)
	if !ok {
		return nil
	}
	cmp, ok := ifi.Cond.(*ssa.BinOp)
	if !ok || cmp.Op != token.LSS || cmp.X != phi {
		return nil
	}
	over, ok := lenOf(cmp.Y)
	if !ok {
		return nil
	}
	return &RangeLoop{Kind: "indexloop", Phi: phi, Over: over, Header: blk, Body: blk.Succs[0], Exit: blk.Succs[1], Index: phi}
}

// blocks computes the natural loop of the header: the header plus every block
// that can reach a back-edge source without passing through the header.
func (l *RangeLoop) blocks() map[*ssa.BasicBlock]bool {
	if l.set != nil {
		return l.set
	}
	l.set = map[*ssa.BasicBlock]bool{l.Header: true}
	var work []*ssa.BasicBlock
	for _, pr := range l.Header.Preds {
		if l.Header.Dominates(pr) && pr != l.Header {
			work = append(work, pr)
		}
	}
	for len(work) > 0 {
		b := work[len(work)-1]
		work = work[:len(work)-1]
		if l.set[b] {
			continue
		}
		l.set[b] = true
		for _, pr := range b.Preds {
			work = append(work, pr)
		}
	}
	return l.set
}

// inLoop reports whether block b belongs to the loop body (blocks from which
// the loop can continue) or is dominated by the body without being able to
// continue (early-return blocks inside the loop).
func (l *RangeLoop) inLoop(b *ssa.BasicBlock) bool {
	if l.blocks()[b] {
		return true
	}
	// a block only reachable from inside the loop body that ends the function
	// (return/panic) counts as inside
	if (b == l.Body || l.Body.Dominates(b)) && b != l.Exit && !l.Exit.Dominates(b) {
		return true
	}
	return false
}

// completedAt: whenever control is at block b, the loop has run to completion
// (its header test failed): the exit dominates b and nothing leaves the loop
// early, or the header's exit edge is among the (threaded) guards at b.
func (p *Program) completedAt(l *RangeLoop, b *ssa.BasicBlock) bool {
	if len(p.loopEarlyExits(l)) == 0 && (l.Exit == b || l.Exit.Dominates(b)) {
		// the exit block must be entered from the loop only (a loop inside one arm of a switch
		// shares its exit block with the other arms)
		only := true
		for _, pr := range l.Exit.Preds {
			if pr != l.Header && !l.blocks()[pr] {
				only = false
			}
		}
		if only {
			return true
		}
	}
	ifi, ok := l.Header.Instrs[len(l.Header.Instrs)-1].(*ssa.If)
	if !ok || l.Header.Succs[1] != l.Exit {
		return false
	}
	for _, g := range p.guardsAt(b) {
		if g.If == ifi && !g.Pol {
			return true
		}
	}
	return false
}

// earlyExits lists the loop blocks other than the header that have a
// successor outside the loop (break, goto); returns do not count.
func (l *RangeLoop) earlyExits() []*ssa.BasicBlock {
	var out []*ssa.BasicBlock
	set := l.blocks()
	for b := range set {
		if b == l.Header {
			continue
		}
		for _, s := range staticFeasibleSuccs(b) {
			if !set[s] && !l.returnsOnly(s) {
				out = append(out, b)
				break
			}
		}
	}
	return out
}

// returnsOnly: every path from s ends in return/panic without reaching the
// loop exit (an in-loop error return block).
func (l *RangeLoop) returnsOnly(s *ssa.BasicBlock) bool {
	seen := map[*ssa.BasicBlock]bool{}
	var rec func(b *ssa.BasicBlock) bool
	rec = func(b *ssa.BasicBlock) bool {
		if b == l.Exit || l.blocks()[b] {
			return false
		}
		if seen[b] {
			return true
		}
		seen[b] = true
		for _, x := range staticFeasibleSuccs(b) {
			if !rec(x) {
				return false
			}
		}
		return true
	}
	return rec(s)
}

// loopOver returns the range loop of fn whose ranged value (after stripping
// conversions) satisfies pred.
func loopOver(fn *ssa.Function, pred func(ssa.Value) bool) []*RangeLoop {
	var out []*RangeLoop
	for _, l := range rangeLoops(fn) {
		if pred(stripConv(l.Over)) {
			out = append(out, l)
		}
	}
	return out
}

// loopEarlyExits is earlyExits with the program's knowledge about branches that cannot be
// taken and calls that never return.
func (p *Program) loopEarlyExits(l *RangeLoop) []*ssa.BasicBlock {
	var out []*ssa.BasicBlock
	set := l.blocks()
	var returnsOnly func(b *ssa.BasicBlock, seen map[*ssa.BasicBlock]bool) bool
	returnsOnly = func(b *ssa.BasicBlock, seen map[*ssa.BasicBlock]bool) bool {
		if b == l.Exit || set[b] {
			return false
		}
		if seen[b] {
			return true
		}
		seen[b] = true
		for _, x := range p.feasibleSuccs(b) {
			if !returnsOnly(x, seen) {
				return false
			}
		}
		return true
	}
	for b := range set {
		if b == l.Header {
			continue
		}
		for _, s := range p.feasibleSuccs(b) {
			if !set[s] && !returnsOnly(s, map[*ssa.BasicBlock]bool{}) {
				out = append(out, b)
				break
			}
		}
	}
	return out
}

// appendsOnEveryIteration: ph is a slice accumulator of the loop l — on every edge that comes
// back to the loop header its value is append(ph, <exactly one element>), so no iteration that
// carries on with the next element skips the append. It returns the values flowing in from
// outside the loop (the start values).
func appendsOnEveryIteration(l *RangeLoop, ph *ssa.Phi, oneElem func(ssa.Value) bool) ([]ssa.Value, bool) {
	if ph.Block() != l.Header {
		return nil, false
	}
	var start []ssa.Value
	back := 0
	for k, pr := range l.Header.Preds {
		e := ph.Edges[k]
		if !l.blocks()[pr] {
			start = append(start, e)
			continue
		}
		back++
		app, isCall := e.(*ssa.Call)
		if !isCall || !isBuiltin(&app.Call, "append") || app.Call.Args[0] != ssa.Value(ph) || len(app.Call.Args) != 2 {
			return nil, false
		}
		if !oneElem(app.Call.Args[1]) {
			return nil, false
		}
	}
	return start, back > 0
}
