package main

import (
	"fmt"
	"strings"

	"golang.org/x/tools/go/ssa"
)

// dumpFunc prints, for development and diagnosis, the calls of a function
// with their argument terms and the guards in force at each.
func dumpFunc(p *Program, spec string) {
	parts := strings.Split(spec, "|")
	for len(parts) < 3 {
		parts = append(parts, "")
	}
	var fns []*ssa.Function
	if parts[2] == "" && parts[1] == "" {
		for _, f := range p.Funcs {
			if strings.Contains(f.String(), parts[0]) {
				fns = append(fns, f)
			}
		}
	} else {
		fn := p.Func(parts[0], parts[1], parts[2])
		if fn == nil {
			fmt.Println("unresolved", spec)
			return
		}
		fns = append(fns, fn)
		fns = append(fns, AnonFuncs(fn)...)
	}
	for _, fn := range fns {
		tb := p.TB(fn)
		fmt.Printf("== %s  noreturn=%v\n", fn, p.NoReturn(fn))
		if e := p.EffectsOf(fn); e != nil {
			fmt.Printf("   effects: fields=%v allfields=%v globals=%v writesParam=%v fresh=%v\n", sortedKeys(e.Fields), sortedKeys(e.AllFields), sortedKeys(e.AllGlobals), e.WritesParam, e.ReturnsFresh)
		}
		for _, b := range fn.Blocks {
			fmt.Printf(" b%d: facts: %s\n", b.Index, factStrings(tb.FactsAt(b)))
			for _, in := range b.Instrs {
				switch x := in.(type) {
				case ssa.CallInstruction:
					if cv, isCall := in.(*ssa.Call); isCall {
						fmt.Printf("   %s  call %s\n", p.pos(instrPos(in)), tb.Term(cv))
					} else {
						fmt.Printf("   %s  %s %s\n", p.pos(instrPos(in)), in, calleeName(x.Common()))
					}
				case *ssa.Store:
					fmt.Printf("   %s  store %s <- %s\n", p.pos(instrPos(in)), tb.Term(x.Addr), tb.Term(x.Val))
				case *ssa.Return:
					var rs []string
					for _, r := range x.Results {
						rs = append(rs, tb.Term(r).String())
					}
					fmt.Printf("   %s  return %s\n", p.pos(instrPos(in)), strings.Join(rs, " | "))
				case *ssa.If:
					fmt.Printf("   if %s -> b%d b%d\n", tb.Term(x.Cond), b.Succs[0].Index, b.Succs[1].Index)
				case *ssa.Panic:
					fmt.Printf("   %s  panic\n", p.pos(instrPos(in)))
				}
			}
		}
	}
}
