package main

// Helpers shared by the rule files.

import (
	"fmt"
	"go/token"
	"go/types"
	"regexp"
	"strings"

	"golang.org/x/tools/go/ssa"
)

const (
	pkgAge    = "filippo.io/age"
	pkgSSH    = "filippo.io/age/agessh"
	pkgArmor  = "filippo.io/age/armor"
	pkgFormat = "filippo.io/age/internal/format"
	pkgStream = "filippo.io/age/internal/stream"
	pkgBech32 = "filippo.io/age/internal/bech32"
	pkgPlugin = "filippo.io/age/plugin"
	pkgCmdAge = "filippo.io/age/cmd/age"
	pkgKeygen = "filippo.io/age/cmd/age-keygen"
)

var libPkgs = []string{pkgAge, pkgSSH, pkgArmor, pkgFormat, pkgStream, pkgBech32, pkgPlugin}

var epochRe = regexp.MustCompile(`@[0-9]+\)`)

var pathRe = regexp.MustCompile(`(?:[A-Za-z0-9_.\-]+/)+([A-Za-z0-9_\-]+)\.`)

// short strips directory parts from package paths inside a printed term so
// that recipes stay readable. math/rand is kept distinguishable from
// crypto/rand.
func short(s string) string {
	s = strings.ReplaceAll(s, "math/rand/v2.", "MATHRAND2.")
	s = strings.ReplaceAll(s, "math/rand.", "MATHRAND.")
	s = pathRe.ReplaceAllString(s, "$1.")
	s = epochRe.ReplaceAllString(s, ")")
	s = strings.ReplaceAll(s, "(*base64.Encoding).EncodeToString((base64.Encoding).Strict(Deref(base64.RawStdEncoding)), ", "b64r(")
	s = strings.ReplaceAll(s, "(*base64.Encoding).DecodeString((base64.Encoding).Strict(Deref(base64.RawStdEncoding)), ", "b64r.Decode(")
	return s
}

// anchor resolves a function and records a machinery failure if it is gone.
func (r *Result) anchor(pkg, recv, name string) *ssa.Function {
	fn := r.prog.Func(pkg, recv, name)
	if fn == nil {
		sym := pkg + "." + name
		if recv != "" {
			sym = "(" + pkg + "." + recv + ")." + name
		}
		save := r.cur
		r.add(Undecided, sym, "anchor", "", "anchor symbol does not resolve to a function with a body (renamed or removed): the rule cannot be evaluated")
		r.cur = save
		return nil
	}
	r.Saw(fn.String())
	return fn
}

func (r *Result) pos(in ssa.Instruction) string { return r.prog.pos(instrPos(in)) }

func (r *Result) vpos(v ssa.Value) string {
	if in, ok := v.(ssa.Instruction); ok {
		return r.pos(in)
	}
	return r.prog.pos(v.Pos())
}

// fieldStores lists every store (in module functions) whose address is a
// field with the given struct type name and field name.
type fieldStore struct {
	Fn    *ssa.Function
	Store *ssa.Store
	FA    *ssa.FieldAddr
}

func (p *Program) fieldStores(typeName, field string) []fieldStore {
	var out []fieldStore
	for _, fn := range p.Funcs {
		for _, b := range fn.Blocks {
			for _, in := range b.Instrs {
				s, ok := in.(*ssa.Store)
				if !ok {
					continue
				}
				fa, ok := s.Addr.(*ssa.FieldAddr)
				if !ok {
					continue
				}
				if structTypeName(fa.X.Type()) == typeName && fieldName(fa.X.Type(), fa.Field) == field {
					out = append(out, fieldStore{fn, s, fa})
				}
			}
		}
	}
	return out
}

// pairedErr: for a value that is result k of a call returning (.., error),
// or a Phi of such values, return the matching error value (Extract of the
// same call, or the index-aligned Phi in the same block).
func pairedErr(v ssa.Value) ssa.Value {
	v = stripConv(v)
	switch x := v.(type) {
	case *ssa.Extract:
		call, ok := x.Tuple.(*ssa.Call)
		if !ok {
			return nil
		}
		tup := call.Type().(*types.Tuple)
		for _, r := range *call.Referrers() {
			if e, ok := r.(*ssa.Extract); ok && isErrorType(tup.At(e.Index).Type()) {
				return e
			}
		}
	case *ssa.Phi:
		var errs []ssa.Value
		for _, e := range x.Edges {
			if isNilConst(e) {
				errs = append(errs, nil) // no value on this way: any error (or none) goes with it
				continue
			}
			pe := pairedErr(e)
			if pe == nil {
				return nil
			}
			errs = append(errs, pe)
		}
		for _, in := range x.Block().Instrs {
			ph, ok := in.(*ssa.Phi)
			if !ok {
				break
			}
			if len(ph.Edges) != len(errs) {
				continue
			}
			match := true
			nReal := 0
			for i := range errs {
				if errs[i] == nil {
					continue
				}
				nReal++
				if stripConv(ph.Edges[i]) != errs[i] {
					match = false
				}
			}
			if nReal == 0 {
				match = false
			}
			if match {
				return ph
			}
		}
	}
	return nil
}

// nilFact: a dominating fact that value v is nil (want=true) or non-nil.
func nilFact(facts []Atom, v ssa.Value, wantNil bool) (Atom, bool) {
	return findFact(facts, func(a Atom) bool {
		if a.Kind != "cmp" || a.Y == nil || a.Y.Op != "Nil" {
			return false
		}
		if (a.Op == "==") != wantNil {
			return false
		}
		return a.X.V == v || stripConv(a.X.V) == stripConv(v)
	})
}

func guardWitness(p *Program, a Atom) Witness {
	pos := ""
	if a.If != nil {
		pos = p.pos(instrPos(a.If))
	}
	return Witness{Kind: "guard", Pos: pos, Text: short(a.String())}
}

// callSiteKey is a position-free descriptor for the n-th call to a callee
// inside a function.
func callKey(name string, n int) string {
	if n == 0 {
		return "call:" + short(name)
	}
	return fmt.Sprintf("call:%s#%d", short(name), n+1)
}

// isLoadOfField reports whether v is a load of the named field.
func isLoadOfField(v ssa.Value, field string) (*ssa.FieldAddr, bool) {
	u, ok := stripConv(v).(*ssa.UnOp)
	if !ok || u.Op != token.MUL {
		return nil, false
	}
	fa, ok := u.X.(*ssa.FieldAddr)
	if !ok {
		return nil, false
	}
	return fa, fieldName(fa.X.Type(), fa.Field) == field
}

// retDesc gives a position-free descriptor of a return: index among the
// function's returns in block order.
func retIndex(fn *ssa.Function, ret *ssa.Return) int {
	for i, r := range returnsOf(fn) {
		if r == ret {
			return i
		}
	}
	return -1
}

// pathAtoms returns the normalised atoms of the branches taken along a path.
func (tb *TB) pathAtoms(pa *Path) []Atom {
	var out []Atom
	for i, b := range pa.Blocks {
		if i >= len(pa.Edge) || pa.Edge[i] < 0 {
			continue
		}
		ifi, ok := b.Instrs[len(b.Instrs)-1].(*ssa.If)
		if !ok {
			continue
		}
		at := i
		out = append(out, tb.atomOfRes(Guard{If: ifi, Cond: ifi.Cond, Pol: pa.Edge[i] == 0}, func(v ssa.Value) ssa.Value { return pa.ResolveAt(v, at) }))
	}
	return out
}

// pathHas reports whether instruction in lies on the path.
func pathHas(pa *Path, in ssa.Instruction) bool {
	for _, x := range pa.Instrs() {
		if x == in {
			return true
		}
	}
	return false
}

func termContains(t *Term, sub string) bool {
	return strings.Contains(t.String(), sub)
}
