package main

import (
	"strings"

	"golang.org/x/tools/go/ssa"
)

func init() {
	register(&PropertyDef{
		ID: "C01",
		Explanation: "Agreement between the sibling halves and the order of identity consultation, decided structurally: (R01.1) Decrypt invokes Unwrap on identities[i] in ascending range order at a single site; (R01.1b/R01.9) every stanza of the header is offered to each identity and every stanza of every recipient is appended to the header, in order, by full-range loops; " +
			"(R01.2) no Unwrap is reachable after one returned a nil error; (R01.3) in the four identity loops the loop continues only on errors.Is(err, ErrIncorrectIdentity), any other error is returned and success leaves the loop; (R01.4) in the four native unwrap functions a stanza of another type can only yield the sentinel; " +
			"(R01.5-8) wrap/unwrap, payload-key, STREAM and armor recipes on both sides equal the specification table (so the halves are inverse by the table's DH-symmetry argument). (R01.16) no Unwrap/Wrap method of the module writes memory reachable from its argument: Decrypt offers one stanza list to every identity in turn.",
		NotDecided:  "byte equality of round trips for all plaintext lengths (buffer arithmetic in Writer.Write, Reader.Read, writeWrapped) and correctness of the primitives.",
		Assumptions: []string{"spec tables are correct; X25519 is commutative in the Diffie-Hellman sense"},
		Technique:   "static analysis: loop-coverage and CFG path rules over go/ssa plus term recipes compared with the specification table",
		Run:         runC01,
	})
}

type idLoop struct {
	pkg, recv, fn string
	callee        string // how the per-identity / per-stanza call appears
}

var idLoops = []idLoop{
	{pkgAge, "", "Decrypt", "invoke (filippo.io/age.Identity).Unwrap"},
	// multiUnwrap is spliced into the Unwrap methods by the normal form
	{pkgAge, "X25519Identity", "Unwrap", "(*" + pkgAge + ".X25519Identity).unwrap$bound"},
	{pkgAge, "ScryptIdentity", "Unwrap", "(*" + pkgAge + ".ScryptIdentity).unwrap$bound"},
	{pkgSSH, "RSAIdentity", "Unwrap", "(*" + pkgSSH + ".RSAIdentity).unwrap$bound"},
	{pkgSSH, "Ed25519Identity", "Unwrap", "(*" + pkgSSH + ".Ed25519Identity).unwrap$bound"},
	{pkgCmdAge, "EncryptedIdentity", "Unwrap", "invoke (filippo.io/age.Identity).Unwrap"},
}

func runC01(p *Program, r *Result) {
	dec := r.anchor(pkgAge, "", "Decrypt")
	enc := r.anchor(pkgAge, "", "Encrypt")
	if dec == nil || enc == nil {
		return
	}
	tb := p.TB(dec)

	// ---- R01.1
	r.Rule("R01.1", "identities are consulted in the order given, at a single site", 2)
	unwraps := callsTo(dec, "invoke (filippo.io/age.Identity).Unwrap")
	if len(unwraps) != 1 {
		r.Bad(dec.String(), "call:Unwrap", "", "expected exactly one Identity.Unwrap invoke in Decrypt")
		return
	}
	uw := unwraps[0]
	recv := short(tb.Term(uw.Common().Value).String())
	loops := loopOver(dec, func(v ssa.Value) bool { return v == dec.Params[1] })
	// (several loops may range over the identities — an up-front nil check, say; the one around
	// the call counts)
	var around []*RangeLoop
	for _, l := range loops {
		if l.inLoop(uw.Block()) {
			around = append(around, l)
		}
	}
	loops = around
	okOrder := (recv == "Elem(P2, (RangeIdx#1 + 1))" || strings.HasPrefix(recv, "Elem(P2, (RangeIdx#") && strings.HasSuffix(recv, " + 1))")) && len(loops) == 1 && loops[0].inLoop(uw.Block())
	r.Check(okOrder, dec.String(), "call:Unwrap:receiver", r.pos(uw), "identities[i] in an ascending range loop over all identities",
		"Unwrap is invoked on "+recv+", not on identities[i] of an ascending loop over the identities parameter")
	// R01.1b: what is offered
	checkAllStanzasOffered(p, r, dec, uw)

	// ---- R01.9
	r.Rule("R01.9", "every stanza of every recipient is written to the header, in order", 1)
	checkHeaderStanzas(p, r, enc)

	// ---- R01.2
	r.Rule("R01.2", "no identity is consulted after the first one that opened the file", 1)
	{
		// the edge on which Unwrap's error is nil
		var start []Loc
		for _, b := range dec.Blocks {
			for k := range b.Succs {
				if len(b.Instrs) == 0 {
					continue
				}
				if _, ok := b.Instrs[len(b.Instrs)-1].(*ssa.If); !ok {
					continue
				}
				facts := tb.FactsOnEdge(b, k)
				last := facts[len(facts)-1]
				if last.Kind == "cmp" && last.Op == "==" && last.Y.Op == "Nil" && last.X.Op == "Ext" && last.X.Args[0].V == uw.Value() {
					start = append(start, blockStart(b.Succs[k]))
				}
			}
		}
		if len(start) == 0 {
			r.Unk(dec.String(), "after-success", "", "no branch on err == nil of the Unwrap result found")
		} else {
			// the error just tested is nil from here on: a second test of it takes that side too
			known := map[ssa.Value]bool{}
			for _, b := range dec.Blocks {
				for _, in := range b.Instrs {
					if ex, ok := in.(*ssa.Extract); ok && ex.Tuple == uw.Value() && isErrorType(ex.Type()) {
						known[ex] = true
					}
				}
			}
			vis := p.ReachAssuming(start, nil, known)
			r.Check(!vis[uw.(ssa.Instruction)], dec.String(), "after-success", r.pos(uw), "from the err == nil edge no path reaches Unwrap again",
				"after an identity returned a nil error another Unwrap call is still reachable (later identities would be consulted, and could override the key)")
		}
	}

	// ---- R01.3
	r.Rule("R01.3", "a loop over identities/stanzas continues only on the incorrect-identity sentinel", 6)
	for _, il := range idLoops {
		fn := r.anchor(il.pkg, il.recv, il.fn)
		if fn == nil {
			continue
		}
		checkSentinelLoop(p, r, fn, il.callee)
	}

	// ---- R01.4
	r.Rule("R01.4", "a stanza of another type can only produce the incorrect-identity sentinel", 4)
	checkTypeGate(p, r)
	r.Rule("R01.16", "an identity or recipient leaves what it is handed untouched: Unwrap does not write into the stanza list (or the stanzas) it is offered, Wrap not into the file key; Decrypt offers one list to every identity in turn (= R20.8)", 8)
	checkArgsUntouched(p, r)
	r.Rule("R01.15", "an SSH stanza addressed to another key of the same type is passed over, whatever its size: no fatal error that depends on the identity stands in front of the tag comparison (= R04.3)", 2)
	for _, nu := range nativeUnwraps {
		if nu.keyOp == "" {
			continue
		}
		if fn := r.anchor(nu.pkg, nu.recv, "unwrap"); fn != nil {
			checkFatalBeforeTag(p, r, fn)
		}
	}

	// ---- the locked SSH identity finds its stanza wherever it stands (= C19 R19.4)
	r.Rule("R01.10", "an encrypted SSH identity looks at every stanza before giving up (= R19.4)", 1)
	checkEncryptedSSHStanzaLoop(p, r)
	r.Rule("R01.11", "a full buffer is flushed as non-final only when more data is pending (= R12.4)", 1)
	checkChunkFlushGuard(p, r)

	// ---- the payload Decrypt reads is what follows the header, whatever reader it was given (= R07.1/R07.3)
	if pf, rsf, ivf, df := r.anchor(pkgFormat, "", "Parse"), r.anchor(pkgFormat, "StanzaReader", "ReadStanza"), r.anchor(pkgFormat, "", "isValidString"), r.anchor(pkgFormat, "", "DecodeString"); pf != nil && rsf != nil && ivf != nil && df != nil {
		r.Rule("R01.12", "every header the format allows is read (= R07.1)", 16)
		succ, ptb := checkCanonicalParse(p, r, pf, rsf, ivf, df)
		r.Rule("R01.13", "the bytes read ahead while parsing the header are handed back in front of the payload (= R07.3)", 2)
		checkPayloadHandBack(p, r, pf, succ, ptb)
	}

	// ---- the writer seals the final chunk once (= R06.6): a file with a second final chunk does not decrypt
	r.Rule("R01.14", "STREAM writer: one nonce per sealed chunk, the final flag on the last chunk only, nothing sealed after it (= R06.6)", 9)
	checkStreamWriter(p, r)

	// ---- recipes
	r.Rule("R01.5-8", "wrap/unwrap, payload key, STREAM and armor recipes of both halves equal the specification table", 40)
	checkSites(p, r, recipeSites, "C01")
}

// checkAllStanzasOffered (R01.1b, shared with C10): the slice handed to Identity.Unwrap holds every
// stanza of the parsed header, in order — built by a loop over all of hdr.Recipients that has run
// to completion and appends one stanza on every iteration.
func checkAllStanzasOffered(p *Program, r *Result, dec *ssa.Function, uw ssa.CallInstruction) {
	tb := p.TB(dec)
	stArg := short(tb.Term(uw.Common().Args[0]).String())
	want := specRecipe(r, "Decrypt.Unwrap.stanzas")
	okSt := stArg == want
	why := ""
	if okSt {
		// the loop building it must be complete before the identities loop
		bl := loopOver(dec, func(v ssa.Value) bool {
			fa, ok := isLoadOfField(v, "Recipients")
			return ok && fa != nil
		})
		okSt = len(bl) == 1 && p.completedAt(bl[0], uw.Block())
		// and it must append one stanza on every iteration: a stanza that is passed over (a
		// `continue` in front of the append) would be hidden from the identities
		if okSt {
			ph, isPhi := stripConv(uw.Common().Args[0]).(*ssa.Phi)
			if !isPhi {
				// make([]*Stanza, len(X)) filled by index: the element store comes before every
				// edge back to the loop header
				okSt = false
				if refs := stripConv(uw.Common().Args[0]).Referrers(); refs != nil {
					for _, ref := range *refs {
						ia, isIA := ref.(*ssa.IndexAddr)
						if !isIA || !bl[0].inLoop(ia.Block()) {
							continue
						}
						for _, rr := range *ia.Referrers() {
							st, isSt := rr.(*ssa.Store)
							if !isSt || st.Addr != ssa.Value(ia) {
								continue
							}
							all := true
							for _, pr := range bl[0].Header.Preds {
								if bl[0].blocks()[pr] && pr != bl[0].Header && !(st.Block() == pr || st.Block().Dominates(pr)) {
									all = false
								}
							}
							if all {
								okSt = true
							}
						}
					}
				}
				if !okSt {
					why = " (the slice handed to the identities is not filled on every iteration)"
				}
			} else if _, every := appendsOnEveryIteration(bl[0], ph, func(v ssa.Value) bool {
				_, n, known := tb.lenSym(v)
				return known && n == 1
			}); !every {
				okSt = false
				why = " (some iteration carries on without appending its stanza: that stanza is hidden from the identities, e.g. from the passphrase identity's only-stanza check)"
			}
		}
	}
	r.Check(okSt, dec.String(), "call:Unwrap:stanzas", r.pos(uw), "all header stanzas, in order", "identities are offered "+stArg+"\n   want "+want+" built by a complete loop"+why)
}

func hasFactShort(facts []Atom, want string) (Atom, bool) {
	return findFact(facts, func(a Atom) bool { return short(a.String()) == want })
}

// checkSentinelLoop implements R01.3 on one loop.
func checkSentinelLoop(p *Program, r *Result, fn *ssa.Function, callee string) {
	tb := p.TB(fn)
	var calls []ssa.CallInstruction
	for _, c := range callsIn(fn) {
		n := calleeName(c.Common())
		if n != callee && n != strings.TrimSuffix(callee, "$bound") {
			continue // the per-stanza unwrap, through the bound method value (spliced multiUnwrap) or called directly
		}
		if callee == "dynamic" {
			if _, isParam := c.Common().Value.(*ssa.Parameter); !isParam {
				continue
			}
		}
		calls = append(calls, c)
	}
	if len(calls) == 0 || len(calls) > 3 {
		r.Unk(fn.String(), "sentinel-loop", "", "expected one per-element unwrap call (at most three, each in a loop of its own)")
		return
	}
	// several calls (a one-stanza fast path in front of the general loop): each is judged in its
	// own loop
	for _, call := range calls {
		checkSentinelLoopAt(p, r, fn, tb, call)
	}
}

func checkSentinelLoopAt(p *Program, r *Result, fn *ssa.Function, tb *TB, call ssa.CallInstruction) {
	var loop *RangeLoop
	for _, l := range rangeLoops(fn) {
		if l.inLoop(call.Block()) {
			loop = l
		}
	}
	if loop == nil {
		// no loop at all: the only stanza of a one-stanza header is handed to unwrap and whatever
		// it returns is the result (`if len(stanzas) == 1 { return i.unwrap(stanzas[0]) }`);
		// with nothing to pass over there is nothing to continue on
		if len(fn.Params) >= 2 {
			facts := tb.FactsAt(call.Block())
			_, single := hasFactShort(facts, "len(P1) == 1")
			argOK := len(call.Common().Args) > 0 && short(tb.Term(call.Common().Args[len(call.Common().Args)-1]).String()) == "Elem(P1, 0)"
			forwards := false
			for _, ret := range returnsOf(fn) {
				if len(ret.Results) != 2 {
					continue
				}
				k, e := tb.Term(ret.Results[0]), tb.Term(ret.Results[1])
				if k.Op == "Ext" && e.Op == "Ext" && k.S == "0" && e.S == "1" && k.Args[0].V == call.Value() && e.Args[0].V == call.Value() && (ret.Block() == call.Block() || call.Block().Dominates(ret.Block())) {
					forwards = true
				}
			}
			if single && argOK && forwards {
				r.OK(fn.String(), "sentinel-loop", r.pos(call), "one-stanza header: the stanza is handed to unwrap and its result returned as it is")
				return
			}
		}
		r.Unk(fn.String(), "sentinel-loop", r.pos(call), "the unwrap call is not inside a recognised range loop")
		return
	}
	isSentinelFact := func(pol bool) func(a Atom) bool {
		return func(a Atom) bool {
			if a.Kind == "call" && a.Pol == pol && a.Call.S == "errors.Is" && len(a.Call.Args) == 2 {
				x := a.Call.Args[0]
				return x.Op == "Ext" && x.Args[0].V == call.Value() && short(a.Call.Args[1].String()) == "age.ErrIncorrectIdentity"
			}
			if a.Kind == "cmp" && ((a.Op == "==") == pol) && a.X.Op == "Ext" && a.X.Args[0].V == call.Value() && short(a.Y.String()) == "age.ErrIncorrectIdentity" {
				return true
			}
			return false
		}
	}
	// back edges taken after the call must be on the sentinel edge
	for _, pr := range loop.Header.Preds {
		if !loop.inLoop(pr) || pr == loop.Header {
			continue
		}
		if !(call.Block() == pr || call.Block().Dominates(pr)) {
			continue // back edge not after the call (none in these loops)
		}
		facts := tb.FactsAt(pr)
		// facts on the edge pr -> header
		for k, s := range pr.Succs {
			if s == loop.Header {
				if _, isIf := pr.Instrs[len(pr.Instrs)-1].(*ssa.If); isIf {
					facts = tb.FactsOnEdge(pr, k)
				}
			}
		}
		if _, ok := findFact(facts, isSentinelFact(true)); !ok {
			r.Bad(fn.String(), "sentinel-loop", r.pos(pr.Instrs[len(pr.Instrs)-1]), "the loop continues with the next element on a path where the error is not known to be the incorrect-identity sentinel: "+short(factStrings(facts)))
			return
		}
	}
	// non-sentinel, non-nil errors are returned
	okFatal, okSuccess := false, false
	for _, ret := range returnsOf(fn) {
		facts := tb.FactsAt(ret.Block())
		_, notSent := findFact(facts, isSentinelFact(false))
		_, nonNil := errFactFor(facts, call.Value(), false)
		_, isNil := errFactFor(facts, call.Value(), true)
		ei := errorResultIndex(fn.Signature)
		if notSent && nonNil {
			t := tb.Term(ret.Results[ei])
			if t.Op == "Ext" && t.Args[0].V == call.Value() {
				okFatal = true
			} else {
				r.Bad(fn.String(), "sentinel-loop", r.pos(ret), "a fatal unwrap error is replaced by "+short(t.String()))
				return
			}
		}
		if isNil { // a nil error is not the (non-nil) sentinel: no separate test needed
			t := tb.Term(ret.Results[0])
			if t.Op == "Ext" && t.Args[0].V == call.Value() && isNilConst(ret.Results[ei]) {
				okSuccess = true
			}
		}
	}
	if !okSuccess {
		// Decrypt leaves the loop instead of returning: the nil edge must reach the loop exit without the header
		for _, b := range fn.Blocks {
			if !loop.inLoop(b) {
				continue
			}
			for k, s := range b.Succs {
				if _, isIf := b.Instrs[len(b.Instrs)-1].(*ssa.If); !isIf {
					// a plain block behind the nil test (`fileKey = unwrapped; break`)
					if _, isNil := errFactFor(tb.FactsAt(b), call.Value(), true); isNil && !loop.inLoop(s) {
						okSuccess = true
					}
					continue
				}
				facts := tb.FactsOnEdge(b, k)
				_, notSent := findFact(facts, isSentinelFact(false))
				_, isNil := errFactFor(facts, call.Value(), true)
				_ = notSent
				if isNil && !loop.inLoop(s) {
					okSuccess = true
				}
			}
		}
	}
	if !okFatal || !okSuccess {
		// `return unwrap(x)`: everything the call returned is handed on unchanged. That skips the
		// remaining elements on the sentinel too, which is right only where there are none:
		// under len(<the slice the loop ranges over>) == 1
		ei := errorResultIndex(fn.Signature)
		over := tb.Term(loop.Over).String()
		for _, ret := range returnsOf(fn) {
			if len(ret.Results) != 2 || ei != 1 {
				continue
			}
			k, e := tb.Term(ret.Results[0]), tb.Term(ret.Results[1])
			if !(k.Op == "Ext" && e.Op == "Ext" && k.S == "0" && e.S == "1" && k.Args[0].V == call.Value() && e.Args[0].V == call.Value()) {
				continue
			}
			facts := tb.FactsAt(ret.Block())
			if _, cond := errFactFor(facts, call.Value(), true); cond {
				continue
			}
			if _, cond := errFactFor(facts, call.Value(), false); cond {
				continue
			}
			if _, single := findFact(facts, func(a Atom) bool {
				return a.Kind == "cmp" && a.Op == "==" && a.Y.S == "1" && isLenTerm(a.X) && len(a.X.Args) == 1 && a.X.Args[0].String() == over
			}); single {
				okFatal, okSuccess = true, true
			}
		}
	}
	// when every element was passed over, the result is the sentinel itself: a nil error (no
	// element at all) or any other value would not be counted as "this identity does not match"
	if fn.Name() != "Decrypt" {
		for _, ret := range returnsOf(fn) {
			if loop.inLoop(ret.Block()) || !p.completedAt(loop, ret.Block()) {
				continue
			}
			ei := errorResultIndex(fn.Signature)
			if ei < 0 || ei >= len(ret.Results) {
				continue
			}
			if isNilConst(ret.Results[ei]) {
				continue // success after the loop (the CLI's lazy identities): judged by their own rules
			}
			if !isSentinel(tb, ret.Results[ei]) {
				r.Bad(fn.String(), "sentinel-loop:exhausted", r.pos(ret), "after all elements were passed over the function returns "+short(tb.Term(ret.Results[ei]).String())+", not the incorrect-identity sentinel (with no element at all this may even be nil)")
			}
		}
	}
	switch {
	case !okFatal:
		r.Bad(fn.String(), "sentinel-loop", r.pos(call), "no return forwards a non-sentinel unwrap error")
	case !okSuccess:
		r.Bad(fn.String(), "sentinel-loop", r.pos(call), "a nil error neither returns the key nor leaves the loop")
	default:
		r.OK(fn.String(), "sentinel-loop", r.pos(call), "continue only under errors.Is(err, ErrIncorrectIdentity); other errors returned; success ends the loop")
	}
}

// checkTypeGate is rule R01.4 (shared with C04): in each native unwrap the
// first test is the stanza type and the other edge returns the sentinel.
func checkTypeGate(p *Program, r *Result) {
	for _, nu := range nativeUnwraps {
		fn := r.anchor(nu.pkg, nu.recv, "unwrap")
		if fn == nil {
			continue
		}
		ftb := p.TB(fn)
		typeEq := `Field(P1.Type) == "` + nu.typeConst + `"`
		typeNe := `Field(P1.Type) != "` + nu.typeConst + `"`
		ok := true
		detail := ""
		nNe := 0
		for _, ret := range returnsOf(fn) {
			facts := ftb.FactsAt(ret.Block())
			_, eq := hasFactShort(facts, typeEq)
			_, ne := hasFactShort(facts, typeNe)
			switch {
			case ne:
				nNe++
				if !isSentinel(ftb, ret.Results[1]) || !isNilConst(ret.Results[0]) {
					ok, detail = false, "the other-type edge returns "+short(ftb.Term(ret.Results[1]).String())+" at "+r.pos(ret)
				}
			case eq:
			default:
				ok, detail = false, "return at "+r.pos(ret)+" is reachable without the stanza type having been compared with \""+nu.typeConst+"\" (e.g. an argument check placed before the type check: foreign or grease stanzas would abort decryption)"
			}
		}
		if nNe == 0 && ok {
			ok, detail = false, "no return on the other-type edge"
		}
		r.Check(ok, fn.String(), "type-gate", "", "first test is Type == \""+nu.typeConst+"\"; the other edge returns the sentinel", detail)
	}

}

// accumulatedElement: t is an append chain that starts empty (nil, a fresh struct's field, or
// the chain itself one iteration earlier) and appends one element per iteration: that element.
func accumulatedElement(t *Term) (string, bool) {
	if t == nil {
		return "", false
	}
	if t.Op == "Phi" {
		for _, a := range t.Args {
			if a.Op == "Concat" {
				return accumulatedElement(a)
			}
		}
		return "", false
	}
	if t.Op != "Concat" || len(t.Args) != 2 || t.Args[1].Op != "List" || len(t.Args[1].Args) != 1 {
		return "", false
	}
	base := t.Args[0]
	emptyStart := func(b *Term) bool {
		switch b.Op {
		case "Loop", "Nil":
			return true
		case "Field":
			return strings.Contains(b.String(), "New[") // a field of a struct allocated here
		case "Phi":
			for _, a := range b.Args {
				if a.Op != "Loop" && a.Op != "Nil" {
					return false
				}
			}
			return true
		}
		return false
	}
	if !emptyStart(base) {
		return "", false
	}
	return t.Args[1].Args[0].String(), true
}

// checkHeaderStanzas is rule R01.9 (shared with C05: the header lists exactly the stanzas the
// recipients returned, in order).
func checkHeaderStanzas(p *Program, r *Result, enc *ssa.Function) {
	etb := p.TB(enc)
	stores := p.fieldStores(pkgFormat+".Header", "Recipients")
	var in []fieldStore
	for _, fs := range stores {
		if fs.Fn == enc {
			// an empty slice stored up front (pre-sizing: make([]*Stanza, 0, n)) lists nothing
			if ls, lc, known := etb.lenSym(fs.Store.Val); known && ls == "0" && lc == 0 {
				continue
			}
			if ms, isMake := stripConv(fs.Store.Val).(*ssa.MakeSlice); isMake {
				if k, isK := constInt(ms.Len); isK && k == 0 {
					continue
				}
			}
			in = append(in, fs)
		}
	}
	ok := len(in) == 1
	detail := "expected one append to hdr.Recipients in Encrypt"
	if ok {
		got := short(etb.Term(in[0].Store.Val).String())
		want := specRecipe(r, "Encrypt.Recipients.append")
		if got != want {
			// the same list accumulated in a local first and assigned to the field afterwards
			ge, ok1 := accumulatedElement(etb.Term(in[0].Store.Val))
			if i := strings.Index(want, ", List("); !ok1 || i < 0 || "List("+short(ge)+")" != strings.TrimSuffix(want[i+2:], ")") {
				ok, detail = false, "appended value is "+got+"\n   want "+want
			}
		}
	}
	if ok {
		// where the element is appended: the store itself, or (list accumulated in a local and
		// assigned afterwards) the one append of header stanzas in Encrypt
		site := in[0].Store.Block()
		if c, isCall := in[0].Store.Val.(*ssa.Call); !isCall || !isBuiltin(&c.Call, "append") {
			var apps []*ssa.Call
			for _, ci := range callsIn(enc) {
				if cc, ok := ci.(*ssa.Call); ok && isBuiltin(&cc.Call, "append") && typeString(cc.Type()) == "[]*"+pkgFormat+".Stanza" {
					apps = append(apps, cc)
				}
			}
			if len(apps) == 1 {
				site = apps[0].Block()
			}
		}
		outer := loopOver(enc, func(v ssa.Value) bool { return v == enc.Params[1] })
		if len(outer) > 1 {
			// several loops over the recipients (an extra pre-check): the one around the append
			var w []*RangeLoop
			for _, l := range outer {
				if l.inLoop(site) {
					w = append(w, l)
				}
			}
			outer = w
		}
		// the stanza loop: the range loop around the append other than the recipient loop
		// (what it ranges over is part of the appended value, compared with the table above)
		var inner []*RangeLoop
		for _, l := range rangeLoops(enc) {
			if len(outer) == 1 && l.Header != outer[0].Header && l.inLoop(site) {
				inner = append(inner, l)
			}
		}
		if len(outer) != 1 || len(inner) != 1 {
			ok, detail = false, "recipient loop / stanza loop not recognised as full-range loops"
		} else if !inner[0].inLoop(site) || !outer[0].inLoop(inner[0].Header) {
			ok, detail = false, "the append is not inside the stanza loop inside the recipient loop"
		} else if len(p.loopEarlyExits(inner[0])) != 0 {
			ok, detail = false, "the stanza loop can be left early"
		} else {
			// no iteration carries on without its append: every edge back to the stanza loop's
			// header comes after the append, and every edge back to the recipient loop's header
			// after the stanza loop has run to completion
			for _, pr := range inner[0].Header.Preds {
				if inner[0].blocks()[pr] && pr != inner[0].Header && !(site == pr || site.Dominates(pr) || p.feasDominates(site, pr)) {
					ok, detail = false, "an iteration of the stanza loop carries on without appending its stanza to the header: the recipient could not decrypt the file"
				}
			}
			for _, pr := range outer[0].Header.Preds {
				if pr == inner[0].Header && len(p.loopEarlyExits(inner[0])) == 0 {
					continue // the stanza loop's own exit edge
				}
				if outer[0].blocks()[pr] && pr != outer[0].Header && !p.completedAt(inner[0], pr) {
					ok, detail = false, "an iteration of the recipient loop carries on without its stanzas having been appended to the header"
				}
			}
			// the outer loop may be left early only by error returns
			if len(p.loopEarlyExits(outer[0])) != 0 {
				ok, detail = false, "the recipient loop can be left early (break)"
			}
			for _, ret := range returnsOf(enc) {
				if outer[0].inLoop(ret.Block()) && (len(ret.Results) != 2 || isNilConst(ret.Results[1])) {
					ok, detail = false, "the recipient loop returns without an error"
				}
			}
		}
	}
	pos := ""
	if len(in) > 0 {
		pos = r.pos(in[0].Store)
	}
	r.Check(ok, enc.String(), "store:Recipients", pos, "hdr.Recipients = append(hdr.Recipients, stanzas[j]) for all j, for all recipients", detail)
}

// checkArgsUntouched (R01.16 = R20.8): the Unwrap/Wrap/WrapWithLabels methods of the module (and
// what they call: the effect summary is transitive) do not write memory reachable from their
// arguments. Decrypt hands the same stanza slice to each identity in turn and Encrypt the same
// file key to each recipient, and callers may share them between goroutines.
func checkArgsUntouched(p *Program, r *Result) {
	n := 0
	for _, fn := range p.Funcs {
		if fn.Signature.Recv() == nil || fn.Pkg == nil || fn.Parent() != nil {
			continue
		}
		switch fn.Name() {
		case "Unwrap", "Wrap", "WrapWithLabels":
		default:
			continue
		}
		pk := fn.Pkg.Pkg.Path()
		if pk != pkgAge && pk != pkgSSH && pk != pkgPlugin && pk != pkgCmdAge {
			continue
		}
		if fn.Signature.Params().Len() != 1 {
			continue
		}
		pt := fn.Signature.Params().At(0).Type().String()
		if pt != "[]*filippo.io/age.Stanza" && pt != "[]byte" {
			continue
		}
		n++
		r.Saw(fn.String())
		e := p.EffectsOf(fn)
		written := e != nil && e.WritesParam[1]
		r.Check(!written, fn.String(), "args-untouched", "", "nothing reachable from the argument is written", "the method (or something it calls) writes into memory reachable from its argument ("+pt+"): the caller offers the same list to the next identity / the same file key to the next recipient, which then sees the altered content — a listed recipient's stanza can be gone by the time its identity is consulted")
	}
	if n == 0 {
		r.Unk(pkgAge, "args-untouched", "", "no Unwrap/Wrap method found")
	}
}
