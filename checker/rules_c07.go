package main

import (
	"go/types"
	"strconv"
	"strings"

	"golang.org/x/tools/go/ssa"
)

func init() {
	register(&PropertyDef{
		ID: "C07",
		Explanation: "The rejections without which header parsing is not canonical, and the hand-back of the over-read, decided as dominance facts of the accepting returns of internal/format: (R07.1) exact intro line; stanza line has the exact prefix, at least a type, and every argument (type included: the loop covers all of args) passes isValidString, whose bounds are 33 and 126 and which rejects the empty string; body lines decode strictly without padding and without CR/LF, are at most BytesPerLine long, and the body ends only on a shorter line; the footer has exactly one argument decoding strictly to 32 bytes; " +
			"(R07.2) marshal and parse side use the same constants (prefixes, intro, base64 variant, 64/48); (R07.3) the payload reader is the bufio.Reader itself iff it is the input, otherwise MultiReader(buffered bytes, input) in that order; (R07.4) error returns carry no header and no reader; (R07.5) StanzaReader failures are sticky. (R07.6) no loop of internal/format takes a line from the input and goes round again without keeping anything of it.",
		NotDecided:  "the universal round trip 'every accepted byte string re-serialises to itself' (a value property over all inputs): only its necessary rejections are decided; writeWrapped's column arithmetic.",
		Assumptions: []string{"base64.RawStdEncoding.Strict() rejects padding and non-canonical trailing bits", "bufio.Reader.ReadBytes returns data ending in the delimiter or an error"},
		Run:         runC07,
	})
}

func needFacts(r *Result, p *Program, fn *ssa.Function, blk *ssa.BasicBlock, pos string, items []struct{ key, text string }) {
	tb := p.TB(fn)
	facts := tb.FactsAt(blk)
	for _, it := range items {
		a, ok := findFact(facts, func(a Atom) bool { return short(a.String()) == it.text })
		if !ok && strings.HasPrefix(it.key, "body:") {
			// the body line decoded into a buffer of the reader's own (decodeLine(buf, line)): the
			// same three rejections stated over the strict raw decoder's Decode and its count,
			// behind the CR/LF refusal of the very bytes it is given
			a, ok = bodyFactThroughDecode(facts, it.key)
		}
		if ok {
			r.OK(fn.String(), it.key, pos, "", guardWitness(p, a))
		} else {
			r.Bad(fn.String(), it.key, pos, "acceptance is not dominated by `"+it.text+"`: a non-canonical header would be accepted (the MACed bytes would differ from the received bytes)")
		}
	}
}

func runC07(p *Program, r *Result) {
	parse := r.anchor(pkgFormat, "", "Parse")
	rs := r.anchor(pkgFormat, "StanzaReader", "ReadStanza")
	ivs := r.anchor(pkgFormat, "", "isValidString")
	dec := r.anchor(pkgFormat, "", "DecodeString")
	if parse == nil || rs == nil || ivs == nil || dec == nil {
		return
	}

	r.Rule("R07.1", "required rejections dominate every accepting return", 16)
	succ, ptb := checkCanonicalParse(p, r, parse, rs, ivs, dec)
	rtb := p.TB(rs)

	// ---- R07.2
	r.Rule("R07.2", "marshal and parse side share one set of constants", 10)
	checkSites(p, r, recipeSites, "C07")
	checkConsts(p, r, []ConstSite{
		{"format.intro", pkgFormat, "intro", "const"},
		{"format.stanzaPrefix", pkgFormat, "stanzaPrefix", "var"},
		{"format.footerPrefix", pkgFormat, "footerPrefix", "var"},
		{"format.b64", pkgFormat, "b64", "var"},
		{"format.ColumnsPerLine", pkgFormat, "ColumnsPerLine", "const"},
		{"format.BytesPerLine", pkgFormat, "BytesPerLine", "const"},
	})

	// ---- R07.3
	r.Rule("R07.3", "the bufio over-read is handed back in front of the payload, exactly once", 2)
	checkPayloadHandBack(p, r, parse, succ, ptb)

	// ---- R07.4
	r.Rule("R07.4", "rejected input yields neither a header nor a payload reader", 10)
	checkNothingOnError(p, r, parse, nil)
	// ReadStanza has spilled results
	for i, vr := range virtualReturns(rs) {
		v := vr.Results
		if isNilConst(v[1]) {
			continue
		}
		r.Check(isNilConst(v[0]), rs.String(), "return#"+itoa(i), r.pos(vr.Ret), "error return with nil stanza", "a partial stanza is returned together with an error")
	}

	// ---- R07.6
	r.Rule("R07.6", "no line of the header is read and passed over: every loop iteration keeps something of the line it took", 1)
	checkNoLineDiscarded(p, r)

	// ---- R07.5
	r.Rule("R07.5", "a failed StanzaReader keeps failing", 2)
	{
		entry := rs.Blocks[0]
		ifi, isIf := entry.Instrs[len(entry.Instrs)-1].(*ssa.If)
		ok := false
		if isIf {
			a := rtb.atomOf(Guard{If: ifi, Cond: ifi.Cond, Pol: true})
			ok = a.Kind == "cmp" && a.Op == "!=" && a.Y.Op == "Nil" && short(a.X.String()) == "Field(Recv.err)"
		}
		r.Check(ok, rs.String(), "sticky:entry", "", "if r.err != nil { return nil, r.err } first", "ReadStanza does not start by returning the remembered error")
		okStore := false
		for _, a := range AnonFuncs(rs) {
			for _, fs := range p.fieldStores(pkgFormat+".StanzaReader", "err") {
				if fs.Fn == a {
					okStore = true
				}
			}
		}
		// the closure must be deferred
		deferred := false
		for _, c := range callsIn(rs) {
			if _, isD := c.(*ssa.Defer); isD {
				deferred = true
			}
		}
		// the same without a defer: every return that may carry an error other than the
		// remembered one stands behind `r.err = <that error>`
		okExplicit := false
		if !(okStore && deferred) {
			okExplicit = true
			rtb := p.TB(rs)
			nErr := 0
			for _, ret := range returnsOf(rs) {
				errv := resultsOf(ret)[1]
				if isNilConst(errv) || strings.HasPrefix(short(rtb.Term(errv).String()), "Field(Recv.err") {
					continue
				}
				nErr++
				stored := false
				for _, fs := range p.fieldStores(pkgFormat+".StanzaReader", "err") {
					if fs.Fn == rs && fs.Store.Val == errv && dominatesInstr(fs.Store, ret) {
						stored = true
					}
				}
				okExplicit = okExplicit && stored
			}
			okExplicit = okExplicit && nErr > 0
		}
		r.Check((okStore && deferred) || okExplicit, rs.String(), "sticky:defer", "", "deferred closure stores the returned error in r.err on every exit", "the returned error is not remembered in r.err by a deferred closure")
	}
}

// checkBase64Guards is rule R08.1: Go's base64 decoders silently skip CR and
// LF; every Decode/DecodeString call in the given functions must be dominated
// by a rejection of both in its input.
func checkBase64Guards(p *Program, r *Result, fns []*ssa.Function) {
	for _, fn := range fns {
		tb := p.TB(fn)
		for i, c := range callsToAny(fn, "(*encoding/base64.Encoding).DecodeString", "(*encoding/base64.Encoding).Decode") {
			name := calleeName(c.Common())
			src := c.Common().Args[1]
			if strings.HasSuffix(name, ".Decode") {
				src = c.Common().Args[2]
			}
			srcKey := tb.Term(src).Key()
			facts := tb.FactsAt(c.Block())
			a, ok := findFact(facts, func(a Atom) bool {
				if a.Kind != "call" || a.Pol || len(a.Call.Args) != 2 {
					return false
				}
				if a.Call.S != "strings.ContainsAny" && a.Call.S != "bytes.ContainsAny" {
					return false
				}
				set := a.Call.Args[1].S
				return a.Call.Args[0].Key() == srcKey && strings.Contains(set, `\r`) && strings.Contains(set, `\n`)
			})
			key := "base64-newline-guard:" + short(name)
			if i > 0 {
				key += "#" + itoa(i+1)
			}
			if !ok {
				// the same rejection spelled per character (IndexByte(x, '\r') < 0, !Contains, ...)
				a1, ok1 := rejectsChar(facts, srcKey, 13)
				_, ok2 := rejectsChar(facts, srcKey, 10)
				if ok1 && ok2 {
					a, ok = a1, true
				}
			}
			if !ok && strings.HasSuffix(name, ".DecodeString") {
				// the rejection made after decoding: with n bytes decoded, exactly EncodedLen(n)
				// characters were used, so len(s) == EncodedLen(n) says that nothing was skipped;
				// every return that hands the decoded bytes on stands under that equality
				if a2, ok2 := canonicalLengthAfterDecode(tb, fn, c, srcKey); ok2 {
					a, ok = a2, true
				}
			}
			if ok {
				r.OK(fn.String(), key, r.pos(c), "", guardWitness(p, a))
			} else {
				r.Bad(fn.String(), key, r.pos(c), "base64 decoding is not dominated by a rejection of CR and LF in its input; encoding/base64 silently skips them, so several spellings of one line would be accepted")
			}
		}
	}
}

// canonicalLengthAfterDecode: c is enc.DecodeString(src); every return of fn that is not an error
// return stands under len(src) == enc.EncodedLen(len(result of c)), with the same encoding.
func canonicalLengthAfterDecode(tb *TB, fn *ssa.Function, c ssa.CallInstruction, srcKey string) (Atom, bool) {
	call, isCall := c.(*ssa.Call)
	if !isCall {
		return Atom{}, false
	}
	ct := tb.Term(call)
	if ct == nil || len(ct.Args) != 2 {
		return Atom{}, false
	}
	want := "(*encoding/base64.Encoding).EncodedLen(" + ct.Args[0].String() + ", len(" + ct.String() + ".0))"
	var wit Atom
	n := 0
	for _, ret := range returnsOf(fn) {
		if len(ret.Results) != 2 {
			return Atom{}, false
		}
		if !isNilConst(ret.Results[1]) {
			if isNilConst(ret.Results[0]) {
				continue
			}
			return Atom{}, false // the decoded bytes returned together with an error value
		}
		a, ok := findFact(tb.FactsAt(ret.Block()), func(a Atom) bool {
			if a.Kind != "cmp" || a.Op != "==" || a.X == nil || a.Y == nil {
				return false
			}
			x, y := a.X.String(), a.Y.String()
			return (x == "len("+srcKeyString(tb, c)+")" && y == want) || (y == "len("+srcKeyString(tb, c)+")" && x == want)
		})
		if !ok {
			return Atom{}, false
		}
		wit = a
		n++
	}
	_ = srcKey
	return wit, n > 0
}

func srcKeyString(tb *TB, c ssa.CallInstruction) string {
	return tb.Term(c.Common().Args[1]).String()
}

// rejectsChar: a fact that the value with the given key does not contain the character c.
func rejectsChar(facts []Atom, srcKey string, c int64) (Atom, bool) {
	isChar := func(t *Term) bool {
		if t == nil {
			return false
		}
		if n, ok := intConst(t); ok && n == c {
			return true
		}
		// "\r", []byte("\r"), []byte{13}
		q := strconv.Quote(string(rune(c)))
		if t.Op == "Const" && t.S == q {
			return true
		}
		if (t.Op == "Conv" || t.Op == "List") && len(t.Args) == 1 {
			if n, ok := intConst(t.Args[0]); ok && n == c {
				return true
			}
			return t.Args[0].Op == "Const" && t.Args[0].S == q
		}
		return false
	}
	return findFact(facts, func(a Atom) bool {
		switch a.Kind {
		case "call":
			// !Contains(x, c), !ContainsRune(x, c)
			if a.Pol || a.Call == nil || len(a.Call.Args) != 2 || a.Call.Args[0].Key() != srcKey {
				return false
			}
			switch a.Call.S {
			case "bytes.Contains", "strings.Contains", "bytes.ContainsRune", "strings.ContainsRune":
				return isChar(a.Call.Args[1])
			}
		case "cmp":
			// Index*(x, c) < 0, == -1
			x, y, op := a.X, a.Y, a.Op
			if x == nil || y == nil {
				return false
			}
			if x.Op != "Call" {
				x, y = y, x
				switch op {
				case "<":
					op = ">"
				case ">":
					op = "<"
				case "<=":
					op = ">="
				case ">=":
					op = "<="
				}
			}
			if x.Op != "Call" || len(x.Args) != 2 || x.Args[0].Key() != srcKey || !isChar(x.Args[1]) {
				return false
			}
			switch x.S {
			case "bytes.IndexByte", "strings.IndexByte", "bytes.IndexRune", "strings.IndexRune", "bytes.Index", "strings.Index":
			default:
				return false
			}
			k, isK := intConst(y)
			if !isK {
				return false
			}
			return op == "<" && k == 0 || op == "==" && k == -1 || op == "<=" && k == -1
		}
		return false
	})
}

// checkCanonicalParse is rule R07.1 (shared with C03 R03.7): the rejections
// that make header parsing canonical dominate every accepting return.
func checkCanonicalParse(p *Program, r *Result, parse, rs, ivs, dec *ssa.Function) ([]*ssa.Return, *TB) {
	// ---- Parse
	ptb := p.TB(parse)
	var succ []*ssa.Return
	for _, ret := range returnsOf(parse) {
		if isNilConst(resultsOf(ret)[2]) {
			succ = append(succ, ret)
		}
	}
	if len(succ) == 0 {
		r.Unk(parse.String(), "success-returns", "", "none found")
	}
	line := `(*bufio.Reader).ReadBytes(bufio.NewReader(P1), 10).0`
	for i, ret := range succ {
		sfx := "#" + itoa(i)
		needFacts(r, p, parse, ret.Block(), r.pos(ret), []struct{ key, text string }{
			{"intro" + sfx, `(*bufio.Reader).ReadString(bufio.NewReader(P1), 10).0 == "age-encryption.org/v1\n"`},
			{"footer:prefix" + sfx, `format.splitArgs(` + line + `).0 == "---"`},
			{"footer:one-arg" + sfx, `len(format.splitArgs(` + line + `).1) == 1`},
			{"footer:strict-b64" + sfx, `format.DecodeString(Elem(format.splitArgs(` + line + `).1, 0)).1 == nil`},
			{"footer:mac-len" + sfx, `len(format.DecodeString(Elem(format.splitArgs(` + line + `).1, 0)).0) == 32`},
		})
		// the MAC stored is that decoded value
		_ = ptb
	}
	// ---- ReadStanza
	rtb := p.TB(rs)
	var rsucc []VRet
	for _, v := range virtualReturns(rs) {
		if isNilConst(v.Results[1]) {
			rsucc = append(rsucc, v)
		}
	}
	if len(rsucc) != 1 {
		r.Unk(rs.String(), "success-return", "", "expected exactly one success return")
	} else {
		ret := rsucc[0].Ret
		retBlock := rsucc[0].Block
		l1 := `(*bufio.Reader).ReadBytes(Field(Recv.r), 10).0`
		b := `format.DecodeString(strings.TrimSuffix(` + l1 + `, "\n"))`
		needFacts(r, p, rs, retBlock, r.pos(ret), []struct{ key, text string }{
			{"stanza:prefix-bytes", `bytes.HasPrefix(` + l1 + `, "->")`},
			{"stanza:prefix-token", `format.splitArgs(` + l1 + `).0 == "->"`},
			{"stanza:has-type", `len(format.splitArgs(` + l1 + `).1) != 0`},
			{"body:strict-b64", b + `.1 == nil`},
			{"body:line-max", `len(` + b + `.0) <= 48`},
			{"body:ends-on-short-line", `len(` + b + `.0) <= 47`},
		})
		// all arguments validated: loop over the whole args slice
		okArgs := false
		for _, l := range rangeLoops(rs) {
			over := short(rtb.Term(l.Over).String())
			if over != `format.splitArgs(`+l1+`).1` || !p.completedAt(l, retBlock) {
				continue
			}
			// back edge only under isValidString(elem) true
			good := true
			nb := 0
			for _, pr := range l.Header.Preds {
				if !l.blocks()[pr] || pr == l.Header {
					continue
				}
				nb++
				facts := rtb.FactsAt(pr)
				for k, s := range pr.Succs {
					if s == l.Header {
						if _, isIf := pr.Instrs[len(pr.Instrs)-1].(*ssa.If); isIf {
							facts = rtb.FactsOnEdge(pr, k)
						}
					}
				}
				if _, ok := findFact(facts, func(a Atom) bool {
					return a.Kind == "call" && a.Pol && a.Call.S == pkgFormat+".isValidString" && short(a.Call.Args[0].String()) == `Elem(format.splitArgs(`+l1+`).1, (RangeIdx#1 + 1))`
				}); !ok {
					good = false
				}
			}
			okArgs = good && nb > 0
		}
		r.Check(okArgs, rs.String(), "stanza:all-args-valid", r.pos(ret), "every element of args (type included) passes isValidString before acceptance", "not every argument of the stanza line is validated (e.g. the loop covers args[1:] only): non-printable or empty tokens would be accepted")
		// type and args assignment
		okAssign := false
		for _, b2 := range rs.Blocks {
			for _, in := range b2.Instrs {
				if st, ok := in.(*ssa.Store); ok {
					want := `Slice(format.splitArgs(` + l1 + `).1, 1, _)`
					t := short(rtb.Term(st.Val).String())
					if t == want {
						okAssign = true
					}
					// the merged result of a helper spliced in: nil on its error exits
					if ph, isPhi := st.Val.(*ssa.Phi); isPhi {
						n, all := 0, true
						for _, e := range ph.Edges {
							if isNilConst(e) {
								continue
							}
							if short(rtb.Term(e).String()) == want {
								n++
							} else {
								all = false
							}
						}
						if all && n > 0 {
							okAssign = true
						}
					}
				}
			}
		}
		r.Check(okAssign, rs.String(), "stanza:args", "", "s.Args = args[1:]", "s.Args is not args[1:]")
	}
	// ---- isValidString
	{
		itb := p.TB(ivs)
		okEmpty := false
		for _, ret := range returnsOf(ivs) {
			facts := itb.FactsAt(ret.Block())
			if _, ok := hasFact(facts, "len(P1) == 0"); ok {
				if c, isC := ret.Results[0].(*ssa.Const); isC && c.Value.ExactString() == "false" {
					okEmpty = true
				}
			}
		}
		if !okEmpty {
			okEmpty = emptyRejectedInExpression(itb, ivs)
		}
		r.Check(okEmpty, ivs.String(), "empty", "", "empty string is invalid", "the empty string is accepted as an argument")
		okRange := false
		decidedByEval := false
		if ep := p.elemPredicateCall(ivs, func(v ssa.Value) bool { return v == ssa.Value(ivs.Params[0]) }); ep != nil {
			// the same through a library call that applies a predicate function to every rune
			eq, ok, _ := ep.Equals(func(c int64) bool { return c >= 33 && c <= 126 }, []int64{33, 126})
			if ok {
				decidedByEval = true
				okRange = eq
				for _, ret := range returnsOf(ivs) {
					okRange = okRange && allPassOrFalse(ret.Results[0], ep.Call, 0)
				}
			}
		}
		if ep, _ := p.elemPredicate(ivs, func(v ssa.Value) bool { return v == ssa.Value(ivs.Params[0]) }); ep != nil && !decidedByEval {
			// E10: the set of element values the loop carries on with, whatever the shape of the test
			eq, ok, _ := ep.Equals(func(c int64) bool { return c >= 33 && c <= 126 }, []int64{33, 126})
			if ok {
				decidedByEval = true
				trueAfter := true
				for _, ret := range returnsOf(ivs) {
					if c, isC := ret.Results[0].(*ssa.Const); isC && c.Value.ExactString() == "true" {
						if !p.completedAt(ep.Loop, ret.Block()) {
							trueAfter = false
						}
					} else if !isC {
						trueAfter = false
					}
				}
				okRange = eq && trueAfter
			}
		}
		for _, l := range rangeLoops(ivs) {
			if decidedByEval {
				break
			}
			if l.Kind != "rangeiter" || stripConv(l.Over) != ivs.Params[0] || len(p.loopEarlyExits(l)) != 0 {
				continue
			}
			lo, hi := false, false
			for _, pr := range l.Header.Preds {
				if !l.blocks()[pr] || pr == l.Header {
					continue
				}
				facts := itb.FactsAt(pr)
				for k, s := range pr.Succs {
					if s == l.Header {
						if _, isIf := pr.Instrs[len(pr.Instrs)-1].(*ssa.If); isIf {
							facts = itb.FactsOnEdge(pr, k)
						}
					}
				}
				if _, ok := hasFact(facts, "Next(Range(P1)).2 >= 33"); ok {
					lo = true
				}
				if _, ok := hasFact(facts, "Next(Range(P1)).2 <= 126"); ok {
					hi = true
				}
			}
			// true only after the loop
			trueAfter := true
			for _, ret := range returnsOf(ivs) {
				if c, isC := ret.Results[0].(*ssa.Const); isC && c.Value.ExactString() == "true" {
					if !(ret.Block() == l.Exit || l.Exit.Dominates(ret.Block())) {
						trueAfter = false
					}
				}
			}
			okRange = lo && hi && trueAfter
		}
		r.Check(okRange, ivs.String(), "vchar-range", "", "every rune within 33..126", "isValidString does not restrict every rune to 33..126 (e.g. DEL or space accepted)")
	}
	// ---- DecodeString: CR/LF rejected before decoding (shared with R08.1)
	checkBase64Guards(p, r, []*ssa.Function{dec})

	return succ, ptb
}

// checkPayloadHandBack is rule R07.3 (shared with C01 and C12): the payload reader Parse returns
// is the bufio.Reader itself iff that is the input, otherwise the buffered bytes followed by the input.
func checkPayloadHandBack(p *Program, r *Result, parse *ssa.Function, succ []*ssa.Return, ptb *TB) {
	nA, nB := 0, 0
	type pcase struct {
		pay   string
		facts []Atom
	}
	for _, ret := range succ {
		retFacts := ptb.FactsAt(ret.Block())
		// the payload may be the merged result of a helper spliced into Parse: one case per
		// incoming edge, under the facts of that edge (and those of the return)
		var cases []pcase
		var expand func(v ssa.Value, facts []Atom, d int)
		expand = func(v ssa.Value, facts []Atom, d int) {
			if ph, ok := v.(*ssa.Phi); ok && d < 3 {
				for k, e := range ph.Edges {
					if isNilConst(e) && errorEdgeRefused(ptb, ph, k, retFacts) {
						continue // the helper's (nil, err) exit: the caller returns the error
					}
					expand(e, append(append([]Atom(nil), retFacts...), phiEdgeFacts(ptb, ph, k)...), d+1)
				}
				return
			}
			cases = append(cases, pcase{short(ptb.Term(v).String()), facts})
		}
		expand(resultsOf(ret)[1], retFacts, 0)
		for _, c := range cases {
			facts, pay := c.facts, c.pay
			_, same := hasFactShort(facts, "bufio.NewReader(P1) == P1")
			_, diff := hasFactShort(facts, "bufio.NewReader(P1) != P1")
			_, none := hasFactShort(facts, "(*bufio.Reader).Buffered(bufio.NewReader(P1)) == 0")
			switch {
			case same && pay == "bufio.NewReader(P1)":
				nA++
				r.OK(parse.String(), "payload:same-reader", r.pos(ret), "input already is the bufio.Reader: returned as is (no duplication of buffered bytes)")
			case diff && pay == specRecipe(r, "format.Parse.payload"):
				nB++
				_, okErr := hasFactShort(facts, "(*bufio.Reader).Peek(bufio.NewReader(P1), (*bufio.Reader).Buffered(bufio.NewReader(P1))).1 == nil")
				if !okErr {
					// the error tested after the merge of a spliced helper's results
					_, okErr = findFact(facts, func(a Atom) bool {
						return a.Kind == "cmp" && a.Op == "==" && a.Y != nil && a.Y.Op == "Nil" && a.X != nil && a.X.Op == "Phi" &&
							strings.Contains(short(a.X.String()), "(*bufio.Reader).Peek(bufio.NewReader(P1), (*bufio.Reader).Buffered(bufio.NewReader(P1))).1")
					})
				}
				r.Check(okErr, parse.String(), "payload:multireader", r.pos(ret), pay, "the Peek error is not checked")
			case diff && none && pay == "P1":
				r.OK(parse.String(), "payload:nothing-buffered", r.pos(ret), "nothing was read ahead (Buffered() == 0): the input itself is the payload")
			default:
				r.Bad(parse.String(), "payload#"+itoa(retIndex(parse, ret)), r.pos(ret), "payload reader is "+pay+" under facts ["+short(factStrings(facts))+"]: buffered bytes would be lost or duplicated")
			}
		}
	}
	if nA != 1 || nB != 1 {
		r.Bad(parse.String(), "payload:cases", "", "expected one return for rr == input and one for the MultiReader hand-back")
	}
}

// errorEdgeRefused: on edge k of the merge ph the accompanying error (another merge of the same
// block) is a non-nil value, and the facts say that merged error was found nil: the edge cannot
// have been the one taken.
func errorEdgeRefused(tb *TB, ph *ssa.Phi, k int, facts []Atom) bool {
	for _, in := range ph.Block().Instrs {
		e, ok := in.(*ssa.Phi)
		if !ok || e == ph || !isErrorType(e.Type()) || k >= len(e.Edges) {
			continue
		}
		if isNilConst(e.Edges[k]) {
			continue
		}
		if !tb.p.definitelyNonNil(e.Edges[k], 0) {
			vs := tb.Term(e.Edges[k]).String()
			if _, nonNil := findFact(phiEdgeFacts(tb, ph, k), func(a Atom) bool {
				return a.Kind == "cmp" && a.Op == "!=" && a.Y != nil && a.Y.Op == "Nil" && a.X != nil && a.X.String() == vs
			}); !nonNil {
				continue
			}
		}
		es := tb.Term(e).String()
		if _, found := findFact(facts, func(a Atom) bool {
			return a.Kind == "cmp" && a.Op == "==" && a.Y != nil && a.Y.Op == "Nil" && a.X != nil && a.X.String() == es
		}); found {
			return true
		}
	}
	return false
}

// phiEdgeFacts: the facts in force on the k-th incoming edge of the merge ph.
func phiEdgeFacts(tb *TB, ph *ssa.Phi, k int) []Atom {
	b := ph.Block()
	if k >= len(b.Preds) {
		return nil
	}
	pred := b.Preds[k]
	for i, su := range pred.Succs {
		if su == b {
			return tb.FactsOnEdge(pred, i)
		}
	}
	return nil
}

// lineReadCalls: calls that take one line (or delimited piece) from a bufio.Reader.
var lineReadCalls = map[string]bool{
	"(*bufio.Reader).ReadBytes": true, "(*bufio.Reader).ReadString": true,
	"(*bufio.Reader).ReadLine": true, "(*bufio.Reader).ReadSlice": true,
}

// checkNoLineDiscarded (R07.6 = R03.10 = R16.8): in the header and stanza reader no loop takes a
// line from the input and goes round again without having kept anything of it (a store, or a value
// carried into the next iteration). Such a loop passes over input, so that several byte strings
// parse to the same header: the re-serialisation that is MACed is then not what was received.
func checkNoLineDiscarded(p *Program, r *Result) {
	readers := map[*ssa.Function]bool{} // module functions that hand out a line they read
	for changed := true; changed; {
		changed = false
		for _, fn := range p.Funcs {
			if fn.Pkg == nil || fn.Pkg.Pkg.Path() != pkgFormat || readers[fn] {
				continue
			}
			for _, c := range callsIn(fn) {
				if lineReadCalls[calleeName(c.Common())] || (c.Common().StaticCallee() != nil && readers[c.Common().StaticCallee()]) {
					readers[fn], changed = true, true
					break
				}
			}
		}
	}
	n := 0
	for _, fn := range p.Funcs {
		if fn.Pkg == nil || fn.Pkg.Pkg.Path() != pkgFormat {
			continue
		}
		loops := naturalLoops(fn)
		for _, c := range callsIn(fn) {
			isRead := lineReadCalls[calleeName(c.Common())] || (c.Common().StaticCallee() != nil && readers[c.Common().StaticCallee()])
			if !isRead {
				continue
			}
			for _, l := range loops {
				if !l.Blocks[c.Block()] {
					continue
				}
				n++
				r.Saw(fn.String())
				keeps := func(b *ssa.BasicBlock, from int) bool {
					for _, in := range b.Instrs[from:] {
						switch x := in.(type) {
						case *ssa.Store, *ssa.MapUpdate, *ssa.Send:
							return true
						case ssa.CallInstruction:
							if callee := x.Common().StaticCallee(); callee != nil && callee.Blocks != nil {
								if e := p.EffectsOf(callee); e != nil && (len(e.AllFields) > 0 || len(e.AllGlobals) > 0 || len(e.WritesParam) > 0) && !readers[callee] {
									return true
								}
							}
						}
					}
					return false
				}
				carries := func(pred *ssa.BasicBlock) bool {
					idx := -1
					for i, pr := range l.Header.Preds {
						if pr == pred {
							idx = i
						}
					}
					for _, in := range l.Header.Instrs {
						ph, ok := in.(*ssa.Phi)
						if !ok {
							break
						}
						if idx < 0 || idx >= len(ph.Edges) {
							continue
						}
						e := ph.Edges[idx]
						if _, isK := e.(*ssa.Const); isK || e == ssa.Value(ph) {
							continue
						}
						if bt, ok := ph.Type().Underlying().(*types.Basic); ok && bt.Info()&(types.IsInteger|types.IsBoolean) != 0 {
							continue
						}
						return true
					}
					return false
				}
				// is the header reachable from behind the read through blocks that keep nothing?
				var witness []*ssa.BasicBlock
				seen := map[*ssa.BasicBlock]bool{}
				var walk func(b *ssa.BasicBlock, from int, trail []*ssa.BasicBlock) bool
				walk = func(b *ssa.BasicBlock, from int, trail []*ssa.BasicBlock) bool {
					if keeps(b, from) {
						return false
					}
					trail = append(trail, b)
					for _, s := range p.feasibleSuccs(b) {
						if s == l.Header {
							if !carries(b) {
								witness = append([]*ssa.BasicBlock{}, trail...)
								return true
							}
							continue
						}
						if !l.Blocks[s] || seen[s] {
							continue
						}
						seen[s] = true
						if walk(s, 0, trail) {
							return true
						}
					}
					return false
				}
				found := walk(c.Block(), instrIndex(c.(ssa.Instruction))+1, nil)
				tr := ""
				for _, b := range witness {
					tr += " b" + itoa(b.Index)
				}
				r.Check(!found, fn.String(), "line-read:"+short(calleeName(c.Common()))+"@loop-b"+itoa(l.Header.Index), r.pos(c), "every way round the loop keeps something of the line it read", "a line is read and the loop goes round again without keeping anything of it (blocks"+tr+"): input is passed over in silence, so different byte strings parse to the same header and the MACed re-serialisation is not what was received")
			}
		}
	}
	if n == 0 {
		r.OK(pkgFormat, "line-read:none-in-loop", "", "no line read inside a loop of the format package")
	}
}

// emptyRejectedInExpression: the predicate written as one expression (`len(s) > 0 && ...`,
// `s != "" && ...`): every way to a result other than the constant false stands under a fact
// that its string parameter is not empty.
func emptyRejectedInExpression(itb *TB, fn *ssa.Function) bool {
	rets := returnsOf(fn)
	ok := len(rets) > 0
	nonEmptyOrFalse := func(v ssa.Value, facts []Atom) bool {
		if c, isC := v.(*ssa.Const); isC && c.Value != nil && c.Value.ExactString() == "false" {
			return true
		}
		for _, want := range []string{"len(P1) >= 1", "len(P1) != 0", `P1 != ""`} {
			if _, has := hasFact(facts, want); has {
				return true
			}
		}
		return false
	}
	for _, ret := range rets {
		if ph, isPhi := ret.Results[0].(*ssa.Phi); isPhi && ph.Block() == ret.Block() {
			for i, e := range ph.Edges {
				pr := ph.Block().Preds[i]
				facts := itb.FactsAt(pr)
				for k, sc := range pr.Succs {
					if sc == ph.Block() {
						if _, isIf := pr.Instrs[len(pr.Instrs)-1].(*ssa.If); isIf {
							facts = itb.FactsOnEdge(pr, k)
						}
					}
				}
				ok = ok && nonEmptyOrFalse(e, facts)
			}
		} else {
			ok = ok && nonEmptyOrFalse(ret.Results[0], itb.FactsAt(ret.Block()))
		}
	}
	return ok
}

// bodyFactThroughDecode finds, for one of the body-line requirements of R07.1, the equivalent fact
// over `b64.Decode(dst, bytes.TrimSuffix(line, "\n"))`.
func bodyFactThroughDecode(facts []Atom, key string) (Atom, bool) {
	const src = `bytes.TrimSuffix((*bufio.Reader).ReadBytes(Field(Recv.r), 10).0, "\n")`
	const decPre = `(*base64.Encoding).Decode((base64.Encoding).Strict(Deref(base64.RawStdEncoding)), `
	_, crlf := findFact(facts, func(a Atom) bool {
		s := short(a.String())
		return s == `!bytes.ContainsAny(`+src+`, "\n\r")` || s == `!bytes.ContainsAny(`+src+`, "\r\n")`
	})
	if !crlf {
		return Atom{}, false
	}
	return findFact(facts, func(a Atom) bool {
		s := short(a.String())
		if !strings.Contains(s, decPre) || !strings.Contains(s, ", "+src+")") {
			return false
		}
		switch key {
		case "body:strict-b64":
			return strings.HasPrefix(s, decPre) && strings.HasSuffix(s, ", "+src+").1 == nil")
		case "body:line-max":
			return a.Kind == "cmp" && a.Op == "<=" && a.Y != nil && a.Y.S == "48"
		case "body:ends-on-short-line":
			return a.Kind == "cmp" && a.Op == "<=" && a.Y != nil && a.Y.S == "47"
		}
		return false
	})
}
