package main

import (
	"fmt"
	"go/token"
	"go/types"
	"os"
	"strings"

	"golang.org/x/tools/go/ssa"
)

func init() {
	register(&PropertyDef{
		ID: "C11",
		Explanation: "Structural necessary conditions of C11 in age.Encrypt: (R11.1) on every path through one iteration of the recipient loop that continues, either i == 0 and this recipient's labels become the reference, or slicesEqual(reference, labels) is true and the reference is unchanged; the false edge returns an error; " +
			"(R11.2) sort.Strings on the recipient's labels dominates both uses; (R11.3) every use of dst lies behind the completed recipient loop, and headerMAC precedes Marshal, so any refusal leaves dst untouched; " +
			"(R11.4) slicesEqual is length plus element-wise comparison over the full range; (R11.5) wrapWithLabels prefers RecipientWithLabels and otherwise returns Wrap's stanzas with nil labels; (R11.6) the plugin recipient returns the plugin's labels arguments and treats a repeat as an error. (R11.9) no error result is dropped in Encrypt, wrapWithLabels and the WrapWithLabels methods.",
		NotDecided:  "the multiset-versus-set corner of the statement (duplicate labels); behaviour of third-party Recipient implementations.",
		Assumptions: []string{"sort.Strings sorts in place"},
		Run:         runC11,
	})
}

func runC11(p *Program, r *Result) {
	enc := r.anchor(pkgAge, "", "Encrypt")
	// wrapWithLabels is spliced into Encrypt by the normal form: this recipient's labels are
	// the operand of the label comparison that is not the loop-carried reference set
	if enc == nil {
		return
	}
	tb := p.TB(enc)
	outer := loopOver(enc, func(v ssa.Value) bool { return v == enc.Params[1] })
	if len(outer) > 1 {
		// several loops over the recipients (an extra pre-check): the one that wraps the file key
		var w []*RangeLoop
		for _, l := range outer {
			for _, c := range callsIn(enc) {
				n := calleeName(c.Common())
				if (n == "invoke (filippo.io/age.Recipient).Wrap" || n == "invoke (filippo.io/age.RecipientWithLabels).WrapWithLabels") && l.inLoop(c.Block()) {
					w = append(w, l)
					break
				}
			}
		}
		outer = w
	}
	if len(outer) != 1 {
		r.Rule("R11.1", "labels of every recipient are compared with the first one's", 1)
		r.Unk(enc.String(), "loop:recipients", "", "no full-range loop over the recipients parameter")
		return
	}
	loop := outer[0]
	var wcall ssa.CallInstruction // the label comparison
	var labelsV ssa.Value         // this recipient's labels
	for _, c := range callsIn(enc) {
		if !isLabelComparison(p, c) || !loop.inLoop(c.Block()) {
			continue
		}
		x, y := stripConv(c.Common().Args[0]), stripConv(c.Common().Args[1])
		// the reference set: the Phi the loop carries, or a merge inside the loop that has it
		// among its incoming values (`if i == 0 { labels = l }` in front of the comparison)
		var isRefD func(v ssa.Value, d int) bool
		isRefD = func(v ssa.Value, d int) bool {
			ph, ok := v.(*ssa.Phi)
			if !ok || d > 3 {
				return false
			}
			if ph.Block() == loop.Header {
				return true
			}
			if !loop.inLoop(ph.Block()) {
				return false
			}
			for _, e := range ph.Edges {
				if isRefD(stripConv(e), d+1) {
					return true
				}
			}
			return false
		}
		isRef := func(v ssa.Value) bool { return isRefD(v, 0) }
		switch {
		case isRef(x) && !isRef(y):
			wcall, labelsV = c, y
		case isRef(y) && !isRef(x):
			wcall, labelsV = c, x
		}
	}
	if wcall == nil || labelsV == nil {
		r.Rule("R11.1", "labels of every recipient are compared with the first one's", 1)
		r.Unk(enc.String(), "call:compare-labels", "", "no comparison of a loop-carried reference label set with this recipient's labels inside the recipient loop")
		return
	}

	cmpName := tb.Term(wcall.Value()).S // the comparison as it appears in facts
	cmpFn := staticCallee(wcall.Common())
	if cmpFn != nil && !p.inModule(cmpFn) {
		cmpFn = nil
	}

	// the same value may be read more than once (a field of a result struct): values are the
	// same when their terms are
	labelsKey := tb.Term(labelsV).Key()
	sameLabels := func(v ssa.Value) bool {
		v = stripConv(v)
		return v == labelsV || tb.Term(v).Key() == labelsKey
	}
	var refPhi *ssa.Phi

	// ---- R11.1
	r.Rule("R11.1", "labels of every recipient are compared with the first one's; mismatch is an error", 2)
	{
		// reference phi at the loop header
		for _, in := range loop.Header.Instrs {
			ph, ok := in.(*ssa.Phi)
			if !ok {
				break
			}
			if ph == loop.Phi {
				continue
			}
			for _, e := range ph.Edges {
				if sameLabels(e) {
					refPhi = ph
				}
				if p2, ok := e.(*ssa.Phi); ok {
					for _, e2 := range p2.Edges {
						if sameLabels(e2) {
							refPhi = ph
						}
					}
				}
			}
		}
		if refPhi == nil || labelsV == nil {
			r.Unk(enc.String(), "reference-labels", "", "the reference label set is not carried by a loop Phi fed from wrapWithLabels' labels result")
		} else {
			paths, okp := p.EnumPathsStop(loop.Body, map[*ssa.BasicBlock]bool{loop.Header: true})
			bad := ""
			n := 0
			if !okp {
				bad = "too many paths"
			}
			for _, pa := range paths {
				if pa.End != "stop" || !tb.pathFeasible(pa) {
					continue
				}
				n++
				atoms := tb.pathAtoms(pa)
				_, first := findFact(atoms, func(a Atom) bool {
					return a.Kind == "cmp" && a.Op == "==" && a.Y.S == "0" && short(a.X.String()) == "(RangeIdx#1 + 1)"
				})
				_, equal := findFact(atoms, func(a Atom) bool {
					if a.Kind != "call" || !a.Pol || len(a.Call.Args) != 2 {
						return false
					}
					if a.Call.S != cmpName {
						return false
					}
					x, y := a.Call.Args[0].V, a.Call.Args[1].V
					x0, y0 := x, y
					if os.Getenv("AGECHECK_DEBUG_C11") != "" {
						fmt.Fprintf(os.Stderr, "C11 path %s atom %s x=%v y=%v ref=%v\n", pa.String(), short(a.String()), x, y, refPhi)
					}
					// as seen where the comparison is made (the header the path ends in is the next iteration's)
					at := len(pa.Blocks) - 2
					if a.If != nil {
						for j, b := range pa.Blocks[:len(pa.Blocks)-1] {
							if b == a.If.Block() {
								at = j
							}
						}
					}
					if x != nil {
						x = stripConv(pa.ResolveAt(x, at))
					}
					if y != nil {
						y = stripConv(pa.ResolveAt(y, at))
					}
					if os.Getenv("AGECHECK_DEBUG_C11") != "" {
						fmt.Fprintf(os.Stderr, "C11   resolved at %d x=%v(%s) y=%v same=%v\n", at, x, x.Name(), y, sameLabels(y))
					}
					lvAt := stripConv(pa.ResolveAt(labelsV, at))
					isLabels := func(v0, v ssa.Value) bool {
						return v != nil && (sameLabels(v) || v0 != nil && sameLabels(v0) || v == lvAt)
					}
					return (x == ssa.Value(refPhi) && isLabels(y0, y)) || (y == ssa.Value(refPhi) && isLabels(x0, x))
				})
				// value flowing back into the reference phi
				pred := pa.Blocks[len(pa.Blocks)-2]
				var back ssa.Value
				for k, pb := range loop.Header.Preds {
					if pb == pred {
						back = refPhi.Edges[k]
					}
				}
				back = pa.ResolveAt(back, len(pa.Blocks)-2)
				// this recipient's labels may themselves be a merge (the two wrap branches)
				lvPath := pa.ResolveAt(labelsV, len(pa.Blocks)-2)
				switch {
				case first && (sameLabels(back) || stripConv(back) == stripConv(lvPath) || tb.Term(stripConv(back)).Key() == tb.Term(stripConv(lvPath)).Key()):
				case !first && equal && back == ssa.Value(refPhi):
				case first:
					bad = "on the first iteration the reference is not set to this recipient's labels (path " + pa.String() + ")"
				case !equal:
					bad = "path " + pa.String() + " continues with the next recipient without slicesEqual(first recipient's labels, this recipient's labels) being true"
				default:
					bad = "the reference label set is replaced on a later iteration (path " + pa.String() + "): recipients would be compared with the previous instead of the first"
				}
				if bad != "" {
					break
				}
			}
			if n == 0 && bad == "" {
				bad = "no path continues the loop"
			}
			r.Check(bad == "", enc.String(), "iteration-paths", r.pos(wcall), itoa(n)+" continuing paths: i==0 sets the reference, otherwise equality holds and the reference is kept", bad)
		}
		// mismatch edge returns an error and nil writer
		found := false
		for _, ret := range returnsOf(enc) {
			facts := tb.FactsAt(ret.Block())
			if _, ok := findFact(facts, func(a Atom) bool {
				return a.Kind == "call" && !a.Pol && a.Call.S == cmpName
			}); ok {
				found = true
				r.Check(isNilConst(ret.Results[0]) && !isNilConst(ret.Results[1]), enc.String(), "mismatch-return", r.pos(ret), "error, nil writer", "label mismatch does not return (nil, error)")
			}
		}
		if !found {
			r.Bad(enc.String(), "mismatch-return", "", "no return on the label-mismatch edge")
		}
	}

	// ---- R11.2
	r.Rule("R11.2", "labels are sorted before they are stored or compared", 1)
	{
		var sortCall ssa.CallInstruction
		for _, c := range callsIn(enc) {
			n := calleeName(c.Common())
			if !(n == "sort.Strings" || n == "slices.Sort" || strings.HasPrefix(n, "slices.Sort[") || n == "(sort.StringSlice).Sort" || n == "sort.Sort" || n == "sort.Stable") || len(c.Common().Args) != 1 {
				continue
			}
			arg := c.Common().Args[0]
			if mi, isMI := arg.(*ssa.MakeInterface); isMI {
				arg = mi.X // sort.Sort(sort.StringSlice(l))
			}
			if sameLabels(arg) || sameLabels(stripConv(arg)) {
				sortCall = c
			}
		}
		// the labels are a merge (of a helper's exits, after splicing) each of whose values is nil
		// or was sorted on its own branch
		sortedMerge := false
		if lph, isPhi := labelsV.(*ssa.Phi); isPhi && sortCall == nil {
			nSorted := 0
			sortedMerge = true
			for k, e := range lph.Edges {
				if isNilConst(e) {
					continue
				}
				pred := lph.Block().Preds[k]
				found := false
				for _, c := range callsIn(enc) {
					n := calleeName(c.Common())
					if !(n == "sort.Strings" || n == "slices.Sort" || strings.HasPrefix(n, "slices.Sort[") || n == "(sort.StringSlice).Sort") || len(c.Common().Args) != 1 {
						continue
					}
					if a := stripConv(c.Common().Args[0]); (a == stripConv(e) || tb.Term(a).Key() == tb.Term(e).Key()) && (c.Block() == pred || c.Block().Dominates(pred)) {
						found = true
					}
				}
				if found {
					nSorted++
				} else {
					sortedMerge = false
				}
			}
			if nSorted == 0 {
				sortedMerge = false
			}
		}
		if sortedMerge {
			r.OK(enc.String(), "sort:labels", "", "every non-nil value merged into this recipient's labels was sorted on its own branch")
		}
		ok := sortCall != nil
		// sortedAt: the sort has run on every way to block b, or was skipped only because the set
		// has fewer than two elements (`if len(l) > 1 { sort.Strings(l) }`): such a set is sorted
		sortedAt := func(b *ssa.BasicBlock) bool {
			if sortCall.Block() == b || p.feasDominates(sortCall.Block(), b) {
				return true
			}
			// the branch that guards the sort: its other side must be len(labels) <= 1
			g := sortCall.Block()
			for g != nil {
				d := g.Idom()
				if d == nil {
					return false
				}
				if _, isIf := d.Instrs[len(d.Instrs)-1].(*ssa.If); isIf && len(d.Succs) == 2 && (d == b || d.Dominates(b) || p.feasDominates(d, b)) {
					for k, su := range d.Succs {
						if su == g || su.Dominates(g) {
							other := tb.FactsOnEdge(d, 1-k)
							if len(other) == 0 {
								return false
							}
							last := other[len(other)-1]
							kk, isK := intConst(last.Y)
							small := last.Kind == "cmp" && isK && isLenTerm(last.X) && len(last.X.Args) == 1 && last.X.Args[0].V != nil && sameLabels(last.X.Args[0].V) &&
								(last.Op == "<=" && kk <= 1 || last.Op == "<" && kk <= 2 || last.Op == "==" && kk <= 1)
							return small
						}
					}
					return false
				}
				g = d
			}
			return false
		}
		if ok {
			// the comparison, and every edge on which these labels become the reference
			if !dominatesInstr(sortCall.(ssa.Instruction), wcall.(ssa.Instruction)) && !sortedAt(wcall.Block()) {
				ok = false
			}
			var edges func(ph *ssa.Phi, depth int)
			edges = func(ph *ssa.Phi, depth int) {
				for k, e := range ph.Edges {
					if sameLabels(e) {
						pb := ph.Block().Preds[k]
						if !sortedAt(pb) {
							ok = false
						}
					} else if p2, isPhi := e.(*ssa.Phi); isPhi && p2 != ph && depth < 2 {
						edges(p2, depth+1)
					}
				}
			}
			if refPhi != nil {
				edges(refPhi, 0)
			}
		}
		pos := ""
		if sortCall != nil {
			pos = r.pos(sortCall)
		}
		if !sortedMerge {
			r.Check(ok, enc.String(), "sort:labels", pos, "sort.Strings(l) dominates every use of l", "this recipient's labels are used (stored as reference or compared) on a path without having been sorted: equal sets in different orders would be refused")
		}
	}

	// ---- R11.3
	r.Rule("R11.3", "nothing is written to dst before every recipient has wrapped and been compared", 2)
	{
		dst := enc.Params[0]
		bad := ""
		n := 0
		for _, ref := range *dst.Referrers() {
			in, ok := ref.(ssa.Instruction)
			if !ok {
				continue
			}
			if _, isDbg := in.(*ssa.DebugRef); isDbg {
				continue
			}
			// a comparison (dst == nil) writes nothing
			if bo, isBin := in.(*ssa.BinOp); isBin && (bo.Op == token.EQL || bo.Op == token.NEQ) {
				continue
			}
			n++
			if !p.completedAt(loop, in.Block()) {
				bad = "dst is used at " + r.pos(in) + " before the recipient loop has completed (or the loop can be left by break)"
			}
		}
		r.Check(bad == "", enc.String(), "dst:uses", "", itoa(n)+" uses of dst, all dominated by the loop exit", bad)
		// headerMAC before Marshal
		mac := callsTo(enc, pkgAge+".headerMAC")
		mar := callsTo(enc, "(*"+pkgFormat+".Header).Marshal")
		// the (threaded) fact "headerMAC(...) returned a nil error" at the Marshal call says that the
		// MAC was computed, successfully, on every feasible path to it
		ok := len(mac) == 1 && len(mar) == 1
		if ok {
			_, ok = errFactFor(tb.FactsAt(mar[0].Block()), mac[0].Value(), true)
		}
		r.Check(ok, enc.String(), "order:headerMAC<Marshal", "", "header MAC computed (and checked) before the header is written", "the header is written before the MAC computation has succeeded")
	}

	// ---- R11.4
	r.Rule("R11.4", "label-set comparison is length plus element-wise equality", 1)
	se := cmpFn
	if se == nil {
		se = p.Func(pkgAge, "", "slicesEqual")
		if se != nil && len(p.Callers(se)) == 0 {
			se = nil // no longer used: whatever Encrypt calls decides
		}
	}
	if se != nil {
		r.Saw(se.String())
		stb := p.TB(se)
		ok := true
		detail := ""
		loops := rangeLoops(se)
		var l *RangeLoop
		for _, x := range loops {
			if stripConv(x.Over) == se.Params[0] || stripConv(x.Over) == se.Params[1] {
				l = x
			}
		}
		if l == nil {
			ok, detail = false, "no full-range loop over an argument"
		} else if len(p.loopEarlyExits(l)) != 0 {
			ok, detail = false, "the comparison loop can be left early"
		}
		nTrue := 0
		for _, ret := range returnsOf(se) {
			k, isC := ret.Results[0].(*ssa.Const)
			if !isC {
				ok, detail = false, "non-constant result"
				continue
			}
			facts := stb.FactsAt(ret.Block())
			if k.Value.ExactString() == "true" {
				nTrue++
				_, lenEq := findFact(facts, func(a Atom) bool {
					if a.Kind != "cmp" || a.Op != "==" || !isLenTerm(a.X) || !isLenTerm(a.Y) {
						return false
					}
					x, y := a.X.Args[0].V, a.Y.Args[0].V
					return (x == ssa.Value(se.Params[0]) && y == ssa.Value(se.Params[1])) || (x == ssa.Value(se.Params[1]) && y == ssa.Value(se.Params[0]))
				})
				if !lenEq || l == nil || !(ret.Block() == l.Exit || l.Exit.Dominates(ret.Block())) {
					ok, detail = false, "true is returned without equal lengths and a completed element loop"
				}
			}
		}
		if l != nil {
			// a differing element returns false
			found := false
			for _, ret := range returnsOf(se) {
				if !l.inLoop(ret.Block()) {
					continue
				}
				facts := stb.FactsAt(ret.Block())
				if _, f := findFact(facts, func(a Atom) bool {
					if a.Kind != "cmp" || a.Op != "!=" || a.X.Op != "Elem" || a.Y.Op != "Elem" || len(a.X.Args) != 2 || len(a.Y.Args) != 2 {
						return false
					}
					x, y := a.X.Args[0].V, a.Y.Args[0].V
					if !((x == ssa.Value(se.Params[0]) && y == ssa.Value(se.Params[1])) || (x == ssa.Value(se.Params[1]) && y == ssa.Value(se.Params[0]))) {
						return false
					}
					return a.X.Args[1].Key() == a.Y.Args[1].Key()
				}); f {
					if k, isC := ret.Results[0].(*ssa.Const); isC && k.Value.ExactString() == "false" {
						found = true
					}
				}
			}
			if !found {
				ok, detail = false, "no `s1[i] != s2[i] -> return false` inside the loop"
			}
		}
		if nTrue != 1 && ok {
			ok, detail = false, "expected exactly one return true"
		}
		r.Check(ok, se.String(), "shape", "", "len check, full loop, element inequality returns false, true only after the loop", detail)
	} else {
		// slices.Equal from the standard library is accepted
		used := false
		for _, c := range callsIn(enc) {
			if isSlicesEqualName(calleeName(c.Common())) {
				used = true
			}
		}
		r.Check(used, enc.String(), "shape", "", "uses slices.Equal", "neither age.slicesEqual nor slices.Equal found")
	}

	// ---- R11.5
	r.Rule("R11.5", "a recipient with labels is wrapped through WrapWithLabels, any other through Wrap with no labels", 2)
	{
		// this recipient's labels and stanzas as values: merges over the two branches
		lterm := tb.Term(labelsV)
		// a sorted full copy of the labels is the same set of labels
		if lterm.Op == "Call" && lterm.S == "sort.Sorted" && len(lterm.Args) == 1 {
			if c := lterm.Args[0]; c.Op == "Copy" && len(c.Args) == 2 && isLenTerm(c.Args[1]) && len(c.Args[1].Args) == 1 && c.Args[1].Args[0].String() == c.Args[0].String() {
				lterm = c.Args[0]
			}
		}
		lterm = stripLabelCopies(lterm, 0)
		lt := short(lterm.String())
		wantL := specRecipe(r, "Encrypt.labels")
		r.Check(lt == wantL, enc.String(), "labels-branch", "", lt, "this recipient's labels are "+lt+"\n   want "+wantL)
		// the plain branch runs only when the type assertion failed, the labelled one only when it held
		okA, okB := false, false
		for _, c := range callsIn(enc) {
			facts := tb.FactsAt(c.Block())
			switch calleeName(c.Common()) {
			case "invoke (filippo.io/age.RecipientWithLabels).WrapWithLabels":
				_, okA = findFact(facts, func(a Atom) bool {
					return a.Kind == "bool" && a.Pol && strings.HasPrefix(short(a.X.String()), "Assert[age.RecipientWithLabels](") && strings.HasSuffix(a.X.String(), ".1")
				})
			case "invoke (filippo.io/age.Recipient).Wrap":
				_, okB = findFact(facts, func(a Atom) bool {
					return a.Kind == "bool" && !a.Pol && strings.HasPrefix(short(a.X.String()), "Assert[age.RecipientWithLabels](") && strings.HasSuffix(a.X.String(), ".1")
				})
			}
		}
		r.Check(okA && okB, enc.String(), "plain-branch", "", "WrapWithLabels under the successful assertion, Wrap otherwise", "the choice between WrapWithLabels and Wrap does not follow the RecipientWithLabels type assertion")
	}

	// ---- R11.6
	r.Rule("R11.6", "the plugin recipient's label set is the plugin's labels arguments; a repeat is an error", 2)
	checkPluginLabels(p, r)
	// ---- R11.8
	r.Rule("R11.9", "a recipient that fails to wrap makes the refusal: in Encrypt, wrapWithLabels and every WrapWithLabels of the module no error result is dropped or overwritten unseen (= R13.1 on these functions)", 3)
	{
		allow := loadAllowDropped(r)
		for _, fn := range p.Funcs {
			if fn.Pkg == nil || fn.Parent() != nil {
				continue
			}
			pk := fn.Pkg.Pkg.Path()
			if !(pk == pkgAge || pk == pkgSSH || pk == pkgPlugin) {
				continue
			}
			switch fn.Name() {
			case "Encrypt", "wrapWithLabels", "WrapWithLabels":
			default:
				continue
			}
			r.Saw(fn.String())
			bad := ""
			for _, s := range p.errSitesIn(fn) {
				if s.Class != "dropped" {
					continue
				}
				if _, ok := neverFails[s.Callee]; ok {
					continue
				}
				if e, ok := inheritedDrop(p, allow, fn, s.Callee, 0); ok && siteAllowed(p, e, s) {
					continue
				}
				bad = short(s.Callee) + " at " + r.pos(s.Call) + " (" + s.How + ")"
			}
			r.Check(bad == "", fn.String(), "wrap-errors-seen", "", "every error result is looked at", "the error of "+bad+" is dropped: a recipient that failed to wrap the file key is passed over and Encrypt writes a header without its stanza")
		}
	}
	r.Rule("R11.8", "every plugin recipient announces the labels extension before it listens (phase 1 of the recipient machine = R16.1): a plugin that is not told about labels declares none", 1)
	checkRecipientPhase1(p, r)
	// ---- R11.7
	r.Rule("R11.7", "a plugin recipient that fails (error message, no stanza, broken conversation) makes WrapWithLabels fail, so that Encrypt refuses before writing (= R16.2, recipient side)", 5)
	checkPluginRecipientArms(p, r)
}

// checkPluginLabels is rule R11.6 (shared with C16 R16.3).
func checkPluginLabels(p *Program, r *Result) {
	if pw := r.anchor(pkgPlugin, "Recipient", "WrapWithLabels"); pw != nil {
		ptb := p.TB(pw)
		// the labels result is a named result spilled to a local cell (the
		// function has a deferred closure): identify the cell from a return
		var cell *ssa.Alloc
		for _, ret := range returnsOf(pw) {
			if len(ret.Results) == 3 {
				if ld, ok := ret.Results[1].(*ssa.UnOp); ok {
					cell, _ = ld.X.(*ssa.Alloc)
				}
			}
		}
		if cell == nil {
			r.Unk(pw.String(), "labels-cell", "", "the labels result is not a spilled named result")
		} else {
			nSet := 0
			for _, st := range storesTo(pw, cell) {
				if isNilConst(st.Val) {
					continue
				}
				// return statements store the cell's own value back: skip loads of the cell
				if ld, ok := st.Val.(*ssa.UnOp); ok && ld.X == ssa.Value(cell) {
					continue
				}
				nSet++
				val := short(ptb.Term(st.Val).String())
				facts := ptb.FactsAt(st.Block())
				_, isNil := findFact(facts, func(a Atom) bool {
					if !(a.Kind == "cmp" && a.Op == "==" && a.Y.Op == "Nil") {
						return false
					}
					ld, ok := a.X.V.(*ssa.UnOp)
					return ok && ld.X == ssa.Value(cell)
				})
				_, isLabels := findFact(facts, func(a Atom) bool {
					return a.Kind == "cmp" && a.Op == "==" && a.Y.S == `"labels"` && strings.HasSuffix(short(a.X.String()), ".Type)")
				})
				byFlag := false
				if !isNil {
					// the same refusal kept by a flag: !seen, where seen starts false and is true on
					// every way round the loop that passed this store
					_, isNil = findFact(facts, func(a Atom) bool {
						if a.Kind != "bool" || a.Pol || a.X == nil {
							return false
						}
						ph, ok := a.X.V.(*ssa.Phi)
						return ok && flagSetWith(ph, st.Block())
					})
					byFlag = isNil
				}
				// a full copy of the arguments is the same set; where the refusal of a repeat tests
				// labels == nil the copy must not be nil for an empty set: append([]string{}, x...)
				// is not, append([]string(nil), x...) is
				if byFlag {
					val = short(stripLabelCopies(ptb.Term(st.Val), 0).String())
				}
				if strings.HasPrefix(val, "Concat(List(), ") && strings.HasSuffix(val, ")") {
					val = strings.TrimSuffix(strings.TrimPrefix(val, "Concat(List(), "), ")")
				}
				okv := strings.HasPrefix(val, "Field((*plugin.ClientUI).readStanza(") && strings.HasSuffix(val, ".Args)")
				r.Check(okv && isNil && isLabels, pw.String(), "store:labels", r.pos(st), "labels = s.Args under s.Type == \"labels\" && labels == nil",
					"labels is set to "+val+" without the guards s.Type == \"labels\" and labels == nil (a repeated labels message must be an error, and only the labels message defines the set)")
			}
			if nSet == 0 {
				r.Bad(pw.String(), "store:labels", "", "the plugin's labels arguments are never stored: the recipient would always declare the empty set")
			}
			// the success return delivers the cell
			okRet := false
			for _, ret := range returnsOf(pw) {
				rs := resultsOf(ret)
				if len(rs) == 3 && isNilConst(rs[2]) {
					if ld, ok := rs[1].(*ssa.UnOp); ok && ld.X == ssa.Value(cell) {
						okRet = true
					}
				}
			}
			r.Check(okRet, pw.String(), "return:labels", "", "the success return delivers the stored labels", "the success return does not deliver the labels received from the plugin")
		}
	}
}

type phiEdge struct {
	val  ssa.Value
	pred *ssa.BasicBlock
}

func flattenPhi(phi *ssa.Phi) []phiEdge {
	var out []phiEdge
	seen := map[*ssa.Phi]bool{}
	var rec func(p *ssa.Phi)
	rec = func(p *ssa.Phi) {
		if seen[p] {
			return
		}
		seen[p] = true
		for k, e := range p.Edges {
			if p2, ok := e.(*ssa.Phi); ok {
				rec(p2)
				continue
			}
			out = append(out, phiEdge{e, p.Block().Preds[k]})
		}
	}
	rec(phi)
	return out
}

// isSlicesEqualName: the module's slicesEqual or the standard library's (generic) slices.Equal.
func isSlicesEqualName(n string) bool {
	return strings.HasSuffix(n, ".slicesEqual") || n == "slices.Equal" || strings.HasPrefix(n, "slices.Equal[")
}

// isLabelComparison: a call that compares two label sets: the module's slicesEqual, the standard
// library's slices.Equal, or a module function or method taking exactly two values whose
// underlying type is []string and returning a bool (R11.4 decides whether it is an equality).
func isLabelComparison(p *Program, c ssa.CallInstruction) bool {
	cc := c.Common()
	if len(cc.Args) != 2 || cc.IsInvoke() {
		return false
	}
	if isSlicesEqualName(calleeName(cc)) {
		return true
	}
	fn := staticCallee(cc)
	if fn == nil || !p.inModule(fn) {
		return false
	}
	res := fn.Signature.Results()
	if res.Len() != 1 || !types.Identical(res.At(0).Type().Underlying(), types.Typ[types.Bool]) {
		return false
	}
	for _, a := range cc.Args {
		sl, ok := a.Type().Underlying().(*types.Slice)
		if !ok {
			return false
		}
		if b, ok := sl.Elem().Underlying().(*types.Basic); !ok || b.Kind() != types.String {
			return false
		}
	}
	return true
}

// stripLabelCopies: a full copy of a label set, sorted or not, is the same set of labels:
// sort.Sorted(Copy(x, len(x))) and append([]string(nil), x...) stand for x, also inside a merge.
func stripLabelCopies(t *Term, d int) *Term {
	if t == nil || d > 3 {
		return t
	}
	switch {
	case t.Op == "Call" && t.S == "sort.Sorted" && len(t.Args) == 1:
		if c := t.Args[0]; c.Op == "Copy" && len(c.Args) == 2 && isLenTerm(c.Args[1]) && len(c.Args[1].Args) == 1 && c.Args[1].Args[0].String() == c.Args[0].String() {
			return stripLabelCopies(c.Args[0], d+1)
		}
		if c := t.Args[0]; c.Op == "Concat" && len(c.Args) == 1 {
			return stripLabelCopies(c.Args[0], d+1)
		}
	case t.Op == "Concat" && len(t.Args) == 1:
		return stripLabelCopies(t.Args[0], d+1)
	case t.Op == "Phi":
		n := *t
		n.Args = nil
		for _, a := range t.Args {
			n.Args = append(n.Args, stripLabelCopies(a, d+1))
		}
		return &n
	}
	return t
}

// flagSetWith: ph is a boolean carried round a loop (a merge at a loop header) that is false on
// entry, and on every way back to the header that passed block b it is the constant true; on the
// other ways it keeps its value or is true.
func flagSetWith(ph *ssa.Phi, b *ssa.BasicBlock) bool {
	hdr := ph.Block()
	if len(ph.Edges) < 2 {
		return false
	}
	isTrue := func(v ssa.Value) bool {
		c, ok := v.(*ssa.Const)
		return ok && c.Value != nil && c.Value.ExactString() == "true"
	}
	isFalse := func(v ssa.Value) bool {
		c, ok := v.(*ssa.Const)
		return ok && c.Value != nil && c.Value.ExactString() == "false"
	}
	var okEdge func(v ssa.Value, pred *ssa.BasicBlock, d int) bool
	okEdge = func(v ssa.Value, pred *ssa.BasicBlock, d int) bool {
		passed := pred == b || b.Dominates(pred)
		if isTrue(v) {
			return true
		}
		if p2, isPhi := v.(*ssa.Phi); isPhi && p2 != ph && d < 3 {
			for k, e := range p2.Edges {
				if !okEdge(e, p2.Block().Preds[k], d+1) {
					return false
				}
			}
			return true
		}
		return v == ssa.Value(ph) && !passed
	}
	nEntry, nBack := 0, 0
	for k, e := range ph.Edges {
		pred := hdr.Preds[k]
		if !hdr.Dominates(pred) {
			// entry edge
			if !isFalse(e) {
				return false
			}
			nEntry++
			continue
		}
		nBack++
		if !okEdge(e, pred, 0) {
			return false
		}
	}
	return nEntry > 0 && nBack > 0 && hdr.Dominates(b)
}
