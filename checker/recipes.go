package main

// Recipe extraction: reads, from the current source, the term of a result, a
// call argument, a stored field or the guards in force at a call, in the
// canonical notation of E3, for comparison with /verif/spec/recipes.json.

import (
	"regexp"
	"fmt"
	"sort"
	"strconv"
	"strings"

	"golang.org/x/tools/go/ssa"
)

// Site names one extraction.
//
//	What:
//	  ret:<k>                 result k of the unique return whose error result is the nil constant
//	                          (or, for functions without error result, of the unique return)
//	  arg:<callee>[#n]:<k>    argument k of the n-th (1-based, default 1) call of callee
//	                          (for invokes argument 0 is the receiver)
//	  facts:<callee>[#n]      sorted guards that dominate that call
//	  facts:ret               sorted guards that dominate the success return
type Site struct {
	Key   string // key in recipes.json
	Pkg   string
	Recv  string
	Func  string
	What  string
	Props []string // properties this row serves (C05 always; C01, C06 for some)
}

func successVRet(fn *ssa.Function) (*VRet, error) {
	ei := errorResultIndex(fn.Signature)
	var cands []VRet
	for _, r := range returnsOf(fn) {
		if ei >= 0 && !isNilConst(resultsOf(r)[ei]) {
			continue
		}
		cands = append(cands, VRet{Ret: r, Block: r.Block(), Results: resultsOf(r)})
	}
	if len(cands) == 0 {
		// tail call: all results forwarded from one call
		for _, r := range returnsOf(fn) {
			var call ssa.Value
			ok := len(r.Results) > 0
			for j, res := range r.Results {
				ex, isEx := stripConv(res).(*ssa.Extract)
				if !isEx || ex.Index != j || (call != nil && ex.Tuple != call) {
					ok = false
					break
				}
				call = ex.Tuple
			}
			if ok {
				cands = append(cands, VRet{Ret: r, Block: r.Block(), Results: resultsOf(r)})
			}
		}
	}
	if len(cands) == 0 && ei >= 0 {
		// exits merged into one return: the incoming way whose error is nil
		for _, v := range virtualReturns(fn) {
			if isNilConst(v.Results[ei]) {
				cands = append(cands, v)
			}
		}
	}
	if len(cands) != 1 {
		return nil, fmt.Errorf("%d success returns", len(cands))
	}
	return &cands[0], nil
}

// successReturn: the success return as an instruction (merged exits are not told apart here).
func successReturn(fn *ssa.Function) (*ssa.Return, error) {
	v, err := successVRet(fn)
	if err != nil {
		return nil, err
	}
	if v.Block != v.Ret.Block() {
		return nil, fmt.Errorf("0 success returns")
	}
	return v.Ret, nil
}

func nthCall(fn *ssa.Function, spec string) (ssa.CallInstruction, error) {
	name := spec
	n := 1
	if i := strings.LastIndex(spec, "#"); i >= 0 {
		if k, err := strconv.Atoi(spec[i+1:]); err == nil {
			name, n = spec[:i], k
		}
	}
	var calls []ssa.CallInstruction
	fns := append([]*ssa.Function{fn}, AnonFuncs(fn)...)
	for _, f := range fns {
		for _, c := range callsIn(f) {
			cn := calleeName(c.Common())
			if cn == name || short(cn) == name {
				calls = append(calls, c)
			}
		}
	}
	if len(calls) < n {
		return nil, fmt.Errorf("call %s not found (%d calls of it)", spec, len(calls))
	}
	return calls[n-1], nil
}

func sortedFacts(facts []Atom) string {
	var s []string
	seen := map[string]bool{}
	for _, a := range facts {
		t := short(a.String())
		// the test of a spliced helper's merged result restates what the threaded guards
		// of the feasible exits already say
		if (a.X != nil && a.X.Op == "Phi" && strings.HasPrefix(a.X.S, "_r")) || seen[t] {
			continue
		}
		seen[t] = true
		s = append(s, t)
	}
	sort.Strings(s)
	return strings.Join(s, " ; ")
}

// Extract evaluates one site on the program.
func (p *Program) Extract(s Site) (val string, pos string, fn *ssa.Function, err error) {
	fn = p.Func(s.Pkg, s.Recv, s.Func)
	if fn == nil {
		return "", "", nil, fmt.Errorf("function does not resolve")
	}
	tb := p.TB(fn)
	parts := strings.SplitN(s.What, ":", 2)
	switch parts[0] {
	case "ret":
		k, _ := strconv.Atoi(parts[1])
		ret, e := successVRet(fn)
		if e != nil {
			return "", "", fn, e
		}
		if k >= len(ret.Results) {
			return "", "", fn, fmt.Errorf("no result %d", k)
		}
		return short(tb.Term(ret.Results[k]).String()), p.pos(instrPos(ret.Ret)), fn, nil
	case "arg":
		i := strings.LastIndex(parts[1], ":")
		if i < 0 {
			return "", "", fn, fmt.Errorf("bad spec")
		}
		k, _ := strconv.Atoi(parts[1][i+1:])
		c, e := nthCall(fn, parts[1][:i])
		if e != nil {
			return "", "", fn, e
		}
		cc := c.Common()
		args := cc.Args
		if cc.IsInvoke() {
			args = append([]ssa.Value{cc.Value}, args...)
		}
		if k >= len(args) {
			return "", "", fn, fmt.Errorf("no argument %d", k)
		}
		ctb := tb
		if c.Parent() != fn {
			ctb = p.TB(c.Parent())
		}
		return short(ctb.Term(args[k]).String()), p.pos(instrPos(c)), fn, nil
	case "emits":
		// emits:<index of the writer parameter>: the emission grammar of a serialiser
		k, _ := strconv.Atoi(parts[1])
		g, e := p.emissionGrammar(fn, k)
		if e != nil {
			return "", "", fn, e
		}
		return g, p.pos(fn.Pos()), fn, nil
	case "facts":
		if strings.HasPrefix(parts[1], "errret#") {
			// facts at the n-th (1-based) return that carries a non-nil error
			n, _ := strconv.Atoi(strings.TrimPrefix(parts[1], "errret#"))
			ei := errorResultIndex(fn.Signature)
			k := 0
			for _, ret := range returnsOf(fn) {
				if ei < 0 || isNilConst(resultsOf(ret)[ei]) {
					continue
				}
				k++
				if k == n {
					return sortedFacts(tb.FactsAt(ret.Block())), p.pos(instrPos(ret)), fn, nil
				}
			}
			return "", "", fn, fmt.Errorf("fewer than %d error returns", n)
		}
		if parts[1] == "ret" {
			ret, e := successVRet(fn)
			if e != nil {
				return "", "", fn, e
			}
			return sortedFacts(tb.FactsAt(ret.Block)), p.pos(instrPos(ret.Ret)), fn, nil
		}
		c, e := nthCall(fn, parts[1])
		if e != nil {
			return "", "", fn, e
		}
		ctb := tb
		if c.Parent() != fn {
			ctb = p.TB(c.Parent())
		}
		return sortedFacts(ctb.FactsAt(c.Block())), p.pos(instrPos(c)), fn, nil
	}
	return "", "", fn, fmt.Errorf("bad spec %q", s.What)
}

// recipeEquivalent: accepted alternatives of single recipes whose property only needs a weaker
// fact than textual equality.
var aeadDstRe = regexp.MustCompile(`(\(cipher\.AEAD\)\.(?:Seal|Open)\([^,]*, )Make0\([0-9]*\)`)

func recipeEquivalent(key, got, want string) bool {
	// a buffer of the specified size filled by copy (Copy#k(X,N)) may be written as an exact copy of
	// X (append([]byte(nil), X...), bytes.Clone): the length guard in front of it is a recipe of
	// its own. Only this direction: a copy into a buffer of another size stays a difference.
	if strings.Contains(want, "Copy#") && copiesAsConcat(want) == got {
		return true
	}
	// the destination an AEAD appends to: an empty slice with spare capacity is as good as nil
	if strings.Contains(got, "Make0(") && aeadDstRe.ReplaceAllString(got, "${1}nil") == aeadDstRe.ReplaceAllString(want, "${1}nil") {
		return true
	}
	// guard sets: every specified guard must be there; an additional refusal is accepted only if
	// it is one the format itself implies (listed in impliedGuards, from the specification:
	// a wrapped file key is 16 bytes + a 16-byte tag)
	if strings.HasSuffix(key, ".guards") || impliedGuards[key] != nil {
		have := map[string]bool{}
		for _, g := range strings.Split(got, " ; ") {
			have[g] = true
		}
		missing := false
		for _, g := range strings.Split(want, " ; ") {
			if !have[g] && !neverFailingGuard(g) {
				missing = true
			}
			delete(have, g)
		}
		if !missing {
			extraOK := true
			for g := range have {
				if !impliedGuards[key][g] && !libraryErrorChecked(g) && !stateOnlyGuard(g) {
					extraOK = false
				}
			}
			if extraOK {
				return true
			}
		}
	}
	switch key {
	case "plugin.ParseRecipient.name", "plugin.ParseIdentity.name":
		// lower-casing what is lower case already: behind the prefix guard (a recipe of its own)
		// the whole human-readable part is in the case of the prefix — Bech32 refuses mixed case
		if key == "plugin.ParseRecipient.name" && got == "strings.ToLower("+want+")" {
			return true
		}
		fallthrough
	case "plugin.ParseRecipient.name#slice":
		// the prefix removed by slicing after the prefix test instead of TrimPrefix (the facts
		// recipe of the same function requires the HasPrefix guard)
		if got == `Slice(bech32.Decode(P1).0, 4, _)` && want == `strings.TrimPrefix(bech32.Decode(P1).0, "age1")` {
			return true
		}
	case "Decrypt.NewReader.key":
		// the file key is the result of the identity that succeeded; whether it travels through a
		// variable that starts out nil (merged with nil) does not matter: R04.4 requires the key
		// of a successful Unwrap, or a key known to be non-nil, wherever Decrypt carries on
		if stripNilPhis(got) == stripNilPhis(want) {
			return true
		}
	case "stream.readChunk.Open.dst":
		// the plaintext buffer: an empty slice with room for a chunk that is not the ciphertext
		// buffer r.buf (decrypting in place would destroy the input of the retry-as-final Open)
		if strings.HasPrefix(got, "Slice(Field(Recv.") && strings.HasSuffix(got, "), _, 0)") && !strings.HasPrefix(got, "Slice(Field(Recv.buf)") {
			return true
		}
		if strings.HasPrefix(got, "Make0(") {
			n, err := strconv.Atoi(strings.TrimSuffix(strings.TrimPrefix(got, "Make0("), ")"))
			return err == nil && n >= 65536
		}
	}
	return false
}

// checkSites compares each site with the table.
func checkSites(p *Program, r *Result, sites []Site, prop string) {
	for _, s := range sites {
		use := false
		for _, pr := range s.Props {
			if pr == prop {
				use = true
			}
		}
		if !use {
			continue
		}
		sub := s.Pkg + "." + s.Func
		if s.Recv != "" {
			sub = "(" + s.Pkg + "." + s.Recv + ")." + s.Func
		}
		got, pos, fn, err := p.Extract(s)
		if fn != nil {
			r.Saw(fn.String())
		}
		if err != nil {
			r.Unk(sub, "recipe:"+s.Key, "", "cannot extract "+s.What+": "+err.Error())
			continue
		}
		want := specRecipe(r, s.Key)
		if strings.Contains(got, "Unknown[") || strings.Contains(got, "Mem[") {
			if got != want {
				r.Unk(sub, "recipe:"+s.Key, pos, "the construct uses an idiom the term builder does not model: "+got)
				continue
			}
		}
		if got != want && (strings.HasSuffix(s.Key, ".guards") || impliedGuards[s.Key] != nil) {
			got = p.predicateGuardsAsPattern(got)
		}
		if got != want {
			// a helper that gained an error result (streamKey returning (key, error) instead of
			// panicking): its first result is what the table calls its result, and the test of
			// its error is a refusal only where the helper itself failed
			got = p.dropAddedErrorResults(got, strings.HasSuffix(s.Key, ".guards") || impliedGuards[s.Key] != nil)
		}
		if got == want || recipeEquivalent(s.Key, got, want) {
			r.OK(sub, "recipe:"+s.Key, pos, "", Witness{Kind: "term", Pos: pos, Text: got})
		} else {
			r.Bad(sub, "recipe:"+s.Key, pos, "differs from the specification table\n   got  "+got+"\n   want "+want)
		}
	}
}

// stripNilPhis rewrites every two-way merge with nil, Phi(X, nil) or Phi(nil, X), to X.
func stripNilPhis(s string) string {
	for {
		changed := false
		for i := 0; i+4 <= len(s); i++ {
			if !strings.HasPrefix(s[i:], "Phi(") || (i > 0 && (s[i-1] == '_' || s[i-1] >= 'a' && s[i-1] <= 'z' || s[i-1] >= 'A' && s[i-1] <= 'Z')) {
				continue
			}
			// split the arguments at top level
			depth, start := 0, i+4
			var args []string
			end := -1
			inStr := false
			for j := i + 4; j < len(s); j++ {
				c := s[j]
				if inStr {
					if c == '\\' {
						j++
					} else if c == '"' {
						inStr = false
					}
					continue
				}
				switch c {
				case '"':
					inStr = true
				case '(', '[', '{':
					depth++
				case ')', ']', '}':
					if depth == 0 {
						args = append(args, s[start:j])
						end = j
					}
					depth--
				case ',':
					if depth == 0 {
						args = append(args, s[start:j])
						start = j + 2
					}
				}
				if end >= 0 {
					break
				}
			}
			if end < 0 || len(args) != 2 {
				continue
			}
			keep := ""
			if args[1] == "nil" {
				keep = args[0]
			} else if args[0] == "nil" {
				keep = args[1]
			}
			if keep == "" {
				continue
			}
			s = s[:i] + keep + s[end+1:]
			changed = true
			break
		}
		if !changed {
			return s
		}
	}
}

// copiesAsConcat rewrites every Copy#k(X,N) to Concat(X).
func copiesAsConcat(s string) string {
	for {
		i := strings.Index(s, "Copy#")
		if i < 0 {
			return s
		}
		j := i + len("Copy#")
		for j < len(s) && s[j] >= '0' && s[j] <= '9' {
			j++
		}
		if j >= len(s) || s[j] != '(' {
			return s
		}
		depth, end, lastComma := 0, -1, -1
		inStr := false
		for k := j + 1; k < len(s) && end < 0; k++ {
			c := s[k]
			if inStr {
				if c == '\\' {
					k++
				} else if c == '"' {
					inStr = false
				}
				continue
			}
			switch c {
			case '"':
				inStr = true
			case '(', '[', '{':
				depth++
			case ')', ']', '}':
				if depth == 0 {
					end = k
				}
				depth--
			case ',':
				if depth == 0 {
					lastComma = k
				}
			}
		}
		if end < 0 || lastComma < 0 {
			return s
		}
		s = s[:i] + "Concat(" + s[j+1:lastComma] + ")" + s[end+1:]
	}
}

// impliedGuards: refusals that follow from the age v1 format for every file the specification
// allows, so that making them explicit (earlier) changes nothing for valid input.
var impliedGuards = map[string]map[string]bool{
	// SetMaxWorkFactor refuses values above 30, so `<= maxWorkFactor` already says `<= 30`
	"ScryptIdentity.unwrap.guards":  {`len(Field(P1.Body)) == 32`: true, `strconv.Atoi(Elem(Field(P1.Args), 1)).0 <= 30`: true,
		// a canonical decimal (no leading zero: the pattern guard) with more digits than the maximum is larger than it
		`len(Elem(Field(P1.Args), 1)) <= len(strconv.Itoa(Field(Recv.maxWorkFactor)))`: true},
	"X25519Identity.unwrap.guards":  {`len(Field(P1.Body)) == 32`: true},
	"Ed25519Identity.unwrap.guards": {`len(Field(P1.Body)) == 32`: true},
	// native keys are 32 bytes (the constructors refuse any other length themselves)
	"ParseX25519Identity.hrp":  {`len(bech32.Decode(P1).1) == 32`: true},
	"ParseX25519Recipient.hrp": {`len(bech32.Decode(P1).1) == 32`: true},
	// an RSA-OAEP ciphertext is exactly as long as the modulus
	"RSAIdentity.unwrap.guards": {`len(Field(P1.Body)) == (*rsa.PublicKey).Size(Field(Field(Recv.k).PublicKey))`: true},
}

// libraryErrorChecked: the extra guard is `<call of a function outside the module>.1 == nil` — an
// error of a library call that the specified code ignores is looked at. That can only refuse
// where the library itself failed.
func libraryErrorChecked(g string) bool {
	if !strings.HasSuffix(g, ").1 == nil") {
		return false
	}
	i := strings.IndexByte(g, '(')
	if i <= 0 {
		return false
	}
	name := g[:i]
	dot := strings.IndexByte(name, '.')
	if dot <= 0 {
		return false
	}
	switch name[:dot] {
	case "age", "agessh", "armor", "format", "stream", "bech32", "plugin", "main":
		return false
	}
	for _, c := range name {
		if !(c == '.' || c >= 'a' && c <= 'z' || c >= 'A' && c <= 'Z' || c >= '0' && c <= '9' || c == '_') {
			return false
		}
	}
	return true
}

// stateOnlyGuard: the extra guard looks at the receiver's own configuration only (no parameter,
// hence nothing of the file, key string or message being processed): an identity or recipient
// that refuses to work when it is not initialised.
func stateOnlyGuard(g string) bool {
	if !strings.Contains(g, "Recv") {
		return false
	}
	for i := 0; i+1 < len(g); i++ {
		if g[i] == 'P' && g[i+1] >= '1' && g[i+1] <= '9' && (i == 0 || !(g[i-1] >= 'a' && g[i-1] <= 'z' || g[i-1] >= 'A' && g[i-1] <= 'Z' || g[i-1] == '.')) {
			return false
		}
	}
	return true
}

// neverFailingGuard: a specified guard that tests the error of a call which cannot fail (reading
// 32 bytes from HKDF). Its absence at a site changes nothing — the value may have been computed,
// and the error looked at, elsewhere (a constructor caching the tweak).
func neverFailingGuard(g string) bool {
	return strings.HasPrefix(g, "io.ReadFull(hkdf.New(") && strings.HasSuffix(g, ",32)).1 == nil")
}

// errorAddedFuncs: module functions (short names as they appear in recipes) whose pinned
// signature had results (T...) and whose current signature is (T..., error).
func (p *Program) errorAddedFuncs() []string {
	ks := loadShapes()
	var out []string
	for _, fn := range p.Funcs {
		if fn.Parent() != nil || fn.Signature.Recv() != nil {
			continue
		}
		pinned, ok := ks.Funcs[fn.String()]
		if !ok {
			continue
		}
		cur := sigShape(fn.Signature)
		if cur == pinned || !strings.HasSuffix(cur, ", error)") {
			continue
		}
		if strings.TrimSuffix(cur, ", error)")+")" == pinned {
			out = append(out, short(fn.String()))
		}
	}
	return out
}

// dropAddedErrorResults rewrites `f(args).0` to `f(args)` for those functions and, in guard
// sets, removes the guard `f(args).1 == nil`.
func (p *Program) dropAddedErrorResults(got string, guards bool) string {
	fs := p.errorAddedFuncs()
	if len(fs) == 0 {
		return got
	}
	closing := func(s string, open int) int {
		d := 0
		for i := open; i < len(s); i++ {
			switch s[i] {
			case '(':
				d++
			case ')':
				d--
				if d == 0 {
					return i
				}
			}
		}
		return -1
	}
	if guards {
		var keep []string
		for _, g := range strings.Split(got, " ; ") {
			drop := false
			for _, f := range fs {
				if strings.HasPrefix(g, f+"(") && strings.HasSuffix(g, ").1 == nil") && closing(g, len(f)) == len(g)-len(").1 == nil") {
					drop = true
				}
			}
			if !drop {
				keep = append(keep, g)
			}
		}
		got = strings.Join(keep, " ; ")
	}
	for _, f := range fs {
		from := 0
		for {
			i := strings.Index(got[from:], f+"(")
			if i < 0 {
				break
			}
			i += from
			j := closing(got, i+len(f))
			if j < 0 {
				break
			}
			if strings.HasPrefix(got[j+1:], ".0") {
				got = got[:j+1] + got[j+3:]
			}
			from = i + len(f)
		}
	}
	return got
}

// predicateGuardsAsPattern: a guard `f(X)` with f a module predicate decided to accept exactly
// the canonical positive decimals (canonicalDecimalPredicate) stands for the specified pattern
// match on X; what the predicate's own body contributes to the facts when it is spliced in (X not
// empty, first byte not '0', the loop over X run to its end) is implied by it.
func (p *Program) predicateGuardsAsPattern(got string) string {
	gs := strings.Split(got, " ; ")
	x := ""
	for i, g := range gs {
		j := strings.IndexByte(g, '(')
		if j <= 0 || !strings.HasSuffix(g, ")") || strings.ContainsAny(g[:j], " =<>!") {
			continue
		}
		arg := g[j+1 : len(g)-1]
		for _, fn := range p.Funcs {
			if fn.Parent() == nil && short(fn.String()) == g[:j] && p.canonicalDecimalPredicate(fn) {
				x = arg
				gs[i] = `(*regexp.Regexp).MatchString(regexp.MustCompile("^[1-9][0-9]*$"), ` + arg + `)`
			}
		}
	}
	if x == "" {
		return got
	}
	implied := map[string]bool{
		"len(" + x + ") != 0": true, "len(" + x + ") >= 1": true, x + ` != ""`: true,
		"Elem(" + x + ", 0) != 48": true, "Elem(" + x + ", 0) >= 49": true, "Elem(" + x + ", 0) <= 57": true,
	}
	var keep []string
	for _, g := range gs {
		if implied[g] || (strings.HasPrefix(g, "(RangeIdx#") && strings.HasSuffix(g, ") >= len("+x+")")) {
			continue
		}
		keep = append(keep, g)
	}
	sort.Strings(keep)
	return strings.Join(keep, " ; ")
}
