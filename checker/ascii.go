package main

import (
	"strings"

	"golang.org/x/tools/go/ssa"
)

// asciiGuard looks for a loop over all elements of v (bytes of a string or
// slice, or runes of a string) that returns an error unless every element is
// <= 127, and whose exit dominates instruction at. It returns the loop.
func (p *Program) asciiGuard(fn *ssa.Function, v ssa.Value, at ssa.Instruction) *RangeLoop {
	tb := p.TB(fn)
	vKey := tb.Term(v).Key()
	// a part, a conversion or a case mapping of an ASCII string is ASCII
	switch x := v.(type) {
	case *ssa.Slice:
		if isStringType(x.X.Type()) || isSliceType(x.X) {
			if l := p.asciiGuard(fn, x.X, at); l != nil {
				return l
			}
		}
	case *ssa.Convert:
		if l := p.asciiGuard(fn, x.X, at); l != nil {
			return l
		}
	case *ssa.Call:
		if caseMappers[calleeName(&x.Call)] && len(x.Call.Args) == 1 {
			if l := p.asciiGuard(fn, x.Call.Args[0], at); l != nil {
				return l
			}
		}
	}
	// the same test made by a library call with a predicate function: behind
	// `strings.IndexFunc(v, notASCII) < 0` every rune of v passed the predicate
	if ep := p.elemPredicateCall(fn, func(x ssa.Value) bool { return tb.Term(x).Key() == vKey }); ep != nil && strings.HasSuffix(calleeName(&ep.Call.Call), "IndexFunc") {
		within := true
		pts := append([]int64{126, 127, 128, 129, 0xff, 0x100, 0x212a}, ep.Points()...)
		for _, c := range pts {
			carries, decided := ep.Carries(c)
			if !decided || (carries && c > 127) {
				within = false
				break
			}
		}
		if within {
			callKey := tb.Term(ep.Call).Key()
			_, none := findFact(tb.FactsAt(at.Block()), func(a Atom) bool {
				if a.Kind != "cmp" || a.X == nil || a.X.Key() != callKey {
					return false
				}
				k, isK := intConst(a.Y)
				return isK && (a.Op == "<=" && k == -1 || a.Op == "==" && k == -1 || a.Op == "<" && k == 0)
			})
			if none {
				return &RangeLoop{Kind: "predicate-call", Over: v}
			}
		}
	}
	for _, l := range rangeLoops(fn) {
		if tb.Term(l.Over).Key() != vKey {
			continue
		}
		if !p.completedAt(l, at.Block()) {
			continue
		}
		// element symbol inside the loop
		var elemKey string
		switch l.Kind {
		case "rangeiter":
			elemKey = "" // Next(..).2, matched below
		default:
			elemKey = "Elem(" + vKey + ", " + tb.Term(l.Index).Key() + ")"
		}
		// every back edge must carry the fact elem <= K (K <= 127)
		ok := true
		nBack := 0
		for _, pr := range l.Header.Preds {
			if !l.blocks()[pr] || pr == l.Header && len(l.Header.Preds) == 1 {
				continue
			}
			if !l.Header.Dominates(pr) {
				continue
			}
			nBack++
			facts := tb.FactsAt(pr)
			for k, s := range pr.Succs {
				if s == l.Header {
					if _, isIf := pr.Instrs[len(pr.Instrs)-1].(*ssa.If); isIf {
						facts = tb.FactsOnEdge(pr, k)
					}
				}
			}
			_, has := findFact(facts, func(a Atom) bool {
				if a.Kind != "cmp" || a.Op != "<=" {
					return false
				}
				k, isK := intConst(a.Y)
				if !isK || k > 127 {
					return false
				}
				xk := a.X.Key()
				if l.Kind == "rangeiter" {
					return strings.HasPrefix(xk, "Next(Range("+vKey+")).2") || xk == "Next(Range("+vKey+")).2"
				}
				return xk == elemKey
			})
			if !has {
				ok = false
			}
		}
		if !ok || nBack == 0 {
			continue
		}
		// in-loop returns must carry an error
		for _, ret := range returnsOf(fn) {
			if l.inLoop(ret.Block()) && !l.blocks()[ret.Block()] {
				ei := errorResultIndex(fn.Signature)
				if ei < 0 || isNilConst(resultsOf(ret)[ei]) {
					ok = false
				}
			}
		}
		if ok {
			return l
		}
	}
	return nil
}

var caseMappers = map[string]bool{
	"strings.ToLower": true, "strings.ToUpper": true, "strings.ToTitle": true,
	"bytes.ToLower": true, "bytes.ToUpper": true,
}
