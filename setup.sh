#!/bin/sh
# Builds /verif/bin/agecheck from /verif/checker, offline, from the module cache.
set -e
cd "$(dirname "$0")/checker"
export GOFLAGS=-mod=mod GOPROXY=off GOSUMDB=off GOTOOLCHAIN=local GOWORK=off
mkdir -p ../bin ../out ../evidence
go build -o ../bin/agecheck .
