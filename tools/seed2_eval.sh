#!/bin/bash
# evaluates the second round of seeded changes: /tmp/seed2_<Cxx>_out/<n> in worktree /tmp/seed_<Cxx>
# for each: demo on clean tree (must pass), build+suite with patch (must pass), demo with patch (must fail), checks
export GOFLAGS=-mod=mod GOPROXY=off GOSUMDB=off
one() {
  P=$1; W=/tmp/seed_$P
  for O in /tmp/seed2_${P}_out/[123]; do
    [ -f $O/patch.diff ] || continue
    N=$(basename $O); R=/tmp/seed2_results/${P}_$N.txt
    [ -f $R ] && [ -z "$FORCE" ] && continue
    {
    cd $W; git checkout -q -- . ; git clean -fdq
    DEMO_REL=$(grep -o '[A-Za-z0-9_./-]*\.go' $O/demo_path.txt | grep -v '^demo_test.go$' | head -1 | sed 's#^\./##')
    DEMO_CMD=$(grep -m1 'go test' $O/demo_path.txt | sed 's/^[^g]*go test/go test/; s/`//g')
    if [ -z "$DEMO_REL" ] || [ -z "$DEMO_CMD" ]; then echo "no demo path/cmd"; fi
    mkdir -p $(dirname $DEMO_REL); cp $O/demo_test.go $DEMO_REL
    ( eval "$DEMO_CMD" ) > $R.demo_clean 2>&1; RC1=$?
    rm -f $DEMO_REL
    if ! git apply $O/patch.diff; then echo "PATCH DOES NOT APPLY"; fi
    go build ./... > $R.build 2>&1; RCB=$?
    go test -vet=off -count=1 ./... > $R.suite 2>&1; RC2=$?
    cp $O/demo_test.go $DEMO_REL
    ( eval "$DEMO_CMD" ) > $R.demo_patched 2>&1; RC3=$?
    rm -f $DEMO_REL
    grep -q 'no tests to run\|no test files' $R.demo_clean && echo "WARNING: demo did not run"
    echo "demo_clean_rc=$RC1 build_rc=$RCB suite_rc=$RC2 demo_patched_rc=$RC3 (expected 0 0 0 nonzero)"
    (cd /verif && ./bin/agecheck -repo $W -prop all 2>&1) | grep -v WARNING > $R.checks
    echo "target: $(grep -c "^VIOLATION property=$P" $R.checks) all: $(grep -o 'VIOLATION property=C[0-9]*' $R.checks | sort | uniq -c | tr '\n' ' ')"
    grep -A1 "VIOLATION property=$P" $R.checks | grep '^  ' | cut -c1-300 | head -4
    cd $W; git checkout -q -- . ; git clean -fdq
    } > $R 2>&1
  done
}
export -f one
mkdir -p /tmp/seed2_results
for i in $(seq -w 1 20); do echo C$i; done | xargs -P 10 -I{} bash -c 'one {}'
for R in /tmp/seed2_results/C??_?.txt; do
  printf "%s: %s | %s\n" $(basename $R .txt) "$(grep -o 'demo_clean_rc=.*patched_rc=[0-9]*' $R)" "$(grep '^target:' $R)"
done
