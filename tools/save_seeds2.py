#!/usr/bin/env python3
# copies verified seeded changes from /tmp/seed_*_out into /verif/seeded/<id>/ with meta.json
import os, re, json, glob, shutil
for d in sorted(glob.glob('/tmp/seed2_C*_out/[123]')):
    m = re.match(r'/tmp/seed2_(C\d+)_out/(\d)', d)
    prop, n = m.group(1), m.group(2)
    res = '/tmp/seed2_results/%s_%s.txt' % (prop, n)
    if not os.path.exists(res): continue
    txt = open(res).read()
    rc = re.search(r'demo_clean_rc=(\d+) build_rc=(\d+) suite_rc=(\d+) demo_patched_rc=(\d+)', txt)
    if not rc: continue
    ok = rc.group(1) == '0' and rc.group(2) == '0' and rc.group(3) == '0' and rc.group(4) != '0'
    if not ok:
        print('NOT CONFIRMED', prop, n, rc.groups()); continue
    sid = "S2-%s-%s" % (prop, n)
    out = '/verif/seeded/' + sid
    os.makedirs(out, exist_ok=True)
    shutil.copy(d + '/patch.diff', out + '/patch.diff')
    shutil.copy(d + '/demo_test.go', out + '/demo_test.go.txt')
    shutil.copy(d + '/demo_path.txt', out + '/demo_path.txt')
    notes = open(d + '/notes.md').read() if os.path.exists(d + '/notes.md') else ''
    open(out + '/notes.md', 'w').write(notes)
    caught = sorted(set(re.findall(r'VIOLATION property=(C\d+)', txt)))
    rules = sorted(set(re.findall(r'^\s+(?:violated|undecided|machinery) (R[0-9A-Za-z.\-]+)', txt, re.M)))
    meta = {
        "id": sid, "property": prop,
        "origin": "written by an independent sub-agent that saw only the property text and a scratch worktree of /repo (nothing from /verif)",
        "needs_to_manifest": (re.search(r'(?is)(trigger|manifest|needs)[^\n]*\n(.{0,600})', notes) or [None, None, ''])[2].strip()[:600] if notes else '',
        "confirmed": {
            "how": "tools/seed2_eval.sh in a scratch worktree of /repo at HEAD: demo on the clean tree, then patch applied: go build ./..., full suite go test -vet=off -count=1 ./..., demo again",
            "demo_on_clean_tree": "pass", "build_with_patch": "ok", "full_suite_with_patch": "pass", "demo_with_patch": "FAIL",
        },
        "checks": {"command": "./bin/agecheck -repo <patched worktree> -prop all (quick tier)", "properties_reporting_violation": caught, "rules": rules,
                   "caught_by_target_property": prop in caught},
    }
    json.dump(meta, open(out + '/meta.json', 'w'), indent=1)
    print(sid, 'caught by', caught)
