#!/usr/bin/env python3
import json, jsonschema, glob, sys
jsonschema.validate(json.load(open('/verif/MANIFEST.json')), json.load(open('/root/.vp/MANIFEST.schema.json')))
es = json.load(open('/root/.vp/EVIDENCE.schema.json'))
for f in sorted(glob.glob('/verif/evidence/*.json')):
    jsonschema.validate(json.load(open(f)), es)
print('manifest + %d evidence files valid' % len(glob.glob('/verif/evidence/*.json')))
