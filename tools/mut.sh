#!/bin/sh
# usage: mut.sh <property> <file> <python-regex-old> <new>   (applies, builds, runs check, reverts)
prop=$1; file=$2; old=$3; new=$4
cd /repo || exit 2
python3 - "$file" "$old" "$new" <<'PY'
import sys,re
f,old,new=sys.argv[1:4]
s=open(f).read()
n=len(re.findall(old,s,flags=re.S))
if n!=1:
    print("MUT: pattern matched",n,"times"); sys.exit(3)
open(f,'w').write(re.sub(old,lambda m:new,s,count=1,flags=re.S))
PY
rc=$?
if [ $rc -eq 0 ]; then
  if go build ./... 2>&1 | grep -v WARNING | head -5 | grep . ; then echo "MUT: does not build"; else
  (cd /verif && ./bin/agecheck -prop $prop 2>&1 | grep -v WARNING | cut -c1-${MUTW:-400})
  fi
fi
git -C /repo checkout -- . 
