#!/bin/bash
# quick regression: every seeded change must still be reported by its target property.
# usage: seeds_check.sh [worktree-prefix]   (scratch worktrees of /repo at HEAD: <prefix>C01 .. <prefix>C20)
PFX=${1:-/tmp/seed_}
one() {
  P=$1; W=${PFX}$P
  for d in /verif/seeded/S-$P-* /verif/seeded/S2-$P-* /verif/seeded/S3-$P-* /verif/seeded/S4-$P-* /verif/seeded/S5-$P-* /verif/seeded/S6-$P-* /verif/seeded/S7-$P-* /verif/seeded/S8-$P-* /verif/seeded/S9-$P-* /verif/seeded/S10-$P-* /verif/seeded/S11-$P-* /verif/seeded/S13-$P-*; do [ -d $d ] || continue
    id=$(basename $d)
    git -C $W checkout -q -- . ; git -C $W clean -fdq
    if ! git -C $W apply $d/patch.diff 2>/dev/null; then echo "$id: PATCH DOES NOT APPLY"; continue; fi
    out=$(cd /verif && ./bin/agecheck -repo $W -prop $P 2>&1 | grep -v WARNING)
    n=$(echo "$out" | grep -c "^VIOLATION property=$P")
    rules=$(echo "$out" | grep -A1 '^VIOLATION' | grep -o '^  [a-z]* R[0-9A-Za-z.\-]*' | sort -u | tr -s ' \n' ' ')
    if [ "$n" -gt 0 ]; then echo "$id: caught ($n) $rules"; else echo "$id: MISSED"; fi
    git -C $W checkout -q -- . ; git -C $W clean -fdq
  done
}
export -f one; export PFX
for i in $(seq -w 1 20); do echo C$i; done | xargs -P 8 -I{} bash -c 'one {}' | sort
