#!/bin/bash
# re-confirms kept seeded changes against /repo's current HEAD, from /verif/seeded/<id>/ alone:
# demo on the clean tree (must pass), patch applies, go build, full suite (must pass), demo with the patch (must fail).
# usage: seed_confirm.sh <worktree> <id> [<id> ...]     (worktree: scratch worktree of /repo at HEAD)
export GOFLAGS=-mod=mod GOPROXY=off GOSUMDB=off
W=$1; shift
for id in "$@"; do
  O=/verif/seeded/$id
  cd $W || exit 2
  git checkout -q -- . ; git clean -fdq
  DEMO_REL=$(grep -o '[A-Za-z0-9_./-]*\.go' $O/demo_path.txt | grep -v '^demo_test.go$' | head -1 | sed 's#^\./##')
  DEMO_CMD=$(grep -m1 'go test' $O/demo_path.txt | sed 's/^[^g]*go test/go test/; s/`//g')
  [ -z "$DEMO_REL" ] && { echo "$id: no demo path"; continue; }
  mkdir -p $(dirname $DEMO_REL); cp $O/demo_test.go.txt $DEMO_REL
  ( eval "$DEMO_CMD" ) > /tmp/sc_demo_clean.$$ 2>&1; RC1=$?
  grep -q 'no tests to run\|no test files' /tmp/sc_demo_clean.$$ && RC1="norun"
  rm -f $DEMO_REL
  if ! git apply $O/patch.diff; then echo "$id: PATCH DOES NOT APPLY"; continue; fi
  go build ./... > /tmp/sc_build.$$ 2>&1; RCB=$?
  RC2=1; for t in 1 2 3; do go test -vet=off -count=1 ./... > /tmp/sc_suite.$$ 2>&1 && { RC2=0; break; }; done
  cp $O/demo_test.go.txt $DEMO_REL
  ( eval "$DEMO_CMD" ) > /tmp/sc_demo_patched.$$ 2>&1; RC3=$?
  rm -f $DEMO_REL
  echo "$id: demo_clean_rc=$RC1 build_rc=$RCB suite_rc=$RC2 demo_patched_rc=$RC3 (expected 0 0 0 nonzero)"
  git checkout -q -- . ; git clean -fdq
done
rm -f /tmp/sc_*.$$
