#!/bin/bash
# usage: refac_eval.sh <worktree> <outdir>  — applies each behaviour-preserving patch and lists NEW alarms
W=$1; O=$2
cd $W; git checkout -q -- . ; git clean -fdq
cd /verif; ./bin/agecheck -repo $W -prop all 2>&1 | grep -v WARNING | grep -A1 '^VIOLATION' | grep '^  ' | sed 's/ at [^ ]* (/ (/' | cut -c1-160 | sort -u > /tmp/refac_base.txt
for n in 1 2 3 4; do
  [ -f $O/$n/patch.diff ] || continue
  cd $W; git checkout -q -- . ; git clean -fdq
  git apply $O/$n/patch.diff || { echo "$O/$n: patch does not apply"; continue; }
  cd /verif; ./bin/agecheck -repo $W -prop all 2>&1 | grep -v WARNING > /tmp/refac_run.txt
  grep -A1 '^VIOLATION' /tmp/refac_run.txt | grep '^  ' | sed 's/ at [^ ]* (/ (/' | cut -c1-160 | sort -u > /tmp/refac_new.txt
  NEW=$(comm -13 /tmp/refac_base.txt /tmp/refac_new.txt | wc -l)
  echo "== $O/$n: $NEW new alarm(s)"
  grep -A1 '^VIOLATION' /tmp/refac_run.txt | grep '^  ' | cut -c1-${REFW:-420} > /tmp/refac_full.txt
  comm -13 /tmp/refac_base.txt /tmp/refac_new.txt | while read -r l; do key=$(echo "$l" | cut -c1-90); grep -F -- "$(echo "$l" | cut -c1-60)" /tmp/refac_full.txt | head -1; done
  cd $W; git checkout -q -- . ; git clean -fdq
done
