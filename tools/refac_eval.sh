#!/bin/bash
# usage: refac_eval.sh <worktree> <outdir>  — applies each behaviour-preserving patch and lists NEW alarms
W=$1; O=$2; T=$(mktemp -d /tmp/refac_eval.XXXXXX)
cd $W; git checkout -q -- . ; git clean -fdq
cd /verif; ./bin/agecheck -repo $W -prop all 2>&1 | grep -v WARNING | grep -A1 '^VIOLATION' | grep '^  ' | sed 's/ at [^ ]* (/ (/' | cut -c1-160 | sort -u > $T/base.txt
for n in 1 2 3 4; do
  [ -f $O/$n/patch.diff ] || continue
  cd $W; git checkout -q -- . ; git clean -fdq
  git apply $O/$n/patch.diff || { echo "$O/$n: patch does not apply"; continue; }
  cd /verif; ./bin/agecheck -repo $W -prop all 2>&1 | grep -v WARNING > $T/run.txt
  grep -q 'normalisation rejected' $T/run.txt && echo "   (normalisation rejected in $O/$n: $(grep -m1 -A2 'normalisation rejected' $T/run.txt | tr '\n' ' ' | cut -c1-300))"
  grep -A1 '^VIOLATION' $T/run.txt | grep '^  ' | sed 's/ at [^ ]* (/ (/' | cut -c1-160 | sort -u > $T/new.txt
  NEW=$(comm -13 $T/base.txt $T/new.txt | wc -l)
  echo "== $O/$n: $NEW new alarm(s)"
  grep -A1 '^VIOLATION' $T/run.txt | grep '^  ' | cut -c1-${REFW:-420} > $T/full.txt
  comm -13 $T/base.txt $T/new.txt | while read -r l; do grep -F -- "$(echo "$l" | cut -c1-60)" $T/full.txt | head -1; done
  cd $W; git checkout -q -- . ; git clean -fdq
done
rm -rf $T
