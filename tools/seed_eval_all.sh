#!/bin/bash
# evaluates every delivered seed that has not been evaluated yet
mkdir -p /tmp/seed_results
for d in /tmp/seed_C*_out/[12]; do
  [ -f $d/patch.diff ] || continue
  P=$(echo $d | sed 's#/tmp/seed_\(C[0-9]*\)_out/.*#\1#'); N=$(basename $d)
  R=/tmp/seed_results/${P}_$N.txt
  [ -f $R ] && [ -z "$FORCE" ] && continue
  SEEDN=10 /verif/tools/seed_eval.sh $P $N > $R 2>&1
done
for R in /tmp/seed_results/*.txt; do
  printf "%s: %s | %s\n" $(basename $R .txt) "$(grep -o 'demo_clean_rc=.*patched_rc=[0-9]*' $R)" "$(grep 'VIOLATION property' $R | tr -s ' ')"
done
