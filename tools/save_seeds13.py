#!/usr/bin/env python3
# copies the verified round-13 changes from /tmp/r13_C*_out into /verif/seeded: breaking ones (1,2) as
# seeded/S3-Cxx-n/, property-preserving ones (3,4) as seeded/neg/N3-xx-n.diff
import os, re, json, glob, shutil
for d in sorted(glob.glob('/tmp/r13_C*_out/[123]')):
    m = re.match(r'/tmp/r13_(C\d+)_out/(\d)', d)
    prop, n = m.group(1), int(m.group(2))
    res = '/tmp/r13_results/%s_%d.txt' % (prop, n)
    if not os.path.exists(res): print('no result', d); continue
    txt = open(res).read()
    rc = re.search(r'demo_clean_rc=(\S+) build_rc=(\d+) suite_rc=(\d+) demo_patched_rc=(\S+)', txt)
    if not rc: print('no rc', d); continue
    if n >= 4:
        if rc.group(2) == '0' and rc.group(3) == '0':
            shutil.copy(d + '/patch.diff', '/verif/seeded/neg/N13-%s-%d.diff' % (prop[1:], n))
        else:
            print('NEG NOT CONFIRMED', prop, n, rc.groups())
        continue
    ok = rc.group(1) == '0' and rc.group(2) == '0' and rc.group(3) == '0' and rc.group(4) not in ('0', '-')
    if not ok:
        print('NOT CONFIRMED', prop, n, rc.groups()); continue
    sid = "S13-%s-%d" % (prop, n)
    out = '/verif/seeded/' + sid
    os.makedirs(out, exist_ok=True)
    shutil.copy(d + '/patch.diff', out + '/patch.diff')
    shutil.copy(d + '/demo_test.go', out + '/demo_test.go.txt')
    shutil.copy(d + '/demo_path.txt', out + '/demo_path.txt')
    notes = open(d + '/notes.md').read() if os.path.exists(d + '/notes.md') else ''
    open(out + '/notes.md', 'w').write(notes)
    meta = {
        "id": sid, "property": prop,
        "origin": "written by an independent sub-agent that saw only the property text and a scratch worktree of /repo (nothing from /verif)",
        "needs_to_manifest": (re.search(r'(?is)(trigger|manifest|needs)[^\n]*\n(.{0,600})', notes) or [None, None, ''])[2].strip()[:600] if notes else '',
        "confirmed": {
            "how": "tools/r6_eval.sh in a scratch worktree of /repo at HEAD: demo on the clean tree, then patch applied: go build ./..., full suite go test -vet=off -count=1 ./..., demo again",
            "demo_on_clean_tree": "pass", "build_with_patch": "ok", "full_suite_with_patch": "pass", "demo_with_patch": "FAIL",
        },
        "checks": {"command": "./bin/agecheck -repo <patched worktree> -prop <target> (quick tier); re-run by tools/seeds_check.sh"},
    }
    json.dump(meta, open(out + '/meta.json', 'w'), indent=1)
    print(sid, 'saved')
