#!/bin/bash
# usage: neg_one.sh N2-05-2 [width]  — alarms of one negative control (vs. nothing: baseline assumed clean)
id=$1; G=$(echo $id | sed 's/.*-\([0-9][0-9]\)-[0-9]*$/\1/'); W=/tmp/seed_C$G
git -C $W checkout -q -- . ; git -C $W clean -fdq
git -C $W apply /verif/seeded/neg/$id.diff || exit 1
(cd /verif && ./bin/agecheck -repo $W -prop all 2>&1) | grep -v WARNING | grep -A3 '^VIOLATION\|normalisation rejected' | grep -v '^--\|^VIOLATION' | sed 's/\[linux.amd64\] //' | cut -c1-${2:-600} | sort | uniq -c | sort -rn
git -C $W checkout -q -- . ; git -C $W clean -fdq
