#!/bin/bash
# usage: r3_one.sh Cxx n [width]  — alarms of one round-3 patch (applied to /tmp/seed_Cxx)
P=$1; N=$2; W=/tmp/seed_$P
git -C $W checkout -q -- . ; git -C $W clean -fdq
git -C $W apply /tmp/r4_${P}_out/$N/patch.diff || exit 1
(cd /verif && ./bin/agecheck -repo $W -prop all 2>&1) | grep -v WARNING | grep -A3 '^VIOLATION\|normalisation rejected' | grep -v '^--\|^VIOLATION' | sed 's/\[linux.amd64\] //' | cut -c1-${3:-500} | sort | uniq -c | sort -rn
[ -z "$KEEP" ] && { git -C $W checkout -q -- . ; git -C $W clean -fdq; }
