#!/bin/bash
# alarms of the round-3 property-preserving patches (3,4 of each property); usage: r3_neg.sh [width]
one() { P=$1; for N in 3 4; do
  W=/tmp/seed_$P; git -C $W checkout -q -- . ; git -C $W clean -fdq
  git -C $W apply /tmp/r3_${P}_out/$N/patch.diff 2>/dev/null || { echo "== ${P}_$N: patch does not apply"; continue; }
  (cd /verif && ./bin/agecheck -repo $W -prop all 2>&1) | grep -v WARNING > /tmp/r3_neg_${P}_$N.txt
  C=$(grep -c '^VIOLATION' /tmp/r3_neg_${P}_$N.txt); echo "== ${P}_$N: $C alarm(s) $(grep -c 'normalisation rejected' /tmp/r3_neg_${P}_$N.txt | sed 's/^0$//; s/^[1-9].*/(normalisation rejected)/')"
  git -C $W checkout -q -- . ; git -C $W clean -fdq
done; }
export -f one
for i in $(seq -w 1 20); do echo C$i; done | xargs -P 10 -I{} bash -c 'one {}' | sort > /tmp/r3_neg_summary.txt
awk '{s+=$3; if ($3>0) n++} END {print NR" patches, "n+0" with alarms, "s+0" alarms"}' /tmp/r3_neg_summary.txt
awk '$3>0' /tmp/r3_neg_summary.txt | tr '\n' ' '; echo
cat /tmp/r3_neg_C??_[34].txt | grep -A1 '^VIOLATION' | grep -o '^  [a-z]* R[0-9A-Za-z.\-]*' | sort | uniq -c | sort -rn | head -${1:-30}
