#!/bin/bash
# Negative controls: every behaviour-preserving patch under /verif/seeded/neg must raise no alarm
# that the clean worktree does not raise.  usage: neg_check.sh [worktree-prefix] [pattern]
# (scratch worktrees of /repo at HEAD: <prefix>C01 .. ; group NN of N-NN-k.diff uses <prefix>CNN)
PFX=${1:-/tmp/seed_}; PAT=${2:-N-}
group() {
  G=$1; W=${PFX}C$G; T=$(mktemp -d /tmp/negchk.XXXXXX)
  git -C $W checkout -q -- . ; git -C $W clean -fdq
  (cd /verif && ./bin/agecheck -repo $W -prop all 2>&1) | grep -v WARNING | grep -A1 '^VIOLATION' | grep '^  ' | sed 's/ at [^ ]* (/ (/' | cut -c1-160 | sort -u > $T/base.txt
  for f in /verif/seeded/neg/${PAT}*$G-*.diff /verif/seeded/neg/${PAT}$G-*.diff; do
    [ -f "$f" ] || continue
    id=$(basename $f .diff)
    case " $SEEN " in *" $id "*) continue;; esac; SEEN="$SEEN $id"
    git -C $W checkout -q -- . ; git -C $W clean -fdq
    git -C $W apply $f 2>/dev/null || { echo "== $id: patch does not apply"; continue; }
    (cd /verif && ./bin/agecheck -repo $W -prop all 2>&1) | grep -v WARNING > $T/run.txt
    grep -q 'normalisation rejected' $T/run.txt && echo "   ($id: normalisation rejected: $(grep -m1 -A2 'normalisation rejected' $T/run.txt | tr '\n' ' ' | cut -c1-300))"
    grep -A1 '^VIOLATION' $T/run.txt | grep '^  ' | sed 's/ at [^ ]* (/ (/' | cut -c1-160 | sort -u > $T/new.txt
    NEW=$(comm -13 $T/base.txt $T/new.txt | wc -l)
    echo "== $id: $NEW new alarm(s)"
    grep -A1 '^VIOLATION' $T/run.txt | grep '^  ' | cut -c1-${REFW:-300} > $T/full.txt
    comm -13 $T/base.txt $T/new.txt | while read -r l; do grep -F -- "$(echo "$l" | cut -c1-60)" $T/full.txt | head -1; done
  done
  git -C $W checkout -q -- . ; git -C $W clean -fdq
  rm -rf $T
}
export -f group; export PFX PAT REFW
ls /verif/seeded/neg/${PAT}*.diff | sed 's/.*-\([0-9][0-9]\)-[0-9]*\.diff/\1/' | sort -u | xargs -P 10 -I{} bash -c 'group {}' > /tmp/neg_check.txt 2>&1
grep '^==' /tmp/neg_check.txt | sort | awk '{s+=$3; if ($3>0) n++} END {print NR" patches, "n+0" with alarms, "s+0" alarms"}'
grep '^==' /tmp/neg_check.txt | awk '$3!="0"' | sort | tr '\n' ' '; echo
grep -o '^  [a-z]* R[0-9A-Za-z.\-]*' /tmp/neg_check.txt | sort | uniq -c | sort -rn | head -25
