#!/bin/bash
# runs every refactoring patch (9 sets in parallel) and prints per-patch new alarm counts plus a per-rule summary
for i in 01 02 03 04 05 06 07 08 09; do
  ( REFW=${REFW:-300} /verif/tools/refac_eval.sh /tmp/seed_C$i /tmp/refac_${i}_out > /tmp/refac_all_$i.txt 2>&1 ) &
done
wait
cat /tmp/refac_all_0?.txt > /tmp/refac_all.txt
grep '^==' /tmp/refac_all.txt | awk '{s+=$3; if ($3>0) n++} END {print NR" patches, "n" with alarms, "s" alarms"}'
grep '^==' /tmp/refac_all.txt | awk '$3>0' | tr '\n' ' '; echo
grep -o '^  [a-z]* R[0-9A-Za-z.\-]*' /tmp/refac_all.txt | sort | uniq -c | sort -rn | head -${1:-25}
