#!/usr/bin/env python3
# usage: spec_set.py recipes|constants key value   (developer helper; keeps key order)
import json,sys
t,k,v=sys.argv[1:4]
p='/verif/spec/%s.json'%t
d=json.load(open(p)); d[k]=v
json.dump(d,open(p,'w'),indent=1,ensure_ascii=False); open(p,'a').write('\n')
