#!/bin/bash
# usage: seed2_one.sh C13 3 [prop]  — runs the checks on one second-round seed
P=$1; N=$2; Q=${3:-$P}; W=/tmp/seed_$P
git -C $W checkout -q -- . ; git -C $W clean -fdq
git -C $W apply /tmp/seed2_${P}_out/$N/patch.diff || exit 1
(cd /verif && ./bin/agecheck -repo $W -prop $Q 2>&1) | grep -v WARNING | grep -A3 '^VIOLATION\|normalisation rejected\|quick:' | grep -v '^--\|^VIOLATION' | sed 's/\[linux.amd64\] //' | cut -c1-${4:-500}
git -C $W checkout -q -- . ; git -C $W clean -fdq
