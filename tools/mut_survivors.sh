#!/bin/bash
# developer tool: runs the pinned suite on the mutants no property reports (output of mut_sweep.sh);
# the ones that also pass the suite are listed in OUT/survivors.txt for review.
# usage: mut_survivors.sh OUTDIR [jobs]
OUT=${1:-/tmp/mut_all}; J=${2:-8}
export GOFLAGS=-mod=mod GOPROXY=off GOSUMDB=off
for k in $(seq 1 $J); do git -C /repo worktree add --detach /tmp/mutwt_$k HEAD -q 2>/dev/null; done
one() {
  d=$1; k=$2; W=/tmp/mutwt_$k
  rel=$(sed -n 2p $d/desc.txt)
  cp $d/$rel $W/$rel
  cd $W
  if ! go build ./... >/dev/null 2>&1; then res=nobuild
  elif go test -vet=off -count=1 -timeout 120s ./... >/dev/null 2>&1; then res=SURVIVED
  elif go test -vet=off -count=1 -timeout 120s ./... >/dev/null 2>&1; then res=SURVIVED   # pty flakes: second try
  else res=killed; fi
  git checkout -q -- .
  echo "$res	$(basename $d)	$(head -1 $d/desc.txt)"
}
export -f one
ls -d $OUT/[0-9]* > $OUT/list.txt
for k in $(seq 1 $J); do
  ( awk -v j=$J -v k=$k 'NR % j == k - 1' $OUT/list.txt | while read d; do one $d $k; done > $OUT/suite_$k.txt ) &
done
wait
cat $OUT/suite_*.txt > $OUT/suite.txt; rm -f $OUT/suite_*.txt
grep -c SURVIVED $OUT/suite.txt
grep SURVIVED $OUT/suite.txt | sort -k3 > $OUT/survivors.txt
for k in $(seq 1 $J); do git -C /repo worktree remove --force /tmp/mutwt_$k; done
