#!/bin/bash
# developer tool: expression-level mutation sweep in batches (one process per batch: memory stays bounded).
# usage: mut_sweep.sh OUTDIR [batch] [jobs]   -> OUTDIR/results.txt, OUTDIR/<n>/ (mutants no property reports)
OUT=${1:-/tmp/mut_all}; B=${2:-150}; J=${3:-3}
BIN=${AGECHECK:-/verif/bin/agecheck}
mkdir -p $OUT
N=$(MUT_RANGE=0:0 $BIN -mutall $OUT 2>&1 >/dev/null | grep -o '^[0-9]* mutants' | cut -d' ' -f1)
echo "$N mutants"
seq 0 $B $N | xargs -P $J -I{} bash -c "MUT_PAR=4 MUT_RANGE={}:\$(( {} + $B )) $BIN -mutall $OUT > $OUT/batch_{}.txt 2>/dev/null"
cat $OUT/batch_*.txt | sort > $OUT/results.txt
rm -f $OUT/batch_*.txt
awk -F'\t' '{print $2}' $OUT/results.txt | sort | uniq -c | sort -rn | head
