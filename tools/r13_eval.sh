#!/bin/bash
# evaluates the thirteenth round of sub-agent changes: /tmp/r13_<Cxx>_out/{1,2} break the property (with a demo),
# {3,4} keep it. Worktree used: /tmp/seed_<Cxx> (scratch worktree of /repo at HEAD).
# for 1,2: demo on clean tree (must pass), build+suite with patch (must pass), demo with patch (must fail), checks
# for 3,4: build+suite with patch (must pass), checks (no new alarm expected)
# usage: r3_eval.sh [Cxx ...]   (FORCE=1 re-evaluates; NOSUITE=1 skips go build/test, checks only)
export GOFLAGS=-mod=mod GOPROXY=off GOSUMDB=off
one() {
  P=$1; W=/tmp/s13_$P
  for O in /tmp/r13_${P}_out/[123]; do
    [ -f $O/patch.diff ] || continue
    N=$(basename $O); R=/tmp/r13_results/${P}_$N.txt
    [ -f $R ] && [ -z "$FORCE" ] && continue
    {
    cd $W; git checkout -q -- . ; git clean -fdq
    RC1=-; RC3=-
    if [ $N -le 3 ]; then
      DEMO_REL=$(grep -o '[A-Za-z0-9_./-]*\.go' $O/demo_path.txt | grep -v '^demo_test.go$' | head -1 | sed 's#^\./##')
      DEMO_CMD=$(grep -m1 'go test' $O/demo_path.txt | sed 's/^[^g]*go test/go test/; s/`//g')
      if [ -z "$DEMO_REL" ] || [ -z "$DEMO_CMD" ]; then echo "no demo path/cmd"; fi
      if [ -z "$NOSUITE" ]; then
        mkdir -p $(dirname $DEMO_REL); cp $O/demo_test.go $DEMO_REL
        ( eval "$DEMO_CMD" ) > $R.demo_clean 2>&1; RC1=$?
        rm -f $DEMO_REL
        grep -q 'no tests to run\|no test files' $R.demo_clean && echo "WARNING: demo did not run"
      fi
    fi
    if ! git apply $O/patch.diff; then echo "PATCH DOES NOT APPLY"; fi
    RCB=-; RC2=-
    if [ -z "$NOSUITE" ]; then
      go build ./... > $R.build 2>&1; RCB=$?
      go test -vet=off -count=1 ./... > $R.suite 2>&1; RC2=$?
      if [ $N -le 3 ]; then
        cp $O/demo_test.go $DEMO_REL
        ( eval "$DEMO_CMD" ) > $R.demo_patched 2>&1; RC3=$?
        rm -f $DEMO_REL
      fi
    fi
    echo "demo_clean_rc=$RC1 build_rc=$RCB suite_rc=$RC2 demo_patched_rc=$RC3"
    (cd /verif && ${AGECHECK:-./bin/agecheck} -verif /verif -repo $W -prop all 2>&1) | grep -v WARNING > $R.checks
    echo "target: $(grep -c "^VIOLATION property=$P" $R.checks) all: $(grep -o 'VIOLATION property=C[0-9]*' $R.checks | sort | uniq -c | tr '\n' ' ')"
    grep -A1 "VIOLATION" $R.checks | grep '^  ' | sed 's/\[linux.amd64\] //' | cut -c1-${W3:-330} | head -12
    cd $W; git checkout -q -- . ; git clean -fdq
    } > $R 2>&1
  done
}
export -f one
mkdir -p /tmp/r13_results
LIST="$@"; [ -z "$LIST" ] && LIST=$(for i in $(seq -w 1 20); do echo C$i; done)
for p in $LIST; do echo $p; done | xargs -P 10 -I{} bash -c 'one {}'
for p in $LIST; do for R in /tmp/r13_results/${p}_?.txt; do [ -f $R ] || continue
  printf "%s: %s | %s\n" $(basename $R .txt) "$(grep -o 'demo_clean_rc=.*patched_rc=[0-9-]*' $R)" "$(grep '^target:' $R)"
done; done
