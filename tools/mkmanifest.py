#!/usr/bin/env python3
# Regenerates /verif/MANIFEST.json from the properties registered in the
# checker binary; properties without a registered check go to not_applicable
# with the reason kept in tools/not_applicable.json.
import json, subprocess, os
V = os.path.dirname(os.path.dirname(os.path.abspath(__file__)))
checks = json.loads(subprocess.check_output([V + "/bin/agecheck", "-manifest"]))
claimed = {c["property_id"] for c in checks}
props = [json.loads(l) for l in open(V + "/properties.jsonl")]
na_reasons = json.load(open(V + "/tools/not_applicable.json"))
na = []
for p in props:
    if p["id"] not in claimed:
        na.append({"property_id": p["id"], "reason": na_reasons.get(p["id"], "check not built yet (static rule planned in DESIGN.md section 4)")})
m = {
 "version": 1,
 "setup_cmd": "./setup.sh",
 "hooks": {"guard": "verif",
           "enable": "none: the checks read /repo's source (go/packages + go/ssa); no hook is compiled into FiloSottile/age",
           "baseline_off_cmd": "cd /repo && go test -vet=off -count=1 -timeout 25m ./...",
           "source_commits": [], "add_only": True},
 "engines": [{"name": "agecheck", "path": "/verif/checker",
              "serves_properties": sorted(claimed),
              "kind_free_text": "repository-specific static analyser (Go, golang.org/x/tools v0.29.0: go/packages, go/ssa): dominance guards, CFG path rules, term reconstruction against spec tables, effect summaries, error-flow, taint, call-graph reachability, bounds obligations"}],
 "checks": checks,
 "notes": "Static analysis only: every verdict is computed from /repo's current working tree on each run; nothing executes age or its tests. Undecided obligations, unresolved anchors, load failures, missed floors and checker panics all fail the check. Known findings: /verif/known_findings.json.",
 "not_applicable": na,
}
json.dump(m, open(V + "/MANIFEST.json", "w"), indent=1)
print("claimed", sorted(claimed), "n/a", [x["property_id"] for x in na])
