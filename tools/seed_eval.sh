#!/bin/bash
# usage: seed_eval.sh <Cxx> <n>   evaluates /tmp/seed_<Cxx>_out/<n> in worktree /tmp/seed_<Cxx>
# verifies the sub-agent's claims (demo passes clean, suite passes with patch, demo fails with patch)
# and runs every quick check against the patched worktree.
P=$1; N=$2
W=/tmp/seed_$P; O=/tmp/seed_${P}_out/$N
export GOFLAGS=-mod=mod GOPROXY=off GOSUMDB=off
cd $W || exit 2
git checkout -q -- . ; git clean -fdq
DEMO_REL=$(grep -o '[A-Za-z0-9_./-]*\.go' $O/demo_path.txt | grep -v '^demo_test.go$' | head -1 | sed 's#^\./##')
DEMO_CMD=$(grep -m1 'go test' $O/demo_path.txt | sed 's/^[^g]*go test/go test/; s/`//g')
[ -z "$DEMO_REL" ] && { echo "no demo path"; exit 2; }
mkdir -p $(dirname $DEMO_REL); cp $O/demo_test.go $DEMO_REL
echo "== demo on clean tree: $DEMO_CMD"
( eval "$DEMO_CMD" ) > /tmp/seed_eval_demo_clean.txt 2>&1; RC1=$?
rm -f $DEMO_REL
git apply $O/patch.diff || { echo "PATCH DOES NOT APPLY"; exit 2; }
go build ./... > /tmp/seed_eval_build.txt 2>&1; RCB=$?
go test -vet=off -count=1 ./... > /tmp/seed_eval_suite.txt 2>&1; RC2=$?
cp $O/demo_test.go $DEMO_REL
( eval "$DEMO_CMD" ) > /tmp/seed_eval_demo_patched.txt 2>&1; RC3=$?
rm -f $DEMO_REL
grep -q 'no tests to run\|no test files' /tmp/seed_eval_demo_clean.txt && echo "WARNING: demo did not run"
echo "demo_clean_rc=$RC1 build_rc=$RCB suite_rc=$RC2 demo_patched_rc=$RC3 (expected 0 0 0 nonzero)"
cd /verif
./bin/agecheck -repo $W -prop all 2>&1 | grep -v WARNING > /tmp/seed_eval_checks.txt
grep -o 'VIOLATION property=C[0-9]*' /tmp/seed_eval_checks.txt | sort | uniq -c | tr '\n' ' '; echo
grep -A1 VIOLATION /tmp/seed_eval_checks.txt | grep '^  ' | cut -c1-${SEEDW:-330} | head -${SEEDN:-6}
cd $W; git checkout -q -- . ; git clean -fdq
